SPECIFICATION Spec
CONSTANTS
  Order = "desc"
  Keys = {0, 1}
  Terms = {"a"}
  MaxDocs = 3
  MaxOps = 6
  PermuteOpstamps = TRUE
  StackNeedsNoNulls = FALSE
INVARIANT SegsSorted
CHECK_DEADLOCK FALSE
