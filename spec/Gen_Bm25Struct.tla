------------------------------ MODULE Gen_Bm25Struct ------------------------------
(* Generator of C12: TLC enumerates, as JSON lines for the harness,                         *)
(*  - every reachable (corpus, segmentation) of the Bm25Struct state machine restricted to  *)
(*    commits (documents = sequences over Words of length <= MaxLen, <= MaxDocs documents,  *)
(*    every way of cutting them into segments), each with a few delete sets and the sets of  *)
(*    segments that can be merged afterwards;                                               *)
(*  - query trees of a bounded grammar over Words (term, phrase, boolean must / should /    *)
(*    must-not with 1..3 clauses, boost, const-score, dis-max with tie breaker, nested).    *)
(* Floats are symbols here ("B", "C", "TIE"); lib/props/c12.py concretises them, pads the   *)
(* documents to varied lengths and pairs corpora with queries.                              *)
EXTENDS Bm25Struct, Json, TLC

VARIABLE g          \* [k |-> "corpora"] or one query tree (printed at once)
gvars == <<g, vars>>
GenTable == <<0>>

QT(w) == [k |-> "term", w |-> w]
QP(ws) == [k |-> "phrase", ws |-> ws]
QB(cl) == [k |-> "bool", cl |-> cl]
Cl(o, q) == [o |-> o, q |-> q]
QBoost(q) == [k |-> "boost", b |-> "B", q |-> q]
QConst(q) == [k |-> "const", c |-> "C", q |-> q]
QDm(qs) == [k |-> "dismax", tie |-> "TIE", qs |-> qs]

TermLeaf == {QT(w) : w \in Words}
Leaf == TermLeaf \cup {QP(<<w1, w2>>) : w1, w2 \in Words}
SomeLeaf == TermLeaf \cup {QP(<<w1, w2>>) : w1, w2 \in Words \cap {"a", "b"}}
Occ2 == {<<"should", "should">>, <<"must", "must">>, <<"must", "should">>, <<"should", "must">>,
         <<"must", "mustnot">>, <<"should", "mustnot">>}
Occ == {"must", "should", "mustnot"}
Wrap(S) == {QBoost(x) : x \in S} \cup {QConst(x) : x \in S}
Bin(S1, S2) == {QB(<<Cl(o[1], x), Cl(o[2], y)>>) : o \in Occ2, x \in S1, y \in S2}
               \cup {QDm(<<x, y>>) : x \in S1, y \in S2}
L1 == Leaf \cup Wrap(Leaf) \cup Bin(Leaf, Leaf)
L2 == Wrap(Bin(Leaf, Leaf)) \cup Wrap(Wrap(TermLeaf)) \cup Bin(L1 \ Leaf, SomeLeaf) \cup Bin(TermLeaf, Wrap(Leaf))
One == {QB(<<Cl(o, x)>>) : o \in Occ, x \in Leaf} \cup {QDm(<<x>>) : x \in Leaf}
Three == {QB(<<Cl(o1, x), Cl(o2, y), Cl(o3, z)>>) : o1 \in {"must", "should"}, o2 \in Occ, o3 \in Occ,
                                                      x \in TermLeaf, y \in SomeLeaf, z \in TermLeaf}
         \cup {QDm(<<x, y, z>>) : x \in TermLeaf, y \in SomeLeaf, z \in Wrap(TermLeaf)}
GenQueries == L1 \cup L2 \cup One \cup Three

DelChoices(n) == {{}} \cup {{i} : i \in 1..n} \cup (IF n >= 3 THEN {{1, n}, 2..n} ELSE {})
SetToSeq(S) == [i \in 1..Cardinality(S) |-> CHOOSE x \in S : Cardinality({y \in S : y < x}) = i - 1]

GInit ==
  /\ Init
  /\ g \in {[k |-> "corpora"]} \cup GenQueries
  /\ (g.k = "corpora" \/ PrintT(<<"CASE", ToJson([kind |-> "query", q |-> g])>>))

\* commits only: every corpus and every segmentation of it
GNext == g.k = "corpora" /\ (\E ds \in SeqsUpTo(DocUniverse, MaxDocs) : Commit(ds)) /\ UNCHANGED g
GSpec == GInit /\ [][GNext]_gvars

\* evaluated once per distinct state: print the state as cases
Emit ==
  (g.k = "corpora" /\ added # <<>>) =>
    \A dl \in DelChoices(Len(added)) :
      PrintT(<<"CASE", ToJson([kind |-> "corpus",
                               docs |-> [i \in DOMAIN added |-> added[i].toks],
                               cuts |-> [s \in DOMAIN segs |-> Len(segs[s])],
                               dels |-> SetToSeq(dl),
                               \* which segments may be merged afterwards: every non-empty set of them
                               merges |-> {SetToSeq(S) : S \in (SUBSET (1..Len(segs))) \ {{}}}])>>)
=============================================================================
