SPECIFICATION Spec
CONSTANTS
  Threads = {a, b, c}
  MaxCommits = 4
  Serialize = FALSE
  Callbacks = TRUE
INVARIANTS FreshAtRest
CHECK_DEADLOCK FALSE
