SPECIFICATION Spec
CONSTANTS
  Words = {"a", "b"}
  MaxLen = 2
  Pads = {0, 3}
  MaxDocs = 3
  AllowDeletes = FALSE
  PerSegmentStats = FALSE
  Queries <- MCQueries
  Table <- MCTable
  MCLeaderFieldNorm = FALSE
INVARIANT StatsSegmentationIndependent
INVARIANT ScoreSegmentationIndependent
INVARIANT ScoreSegmentationIndependentEvenWithDeletes
INVARIANT DeletedStillCounted
INVARIANT TermIffMatches
INVARIANT ScoresUseSearcherStats
INVARIANT NormIdIsLargestNotAbove
CHECK_DEADLOCK FALSE
