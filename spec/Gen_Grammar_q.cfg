SPECIFICATION GSpec
CONSTANTS
  Mode = "queries"
  MaxLen = 0
  NTexts = 3
CHECK_DEADLOCK FALSE
