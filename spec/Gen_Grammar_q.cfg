SPECIFICATION GSpec
CONSTANTS
  Mode = "queries"
  MaxLen = 0
  NTexts = 3
  NestedDepths = {10, 100, 500}
CHECK_DEADLOCK FALSE
