------------------------------- MODULE Columns -------------------------------
(* C08 - fast fields, abstractly.  A column is a sequence of rows, a row is the sequence of   *)
(* values added for that document (values are natural numbers here: the rank of the real      *)
(* value in the sorted list of distinct values - equal rank = equal value, order preserved).   *)
EXTENDS Integers, Sequences, FiniteSets, TLC

SeqSet(s) == {s[i] : i \in 1..Len(s)}

\* ---- flat representation: offsets (0-based, n+1 entries) and the concatenated values
RowOf(off, flat, r) == SubSeq(flat, off[r] + 1, off[r + 1])                 \* r in 1..n
FromFlat(off, flat) == [r \in 1..(Len(off) - 1) |-> RowOf(off, flat, r)]
RECURSIVE FlatOf(_)
FlatOf(col) == IF col = <<>> THEN <<>> ELSE Head(col) \o FlatOf(Tail(col))
RECURSIVE OffOfR(_, _)
OffOfR(col, acc) == IF col = <<>> THEN <<acc>> ELSE <<acc>> \o OffOfR(Tail(col), acc + Len(Head(col)))
OffOf(col) == OffOfR(col, 0)
WellFormed(off, flat) ==
  /\ Len(off) >= 1 /\ off[1] = 0 /\ off[Len(off)] = Len(flat)
  /\ {r \in 1..(Len(off) - 1) : off[r] > off[r + 1]} = {}

\* ---- cardinality
Card(col) ==
  IF \A r \in 1..Len(col) : Len(col[r]) = 1 THEN "full"
  ELSE IF \A r \in 1..Len(col) : Len(col[r]) <= 1 THEN "optional" ELSE "multi"
\* what a reported cardinality promises
CardConsistent(card, col) ==
  CASE card = "full" -> \A r \in 1..Len(col) : Len(col[r]) = 1
    [] card = "optional" -> \A r \in 1..Len(col) : Len(col[r]) <= 1
    [] card = "multi" -> TRUE
    [] OTHER -> FALSE

\* ---- bounds and value ranges
Values(col) == UNION {SeqSet(col[r]) : r \in 1..Len(col)}
Bounds(lo, hi, col) == \A v \in Values(col) : lo <= v /\ v <= hi
\* rows (0-based) holding a value in lo..hi, in increasing order
RowsInRange(col, lo, hi) ==
  LET hit(r) == \E i \in 1..Len(col[r]) : lo <= col[r][i] /\ col[r][i] <= hi
  IN SelectSeq([r \in 1..Len(col) |-> r - 1], LAMBDA x : hit(x + 1))

\* ---- format switches of the columnar crate: values at which a writer and a reader must take the same branch.
\* The generator (Gen_Columns) emits cases at threshold - 1, threshold, threshold + 1 of each.
OptionalBlockRows == 65536        \* rows per block of the optional (null) index
DenseBlockThreshold == 5120       \* a block with fewer non-null rows is written sparse (sorted u16), otherwise dense
OptionalBlockVariant(nonNull) == IF nonNull < DenseBlockThreshold THEN "sparse" ELSE "dense"
FullBlockRows == OptionalBlockRows  \* a block in which every row has a value: its count of non-null rows does not fit 16 bits
FindBlockLinearMax == 16           \* beyond 16 remaining blocks the block of a rank is found by binary search: empty blocks share their key
DenseMiniBlockRows == 64          \* a dense block is 1,024 mini blocks of 64 rows (bitvec + rank)
BlockwiseLinearRows == 512        \* values per block of the block-wise linear codec
BitpackFastWidth == 32            \* widths up to 32 bits use the u32 fast path of range lookups: bounds clamp at 2^32 - 1
Around(t) == {t - 1, t, t + 1}

\* ---- numerical coercion of a freshly written column: the first of i64, u64, f64 that
\* represents all values.  classes: "neg" (< 0), "small" (0 .. i64::MAX), "big" (> i64::MAX), "float"
CoercedType(classes) ==
  IF "float" \notin classes /\ "big" \notin classes THEN "i64"
  ELSE IF "float" \notin classes /\ "neg" \notin classes THEN "u64"
  ELSE "f64"

\* ---- dictionaries: ordinal = rank in the sorted union of the distinct values
RECURSIVE SortedSeq(_)
SortedSeq(S) == IF S = {} THEN <<>> ELSE LET m == CHOOSE x \in S : \A y \in S : x <= y IN <<m>> \o SortedSeq(S \ {m})
DictOf(col) == SortedSeq(Values(col))
OrdIn(dict, v) == CHOOSE i \in 1..Len(dict) : dict[i] = v          \* 1-based
Encode(col, dict) == [r \in 1..Len(col) |-> [i \in 1..Len(col[r]) |-> OrdIn(dict, col[r][i]) - 1]]
Decode(ords, dict) == [r \in 1..Len(ords) |-> [i \in 1..Len(ords[r]) |-> dict[ords[r][i] + 1]]]
StrictlyIncreasing(s) == {i \in 1..(Len(s) - 1) : s[i] >= s[i + 1]} = {}

\* ---- merges: tables = sequence of columns (a missing column is a column of empty rows)
RECURSIVE Stack(_)
Stack(cols) == IF cols = <<>> THEN <<>> ELSE Head(cols) \o Stack(Tail(cols))
\* map = sequence of <<table, row (0-based)>>: the new row i is that old row
Shuffle(cols, map) == [i \in 1..Len(map) |-> cols[map[i][1]][map[i][2] + 1]]
StackMap(cols) ==
  LET RECURSIVE M(_)
      M(t) == IF t > Len(cols) THEN <<>> ELSE [r \in 1..Len(cols[t]) |-> <<t, r - 1>>] \o M(t + 1)
  IN M(1)

-----------------------------------------------------------------------------
(* A small machine: two writers record rows (values in row order), the tables are merged.    *)
CONSTANTS Vals,        \* values (naturals)
          MaxRows, MaxPerRow,
          TightBounds  \* negative configuration: claims the merged min/max are those of the alive values

VARIABLES a, b, merged, mmap     \* two columns, the merged column and the mapping used
cvars == <<a, b, merged, mmap>>

RowsSet == UNION {[1..k -> Vals] : k \in 0..MaxPerRow}
Init == a = <<>> /\ b = <<>> /\ merged = <<>> /\ mmap = <<>>
AddA(r) == mmap = <<>> /\ Len(a) < MaxRows /\ a' = Append(a, r) /\ UNCHANGED <<b, merged, mmap>>
AddB(r) == mmap = <<>> /\ Len(b) < MaxRows /\ b' = Append(b, r) /\ UNCHANGED <<a, merged, mmap>>
AllAddrs == {<<1, r - 1>> : r \in 1..Len(a)} \cup {<<2, r - 1>> : r \in 1..Len(b)}
\* any injective sequence of row addresses = a shuffle with deletes
MergeWith(m) ==
  /\ mmap = <<>> /\ m # <<>> /\ mmap' = m /\ merged' = Shuffle(<<a, b>>, m) /\ UNCHANGED <<a, b>>
Injective(m) == Cardinality(SeqSet(m)) = Len(m)
Next ==
  \/ \E r \in RowsSet : AddA(r) \/ AddB(r)
  \/ \E k \in 1..(2 * MaxRows) : \E m \in [1..k -> AllAddrs] : Injective(m) /\ MergeWith(m)
Spec == Init /\ [][Next]_cvars

\* the flat representation is faithful
FlatRoundTrip == FromFlat(OffOf(a), FlatOf(a)) = a /\ WellFormed(OffOf(a), FlatOf(a))
\* the least cardinality is consistent, and every weaker one too
CardRule == CardConsistent(Card(a), a) /\ CardConsistent("multi", a) /\ (Card(a) = "full" => CardConsistent("optional", a))
\* stacking is the shuffle along the stack mapping
StackIsShuffle == Stack(<<a, b>>) = Shuffle(<<a, b>>, StackMap(<<a, b>>))
\* range lookups commute with stacking
RangeOnStack ==
  \A lo \in Vals : \A hi \in Vals :
    RowsInRange(Stack(<<a, b>>), lo, hi) =
      RowsInRange(a, lo, hi) \o [i \in 1..Len(RowsInRange(b, lo, hi)) |-> RowsInRange(b, lo, hi)[i] + Len(a)]
\* the bounds of the sources still bound the merged column (they need not be tight after deletes)
SrcLo == CHOOSE x \in Vals : \A y \in Vals : x <= y
SrcHi == CHOOSE x \in Vals : \A y \in Vals : x >= y
Min(S) == CHOOSE x \in S : \A y \in S : x <= y
MergedBounds ==
  mmap # <<>> =>
    LET src == Values(a) \cup Values(b) IN
    /\ (src # {} => Bounds(Min(src), SrcHi, merged))
    /\ (TightBounds /\ Values(merged) # {} => Min(Values(merged)) = Min(src))
\* dictionary encoding is exact, ordinals are order preserving, and re-encoding the merged
\* column against the merged dictionary decodes to the merged rows
DictExact ==
  /\ Decode(Encode(a, DictOf(a)), DictOf(a)) = a
  /\ StrictlyIncreasing(DictOf(a))
  /\ (mmap # <<>> => Decode(Encode(merged, DictOf(merged)), DictOf(merged)) = merged
                     /\ SeqSet(DictOf(merged)) \subseteq SeqSet(DictOf(a)) \cup SeqSet(DictOf(b)))
=============================================================================
