SPECIFICATION Spec
CONSTANTS
  MaxK = 3
  Keys = {1, 2, 3}
  MaxPush = 8
  StrictThreshold = TRUE
  AscendingDocs = TRUE
  ThresholdRankOff = 0
INVARIANT TypeOK
INVARIANT EBeforeIsBefore
INVARIANT Retains
INVARIANT ThresholdSound
CHECK_DEADLOCK FALSE
