SPECIFICATION Spec
CONSTANTS
  NSeg = 4
  MaxCommits = 2
  SyncBeforeMeta = "always"
  SyncAfterMeta = TRUE
  RegisterFirst = TRUE
  OldDelDeletedEarly = FALSE
  GcProtectsBuilding = TRUE
  MaxFaults = 1
  StoreMetaFirst = FALSE
  KillWaits = TRUE
  GcProtectsMergeSources = FALSE
  ReplaceStaleDel = TRUE
INVARIANT MergeSourcesReadable
CHECK_DEADLOCK FALSE
