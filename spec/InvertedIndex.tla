---------------------------- MODULE InvertedIndex ----------------------------
(* C07 - the inverted index of a segment, abstractly.                                        *)
(* A document gives, per field, a sequence of values; a value is a sequence of tokens         *)
(* <<key, relative position, position length>>.  Text is given pre-tokenized, so analysis is  *)
(* the identity; a typed value (number, date, bytes, ip, bool) is one token at position 0     *)
(* whose key is its documented term encoding; a facet is the tokens of all its prefixes; a    *)
(* JSON field is one token stream per path.                                                    *)
(*   Toks        absolute positions (position gap of 1 between the values of a field)          *)
(*   Postings    per key the documents holding it with frequency and positions                 *)
(*   FieldNormId the 256-entry table of src/fieldnorm/code.rs                                  *)
(*   the cursor machine: advance / seek over one posting list                                  *)
EXTENDS Integers, Sequences, FiniteSets, SequencesExt, TLC

PositionGap == 1
\* The values of a field keep the order in which they were added to the document, however the (field, value)
\* pairs of the different fields are interleaved: the indexer groups the pairs by field, which must be a STABLE
\* grouping.  Rust's sort_unstable is an insertion sort (stable in effect) up to 20 elements: documents with
\* more pairs than that are the boundary (Gen_InvertedIndex emits them around the limit and well above).
ManyValuesLimit == 20
\* Term frequencies and position deltas of the last, incomplete block of a posting list (fewer than BlockLen
\* entries) are written as variable-length integers of 7 bits per byte: one more byte from 2^7, 2^14, 2^21 on.
\* Full blocks of BlockLen entries are bit-packed.  Gen_InvertedIndex emits frequencies and position gaps at
\* switch - 1, switch, switch + 1, in lists shorter than a block and in the tail of longer ones.
BlockLen == 128
VintSwitches == {2 ^ 7, 2 ^ 14}         \* (2^21 positions in one document is not exercised)
\* a position delta of 2^28 or more needs a fifth byte (positions are explicit in pre-tokenized text)
BigPositionGaps == {2 ^ 28 - 1, 2 ^ 28, 2 ^ 28 + 1, 2 ^ 30}
TERMINATED == 2147483647

SeqSet(s) == {s[i] : i \in 1..Len(s)}
MaxOf(S) == CHOOSE x \in S : \A y \in S : x >= y

\* ---- tokens longer than MaxTokenLen bytes are dropped by the indexer: they are not in the dictionary, not in
\* the postings, and they do NOT count in the field norm nor in the total number of tokens.  A token whose
\* length matters carries it as a 4th member <<key, relative position, position length, bytes>>.
MaxTokenLen == 65530
Kept(val) == SelectSeq(val, LAMBDA t : IF Len(t) < 4 THEN TRUE ELSE t[4] <= MaxTokenLen)

\* ---- positions
AbsVal(val, start) == [i \in 1..Len(val) |-> <<val[i][1], start + val[i][2]>>]
EndOf(val, start) == MaxOf({start} \cup {start + val[i][2] + val[i][3] : i \in 1..Len(val)})
RECURSIVE AbsR(_, _, _)
AbsR(vals, i, start) ==
  IF i > Len(vals) THEN <<>>
  ELSE AbsVal(Kept(vals[i]), start) \o AbsR(vals, i + 1, EndOf(Kept(vals[i]), start) + PositionGap)
\* the tokens of a field of one document, as <<key, absolute position>>, in the order indexed
Toks(vals) == AbsR(vals, 1, 0)
RECURSIVE NumTokensR(_, _)
NumTokensR(vals, i) == IF i > Len(vals) THEN 0 ELSE Len(Kept(vals[i])) + NumTokensR(vals, i + 1)
NumTokens(vals) == NumTokensR(vals, 1)

\* typed values, facets: tokens without positions
Single(keys) == [i \in 1..Len(keys) |-> <<keys[i], 0>>]
RECURSIVE FacetKey(_, _)
FacetKey(segs, n) == IF n = 0 THEN "" ELSE FacetKey(segs, n - 1) \o "/" \o segs[n]
\* a facet is indexed under the root and every prefix of its path
FacetToks(segs) == <<<<"/", 0>>>> \o [n \in 1..Len(segs) |-> <<FacetKey(segs, n), 0>>]

\* ---- postings of one key in one document's tokens: <<tf, positions>>
PositionsOf(toks, k) ==
  LET idx == SelectSeq([i \in 1..Len(toks) |-> i], LAMBDA i : toks[i][1] = k)
  IN [j \in 1..Len(idx) |-> toks[idx[j]][2]]
Keys(toks) == {toks[i][1] : i \in 1..Len(toks)}

\* the whole index of a sequence of documents' token lists (docs are numbered from 0)
PostingsOf(doctoks, k) ==
  LET ds == SelectSeq([d \in 1..Len(doctoks) |-> d], LAMBDA d : k \in Keys(doctoks[d]))
  IN [j \in 1..Len(ds) |-> [doc |-> ds[j] - 1, tf |-> Len(PositionsOf(doctoks[ds[j]], k)), pos |-> PositionsOf(doctoks[ds[j]], k)]]
Terms(doctoks) == UNION {Keys(doctoks[d]) : d \in 1..Len(doctoks)}
DocFreq(doctoks, k) == Len(PostingsOf(doctoks, k))
\* sum of a sequence of numbers (folded by TLC's Java implementation: linear, strict)
SumR(f, n) == FoldLeft(LAMBDA x, y : x + y, 0, [i \in 1..n |-> f[i]])
NumPairs(doctoks) == SumR([d \in 1..Len(doctoks) |-> Cardinality(Keys(doctoks[d]))], Len(doctoks))

\* ---- byte order of the term dictionary
RECURSIVE LexLessR(_, _, _)
LexLessR(a, b, i) ==
  IF i > Len(a) THEN i <= Len(b)
  ELSE IF i > Len(b) THEN FALSE
  ELSE IF a[i] < b[i] THEN TRUE
  ELSE IF a[i] > b[i] THEN FALSE
  ELSE LexLessR(a, b, i + 1)
LexLess(a, b) == LexLessR(a, b, 1)

\* ---- field norms
FieldNormTable == <<
  0, 1, 2, 3, 4, 5, 6, 7, 8, 9, 10, 11, 12, 13, 14, 15,
  16, 17, 18, 19, 20, 21, 22, 23, 24, 25, 26, 27, 28, 29, 30, 31,
  32, 33, 34, 35, 36, 37, 38, 39, 40, 42, 44, 46, 48, 50, 52, 54,
  56, 60, 64, 68, 72, 76, 80, 84, 88, 96, 104, 112, 120, 128, 136, 144,
  152, 168, 184, 200, 216, 232, 248, 264, 280, 312, 344, 376, 408, 440, 472, 504,
  536, 600, 664, 728, 792, 856, 920, 984, 1048, 1176, 1304, 1432, 1560, 1688, 1816, 1944,
  2072, 2328, 2584, 2840, 3096, 3352, 3608, 3864, 4120, 4632, 5144, 5656, 6168, 6680, 7192, 7704,
  8216, 9240, 10264, 11288, 12312, 13336, 14360, 15384, 16408, 18456, 20504, 22552, 24600, 26648, 28696, 30744,
  32792, 36888, 40984, 45080, 49176, 53272, 57368, 61464, 65560, 73752, 81944, 90136, 98328, 106520, 114712, 122904,
  131096, 147480, 163864, 180248, 196632, 213016, 229400, 245784, 262168, 294936, 327704, 360472, 393240, 426008, 458776, 491544,
  524312, 589848, 655384, 720920, 786456, 851992, 917528, 983064, 1048600, 1179672, 1310744, 1441816, 1572888, 1703960, 1835032, 1966104,
  2097176, 2359320, 2621464, 2883608, 3145752, 3407896, 3670040, 3932184, 4194328, 4718616, 5242904, 5767192, 6291480, 6815768, 7340056, 7864344,
  8388632, 9437208, 10485784, 11534360, 12582936, 13631512, 14680088, 15728664, 16777240, 18874392, 20971544, 23068696, 25165848, 27263000, 29360152, 31457304,
  33554456, 37748760, 41943064, 46137368, 50331672, 54525976, 58720280, 62914584, 67108888, 75497496, 83886104, 92274712, 100663320, 109051928, 117440536, 125829144,
  134217752, 150994968, 167772184, 184549400, 201326616, 218103832, 234881048, 251658264, 268435480, 301989912, 335544344, 369098776, 402653208, 436207640, 469762072, 503316504,
  536870936, 603979800, 671088664, 738197528, 805306392, 872415256, 939524120, 1006632984, 1073741848, 1207959576, 1342177304, 1476395032, 1610612760, 1744830488, 1879048216, 2013265944>>

RECURSIVE FnSearch(_, _, _)
FnSearch(n, lo, hi) ==        \* greatest index (1-based) in lo..hi whose entry is <= n
  IF lo = hi THEN lo
  ELSE LET mid == (lo + hi + 1) \div 2 IN
       IF FieldNormTable[mid] <= n THEN FnSearch(n, mid, hi) ELSE FnSearch(n, lo, mid - 1)
FieldNormId(n) == FnSearch(n, 1, 256) - 1

\* ---- reading a posting list through seeks: the first document >= target
SeekIn(docs, t) ==
  LET S == {i \in 1..Len(docs) : docs[i] >= t} IN
  IF S = {} THEN TERMINATED ELSE docs[CHOOSE i \in S : \A j \in S : i <= j]
NextIn(docs, cur) == SeekIn(docs, cur + 1)

-----------------------------------------------------------------------------
(* The cursor machine over one posting list.                                                 *)
CONSTANTS Lists,        \* posting lists (strictly increasing sequences of doc ids)
          MaxDoc,
          SkipCurrent   \* negative configuration: seek looks only after the current document

VARIABLES plist, cur, seen    \* the list, the current doc, the docs returned so far
ivars == <<plist, cur, seen>>

Init == plist \in Lists /\ cur = (IF plist = <<>> THEN TERMINATED ELSE plist[1]) /\ seen = <<>>
Advance ==
  /\ cur # TERMINATED
  /\ cur' = NextIn(plist, cur) /\ seen' = Append(seen, cur) /\ UNCHANGED plist
Seek(t) ==
  /\ cur # TERMINATED /\ t >= cur
  /\ cur' = (IF SkipCurrent /\ t = cur THEN NextIn(plist, cur) ELSE SeekIn(plist, t))
  /\ seen' = (IF cur' # cur THEN Append(seen, cur) ELSE seen) /\ UNCHANGED plist
Next == Advance \/ \E t \in 0..MaxDoc : Seek(t)
Spec == Init /\ [][Next]_ivars

\* the cursor is always on a document of the list (or terminated), never goes back, and a
\* seek to the current document stays on it
OnList == cur = TERMINATED \/ cur \in SeqSet(plist)
Forward == \A i \in 1..Len(seen) : seen[i] < cur /\ (i > 1 => seen[i - 1] < seen[i])
SeekSameStays == [][\A t \in 0..MaxDoc : (t = cur /\ cur # TERMINATED /\ Seek(t)) => cur' = cur]_ivars
=============================================================================
