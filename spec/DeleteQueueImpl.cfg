SPECIFICATION Spec
CONSTANTS
  Cursors = {c1, c2, c3}
  MaxOps = 3
  SecondLook = TRUE
CONSTRAINT Bound
INVARIANT NoLostDelete
INVARIANT OneWriterEnd
INVARIANT CursorAtFlushed
CHECK_DEADLOCK FALSE
