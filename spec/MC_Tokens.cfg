SPECIFICATION GSpec
CONSTANTS
  Mode = "texts"
  MaxLen = 4
  SteerOverlapBytes = TRUE
  NA = 9
INVARIANT SpecTokensOk
INVARIANT OffsLemma
INVARIANT NgramCount
INVARIANT Coverage
INVARIANT CollapseLemma
INVARIANT HtmlLemma
CHECK_DEADLOCK FALSE
