------------------------------ MODULE FaultProto ------------------------------
(***************************************************************************)
(* How an I/O error travels through the writer (C11), one action per call  *)
(* or failure point:                                                       *)
(*   a failing indexing worker arms the "bomb": the writer is dead, the    *)
(*   documents it held are lost; the error surfaces at the next commit;    *)
(*   a failing commit task (purge / save_metas) surfaces in that commit -  *)
(*   before or after meta.json was replaced;                               *)
(*   a failing merge is discarded; a failing garbage collection ignored.   *)
(* src/indexer/index_writer.rs (index_writer_status, prepare_commit),      *)
(* segment_updater.rs (schedule_commit, start_merge, end_merge).           *)
(***************************************************************************)
EXTENDS Naturals, FiniteSets

CONSTANTS MaxDocs, MaxFaults,
          DeadWriterStaysDead   \* TRUE = repaired code (F5): a writer whose worker failed refuses
                                \* add and commit; FALSE = a later commit returns Ok without the
                                \* documents added in between

VARIABLES
  alive,      \* the writer accepts work (index_writer_status)
  workers,    \* indexing workers exist (they are not re-spawned after a failed join)
  pipeline,   \* documents handed to add_document and not yet in a segment
  segs,       \* documents in uncommitted segments
  pend,       \* oracle: documents whose add returned Ok since the last commit, plus committed
  commd,      \* oracle: content of the last commit that returned Ok
  disk,       \* content of the newest meta.json
  lastRes,    \* result of the last call: "ok" | "err" | "none"
  lastCall,
  faults, nextDoc

vars == <<alive, workers, pipeline, segs, pend, commd, disk, lastRes, lastCall, faults, nextDoc>>

Init == /\ alive = TRUE /\ workers = TRUE /\ pipeline = {} /\ segs = {} /\ pend = {} /\ commd = {} /\ disk = {}
        /\ lastRes = "none" /\ lastCall = "none" /\ faults = 0 /\ nextDoc = 1

CanFault == faults < MaxFaults

AddOk ==
  /\ nextDoc <= MaxDocs /\ (alive \/ ~DeadWriterStaysDead)
  /\ pipeline' = pipeline \cup {nextDoc} /\ pend' = pend \cup {nextDoc} /\ nextDoc' = nextDoc + 1
  /\ lastRes' = "ok" /\ lastCall' = "add"
  /\ UNCHANGED <<alive, workers, segs, commd, disk, faults>>
AddErr ==
  /\ nextDoc <= MaxDocs /\ ~alive /\ DeadWriterStaysDead
  /\ nextDoc' = nextDoc + 1 /\ lastRes' = "err" /\ lastCall' = "add"
  /\ UNCHANGED <<alive, workers, pipeline, segs, pend, commd, disk, faults>>

\* a worker turns pipeline documents into a segment ...
WorkerFlush ==
  /\ workers /\ pipeline # {}
  /\ segs' = segs \cup pipeline /\ pipeline' = {}
  /\ UNCHANGED <<alive, workers, pend, commd, disk, lastRes, lastCall, faults, nextDoc>>
\* ... or hits an I/O error: its documents are lost, the writer is dead
WorkerFail ==
  /\ CanFault /\ workers /\ pipeline # {}
  /\ pipeline' = {} /\ alive' = FALSE /\ faults' = faults + 1
  /\ UNCHANGED <<workers, segs, pend, commd, disk, lastRes, lastCall, nextDoc>>

\* commit = join the workers (a failed worker surfaces here), then the commit task
CommitJoinErr ==
  /\ ~alive /\ workers
  /\ workers' = FALSE       \* the failed join leaves no worker behind
  /\ pipeline' = {}
  /\ lastRes' = "err" /\ lastCall' = "commit"
  /\ UNCHANGED <<alive, segs, pend, commd, disk, faults, nextDoc>>
CommitDeadErr ==
  /\ ~alive /\ ~workers /\ DeadWriterStaysDead
  /\ lastRes' = "err" /\ lastCall' = "commit"
  /\ UNCHANGED <<alive, workers, pipeline, segs, pend, commd, disk, faults, nextDoc>>
CommitOk ==
  /\ (alive /\ workers) \/ (~DeadWriterStaysDead /\ ~workers)
  /\ segs' = segs \cup (IF workers THEN pipeline ELSE {}) /\ pipeline' = IF workers THEN {} ELSE pipeline
  /\ disk' = segs' /\ commd' = segs'      \* what the commit really publishes
  /\ lastRes' = "ok" /\ lastCall' = "commit"
  /\ UNCHANGED <<alive, workers, pend, faults, nextDoc>>
CommitTaskFail(afterMeta) ==
  /\ CanFault /\ alive /\ workers
  /\ segs' = segs \cup pipeline /\ pipeline' = {}
  /\ disk' = IF afterMeta THEN segs' ELSE disk
  /\ faults' = faults + 1
  /\ lastRes' = "err" /\ lastCall' = "commit"
  /\ UNCHANGED <<alive, workers, pend, commd, nextDoc>>

Rollback ==
  /\ alive' = TRUE /\ workers' = TRUE /\ pipeline' = {} /\ segs' = disk /\ pend' = disk
  /\ commd' = disk      \* a failed commit that took effect is what rollback restores
  /\ lastRes' = "ok" /\ lastCall' = "rollback"
  /\ UNCHANGED <<disk, faults, nextDoc>>

Next == AddOk \/ AddErr \/ WorkerFlush \/ WorkerFail \/ CommitJoinErr \/ CommitDeadErr \/ CommitOk
        \/ CommitTaskFail(TRUE) \/ CommitTaskFail(FALSE) \/ Rollback
Spec == Init /\ [][Next]_vars

\* C11: a commit that returns Ok is complete: every document whose add returned Ok is in it
OkCommitIsComplete == (lastCall = "commit" /\ lastRes = "ok") => disk = pend
\* C11: the storage always holds the last successful commit, or a failed one that took effect
LastCommitIntact == commd \subseteq disk
\* C11: an error is never silent: documents are lost only if some call reported an error before
\* the next Ok commit (implied by OkCommitIsComplete)
=============================================================================
