------------------------------ MODULE FaultProto ------------------------------
(***************************************************************************)
(* How an I/O error travels through the writer (C11), one action per call  *)
(* or failure point:                                                       *)
(*   a failing indexing worker arms the "bomb": the writer is dead, the    *)
(*   documents it held are lost; the error surfaces at the next commit;    *)
(*   a failing commit task surfaces in that commit - in purge_deletes      *)
(*   (registers untouched), in save_metas before meta.json was replaced    *)
(*   (registers already swapped!) or after it (sync_directory failed);     *)
(*   a failed save_metas kills the segment updater (F40 repair): nothing   *)
(*   is published from the swapped registers any more;                     *)
(*   a merge that ends rewrites meta.json from the committed register      *)
(*   under the opstamp of the active metas; a failing merge is discarded;  *)
(*   a failing garbage collection is ignored.                              *)
(* src/indexer/index_writer.rs (index_writer_status, prepare_commit),      *)
(* segment_updater.rs (schedule_commit, start_merge, end_merge).           *)
(***************************************************************************)
EXTENDS Naturals, FiniteSets

CONSTANTS MaxDocs, MaxFaults,
          DeadWriterStaysDead,  \* TRUE = repaired code (F5): a writer whose worker failed refuses
                                \* add and commit; FALSE = a later commit returns Ok without the
                                \* documents added in between
          KillUpdaterOnSaveFail,\* TRUE = repaired code (F40); FALSE = the updater keeps serving
                                \* merges with registers that describe the failed commit
          PipeCap,              \* capacity of the document pipeline (the code: 10 000 batches): add_document BLOCKS
                                \* when it is full
          KillDropsReceiver     \* TRUE = code: the dying worker's bomb drops the last pipeline receiver, which wakes a
                                \* producer blocked in add_document with an error; FALSE (seeded C11-s21): it only
                                \* clears the alive flag and the blocked producer hangs

VARIABLES
  alive,      \* the writer accepts work (index_writer_status)
  workers,    \* indexing workers exist (they are not re-spawned after a failed join)
  upd,        \* the segment updater accepts tasks (not killed)
  pipeline,   \* documents handed to add_document and not yet in a segment
  segs,       \* documents in the uncommitted register
  creg,       \* documents in the committed register
  pend,       \* oracle: documents whose add returned Ok since the last commit, plus committed
  commd,      \* oracle: [docs, op] of the last commit that returned Ok
  disk,       \* [docs, op] of the newest meta.json
  attempted,  \* every [docs, op] some commit call tried to publish (returned Ok or failed in its task)
  lastRes,    \* result of the last call: "ok" | "err" | "none"
  lastCall,
  faults, nextDoc, opst,
  blocked     \* a producer thread is inside add_document, waiting for room in the full pipeline

vars == <<alive, workers, upd, pipeline, segs, creg, pend, commd, disk, attempted, lastRes, lastCall, faults, nextDoc, opst, blocked>>

Empty == [docs |-> {}, op |-> 0]
Init == /\ alive = TRUE /\ workers = TRUE /\ upd = TRUE /\ pipeline = {} /\ segs = {} /\ creg = {} /\ pend = {}
        /\ commd = Empty /\ disk = Empty /\ attempted = {Empty}
        /\ lastRes = "none" /\ lastCall = "none" /\ faults = 0 /\ nextDoc = 1 /\ opst = 0 /\ blocked = FALSE

CanFault == faults < MaxFaults

AddOk ==
  /\ ~blocked /\ Cardinality(pipeline) < PipeCap
  /\ nextDoc <= MaxDocs /\ (alive \/ ~DeadWriterStaysDead)
  /\ pipeline' = pipeline \cup {nextDoc} /\ pend' = pend \cup {nextDoc} /\ nextDoc' = nextDoc + 1
  /\ lastRes' = "ok" /\ lastCall' = "add"
  /\ UNCHANGED <<alive, workers, upd, segs, creg, commd, disk, attempted, faults, opst, blocked>>
AddErr ==
  /\ ~blocked
  /\ nextDoc <= MaxDocs /\ ~alive /\ DeadWriterStaysDead
  /\ nextDoc' = nextDoc + 1 /\ lastRes' = "err" /\ lastCall' = "add"
  /\ UNCHANGED <<alive, workers, upd, pipeline, segs, creg, pend, commd, disk, attempted, faults, opst, blocked>>

\* the pipeline is full: the producer waits inside add_document ...
AddBlock ==
  /\ ~blocked /\ alive /\ workers /\ Cardinality(pipeline) >= PipeCap /\ nextDoc <= MaxDocs
  /\ blocked' = TRUE
  /\ UNCHANGED <<alive, workers, upd, pipeline, segs, creg, pend, commd, disk, attempted, lastRes, lastCall, faults, nextDoc, opst>>
\* ... until a worker has made room (the call then succeeds) ...
AddResume ==
  /\ blocked /\ alive /\ Cardinality(pipeline) < PipeCap
  /\ blocked' = FALSE
  /\ pipeline' = pipeline \cup {nextDoc} /\ pend' = pend \cup {nextDoc} /\ nextDoc' = nextDoc + 1
  /\ lastRes' = "ok" /\ lastCall' = "add"
  /\ UNCHANGED <<alive, workers, upd, segs, creg, commd, disk, attempted, faults, opst>>
\* ... or the writer died: with the receiver gone the send fails and the call returns the error
AddWake ==
  /\ blocked /\ ~alive /\ KillDropsReceiver
  /\ blocked' = FALSE /\ nextDoc' = nextDoc + 1
  /\ lastRes' = "err" /\ lastCall' = "add"
  /\ UNCHANGED <<alive, workers, upd, pipeline, segs, creg, pend, commd, disk, attempted, faults, opst>>

\* a worker turns pipeline documents into a segment (add_segment is an updater task) ...
WorkerFlush ==
  /\ workers /\ pipeline # {} /\ upd
  /\ segs' = segs \cup pipeline /\ pipeline' = {}
  /\ UNCHANGED <<alive, workers, upd, creg, pend, commd, disk, attempted, lastRes, lastCall, faults, nextDoc, opst, blocked>>
\* ... or hits an I/O error (or a dead updater): its documents are lost, the writer is dead
WorkerFail ==
  /\ workers /\ pipeline # {} /\ (CanFault \/ ~upd)
  /\ pipeline' = {} /\ alive' = FALSE /\ faults' = IF upd THEN faults + 1 ELSE faults
  /\ UNCHANGED <<workers, upd, segs, creg, pend, commd, disk, attempted, lastRes, lastCall, nextDoc, opst, blocked>>

\* commit = join the workers (a failed worker surfaces here), then the commit task
CommitJoinErr ==
  /\ ~blocked
  /\ ~alive /\ workers
  /\ workers' = FALSE       \* the failed join leaves no worker behind
  /\ pipeline' = {}
  /\ lastRes' = "err" /\ lastCall' = "commit"
  /\ UNCHANGED <<alive, upd, segs, creg, pend, commd, disk, attempted, faults, nextDoc, opst, blocked>>
CommitDeadErr ==
  /\ ~blocked
  /\ ~alive /\ ~workers /\ DeadWriterStaysDead
  /\ lastRes' = "err" /\ lastCall' = "commit"
  /\ UNCHANGED <<alive, workers, upd, pipeline, segs, creg, pend, commd, disk, attempted, faults, nextDoc, opst, blocked>>
\* the updater was killed by an earlier failed save_metas: the task is refused
CommitUpdDeadErr ==
  /\ ~blocked
  /\ alive /\ workers /\ ~upd /\ pipeline = {}
  /\ lastRes' = "err" /\ lastCall' = "commit"
  /\ UNCHANGED <<alive, workers, upd, pipeline, segs, creg, pend, commd, disk, attempted, faults, nextDoc, opst, blocked>>
NewCommit == [docs |-> creg \cup segs \cup (IF workers THEN pipeline ELSE {}), op |-> opst + 1]
CommitOk ==
  /\ ~blocked
  /\ (alive /\ workers /\ upd) \/ (~DeadWriterStaysDead /\ ~workers /\ upd)
  /\ pipeline' = IF workers THEN {} ELSE pipeline
  /\ segs' = {} /\ creg' = NewCommit.docs
  /\ disk' = NewCommit /\ commd' = NewCommit /\ attempted' = attempted \cup {NewCommit}
  /\ opst' = opst + 1
  /\ lastRes' = "ok" /\ lastCall' = "commit"
  /\ UNCHANGED <<alive, workers, upd, pend, faults, nextDoc, blocked>>
\* the commit task fails: where = "purge" | "before" (save_metas, meta.json not replaced) | "after"
CommitTaskFail(where) ==
  /\ ~blocked
  /\ CanFault /\ alive /\ workers /\ upd
  /\ pipeline' = {}
  /\ faults' = faults + 1 /\ opst' = opst + 1
  /\ lastRes' = "err" /\ lastCall' = "commit"
  /\ IF where = "purge"
     THEN /\ segs' = segs \cup pipeline
          /\ UNCHANGED <<creg, disk, attempted, upd, blocked>>
     ELSE /\ segs' = {} /\ creg' = NewCommit.docs
          /\ disk' = IF where = "after" THEN NewCommit ELSE disk
          /\ attempted' = attempted \cup {NewCommit}
          /\ upd' = ~KillUpdaterOnSaveFail
  /\ UNCHANGED <<alive, workers, pend, commd, nextDoc, blocked>>

\* a merge of committed segments ends: meta.json is rewritten from the committed register under the
\* opstamp of the active metas (= the last save_metas that did not fail before the replacement)
MergeEnd ==
  /\ upd /\ creg # {}
  /\ disk' = [docs |-> creg, op |-> disk.op]
  /\ UNCHANGED <<alive, workers, upd, pipeline, segs, creg, pend, commd, attempted, lastRes, lastCall, faults, nextDoc, opst, blocked>>
\* a merge that fails (I/O error in the merge thread or in its end_merge task before save_metas) is discarded
MergeFail ==
  /\ CanFault /\ upd /\ creg # {}
  /\ faults' = faults + 1
  /\ UNCHANGED <<alive, workers, upd, pipeline, segs, creg, pend, commd, disk, attempted, lastRes, lastCall, nextDoc, opst, blocked>>

Rollback ==
  /\ ~blocked
  /\ alive' = TRUE /\ workers' = TRUE /\ upd' = TRUE /\ pipeline' = {} /\ segs' = {}
  /\ creg' = disk.docs /\ pend' = disk.docs
  /\ commd' = disk      \* a failed commit that took effect is what rollback restores
  /\ lastRes' = "ok" /\ lastCall' = "rollback"
  /\ UNCHANGED <<disk, attempted, faults, nextDoc, opst, blocked>>

Next == AddOk \/ AddErr \/ AddBlock \/ AddResume \/ AddWake \/ WorkerFlush \/ WorkerFail \/ CommitJoinErr \/ CommitDeadErr \/ CommitUpdDeadErr \/ CommitOk
        \/ CommitTaskFail("purge") \/ CommitTaskFail("before") \/ CommitTaskFail("after")
        \/ MergeEnd \/ MergeFail \/ Rollback
Spec == Init /\ [][Next]_vars

Bound == opst <= 3
BoundDeep == opst <= 5   \* thorough tier (FaultProto_deep.cfg)
\* a producer waiting inside add_document can always get out: a worker makes room, or the dead writer's
\* dropped receiver wakes it with an error (the process does not hang)
NoStuckProducer == blocked => ENABLED (AddResume \/ AddWake \/ WorkerFlush \/ WorkerFail)
\* C11: a commit that returns Ok is complete: every document whose add returned Ok is in it
OkCommitIsComplete == (lastCall = "commit" /\ lastRes = "ok") => disk.docs = pend
\* C11: the storage always holds the last successful commit, or a failed one that took effect
LastCommitIntact == commd.docs \subseteq disk.docs /\ disk.op >= commd.op
\* C11 (F40): meta.json is always exactly what SOME commit call tried to publish - never a mixture
DiskIsSomeCommit == disk \in attempted
\* the structural invariant behind it: a live updater's committed register is what meta.json holds
RegistersMatchDisk == upd => creg = disk.docs
\* C11: an error is never silent: documents are lost only if some call reported an error before
\* the next Ok commit (implied by OkCommitIsComplete)
=============================================================================
