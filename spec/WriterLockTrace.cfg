SPECIFICATION TSpec
CONSTANTS
  Handles = {"A", "B"}
  NT = 4
  ReleaseOnFailedCtor = TRUE
  RollbackKeepsLock = TRUE
  FailedRollbackKeepsLock = TRUE
  AtomicAcquire = TRUE
POSTCONDITION Accepted
CHECK_DEADLOCK FALSE
