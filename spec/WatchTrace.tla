------------------------------ MODULE WatchTrace ------------------------------
(* Judge of `reader_driver watch` (C05, the OnCommitWithDelay path on RamDirectory: every       *)
(* meta.json write spawns a callback thread that reloads the reader - ReloadProto with          *)
(* Callbacks = TRUE).  Commit k adds the k-th document, so the number of documents a searcher   *)
(* shows is the number of the commit it was loaded from.  The main thread's successive samples  *)
(* of reader.searcher() never step back, and never show a commit that has not completed.        *)
(* (Whether the last commit became visible before the time-out is recorded, not judged: the     *)
(* property says nothing about how soon a commit is seen.)                                      *)
EXTENDS Naturals, Sequences, Json, IOUtils, TLC

Rec == ndJsonDeserialize(IOEnv.TRACE)
VARIABLE l
Ev == Rec[l]

Monotone(s) == \A i \in 1..(Len(s) - 1) : s[i] <= s[i + 1]
TSamples ==
  /\ Ev.ev = "watch_samples"
  /\ Monotone(Ev.samples)
  /\ \A i \in 1..Len(Ev.samples) : Ev.samples[i] <= Ev.commits
TReset == Ev.ev = "reset"
TInit == l = 1
TNext == l <= Len(Rec) /\ l' = l + 1 /\ (TSamples \/ TReset)
TSpec == TInit /\ [][TNext]_l
Accepted ==
  LET d == TLCGet("stats").diameter IN
  IF d - 1 = Len(Rec) THEN TRUE ELSE Print(<<"REJECTED", d, Rec[d]>>, FALSE)
=============================================================================
