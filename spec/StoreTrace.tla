------------------------------ MODULE StoreTrace ------------------------------
(* Judge of the runs recorded by harness/src/bin/store_driver.rs (C09): every document read   *)
(* back by StoreReader::get, Searcher::doc and StoreReader::iter - in any access order, with   *)
(* any cache size, before and after deletes and a merge - is the stored projection of the      *)
(* document that was added, field by field, value by value; iteration yields the live         *)
(* documents in doc-id order; every live document is in exactly one segment.                   *)
(* The layout predicted by Store!Cut is compared with the observed size of the data part and   *)
(* printed (coverage only: the layout is not part of the property).                            *)
EXTENDS Store, Json, IOUtils

Rec == ndJsonDeserialize(IOEnv.TRACE)

VARIABLES l,
          docs,      \* the documents added, in id order (id = index), as rendered by the harness
          storedF,   \* names of the stored fields
          cfg,
          dead,      \* ids deleted so far
          seen,      \* ids found in the segments of the current phase
          pbytes     \* <<sum of data bytes of the segments of the current phase, of the previous phase>>
tvars == <<l, docs, storedF, cfg, dead, seen, pbytes, svars>>
Ev == Rec[l]

SeqSet(s) == {s[i] : i \in 1..Len(s)}
Has(r, k) == k \in DOMAIN r

\* what the store must return for a document: its stored fields, values in the order added; a
\* pre-tokenized text is stored as its text
SV(v) == IF v.t = "pretok" THEN [t |-> "str", v |-> v.v] ELSE v
Stored(d) == [f \in (DOMAIN d) \cap storedF |-> [i \in 1..Len(d[f]) |-> SV(d[f][i])]]

\* a long value travels as [t, len, h (hash), head, tail]; `big` names the generated length of such values:
\* <<id, field, length>>; the value written must have that length (what is read back must equal what was written)
BigValue(d, f) == IF f = "j" THEN d.j[1].v[1][2] ELSE d[f][1]      \* (an object is the sequence of its <<key, value>> entries)
BigOk(e) ==
  IF ~Has(e, "big") THEN TRUE
  ELSE {i \in 1..Len(e.big) : LET b == e.big[i] IN
          IF b[1] \in 1..Len(e.docs) /\ Has(e.docs[b[1]], b[2])
          THEN LET v == BigValue(e.docs[b[1]], b[2]) IN (IF Has(v, "len") THEN v.len # b[3] ELSE b[3] >= 4096)
          ELSE TRUE} = {}

TStore ==
  /\ Ev.ev = "store"
  /\ BigOk(Ev)
  /\ docs' = Ev.docs
  /\ storedF' = {Ev.schema[i].name : i \in {j \in 1..Len(Ev.schema) : Ev.schema[j].stored}}
  /\ cfg' = (Ev.cfg @@ [case |-> Ev.case]) /\ dead' = {} /\ seen' = {} /\ pbytes' = <<0, 0>>
  /\ sizes' = <<>> /\ closed' = TRUE /\ cache' = <<>> /\ got' = <<>>

TDeleted ==
  /\ Ev.ev = "deleted"
  /\ dead' = dead \cup SeqSet(Ev.ids)
  /\ UNCHANGED <<docs, storedF, cfg, seen, pbytes, svars>>

GetOk(g) ==
  LET k == g[1] IN
  IF k \in 1..Len(Ev.alive) /\ Ev.ids[k] \in 1..Len(docs)
  THEN /\ Ev.alive[k] = g[2] /\ g[3] = Stored(docs[Ev.ids[k]])
       \* the same document through to_named_doc (g[4]: per field the values in the order added) and through to_json
       \* (g[5]: the string values of field t in the JSON text)
       /\ (Len(g) >= 5 =>
             /\ g[4] = Stored(docs[Ev.ids[k]])
             /\ LET sd == Stored(docs[Ev.ids[k]]) IN
                g[5] = (IF "t" \in DOMAIN sd THEN [i \in 1..Len(sd.t) |-> sd.t[i].v] ELSE <<>>))
  ELSE FALSE

Layout(e) ==
  LET n == e.max_doc
      blocks == Cut([i \in 1..n |-> i], e.sizes, cfg.blocksize)
      pred == SumBytes(blocks)
  IN IF e.phase = "commit"
     THEN PrintT(<<"BLOCKS", cfg.case, Len(blocks), NumLayers(blocks), cfg.comp,
                   IF cfg.comp = "none" THEN (IF pred = e.data_bytes THEN "layout-as-predicted" ELSE "LAYOUT-MISMATCH") ELSE "-">>)
     ELSE IF e.phase = "merge" /\ cfg.comp = "none"
     THEN \* number of blocks of the merged segment: data = documents + 4 * (documents + blocks)
          PrintT(<<"MERGED", cfg.case, (e.data_bytes - (pred - 4 * Len(blocks))) \div 4, Len(blocks)>>)
     ELSE TRUE

TSeg ==
  /\ Ev.ev = "seg"
  /\ seen' = seen \cup SeqSet(Ev.ids)
  /\ pbytes' = <<pbytes[1] + Ev.data_bytes, pbytes[2]>>
  /\ sizes' = Ev.sizes
  /\ UNCHANGED <<docs, storedF, cfg, dead, closed, cache, got>>
  /\ LET n == Len(Ev.alive) IN
     /\ Len(Ev.ids) = n /\ Len(Ev.iter) = n /\ Len(Ev.sizes) = Ev.max_doc
     /\ {k \in 1..(n - 1) : Ev.alive[k] >= Ev.alive[k + 1]} = {}          \* doc-id order
     /\ {k \in 1..n : Ev.alive[k] >= Ev.max_doc} = {}
     /\ Cardinality(SeqSet(Ev.ids)) = n /\ SeqSet(Ev.ids) \cap seen = {}   \* each id once
     /\ {i \in 1..Len(Ev.gets) : ~GetOk(Ev.gets[i])} = {}                   \* Get(d) = doc[d]
     /\ {k \in 1..n : IF Ev.ids[k] \in 1..Len(docs) THEN Ev.iter[k] # Stored(docs[Ev.ids[k]]) ELSE TRUE} = {}
     \* (probe of the address max_doc, which does not exist: it must not panic - except on an EMPTY store, the result of
     \* a filtered merge that removes every document, where no address exists at all and StoreReader::get(0) is a
     \* caller error the reader does not diagnose: outside the property)
     /\ (IF Ev.max_doc > 0 THEN Ev.oob # "panic" ELSE TRUE)
  /\ Layout(Ev)

TPhaseEnd ==
  /\ Ev.ev = "phase_end"
  /\ seen = (1..Len(docs)) \ dead                                           \* exactly the live documents
  /\ seen' = {} /\ pbytes' = <<0, pbytes[1]>>
  /\ UNCHANGED <<docs, storedF, cfg, dead, svars>>

TMerged ==
  /\ Ev.ev = "merged" /\ Ev.ok
  /\ cfg' = IF Has(Ev, "comp") THEN [cfg EXCEPT !.comp = Ev.comp] ELSE cfg    \* compressor of the merged store
  /\ UNCHANGED <<docs, storedF, dead, seen, pbytes, svars>>

TEnd ==
  /\ Ev.ev = "end"
  /\ UNCHANGED <<docs, storedF, cfg, dead, seen, pbytes, svars>>

TNext ==
  /\ l <= Len(Rec) /\ l' = l + 1
  /\ \/ TStore \/ TSeg \/ TPhaseEnd \/ TMerged \/ TEnd
     \/ TDeleted

TInit == l = 1 /\ docs = <<>> /\ storedF = {} /\ cfg = <<>> /\ dead = {} /\ seen = {} /\ pbytes = <<0, 0>> /\ Init
TSpec == TInit /\ [][TNext]_tvars

Accepted ==
  IF TLCGet("stats").diameter - 1 = Len(Rec) THEN TRUE
  ELSE Print(<<"REJECTED", TLCGet("stats").diameter, Rec[TLCGet("stats").diameter]>>, FALSE)
=============================================================================
