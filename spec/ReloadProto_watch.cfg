SPECIFICATION Spec
CONSTANTS
  Threads = {a, b, c}
  MaxCommits = 4
  Serialize = TRUE
  Callbacks = TRUE
INVARIANTS FreshAtRest TypeOK NeverMovesBack ReloadIsFresh
PROPERTIES PublishedMonotone
CHECK_DEADLOCK FALSE
