------------------------------ MODULE QuerySem ------------------------------
(* C03 - queries match exactly the documents their logical meaning prescribes.               *)
(*                                                                                           *)
(* `Match(q, d)`: the meaning of a query tree on a logical document.  A document is a record *)
(* whose fields are sequences of values: title = tokens (position = index), tag = words      *)
(* (sequences of letter codes), the numeric fields = small order-preserving integers.        *)
(* A query is the JSON tree of harness/src/bin/qlib (k = kind).  Leaves that need a look     *)
(* inside strings (fuzzy, regex, phrase-prefix) are first resolved against the vocabulary    *)
(* (`Prepare`), so that Match itself only compares values.                                   *)
(* The module also has a small machine that builds boolean queries clause by clause over an  *)
(* abstract 8-document universe: its invariants are the laws of the boolean query (the       *)
(* "at least one Must-or-Should", minimum_number_should_match, Must/MustNot) and it is the    *)
(* generator of the R direction.                                                             *)
EXTENDS Integers, Sequences, FiniteSets, TLC

SeqSet(s) == {s[i] : i \in 1..Len(s)}
Has(r, k) == k \in DOMAIN r

-----------------------------------------------------------------------------
(* strings as sequences of codes *)
RECURSIVE LexLess(_, _)
LexLess(a, b) == IF b = <<>> THEN FALSE
                 ELSE IF a = <<>> THEN TRUE
                 ELSE IF a[1] # b[1] THEN a[1] < b[1]
                 ELSE LexLess(Tail(a), Tail(b))
IsPrefix(p, w) == Len(p) <= Len(w) /\ SubSeq(w, 1, Len(p)) = p

Min2(a, b) == IF a < b THEN a ELSE b
Min3(a, b, c) == Min2(a, Min2(b, c))
\* edit distance, textbook recursion (tr: an adjacent transposition costs 1, "optimal string alignment")
RECURSIVE Lev(_, _, _)
Lev(a, b, tr) ==
  IF a = <<>> THEN Len(b)
  ELSE IF b = <<>> THEN Len(a)
  ELSE LET la == Len(a)  lb == Len(b)
           ia == SubSeq(a, 1, la - 1)  ib == SubSeq(b, 1, lb - 1)
           base == Min3(Lev(ia, b, tr) + 1, Lev(a, ib, tr) + 1, Lev(ia, ib, tr) + (IF a[la] = b[lb] THEN 0 ELSE 1)) IN
       IF tr /\ la >= 2 /\ lb >= 2 /\ a[la] = b[lb - 1] /\ a[la - 1] = b[lb]
       THEN Min2(base, Lev(SubSeq(a, 1, la - 2), SubSeq(b, 1, lb - 2), tr) + 1)
       ELSE base
\* the same by dynamic programming (what the trace specification evaluates; MC_QuerySem checks LevDP = Lev):
\* row j (1-based j+1) holds the distances between every prefix of a and b[1..j]
RECURSIVE LevCells(_, _, _, _, _, _, _)
LevCells(acc, prev, pprev, a, b, j, tr) ==
  LET i == Len(acc) IN        \* acc = cells 0..i-1 of row j
  IF i > Len(a) THEN acc
  ELSE LET sub == prev[i] + (IF a[i] = b[j] THEN 0 ELSE 1)
           base == Min3(prev[i + 1] + 1, acc[i] + 1, sub)
           v == IF tr /\ i >= 2 /\ j >= 2 /\ a[i] = b[j - 1] /\ a[i - 1] = b[j] THEN Min2(base, pprev[i - 1] + 1) ELSE base IN
       LevCells(Append(acc, v), prev, pprev, a, b, j, tr)
RECURSIVE LevRows(_, _, _, _)
LevRows(rows, a, b, tr) ==
  LET j == Len(rows) IN       \* rows = rows 0..j-1
  IF j > Len(b) THEN rows
  ELSE LevRows(Append(rows, LevCells(<<j>>, rows[j], IF j >= 2 THEN rows[j - 1] ELSE <<>>, a, b, j, tr)), a, b, tr)
LevTable(a, b, tr) == LevRows(<<[i \in 1..(Len(a) + 1) |-> i - 1]>>, a, b, tr)
LevDP(a, b, tr) == LevTable(a, b, tr)[Len(b) + 1][Len(a) + 1]
FuzzyWord(q, w) ==
  LET tb == LevTable(q.t, w, q.tr) IN
  IF Has(q, "prefix") /\ q.prefix
  THEN \E k \in 0..Len(w) : tb[k + 1][Len(q.t) + 1] <= q.d
  ELSE tb[Len(w) + 1][Len(q.t) + 1] <= q.d

\* regular expressions over letter codes, whole-word match
RECURSIVE ReMatch(_, _)
ReMatch(r, w) ==
  CASE r.r = "lit"  -> w = <<r.c>>
    [] r.r = "any"  -> Len(w) = 1
    [] r.r = "cat"  -> \E k \in 0..Len(w) : ReMatch(r.a, SubSeq(w, 1, k)) /\ ReMatch(r.b, SubSeq(w, k + 1, Len(w)))
    [] r.r = "alt"  -> ReMatch(r.a, w) \/ ReMatch(r.b, w)
    [] r.r = "opt"  -> w = <<>> \/ ReMatch(r.a, w)
    [] r.r = "star" -> w = <<>> \/ \E k \in 1..Len(w) : ReMatch(r.a, SubSeq(w, 1, k)) /\ ReMatch(r, SubSeq(w, k + 1, Len(w)))

-----------------------------------------------------------------------------
(* the logical field behind a schema field: tagi / numi / flagi are the same values indexed differently *)
FieldOf(f) == CASE f = "tagi" -> "tag" [] f = "numi" -> "num" [] f = "flagi" -> "flag" [] f = "nf" -> "title" [] f = "bt" -> "title" [] OTHER -> f
Vals(d, f) == LET g == FieldOf(f) IN IF g = "id" THEN <<d.id>> ELSE IF g \in DOMAIN d THEN d[g] ELSE <<>>
IsWordField(f) == FieldOf(f) \in {"tag", "cat"}

Less(f, a, b) == IF IsWordField(f) THEN LexLess(a, b) ELSE a < b
InLo(f, b, v) == CASE b.b = "in" -> ~Less(f, v, b.v) [] b.b = "ex" -> Less(f, b.v, v) [] OTHER -> TRUE
InHi(f, b, v) == CASE b.b = "in" -> ~Less(f, b.v, v) [] b.b = "ex" -> Less(f, v, b.v) [] OTHER -> TRUE

\* phrase: term j of the phrase stands at position p + j - 1; with slop (two terms): |gap - 1| <= slop
PhraseAt(toks, ts, p) == \A j \in 1..Len(ts) : p + j - 1 <= Len(toks) /\ toks[p + j - 1] = ts[j]
AbsI(x) == IF x < 0 THEN -x ELSE x
PhraseMatch(toks, ts, slop) ==
  IF slop = 0 \/ Len(ts) # 2 THEN \E p \in 1..Len(toks) : PhraseAt(toks, ts, p)
  ELSE \E pa, pb \in 1..Len(toks) : toks[pa] = ts[1] /\ toks[pb] = ts[2] /\ pa # pb /\ AbsI(pb - pa - 1) <= slop

\* three or more terms with slop: the documentation ("the slop is a budget between all terms", "A is moved 1 position and B is
\* moved 1 position, so the slop is 2") supports two bounds only - the exact phrase matches, and a match needs an assignment of
\* distinct positions that can be turned into the phrase by moving terms by at most `slop` positions in total
\* (ns = the positions minus the offsets of their terms: the phrase stands at b iff all are b)
RECURSIVE SumAbs(_, _, _)
SumAbs(ns, b, i) == IF i > Len(ns) THEN 0 ELSE AbsI(ns[i] - b) + SumAbs(ns, b, i + 1)
RECURSIVE WithinBudgetFrom(_, _, _, _, _)
WithinBudgetFrom(toks, ts, ps, ns, slop) ==
  LET j == Len(ps) + 1 IN
  IF j > Len(ts) THEN \E k \in 1..Len(ns) : SumAbs(ns, ns[k], 1) <= slop
  ELSE \E p \in 1..Len(toks) :
         /\ toks[p] = ts[j] /\ p \notin SeqSet(ps)
         /\ WithinBudgetFrom(toks, ts, Append(ps, p), Append(ns, p - j), slop)
WithinBudget(toks, ts, slop) == WithinBudgetFrom(toks, ts, <<>>, <<>>, slop)
PhraseExact(toks, ts) == \E p \in 1..Len(toks) : PhraseAt(toks, ts, p)
IsSlopPhrase3(q) == q.k = "phrase" /\ Len(q.ts) >= 3 /\ Has(q, "slop") /\ q.slop > 0

\* Prepare: resolve fuzzy / regex / phrase-prefix leaves against the vocabulary
\*   words  = the set of words of the word field, tokmap = token -> its letters (record)
RECURSIVE Prepare(_, _, _)
Prepare(q, words, tokmap) ==
  \* (TLCEval: evaluate the set once; TLC would otherwise re-enumerate the lazy set at every membership test)
  CASE q.k = "fuzzy"   -> [k |-> "wordset", f |-> q.f, ws |-> TLCEval({w \in words : FuzzyWord(q, w)})]
    [] q.k = "regex"   -> [k |-> "wordset", f |-> q.f, ws |-> TLCEval({w \in words : ReMatch(q.re, w)})]
    [] q.k = "pprefix" -> [k |-> "pprefix", f |-> q.f, ts |-> SubSeq(q.ts, 1, Len(q.ts) - 1),
                           last |-> TLCEval({t \in DOMAIN tokmap : IsPrefix(q.pc, tokmap[t])})]
    [] q.k \in {"boost", "const"} -> [k |-> "wrap", q |-> Prepare(q.q, words, tokmap)]
    \* (a function constructor is lazy as well: without TLCEval every q.cl[i] would prepare the clause again)
    [] q.k = "dismax"  -> [k |-> "dismax", qs |-> TLCEval([i \in 1..Len(q.qs) |-> Prepare(q.qs[i], words, tokmap)])]
    [] q.k = "bool"    -> [k |-> "bool", msm |-> q.msm,
                           cl |-> TLCEval([i \in 1..Len(q.cl) |-> [o |-> q.cl[i].o, q |-> Prepare(q.cl[i].q, words, tokmap)]])]
    [] OTHER -> q

RECURSIVE Match(_, _)
Match(q, d) ==
  CASE q.k = "term"    -> \E i \in 1..Len(Vals(d, q.f)) : Vals(d, q.f)[i] = q.t
    [] q.k = "all"     -> TRUE
    [] q.k = "empty"   -> FALSE
    [] q.k = "phrase"  -> PhraseMatch(Vals(d, q.f), q.ts, IF Has(q, "slop") THEN q.slop ELSE 0)
    [] q.k = "pprefix" -> LET toks == Vals(d, q.f) IN
                          \E p \in 1..Len(toks) : /\ PhraseAt(toks, q.ts, p)
                                                  /\ p + Len(q.ts) <= Len(toks)
                                                  /\ toks[p + Len(q.ts)] \in q.last
    [] q.k = "range"   -> \E i \in 1..Len(Vals(d, q.f)) : InLo(q.f, q.lo, Vals(d, q.f)[i]) /\ InHi(q.f, q.hi, Vals(d, q.f)[i])
    \* range over the JSON path js.v (the num values) with f64 bounds given in halves (h = 2 * bound)
    [] q.k = "jrange"  -> \E i \in 1..Len(Vals(d, "num")) :
                            LET v2 == 2 * Vals(d, "num")[i] IN
                            /\ (CASE q.lo.b = "in" -> v2 >= q.lo.h [] q.lo.b = "ex" -> v2 > q.lo.h [] OTHER -> TRUE)
                            /\ (CASE q.hi.b = "in" -> v2 <= q.hi.h [] q.hi.b = "ex" -> v2 < q.hi.h [] OTHER -> TRUE)
    [] q.k = "set"     -> \E i \in 1..Len(Vals(d, q.f)) : Vals(d, q.f)[i] \in SeqSet(q.ts)
    [] q.k = "wordset" -> \E i \in 1..Len(Vals(d, q.f)) : Vals(d, q.f)[i] \in q.ws
    [] q.k = "exists"  -> Vals(d, q.f) # <<>>
    [] q.k = "wrap"    -> Match(q.q, d)
    [] q.k \in {"boost", "const"} -> Match(q.q, d)
    [] q.k = "dismax"  -> \E i \in 1..Len(q.qs) : Match(q.qs[i], d)
    [] q.k = "bool"    ->
         LET M  == {i \in 1..Len(q.cl) : q.cl[i].o = "must"}
             S  == {i \in 1..Len(q.cl) : q.cl[i].o = "should"}
             N  == {i \in 1..Len(q.cl) : q.cl[i].o = "mustnot"}
             sm == Cardinality({i \in S : Match(q.cl[i].q, d)}) IN
         /\ \A i \in M : Match(q.cl[i].q, d)
         /\ \A i \in N : ~Match(q.cl[i].q, d)
         /\ sm >= q.msm
         /\ (M = {} => sm >= 1)

-----------------------------------------------------------------------------
(* The abstract universe of the R direction and of the laws: 8 documents, document i has the *)
(* terms ta / tb / tc according to the bits of i, and num = 5 for i mod 4 in {1,2}, else 50.  *)
ADocs == [i \in 0..7 |->
            [id |-> i,
             title |-> (IF (i \div 4) % 2 = 1 THEN <<"ta">> ELSE <<>>) \o (IF (i \div 2) % 2 = 1 THEN <<"tb">> ELSE <<>>)
                       \o (IF i % 2 = 1 THEN <<"tc">> ELSE <<>>),
             num |-> IF i % 4 \in {1, 2} THEN <<5>> ELSE <<50>>]]

LeafA == [k |-> "term", f |-> "title", t |-> "ta"]
LeafB == [k |-> "term", f |-> "title", t |-> "tb"]
LeafC == [k |-> "term", f |-> "title", t |-> "tc"]
LeafR == [k |-> "range", f |-> "num", lo |-> [b |-> "in", v |-> 0], hi |-> [b |-> "ex", v |-> 10]]
LeafAll == [k |-> "all"]
LeafEmpty == [k |-> "empty"]
Cl(o, q) == [o |-> o, q |-> q]
BoolQ(cl, m) == [k |-> "bool", cl |-> cl, msm |-> m]
BoolQE(cl, m) == [k |-> "bool", cl |-> cl, msm |-> m, explicit |-> TRUE]   \* with_minimum_required_clauses
BasicLeaves == {LeafA, LeafB, LeafC, LeafR, LeafAll, LeafEmpty}
\* nested boolean leaves (depth 2); the msm is what BooleanQuery::new chooses (1 iff only Should clauses)
NestedLeaves == {BoolQ(<<Cl("must", LeafA), Cl("mustnot", LeafB)>>, 0),
                 BoolQ(<<Cl("should", LeafA), Cl("should", LeafC)>>, 1),
                 BoolQ(<<Cl("should", LeafB)>>, 1),
                 BoolQ(<<Cl("mustnot", LeafA)>>, 0),
                 BoolQ(<<Cl("must", LeafAll), Cl("should", LeafC)>>, 0),
                 BoolQ(<<Cl("must", LeafB), Cl("must", LeafR)>>, 0),
                 \* minimum_number_should_match below the number of Should clauses (the Disjunction scorer), set explicitly
                 BoolQE(<<Cl("should", LeafA), Cl("should", LeafB), Cl("should", LeafC)>>, 2),
                 BoolQE(<<Cl("should", LeafA), Cl("should", LeafB), Cl("should", LeafC), Cl("should", LeafR)>>, 3)}
Occurs == {"must", "should", "mustnot"}

CONSTANTS MaxClauses,    \* the machine builds boolean queries of at most MaxClauses clauses
          UseNested,     \* nested boolean leaves allowed
          SingleShouldIgnoresMsm  \* FALSE: the meaning.  TRUE: defect F7 (a single Should clause satisfies any msm)

VARIABLES cl, msm        \* msm = -1: as chosen by BooleanQuery::new
vars == <<cl, msm>>
Leaves == IF UseNested THEN BasicLeaves \cup NestedLeaves ELSE BasicLeaves
DefaultMsm(c) == IF c # <<>> /\ \A i \in 1..Len(c) : c[i].o = "should" THEN 1 ELSE 0
EffMsm == IF msm = -1 THEN DefaultMsm(cl) ELSE msm
Q == BoolQ(cl, EffMsm)

\* the meaning, or the meaning with the defect F7 (negative configuration)
MatchX(q, d) == IF SingleShouldIgnoresMsm /\ Len(q.cl) = 1 /\ q.cl[1].o = "should" THEN Match(q.cl[1].q, d) ELSE Match(q, d)
Answer == {i \in 0..7 : MatchX(Q, ADocs[i])}

Init == cl = <<>> /\ msm \in -1..3
Next == /\ Len(cl) < MaxClauses
        /\ \E o \in Occurs, q \in Leaves : cl' = Append(cl, Cl(o, q))
        /\ UNCHANGED msm
Spec == Init /\ [][Next]_vars

Set(q) == {i \in 0..7 : Match(q, ADocs[i])}
MustSets == {Set(cl[i].q) : i \in {j \in 1..Len(cl) : cl[j].o = "must"}}
NotSets == {Set(cl[i].q) : i \in {j \in 1..Len(cl) : cl[j].o = "mustnot"}}
ShouldIdx == {j \in 1..Len(cl) : cl[j].o = "should"}
\* laws of the boolean query
NoPositiveClauseMatchesNothing == (\A i \in 1..Len(cl) : cl[i].o = "mustnot") => Answer = {}
MsmAboveShouldCountMatchesNothing == EffMsm > Cardinality(ShouldIdx) => Answer = {}
WithinMustOutsideMustNot == \A i \in Answer : (\A X \in MustSets : i \in X) /\ (\A X \in NotSets : i \notin X)
MsmCounts == \A i \in Answer : Cardinality({j \in ShouldIdx : i \in Set(cl[j].q)}) >= EffMsm
OptionalShouldDoesNotFilter ==
  (MustSets # {} /\ EffMsm = 0) => Answer = {i \in 0..7 : (\A X \in MustSets : i \in X) /\ (\A X \in NotSets : i \notin X)}
AllShouldRequiredIsConjunction ==
  (ShouldIdx # {} /\ EffMsm = Cardinality(ShouldIdx)) =>
     Answer = {i \in 0..7 : /\ \A X \in MustSets : i \in X
                            /\ \A X \in NotSets : i \notin X
                            /\ \A j \in ShouldIdx : i \in Set(cl[j].q)}
=============================================================================
