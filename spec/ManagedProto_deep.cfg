SPECIFICATION Spec
CONSTANTS
  Inst = {a, b, c}
  MaxFiles = 6
  ReloadOnAcquire = TRUE
  AtomicReload = TRUE
  ReloadUnderLock = TRUE
  MaxZombie = 2
INVARIANTS TypeOK NoUnmanagedFile NoOrphanAtRest NeverDeletesLiving
CHECK_DEADLOCK FALSE
