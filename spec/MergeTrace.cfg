SPECIFICATION MSpec
POSTCONDITION Accepted
CHECK_DEADLOCK FALSE
