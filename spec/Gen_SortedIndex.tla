--------------------------- MODULE Gen_SortedIndex ---------------------------
(* Generator of C17: operation histories for harness/src/bin/sorted_driver.rs - adds with an   *)
(* abstract sort value (0..NK-1, or Missing) and a shape j of the indexed JSON object (0 none,  *)
(* 1 text + i64 / bool / date / f64 leaves, 2 text leaf only, 3 non-text leaves only), deletes  *)
(* by term and by id inside the                                                                 *)
(* transaction, commits, merges of everything or of a window of two segments.  lib/props/c17.py *)
(* maps the abstract values to concrete ones of every key type (extremes at both ends) and     *)
(* runs each history for every type, direction and segment-cut setting.                        *)
EXTENDS SortedOrder, Json, TLC

CONSTANTS NK, Terms, MaxOps, MaxDocs
VARIABLES hist, nd, fin
gvars == <<hist, nd, fin>>

H(rec) == hist' = Append(hist, rec)
Go == ~fin /\ Len(hist) < MaxOps

GNext ==
  \/ /\ Go /\ nd < MaxDocs
     /\ \E t \in Terms : \E k \in (0..(NK - 1)) \cup {Missing} : \E j \in 0..3 :
          H([op |-> "add", id |-> nd + 1, t |-> t, k |-> k, j |-> j])
     /\ nd' = nd + 1 /\ UNCHANGED fin
  \/ /\ Go /\ nd > 0
     /\ \/ \E t \in Terms : H([op |-> "del", pred |-> [k |-> "term", t |-> t]])
        \/ \E i \in 1..nd : H([op |-> "del", pred |-> [k |-> "id", id |-> i]])
     /\ UNCHANGED <<nd, fin>>
  \/ /\ Go /\ nd > 0 /\ H([op |-> "commit"]) /\ UNCHANGED <<nd, fin>>
  \/ /\ Go /\ nd > 1
     /\ \/ H([op |-> "merge"])
        \/ \E f \in 0..1 : H([op |-> "merge", from |-> f, n |-> 2])
     /\ UNCHANGED <<nd, fin>>
  \/ /\ ~fin /\ Len(hist) >= MaxOps
     /\ PrintT(<<"CASE", ToJson(hist)>>)
     /\ fin' = TRUE /\ UNCHANGED <<hist, nd>>

GInit == hist = <<>> /\ nd = 0 /\ fin = FALSE
GSpec == GInit /\ [][GNext]_gvars
=============================================================================
