SPECIFICATION Spec
CONSTANTS
  SizeClasses = {1, 6, 25}
  BlockSize = 30
  MaxDocs = 5
  CacheCap = 2
  KeyByLength = TRUE
INVARIANT GetReturnsDoc
INVARIANT CacheBounded
INVARIANT StoreIsDocs
INVARIANT SeekIsBlockOf
INVARIANT MergeRefinesConcat
CHECK_DEADLOCK FALSE
