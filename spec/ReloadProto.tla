----------------------------- MODULE ReloadProto -----------------------------
(* Several threads reload ONE IndexReader (src/reader/mod.rs InnerIndexReader::reload) while    *)
(* the writer commits.  One action per critical section of the code:                            *)
(*   Open(t)    - open_segment_readers: under the meta lock, read meta.json and open the        *)
(*                segments of the newest commit                                                 *)
(*   Warm(t)    - warming_state.warm_new_searcher_generation (its own mutex; nothing orders it  *)
(*                after Open of the same commit order)                                          *)
(*   Publish(t) - searcher.store(..)                                                            *)
(* Serialize = TRUE is the repaired code (finding F48): the whole reload is one critical        *)
(* section of reload_lock.  Serialize = FALSE is the code as found: Open / Warm / Publish of    *)
(* two threads interleave freely and the reader can move back to an older commit.               *)
EXTENDS Naturals, FiniteSets

CONSTANTS
  \* @type: Set(Str);
  Threads,
  \* @type: Int;
  MaxCommits,
  \* @type: Bool;
  Serialize,
  \* @type: Bool;
  Callbacks   \* TRUE: reloads only happen as watch callbacks, one per commit (ReloadPolicy::OnCommitWithDelay:
                      \* every meta.json write spawns a thread that reloads); FALSE: threads reload whenever they like

VARIABLES
  \* @type: Int;
  commit,     \* number of the newest commit in meta.json
  \* @type: Int;
  published,  \* commit of the searcher the reader serves
  \* @type: Int;
  exposed,    \* newest commit a completed reload has published so far (history variable)
  \* @type: Str -> Str;
  pc,         \* thread -> "idle" | "opened" | "warmed"
  \* @type: Str -> Int;
  loaded,     \* thread -> commit its unpublished searcher was built from
  \* @type: Str;
  lock,       \* holder of reload_lock, or "none"
  \* @type: Int;
  todo        \* commits whose watch callback has not started its reload yet
vars == <<commit, published, exposed, pc, loaded, lock, todo>>

Init ==
  /\ commit = 0 /\ published = 0 /\ exposed = 0
  /\ pc = [t \in Threads |-> "idle"] /\ loaded = [t \in Threads |-> 0]
  /\ lock = "none" /\ todo = 0

Commit ==
  /\ commit < MaxCommits
  /\ commit' = commit + 1
  /\ todo' = todo + 1
  /\ UNCHANGED <<published, exposed, pc, loaded, lock>>

Open(t) ==
  /\ pc[t] = "idle"
  /\ IF Serialize THEN lock = "none" /\ lock' = t ELSE UNCHANGED lock
  /\ loaded' = [loaded EXCEPT ![t] = commit]
  /\ pc' = [pc EXCEPT ![t] = "opened"]
  /\ IF Callbacks THEN todo > 0 /\ todo' = todo - 1 ELSE todo' = 0
  /\ UNCHANGED <<commit, published, exposed>>

Warm(t) ==
  /\ pc[t] = "opened"
  /\ pc' = [pc EXCEPT ![t] = "warmed"]
  /\ UNCHANGED <<commit, published, exposed, loaded, lock, todo>>

Publish(t) ==
  /\ pc[t] = "warmed"
  /\ published' = loaded[t]
  /\ exposed' = IF loaded[t] > exposed THEN loaded[t] ELSE exposed
  /\ pc' = [pc EXCEPT ![t] = "idle"]
  /\ IF Serialize THEN lock' = "none" ELSE UNCHANGED lock
  /\ UNCHANGED <<commit, loaded, todo>>

Next == Commit \/ \E t \in Threads : Open(t) \/ Warm(t) \/ Publish(t)
Spec == Init /\ [][Next]_vars

TypeOK ==
  /\ commit \in 0..MaxCommits /\ published \in 0..MaxCommits /\ exposed \in 0..MaxCommits
  /\ pc \in [Threads -> {"idle", "opened", "warmed"}]
\* what the reader serves is never older than what a completed reload has already exposed
NeverMovesBack == published >= exposed
PublishedMonotone == [][published' >= published]_vars
\* a reload that starts after a commit completed exposes at least that commit
\* with one callback per commit, once every callback has run the reader serves the newest commit
FreshAtRest == (Callbacks /\ todo = 0 /\ \A t \in Threads : pc[t] = "idle") => published = commit
\* Inductive invariant of the repaired code (Serialize = TRUE), for ANY number of threads and commits:
\* checked with Apalache (IndInit => IndInv at length 0, IndInv /\ Next => IndInv' at length 1).
IndInv ==
  /\ commit \in Nat /\ published \in Nat /\ exposed \in Nat /\ todo \in Nat
  /\ pc \in [Threads -> {"idle", "opened", "warmed"}]
  /\ loaded \in [Threads -> Nat]
  /\ lock \in Threads \cup {"none"}
  /\ published = exposed /\ exposed <= commit
  /\ \A t \in Threads : pc[t] # "idle" => (lock = t /\ exposed <= loaded[t] /\ loaded[t] <= commit)
ReloadIsFresh == \A t \in Threads : pc[t] # "idle" => loaded[t] <= commit
=============================================================================
