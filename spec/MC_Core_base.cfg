SPECIFICATION Spec
CONSTANTS
  Terms = {a, b}
  NW = 1
  MaxOps = 5
  MaxStamp = 14
  MaxMerges = 1
  AllowDeleteAll = FALSE
  AllowExplicitUncommittedMerge = FALSE
  ExplicitMergeTarget = "current"
  AllowBatch = FALSE
  AllowReopen = FALSE
  AllowPrepare = FALSE
  StrictTarget = TRUE
SYMMETRY Perms
INVARIANT PublishedIsSequential
INVARIANT NoDup
INVARIANT CommitOpstampIsMeta
INVARIANT RollbackRestores
INVARIANT MergeOrderKept
PROPERTY MetaContentOnlyChangesInCommit
CHECK_DEADLOCK FALSE
