------------------------------ MODULE MC_QuerySem ------------------------------
(* Bounded model checking of the laws of the boolean query (C03) + sanity facts about the      *)
(* string operators (edit distance, regular expressions, lexicographic order, phrases).        *)
EXTENDS QuerySem, TLC
ASSUME Lev(<<1, 2>>, <<2, 1>>, FALSE) = 2 /\ Lev(<<1, 2>>, <<2, 1>>, TRUE) = 1
ASSUME Lev(<<1, 2, 3>>, <<1, 3>>, FALSE) = 1 /\ Lev(<<>>, <<1, 3>>, FALSE) = 2 /\ Lev(<<1, 1>>, <<1, 1>>, TRUE) = 0
ASSUME \A a, b \in {<<>>, <<1>>, <<2>>, <<1, 2>>, <<2, 1>>, <<1, 2, 1>>} : \A t \in BOOLEAN : Lev(a, b, t) = Lev(b, a, t)
SmallWords == {<<>>, <<1>>, <<2>>, <<1, 1>>, <<1, 2>>, <<2, 1>>, <<1, 2, 1>>, <<2, 1, 1>>, <<1, 2, 3>>, <<3, 2, 1>>, <<1, 2, 2, 1>>, <<2, 1, 2, 1>>}
ASSUME \A a, b \in SmallWords : \A t \in BOOLEAN : LevDP(a, b, t) = Lev(a, b, t)
ASSUME \A a, b \in SmallWords : \A t \in BOOLEAN : \A k \in 0..Len(b) : LevTable(a, b, t)[k + 1][Len(a) + 1] = Lev(a, SubSeq(b, 1, k), t)
ASSUME /\ WithinBudget(<<"a", "x", "b", "c">>, <<"a", "b", "c">>, 1) /\ WithinBudget(<<"a", "b", "x", "c">>, <<"a", "b", "c">>, 1)
       /\ ~WithinBudget(<<"a", "x", "b", "x", "c">>, <<"a", "b", "c">>, 1) /\ WithinBudget(<<"b", "a", "c">>, <<"a", "b", "c">>, 2)
       /\ ~WithinBudget(<<"b", "a", "c">>, <<"a", "b", "c">>, 1) /\ ~WithinBudget(<<"a", "c">>, <<"a", "b", "c">>, 5)
ASSUME LexLess(<<1>>, <<1, 1>>) /\ LexLess(<<1, 3>>, <<2>>) /\ ~LexLess(<<2>>, <<2>>) /\ ~LexLess(<<2>>, <<1, 3>>)
ASSUME LET ab == [r |-> "cat", a |-> [r |-> "lit", c |-> 1], b |-> [r |-> "lit", c |-> 2]]
           s == [r |-> "star", a |-> ab] IN
       /\ ReMatch(ab, <<1, 2>>) /\ ~ReMatch(ab, <<1>>) /\ ReMatch(s, <<>>) /\ ReMatch(s, <<1, 2, 1, 2>>) /\ ~ReMatch(s, <<1, 2, 1>>)
       /\ ReMatch([r |-> "alt", a |-> ab, b |-> [r |-> "any"]], <<3>>) /\ ReMatch([r |-> "opt", a |-> ab], <<>>)
ASSUME /\ PhraseMatch(<<"a", "x", "b">>, <<"a", "b">>, 1) /\ ~PhraseMatch(<<"a", "x", "b">>, <<"a", "b">>, 0)
       /\ ~PhraseMatch(<<"b", "a">>, <<"a", "b">>, 1) /\ PhraseMatch(<<"b", "a">>, <<"a", "b">>, 2)
       /\ PhraseMatch(<<"x", "a", "b", "c">>, <<"a", "b", "c">>, 0)
=============================================================================
