SPECIFICATION Spec
CONSTANTS
  NSeg = 4
  MaxCommits = 2
  SyncBeforeMeta = "always"
  SyncAfterMeta = TRUE
  RegisterFirst = TRUE
  OldDelDeletedEarly = FALSE
  GcProtectsBuilding = TRUE
INVARIANT CrashNoOrphan
CHECK_DEADLOCK FALSE
