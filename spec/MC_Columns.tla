------------------------------ MODULE MC_Columns ------------------------------
EXTENDS Columns
ASSUME CoercedType({"small"}) = "i64" /\ CoercedType({"small", "neg"}) = "i64" /\ CoercedType({"small", "big"}) = "u64"
       /\ CoercedType({"neg", "big"}) = "f64" /\ CoercedType({"small", "float"}) = "f64" /\ CoercedType({}) = "i64"
ASSUME RowsInRange(<<<<1, 5>>, <<>>, <<3>>, <<7, 2>>>>, 2, 4) = <<2, 3>>
ASSUME Card(<<<<1>>, <<2>>>>) = "full" /\ Card(<<<<1>>, <<>>>>) = "optional" /\ Card(<<<<1, 1>>, <<>>>>) = "multi" /\ Card(<<>>) = "full"
=============================================================================
