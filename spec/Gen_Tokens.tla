----------------------------- MODULE Gen_Tokens -----------------------------
(* Generator of C19 cases.  The analyzer chains are listed here and printed once (CHAINS); the   *)
(* harness runs every chain on every text.                                                       *)
(*  Mode = "texts"    (model checking): every text of at most MaxLen code points over the first  *)
(*                    NA classes of Tokens!ClassAlphabet;                                        *)
(*  Mode = "random"   (-simulate): texts of 6..40 code points over the whole alphabet;           *)
(*  Mode = "long"     (-simulate): texts of 150..400 code points;                                 *)
(*  Mode = "snippets" (-simulate): text x snippet chain x terms x max_num_chars (never smaller    *)
(*                    than the longest token: that is the recorded finding F12);                  *)
(*  Mode = "compound" (-simulate): word-rich texts with characters whose folded / lower-cased     *)
(*                    form has another byte length; the compound splitter gets a dictionary cut   *)
(*                    out of the normalised words of that very text and sits behind the           *)
(*                    byte-length-changing filters (and stemmers); one case = token run + snippet;*)
(*  Mode = "big"      (model checking): run-length texts of up to a million bytes.               *)
EXTENDS Tokens, TLC, Json, Randomization

CONSTANTS Mode, MaxLen, NA,
          SteerOverlapBytes   \* TRUE while finding C19-a stands (see NewSnippet)

Ch(tok, filters, exact) == [tok |-> tok, filters |-> filters, exact |-> exact]
\* the regular expression of the regex tokenizer: \w+|[^\w\s]+
WordsOrSymbols == <<92, 119, 43, 124, 91, 94, 92, 119, 92, 115, 93, 43>>
\* dictionaries of the compound splitter.  DictCp: one entry for every code point the chains can leave in a
\* token (alphabet, lower-cased, folded): every token falls apart into its code points.  DictWords: words
\* of one or two code points (leftmost-longest matching; a token that cannot be decomposed stays whole)
DictCp == << <<97>>, <<98>>, <<66>>, <<55>>, <<233>>, <<101>>, <<304>>, <<105>>, <<775>>, <<73>>, <<570>>, <<11365>>, <<65>>,
             <<20013>>, <<128512>>, <<769>>, <<32>>, <<12288>>, <<45>>, <<0>>, <<38>>, <<60>> >>
DictWords == << <<97>>, <<98, 55>>, <<66, 55>>, <<55>>, <<101, 97>>, <<101>>, <<105, 775>>, <<73>>, <<65, 97>>, <<97, 97>>,
                <<20013>>, <<55, 101>>, <<105>>, <<32, 97>> >>
Chains == <<
  Ch(<<"raw">>, <<>>, TRUE),                                                                   \*  1
  Ch(<<"raw">>, << <<"lower">> >>, TRUE),                                                      \*  2
  Ch(<<"whitespace">>, <<>>, TRUE),                                                            \*  3
  Ch(<<"whitespace">>, << <<"lower">>, <<"removelong", 4>> >>, TRUE),                          \*  4
  Ch(<<"simple">>, <<>>, TRUE),                                                                \*  5
  Ch(<<"simple">>, << <<"lower">> >>, TRUE),                                                   \*  6
  Ch(<<"simple">>, << <<"lower">>, <<"asciifold">> >>, TRUE),                                  \*  7
  Ch(<<"simple">>, << <<"asciifold">>, <<"lower">> >>, TRUE),                                  \*  8
  Ch(<<"simple">>, << <<"alphanum">> >>, TRUE),                                                \*  9
  Ch(<<"simple">>, << <<"removelong", 3>>, <<"lower">>, <<"stop", << <<97>>, <<233>>, <<98, 55>> >> >> >>, TRUE),  \* 10
  Ch(<<"ngram", 1, 1, FALSE>>, <<>>, TRUE),                                                    \* 11
  Ch(<<"ngram", 1, 2, FALSE>>, <<>>, TRUE),                                                    \* 12
  Ch(<<"ngram", 2, 3, FALSE>>, <<>>, TRUE),                                                    \* 13
  Ch(<<"ngram", 2, 3, TRUE>>, <<>>, TRUE),                                                     \* 14
  Ch(<<"ngram", 1, 3, TRUE>>, << <<"lower">> >>, TRUE),                                        \* 15
  Ch(<<"ngram", 3, 3, FALSE>>, <<>>, TRUE),                                                    \* 16
  Ch(<<"facet">>, <<>>, TRUE),                                                                 \* 17
  Ch(<<"simple">>, << <<"removelong", 40>>, <<"lower">> >>, TRUE),                             \* 18  the "default" analyzer
  Ch(<<"simple">>, << <<"lower">>, <<"stemmer">> >>, FALSE),                                   \* 19  offsets only
  Ch(<<"simple">>, << <<"splitcompound", << <<97>>, <<66, 55>>, <<55>>, <<233, 97>> >> >> >>, FALSE),   \* 20  offsets only
  Ch(<<"regex", WordsOrSymbols>>, <<>>, FALSE),                                                \* 21  offsets only
  Ch(<<"whitespace">>, << <<"stemmer">> >>, FALSE),                                           \* 22  offsets only
  \* filters that emit or pass on offsets BEHIND filters that change the byte length of the token text
  Ch(<<"simple">>, << <<"lower">>, <<"asciifold">>, <<"splitcompound", DictCp>> >>, FALSE),    \* 23  the "German" set-up
  Ch(<<"simple">>, << <<"asciifold">>, <<"splitcompound", DictWords>> >>, FALSE),              \* 24
  Ch(<<"whitespace">>, << <<"lower">>, <<"splitcompound", DictCp>> >>, FALSE),                 \* 25
  Ch(<<"simple">>, << <<"lower">>, <<"stemmer">>, <<"splitcompound", DictCp>> >>, FALSE),      \* 26  behind a stemmer
  Ch(<<"raw">>, << <<"lower">>, <<"asciifold">>, <<"splitcompound", DictWords>> >>, FALSE),    \* 27
  Ch(<<"ngram", 2, 3, FALSE>>, << <<"asciifold">>, <<"lower">>, <<"splitcompound", DictCp>> >>, FALSE),  \* 28
  Ch(<<"regex", WordsOrSymbols>>, << <<"lower">>, <<"asciifold">>, <<"splitcompound", DictCp>> >>, FALSE),  \* 29
  Ch(<<"simple">>, << <<"asciifold">>, <<"splitcompound", DictWords>>, <<"lower">>, <<"stemmer">>, <<"removelong", 4>> >>, FALSE),  \* 30  filters behind the splitter
  Ch(<<"simple">>, << <<"asciifold">>, <<"stemmer">> >>, FALSE),                               \* 31
  Ch(<<"whitespace">>, << <<"lower">>, <<"asciifold">>, <<"alphanum">> >>, TRUE),              \* 32
  Ch(<<"simple">>, << <<"asciifold">>, <<"lower">>, <<"stop", << <<97>>, <<101>>, <<105, 97>> >> >>, <<"removelong", 3>> >>, TRUE),  \* 33
  Ch(<<"regex", WordsOrSymbols>>, << <<"lower">>, <<"stemmer">> >>, FALSE),                    \* 34
  \* the regex tokenizer with patterns that can match the empty string (see Tokens!RegexNullable): the
  \* character that stops the pattern may be multi-byte
  Ch(<<"regex", <<92, 119, 42>>, "w">>, <<>>, TRUE),                                           \* 35  \w*
  Ch(<<"regex", <<91, 97, 45, 122, 93, 42>>, "az">>, <<>>, TRUE),                              \* 36  [a-z]*
  Ch(<<"regex", <<91, 48, 45, 57, 93, 43, 124>>, "09">>, <<>>, TRUE),                          \* 37  [0-9]+|
  Ch(<<"regex", <<120, 42>>, "x">>, <<>>, TRUE),                                               \* 38  x*
  Ch(<<"regex", <<91, 97, 45, 122, 93, 42>>, "az">>, << <<"lower">>, <<"removelong", 3>> >>, TRUE),   \* 39  [a-z]* + filters
  Ch(<<"regex", <<92, 119, 42>>, "w">>, << <<"lower">>, <<"stemmer">> >>, FALSE),              \* 40  \w* + stemmer, offsets only
  \* overlapping tokens whose end offsets DECREASE from one token to the next (a, ab, abc, b, ...): snippet chains
  Ch(<<"ngram", 1, 3, FALSE>>, << <<"lower">> >>, TRUE),                                       \* 41
  Ch(<<"ngram", 1, 4, FALSE>>, << <<"lower">> >>, TRUE),                                       \* 42
  Ch(<<"ngram", 2, 4, FALSE>>, << <<"lower">>, <<"asciifold">> >>, TRUE) >>                    \* 43
SnippetChains == {6, 7, 12, 15, 18, 19, 23, 24, 25, 26, 27, 30, 31, 33, 41, 42, 43}

VARIABLES text, done
gvars == <<text, done>>
Pick(S) == RandomElement(S)
Cls == [i \in 1..NA |-> ClassAlphabet[i]]

GInit == text = <<>> /\ done = FALSE /\ PrintT(<<"CHAINS", ToJson(Chains)>>)

Extend ==
  /\ Mode = "texts" /\ Len(text) < MaxLen
  /\ \E i \in 1..NA : text' = Append(text, Cls[i]) /\ PrintT(<<"T", text'>>)
  /\ UNCHANGED done

R(r, k) == r[((k - 1) % Len(r)) + 1]
RandomText(r, n) == [x \in 1..n |-> ClassAlphabet[1 + ((R(r, x) + (x * R(r, x + 7))) % Len(ClassAlphabet))]]
\* (an operator with a parameter: TLC evaluates a constant definition once and would reuse the vector)
Vec(x) == <<Pick(x..10079), Pick(0..10079), Pick(0..10079), Pick(0..10079), Pick(0..10079), Pick(0..10079), Pick(0..10079),
         Pick(0..10079), Pick(0..10079), Pick(0..10079), Pick(0..10079), Pick(0..10079), Pick(0..10079), Pick(0..10079),
         Pick(0..10079), Pick(0..10079), Pick(0..10079), Pick(0..10079), Pick(0..10079), Pick(0..10079), Pick(0..10079)>>
NewRandom ==
  /\ Mode = "random" /\ ~done
  /\ \E r \in {Vec(0)} : PrintT(<<"T", RandomText(r, 6 + (r[1] % 35))>>)
  /\ done' = TRUE /\ UNCHANGED text

\* Mode = "long" (-simulate): texts of 150..400 code points
NewLongText ==
  /\ Mode = "long" /\ ~done
  /\ \E r \in {Vec(0)} : PrintT(<<"T", RandomText(r, 150 + (r[1] % 250))>>)
  /\ done' = TRUE /\ UNCHANGED text

\* the exact chain in front of the first filter whose token texts are not specified (terms and the
\* longest token are taken from it: the splitter and the stemmer leave the offsets alone)
RECURSIVE ExactPrefix(_, _)
ExactPrefix(fs, k) == IF k > Len(fs) \/ fs[k][1] \in {"stemmer", "splitcompound"} THEN SubSeq(fs, 1, k - 1) ELSE ExactPrefix(fs, k + 1)
ExactOf(ch) == Ch(ch.tok, ExactPrefix(ch.filters, 1), TRUE)
Splits(ch) == \E k \in 1..Len(ch.filters) : ch.filters[k][1] = "splitcompound"
SnippetChainSeq == <<6, 7, 12, 15, 18, 19, 6, 18, 23, 24, 25, 26, 27, 30, 31, 33, 23, 25, 41, 42, 43, 41>>
NewSnippet ==
  /\ Mode = "snippets" /\ ~done
  /\ \E r \in {Vec(0)} :
       LET t == RandomText(r, 1 + (r[1] % 9))
           ci == SnippetChainSeq[1 + (r[2] % Len(SnippetChainSeq))]
           exact == ExactOf(Chains[ci])
           toks == Analyze(t, exact)
           \* a whole token; behind a splitter mostly a piece of one (one code point, or a few)
           piece(w, a, b) == IF ~Splits(Chains[ci]) \/ a % 4 = 0 \/ w = <<>> THEN w
                             ELSE LET i == 1 + (b % Len(w)) IN SubSeq(w, i, IF a % 4 = 1 THEN Min2(Len(w), i + 1) ELSE i)
           term(k) == IF toks = <<>> \/ r[k] % 5 = 0 THEN <<122>> ELSE piece(toks[1 + (r[k + 1] % Len(toks))][4], r[k + 8], r[k + 9])
           \* (lower-cased: the snippet generator looks a token up by its lower-cased text; chains 24 and 31 do not lower-case)
           terms == IF r[3] % 2 = 0 THEN <<MapText(term(4), Lower)>> ELSE <<MapText(term(4), Lower), MapText(term(6), Lower)>>
           max == (<<1, 2, 3, 5, 8, 30>>)[1 + (r[8] % 6)]
           \* C19-a (recorded): with overlapping tokens whose end offsets decrease (chains 41..43) a matched token
           \* of more than max_num_chars BYTES leaves its highlight outside the fragment (to_html panics); while
           \* that stands these chains keep every token within max_num_chars bytes
           tooLong == IF SteerOverlapBytes /\ ci \in {41, 42, 43}
                      THEN \E k \in 1..Len(toks) : toks[k][2] - toks[k][1] > max
                      ELSE LongestToken(t, exact) > max
       IN  IF tooLong THEN TRUE
           ELSE PrintT(<<"SN", ToJson([text |-> t, chain |-> ci, terms |-> terms, max |-> max])>>)
  /\ done' = TRUE /\ UNCHANGED text

\* Mode = "compound": words over an alphabet rich in characters whose normal form has another byte length
\* (e-acute, E-acute, I-dot, A-stroke, sharp s -> "ss"), the dictionary = pieces of the normalised words
\*  a  B  7  e-acute  I-dot  A-stroke  CJK  sharp-s  E-acute  a  e-acute  I-dot  space  -  e-acute  A-stroke  7  space
CompoundAlphabet == <<97, 66, 55, 233, 304, 570, 20013, 223, 201, 97, 233, 304, 32, 45, 233, 570, 55, 32>>
CompoundPrefixes == <<
  Ch(<<"simple">>, << <<"lower">>, <<"asciifold">> >>, TRUE),
  Ch(<<"simple">>, << <<"asciifold">> >>, TRUE),
  Ch(<<"simple">>, << <<"lower">> >>, TRUE),
  Ch(<<"whitespace">>, << <<"lower">>, <<"asciifold">> >>, TRUE),
  Ch(<<"whitespace">>, << <<"lower">> >>, TRUE),
  Ch(<<"simple">>, << <<"asciifold">>, <<"lower">> >>, TRUE),
  Ch(<<"raw">>, << <<"lower">>, <<"asciifold">> >>, TRUE),
  Ch(<<"simple">>, << <<"lower">>, <<"asciifold">> >>, TRUE) >>
\* filters between the exact prefix and the splitter / behind the splitter
CompoundMid == << <<>>, <<>>, <<>>, << <<"stemmer">> >> >>
CompoundPost == << <<>>, <<>>, << <<"stemmer">> >>, << <<"removelong", 40>> >>, << <<"lower">>, <<"asciifold">> >> >>
\* (values that are used more than once are bound by \E over a singleton: TLC evaluates a LET definition anew at every use)
CompoundText(r) == [x \in 1..(3 + (r[1] % 28)) |-> CompoundAlphabet[1 + ((R(r, x) + (x * R(r, x + 7))) % Len(CompoundAlphabet))]]
\* word k cut at one or two places chosen by r (the pieces go into the dictionary)
CompoundPieces(r, w, k) ==
  LET L == Len(w)   p == Min2(L, 1 + (R(r, k + 3) % Max2(1, L)))   q == Min2(L, p + 1 + (R(r, k + 5) % Max2(1, L)))
  IN  SelectSeq(<<SubSeq(w, 1, p), SubSeq(w, p + 1, q), SubSeq(w, q + 1, L)>>, LAMBDA x : x # <<>>)
RECURSIVE CompoundDict(_, _, _, _)
CompoundDict(r, toks, k, acc) ==
  IF k > Len(toks) THEN acc
  ELSE CompoundDict(r, toks, k + 1, IF R(r, k + 9) % 5 = 0 THEN acc ELSE acc \o CompoundPieces(r, toks[k][4], k))
RECURSIVE LongestText(_, _, _)
LongestText(toks, k, m) == IF k > Len(toks) THEN m ELSE LongestText(toks, k + 1, Max2(m, Len(toks[k][4])))
NewCompound ==
  /\ Mode = "compound" /\ ~done
  /\ \E r \in {Vec(0)} : \E t \in {CompoundText(r)} : \E pre \in {CompoundPrefixes[1 + (r[2] % Len(CompoundPrefixes))]} :
     \E toks \in {Analyze(t, pre)} : \E dict \in {CompoundDict(r, toks, 1, << <<122>> >>)} :
       LET chain == Ch(pre.tok, pre.filters \o CompoundMid[1 + (r[9] % Len(CompoundMid))] \o << <<"splitcompound", dict>> >>
                                            \o CompoundPost[1 + (r[10] % Len(CompoundPost))], FALSE)
           \* (lower-cased: the snippet generator looks a token up by its lower-cased text)
           term(k) == MapText(dict[1 + (r[k] % Len(dict))], Lower)
           terms == IF r[3] % 2 = 0 THEN <<term(4)>> ELSE <<term(4), term(6)>>
           \* never smaller than the longest word (F12); a normalised word has at least the code points of its source
           max == Max2(LongestText(toks, 1, 0), (<<3, 5, 8, 12, 20, 60>>)[1 + (r[8] % 6)])
       IN  PrintT(<<"CP", ToJson([text |-> t, chain |-> chain, terms |-> terms, max |-> max])>>)
  /\ done' = TRUE /\ UNCHANGED text

\* huge texts as runs <<code point, count>>: megabyte-long tokens, long runs of blanks, multi-byte runs
BigTexts == << << <<97, 1000000>> >>, << <<20013, 300000>> >>, << <<97, 3>>, <<32, 500000>>, <<233, 4>> >>,
               << <<128512, 200000>>, <<97, 1>> >>, << <<304, 100000>>, <<45, 1>>, <<570, 100000>> >>,
               << <<97, 100000>>, <<0, 1>>, <<66, 100000>> >> >>
BigChains == {1, 3, 5, 6, 18, 17, 19, 21, 23, 25}
NewBig ==
  /\ Mode = "big" /\ ~done
  /\ \A b \in 1..Len(BigTexts) : \A c \in BigChains : PrintT(<<"BIG", ToJson([runs |-> BigTexts[b], chain |-> c])>>)
  /\ done' = TRUE /\ UNCHANGED text

GNext == Extend \/ NewRandom \/ NewLongText \/ NewSnippet \/ NewCompound \/ NewBig
GSpec == GInit /\ [][GNext]_gvars
=============================================================================
