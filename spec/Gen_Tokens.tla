----------------------------- MODULE Gen_Tokens -----------------------------
(* Generator of C19 cases.  The analyzer chains are listed here and printed once (CHAINS); the   *)
(* harness runs every chain on every text.                                                       *)
(*  Mode = "texts"    (model checking): every text of at most MaxLen code points over the first  *)
(*                    NA classes of Tokens!ClassAlphabet;                                        *)
(*  Mode = "random"   (-simulate): texts of 6..40 code points over the whole alphabet;           *)
(*  Mode = "long"     (-simulate): texts of 150..400 code points;                                 *)
(*  Mode = "snippets" (-simulate): text x snippet chain x terms x max_num_chars (never smaller    *)
(*                    than the longest token: that is the recorded finding F12);                  *)
(*  Mode = "big"      (model checking): run-length texts of up to a million bytes.               *)
EXTENDS Tokens, TLC, Json, Randomization

CONSTANTS Mode, MaxLen, NA

Ch(tok, filters, exact) == [tok |-> tok, filters |-> filters, exact |-> exact]
\* the regular expression of the regex tokenizer: \w+|[^\w\s]+
WordsOrSymbols == <<92, 119, 43, 124, 91, 94, 92, 119, 92, 115, 93, 43>>
Chains == <<
  Ch(<<"raw">>, <<>>, TRUE),                                                                   \*  1
  Ch(<<"raw">>, << <<"lower">> >>, TRUE),                                                      \*  2
  Ch(<<"whitespace">>, <<>>, TRUE),                                                            \*  3
  Ch(<<"whitespace">>, << <<"lower">>, <<"removelong", 4>> >>, TRUE),                          \*  4
  Ch(<<"simple">>, <<>>, TRUE),                                                                \*  5
  Ch(<<"simple">>, << <<"lower">> >>, TRUE),                                                   \*  6
  Ch(<<"simple">>, << <<"lower">>, <<"asciifold">> >>, TRUE),                                  \*  7
  Ch(<<"simple">>, << <<"asciifold">>, <<"lower">> >>, TRUE),                                  \*  8
  Ch(<<"simple">>, << <<"alphanum">> >>, TRUE),                                                \*  9
  Ch(<<"simple">>, << <<"removelong", 3>>, <<"lower">>, <<"stop", << <<97>>, <<233>>, <<98, 55>> >> >> >>, TRUE),  \* 10
  Ch(<<"ngram", 1, 1, FALSE>>, <<>>, TRUE),                                                    \* 11
  Ch(<<"ngram", 1, 2, FALSE>>, <<>>, TRUE),                                                    \* 12
  Ch(<<"ngram", 2, 3, FALSE>>, <<>>, TRUE),                                                    \* 13
  Ch(<<"ngram", 2, 3, TRUE>>, <<>>, TRUE),                                                     \* 14
  Ch(<<"ngram", 1, 3, TRUE>>, << <<"lower">> >>, TRUE),                                        \* 15
  Ch(<<"ngram", 3, 3, FALSE>>, <<>>, TRUE),                                                    \* 16
  Ch(<<"facet">>, <<>>, TRUE),                                                                 \* 17
  Ch(<<"simple">>, << <<"removelong", 40>>, <<"lower">> >>, TRUE),                             \* 18  the "default" analyzer
  Ch(<<"simple">>, << <<"lower">>, <<"stemmer">> >>, FALSE),                                   \* 19  offsets only
  Ch(<<"simple">>, << <<"splitcompound", << <<97>>, <<66, 55>>, <<55>>, <<233, 97>> >> >> >>, FALSE),   \* 20  offsets only
  Ch(<<"regex", WordsOrSymbols>>, <<>>, FALSE),                                                \* 21  offsets only
  Ch(<<"whitespace">>, << <<"stemmer">> >>, FALSE) >>                                          \* 22  offsets only
SnippetChains == {6, 7, 12, 15, 18, 19}     \* (all lower-case their tokens)

VARIABLES text, done
gvars == <<text, done>>
Pick(S) == RandomElement(S)
Cls == [i \in 1..NA |-> ClassAlphabet[i]]

GInit == text = <<>> /\ done = FALSE /\ PrintT(<<"CHAINS", ToJson(Chains)>>)

Extend ==
  /\ Mode = "texts" /\ Len(text) < MaxLen
  /\ \E i \in 1..NA : text' = Append(text, Cls[i]) /\ PrintT(<<"T", text'>>)
  /\ UNCHANGED done

R(r, k) == r[((k - 1) % Len(r)) + 1]
RandomText(r, n) == [x \in 1..n |-> ClassAlphabet[1 + ((R(r, x) + (x * R(r, x + 7))) % Len(ClassAlphabet))]]
\* (an operator with a parameter: TLC evaluates a constant definition once and would reuse the vector)
Vec(x) == <<Pick(x..10079), Pick(0..10079), Pick(0..10079), Pick(0..10079), Pick(0..10079), Pick(0..10079), Pick(0..10079),
         Pick(0..10079), Pick(0..10079), Pick(0..10079), Pick(0..10079), Pick(0..10079), Pick(0..10079), Pick(0..10079),
         Pick(0..10079), Pick(0..10079), Pick(0..10079), Pick(0..10079), Pick(0..10079), Pick(0..10079), Pick(0..10079)>>
NewRandom ==
  /\ Mode = "random" /\ ~done
  /\ \E r \in {Vec(0)} : PrintT(<<"T", RandomText(r, 6 + (r[1] % 35))>>)
  /\ done' = TRUE /\ UNCHANGED text

\* Mode = "long" (-simulate): texts of 150..400 code points
NewLongText ==
  /\ Mode = "long" /\ ~done
  /\ \E r \in {Vec(0)} : PrintT(<<"T", RandomText(r, 150 + (r[1] % 250))>>)
  /\ done' = TRUE /\ UNCHANGED text

NewSnippet ==
  /\ Mode = "snippets" /\ ~done
  /\ \E r \in {Vec(0)} :
       LET t == RandomText(r, 1 + (r[1] % 9))
           ci == (<<6, 7, 12, 15, 18, 19, 6, 18>>)[1 + (r[2] % 8)]
           exactChain == IF ci = 19 THEN 6 ELSE ci
           toks == Analyze(t, Chains[exactChain])
           term(k) == IF toks = <<>> \/ r[k] % 5 = 0 THEN <<122>> ELSE toks[1 + (r[k + 1] % Len(toks))][4]
           terms == IF r[3] % 2 = 0 THEN <<term(4)>> ELSE <<term(4), term(6)>>
           max == (<<1, 2, 3, 5, 8, 30>>)[1 + (r[8] % 6)]
       IN  IF LongestToken(t, Chains[exactChain]) > max THEN TRUE
           ELSE PrintT(<<"SN", ToJson([text |-> t, chain |-> ci, terms |-> terms, max |-> max])>>)
  /\ done' = TRUE /\ UNCHANGED text

\* huge texts as runs <<code point, count>>: megabyte-long tokens, long runs of blanks, multi-byte runs
BigTexts == << << <<97, 1000000>> >>, << <<20013, 300000>> >>, << <<97, 3>>, <<32, 500000>>, <<233, 4>> >>,
               << <<128512, 200000>>, <<97, 1>> >>, << <<304, 100000>>, <<45, 1>>, <<570, 100000>> >>,
               << <<97, 100000>>, <<0, 1>>, <<66, 100000>> >> >>
BigChains == {1, 3, 5, 6, 18, 17, 19, 21}
NewBig ==
  /\ Mode = "big" /\ ~done
  /\ \A b \in 1..Len(BigTexts) : \A c \in BigChains : PrintT(<<"BIG", ToJson([runs |-> BigTexts[b], chain |-> c])>>)
  /\ done' = TRUE /\ UNCHANGED text

GNext == Extend \/ NewRandom \/ NewLongText \/ NewSnippet \/ NewBig
GSpec == GInit /\ [][GNext]_gvars
=============================================================================
