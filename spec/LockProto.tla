------------------------------ MODULE LockProto ------------------------------
(***************************************************************************)
(* The lock files of a Directory (.tantivy-meta.lock, blocking: it keeps   *)
(* the garbage collector away from a reader that is loading - C05 / C10;   *)
(* .tantivy-writer.lock, non-blocking: C18) as MmapDirectory implements    *)
(* them: open (create if absent) the file at a fixed path, flock the INODE *)
(* that was opened, release by closing the handle.  The lock file is never *)
(* unlinked: a lock held on an inode the path no longer names protects     *)
(* nothing.  The two must-fail configurations are the seeded changes       *)
(* C05-s13 (unlink on release) and C18-s13 (a refused attempt unlinks).    *)
(* src/directory/mmap_directory/mod.rs acquire_lock / ReleaseLockFile.     *)
(***************************************************************************)
EXTENDS Naturals, FiniteSets

CONSTANTS Threads, MaxInodes,
          Blocking,            \* TRUE: META_LOCK (lock_exclusive waits); FALSE: INDEX_WRITER_LOCK (try_lock_exclusive)
          UnlinkOnRelease,     \* FALSE = code
          UnlinkOnRefusal      \* FALSE = code

VARIABLES pathIno,   \* inode the path names (0: no such file)
          nextIno,
          lockedBy,  \* [inode -> thread or 0]
          pc         \* [thread -> [st: "idle" | "opened" | "holding", ino]]
vars == <<pathIno, nextIno, lockedBy, pc>>

Idle == [st |-> "idle", ino |-> 0]
Init == pathIno = 0 /\ nextIno = 1 /\ lockedBy = [i \in 1..MaxInodes |-> 0] /\ pc = [t \in Threads |-> Idle]

\* OpenOptions::new().write(true).create(true).open(path)
Open(t) ==
  /\ pc[t].st = "idle"
  /\ IF pathIno = 0
     THEN /\ nextIno <= MaxInodes
          /\ pathIno' = nextIno /\ nextIno' = nextIno + 1 /\ pc' = [pc EXCEPT ![t] = [st |-> "opened", ino |-> nextIno]]
     ELSE /\ pc' = [pc EXCEPT ![t] = [st |-> "opened", ino |-> pathIno]] /\ UNCHANGED <<pathIno, nextIno>>
  /\ UNCHANGED lockedBy
\* flock(LOCK_EX): granted when nobody holds the inode
Acquire(t) ==
  /\ pc[t].st = "opened" /\ lockedBy[pc[t].ino] = 0
  /\ lockedBy' = [lockedBy EXCEPT ![pc[t].ino] = t]
  /\ pc' = [pc EXCEPT ![t].st = "holding"]
  /\ UNCHANGED <<pathIno, nextIno>>
\* try_lock_exclusive on a held inode: LockBusy, the handle is closed
Refused(t) ==
  /\ ~Blocking /\ pc[t].st = "opened" /\ lockedBy[pc[t].ino] # 0
  /\ pc' = [pc EXCEPT ![t] = Idle]
  /\ pathIno' = IF UnlinkOnRefusal THEN 0 ELSE pathIno
  /\ UNCHANGED <<nextIno, lockedBy>>
\* the guard is dropped: the handle is closed (the lock goes with it)
Release(t) ==
  /\ pc[t].st = "holding"
  /\ lockedBy' = [lockedBy EXCEPT ![pc[t].ino] = 0]
  /\ pc' = [pc EXCEPT ![t] = Idle]
  /\ pathIno' = IF UnlinkOnRelease THEN 0 ELSE pathIno
  /\ UNCHANGED nextIno

Next == \E t \in Threads : Open(t) \/ Acquire(t) \/ Refused(t) \/ Release(t)
Spec == Init /\ [][Next]_vars

\* the lock is a lock: at most one holder at any time
Mutex == Cardinality({t \in Threads : pc[t].st = "holding"}) <= 1
\* the code never needs a second inode
OneInode == nextIno <= 2
=============================================================================
