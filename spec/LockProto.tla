------------------------------ MODULE LockProto ------------------------------
(***************************************************************************)
(* The lock files of a Directory (.tantivy-meta.lock, blocking: it keeps   *)
(* the garbage collector away from a reader that is loading - C05 / C10;   *)
(* .tantivy-writer.lock, non-blocking: C18) as MmapDirectory implements    *)
(* them: open (create if absent) the file at a fixed path, flock the INODE *)
(* that was opened, release by closing the handle.  The lock file is never *)
(* unlinked: a lock held on an inode the path no longer names protects     *)
(* nothing.  The two must-fail configurations are the seeded changes       *)
(* C05-s13 (unlink on release) and C18-s13 (a refused attempt unlinks).    *)
(* src/directory/mmap_directory/mod.rs acquire_lock / ReleaseLockFile.     *)
(***************************************************************************)
EXTENDS Naturals, FiniteSets

CONSTANTS
  \* @type: Set(Str);
  Threads,
  \* @type: Int;
  MaxInodes,
  \* @type: Bool;
  Blocking,            \* TRUE: META_LOCK (lock_exclusive waits); FALSE: INDEX_WRITER_LOCK (try_lock_exclusive)
  \* @type: Bool;
  UnlinkOnRelease,     \* FALSE = code
  \* @type: Bool;
  UnlinkOnRefusal      \* FALSE = code

VARIABLES
  \* @type: Int;
  pathIno,   \* inode the path names (0: no such file)
  \* @type: Int;
  nextIno,
  \* @type: Int -> Str;
  lockedBy,  \* [inode -> thread or Nobody]
  \* @type: Str -> {st: Str, ino: Int};
  pc         \* [thread -> [st: "idle" | "opened" | "holding", ino]]
vars == <<pathIno, nextIno, lockedBy, pc>>

Nobody == "nobody"
\* (written as a filter of a constant range: Apalache does not take 1..MaxInodes; at most 8 inodes)
Inodes == {i \in 1..8 : i <= MaxInodes}
Idle == [st |-> "idle", ino |-> 0]
Init == pathIno = 0 /\ nextIno = 1 /\ lockedBy = [i \in Inodes |-> Nobody] /\ pc = [t \in Threads |-> Idle]

\* OpenOptions::new().write(true).create(true).open(path)
Open(t) ==
  /\ pc[t].st = "idle"
  /\ IF pathIno = 0
     THEN /\ nextIno <= MaxInodes
          /\ pathIno' = nextIno /\ nextIno' = nextIno + 1 /\ pc' = [pc EXCEPT ![t] = [st |-> "opened", ino |-> nextIno]]
     ELSE /\ pc' = [pc EXCEPT ![t] = [st |-> "opened", ino |-> pathIno]] /\ UNCHANGED <<pathIno, nextIno>>
  /\ UNCHANGED lockedBy
\* flock(LOCK_EX): granted when nobody holds the inode
Acquire(t) ==
  /\ pc[t].st = "opened" /\ lockedBy[pc[t].ino] = Nobody
  /\ lockedBy' = [lockedBy EXCEPT ![pc[t].ino] = t]
  /\ pc' = [pc EXCEPT ![t].st = "holding"]
  /\ UNCHANGED <<pathIno, nextIno>>
\* try_lock_exclusive on a held inode: LockBusy, the handle is closed
Refused(t) ==
  /\ ~Blocking /\ pc[t].st = "opened" /\ lockedBy[pc[t].ino] # Nobody
  /\ pc' = [pc EXCEPT ![t] = Idle]
  /\ pathIno' = IF UnlinkOnRefusal THEN 0 ELSE pathIno
  /\ UNCHANGED <<nextIno, lockedBy>>
\* the guard is dropped: the handle is closed (the lock goes with it)
Release(t) ==
  /\ pc[t].st = "holding"
  /\ lockedBy' = [lockedBy EXCEPT ![pc[t].ino] = Nobody]
  /\ pc' = [pc EXCEPT ![t] = Idle]
  /\ pathIno' = IF UnlinkOnRelease THEN 0 ELSE pathIno
  /\ UNCHANGED nextIno

Next == \E t \in Threads : Open(t) \/ Acquire(t) \/ Refused(t) \/ Release(t)
Spec == Init /\ [][Next]_vars

\* the lock is a lock: at most one holder at any time
Mutex == Cardinality({t \in Threads : pc[t].st = "holding"}) <= 1
\* the code never needs a second inode
OneInode == nextIno <= 2

\* Inductive invariant of the code as it is (no unlink), for any number of inodes: checked with Apalache
\* (LockProtoInd.tla).  Only inode 1 ever exists; a thread holds the guard iff inode 1 is locked by it.
IndInv ==
  /\ MaxInodes >= 1
  /\ pathIno \in {0, 1} /\ nextIno = pathIno + 1
  /\ lockedBy \in [Inodes -> Threads \cup {Nobody}]
  /\ pc \in [Threads -> [st : {"idle", "opened", "holding"}, ino : {0, 1}]]
  /\ \A t \in Threads : pc[t].st = "idle" => pc[t].ino = 0
  /\ \A t \in Threads : pc[t].st # "idle" => (pc[t].ino = 1 /\ pathIno = 1)
  /\ \A t \in Threads : (pc[t].st = "holding") <=> (lockedBy[1] = t)
  /\ \A i \in Inodes \ {1} : lockedBy[i] = Nobody
=============================================================================
