SPECIFICATION Spec
CONSTANTS
  SyncAfterMeta = TRUE
  SyncAfterRegister = FALSE
  SyncBeforeMeta = FALSE
  GcBeforeMeta = FALSE
INVARIANT CrashSafe
CHECK_DEADLOCK FALSE
