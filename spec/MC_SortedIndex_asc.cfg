SPECIFICATION Spec
CONSTANTS
  Order = "asc"
  Keys = {0, 1}
  Terms = {"a", "b"}
  MaxDocs = 3
  MaxOps = 6
  PermuteOpstamps = TRUE
  StackNeedsNoNulls = TRUE
INVARIANT SegsSorted
INVARIANT DeletesHitTheRightDocs
INVARIANT NoDup
PROPERTY MergeKeepsContent
CHECK_DEADLOCK FALSE
