---------------------------- MODULE GrammarTrace ----------------------------
(* Trace specification of C16: judges what harness/src/bin/qparse_driver.rs recorded.          *)
(*  batch    - the four parsers on a batch of strings: every observation must be TotalOk;       *)
(*  meaning  - an abstract query, the texts it was printed as, and for each text and mode       *)
(*             (default OR / conjunction) the documents the strict and the lenient parse match; *)
(*  nested   - a nest of n levels (after the repair of C16-e);                                    *)
(*  timeout / memout / crash / tool_error - no action: a parser that hangs, eats memory or      *)
(*             kills the process is a violation of totality.                                     *)
EXTENDS Grammar, Json, IOUtils, TLC

Rec == ndJsonDeserialize(IOEnv.TRACE)
VARIABLE l
Ev == Rec[l]

TReset == Ev.ev = "reset"
\* (guards are written as expressions `(...) = TRUE`: inside an action TLC would branch on every \/ and \E)
TBatch == Ev.ev = "batch" /\ Len(Ev.obs) = Len(Ev.inputs) /\ (\A j \in 1..Len(Ev.obs) : TotalOk(Ev.obs[j])) = TRUE

\* `field:*` (exists) is parsed by the grammar but refused by QueryParser ("unsupported query")
ModeOk(q, o, conj) ==
  CASE q[1] = "ex" ->
         /\ o.s = "err" /\ o.err = "UnsupportedQuery"
         /\ o.l = "ok" /\ o.lerrs = <<"UnsupportedQuery">>
    [] AllNegative(q) ->
         /\ o.s = "err" /\ o.err = "AllButQueryForbidden"
         /\ o.l = "ok" /\ SeqSet(o.ldocs) = NegatedSet(q, conj) /\ Len(o.ldocs) = Cardinality(SeqSet(o.ldocs))
         /\ o.lerrs = <<"AllButQueryForbidden">>
    [] OTHER ->
         /\ o.s = "ok" /\ SeqSet(o.docs) = MatchSet(q, conj) /\ Len(o.docs) = Cardinality(SeqSet(o.docs))
         /\ o.l = "ok" /\ o.ldocs = o.docs /\ o.lerrs = <<>>
\* the same text given to a QueryParser without any default field: a query whose words all get a field
\* (their own or a group's) means the same; any other is refused for want of a default field
NoDefOk(q, o) ==
  CASE q[1] = "ex" -> ModeOk(q, o, FALSE)
    [] Unscoped(q, "") ->
         /\ o.s = "err" /\ o.err = "NoDefaultFieldDeclared"
         /\ o.l = "ok" /\ "NoDefaultFieldDeclared" \in SeqSet(o.lerrs)
    [] OTHER -> ModeOk(q, o, FALSE)
TMeaning ==
  /\ Ev.ev = "meaning"
  /\ (\A j \in 1..Len(Ev.obs) : /\ ModeOk(Ev.q, Ev.obs[j].or, FALSE) /\ ModeOk(Ev.q, Ev.obs[j].and, TRUE)
                                  /\ ("nodef" \in DOMAIN Ev.obs[j] => NoDefOk(Ev.q, Ev.obs[j].nodef))) = TRUE

\* one nest pre^n x post^n (closed = with its closing parentheses) - only recorded once the nesting
\* limit is in the code: nothing crashes, and the limit is where Grammar!NestingLimit says
TNested == Ev.ev = "nested" /\ (TotalOk(Ev.obs) /\ DeepOk(Ev.n, Ev.closed, Ev.obs)) = TRUE

TNext == l <= Len(Rec) /\ l' = l + 1 /\ (TReset \/ TBatch \/ TMeaning \/ TNested)
TInit == l = 1
TSpec == TInit /\ [][TNext]_l

Accepted ==
  IF TLCGet("stats").diameter - 1 = Len(Rec) THEN TRUE
  ELSE Print(<<"REJECTED", TLCGet("stats").diameter, Rec[TLCGet("stats").diameter]>>, FALSE)
=============================================================================
