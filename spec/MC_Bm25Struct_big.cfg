SPECIFICATION Spec
CONSTANTS
  Words = {"a", "b"}
  MaxLen = 2
  Pads = {0}
  MaxDocs = 4
  AllowDeletes = FALSE
  PerSegmentStats = FALSE
  Queries <- MCQueries
  Table <- MCTable
  MCLeaderFieldNorm = FALSE
INVARIANT StatsSegmentationIndependent
INVARIANT ScoreSegmentationIndependent
INVARIANT TermIffMatches
INVARIANT ScoresUseSearcherStats
CHECK_DEADLOCK FALSE
