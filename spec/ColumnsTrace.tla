----------------------------- MODULE ColumnsTrace -----------------------------
(* Judge of the runs recorded by harness/src/bin/columns_driver.rs (C08).  Values are ranks   *)
(* in the sorted list of distinct values of the column (certificate in the `case` event).     *)
(* `table` events are the inputs; every `read` event is a columnar that was read back - a      *)
(* fresh one (no `rows` member), or a merged / indexed one whose row i must be the input row        *)
(* rows[i] = <<table, row>> (the merge order given to merge_columnar, or the stored id).       *)
EXTENDS Columns, Json, IOUtils

Rec == ndJsonDeserialize(IOEnv.TRACE)

VARIABLES l, tables
tvars == <<l, tables, cvars>>
Ev == Rec[l]
Has(r, k) == k \in DOMAIN r

TCase ==
  /\ Ev.ev = "case"
  \* the certificate lists distinct values
  /\ {k \in DOMAIN Ev.certs : Cardinality(SeqSet(Ev.certs[k])) # Len(Ev.certs[k])} = {}
  /\ tables' = <<>>
  /\ UNCHANGED cvars

\* a table: nrows, cols = function key -> [off, flat, classes]
(* ---- huge sparse tables (more than 16 blocks of 65,536 rows, a handful of values): the optional index is a  *)
(* partial map row -> rank and select is its inverse, whatever the block structure (whole blocks may be empty). *)
(* A column is the sequence of its non-empty rows <<row, values>>.                                              *)
SparseWellFormed(rows, n) ==
  /\ {i \in 1..Len(rows) : ~(rows[i][1] >= 0 /\ rows[i][1] < n /\ rows[i][2] # <<>>)} = {}
  /\ {i \in 1..(Len(rows) - 1) : rows[i][1] >= rows[i + 1][1]} = {}
ShiftRows(rows, d) == [i \in 1..Len(rows) |-> <<rows[i][1] + d, rows[i][2]>>]
RECURSIVE SumRows(_)
SumRows(ts) == IF ts = <<>> THEN 0 ELSE tables[Head(ts)].nrows + SumRows(Tail(ts))
RECURSIVE StackSparse(_, _, _)
StackSparse(key, ts, d) ==
  IF ts = <<>> THEN <<>>
  ELSE LET T == tables[Head(ts)] IN
       (IF key \in DOMAIN T.cols THEN ShiftRows(T.cols[key].rows, d) ELSE <<>>) \o StackSparse(key, Tail(ts), d + T.nrows)
SparseExpected(key) == IF Has(Ev, "stack") THEN StackSparse(key, Ev.stack, 0)
                       ELSE IF key \in DOMAIN tables[Ev.t].cols THEN tables[Ev.t].cols[key].rows ELSE <<>>
SparseRangeOk(c, rg) ==
  rg.rows = SelectSeq([i \in 1..Len(c.rows) |-> c.rows[i][1]],
                      LAMBDA r : LET vs == c.rows[CHOOSE i \in 1..Len(c.rows) : c.rows[i][1] = r][2]
                                 IN {j \in 1..Len(vs) : rg.lo <= vs[j] /\ vs[j] < rg.hiu} # {})
SparseColOk(c) ==
  IF Has(c, "error") THEN FALSE ELSE IF Has(c, "panic") THEN FALSE
  ELSE /\ c.nrows = Ev.nrows /\ SparseWellFormed(c.rows, c.nrows)
       /\ c.rows = SparseExpected(c.key)                                  \* exactly the rows and values written / stacked
       /\ c.card # "full"
       /\ (c.card = "optional" => {i \in 1..Len(c.rows) : Len(c.rows[i][2]) # 1} = {})
       /\ (Has(c, "dict") => StrictlyIncreasing(c.dict))
       /\ (Has(c, "ranges") =>
             /\ c.first_ok
             /\ {i \in 1..Len(c.rows) : {j \in 1..Len(c.rows[i][2]) : ~(c.min_below <= c.rows[i][2][j] /\ c.rows[i][2][j] < c.max_upto)} # {}} = {}
             /\ {j \in 1..Len(c.ranges) : ~SparseRangeOk(c, c.ranges[j])} = {})
       \* select (iter_non_null_docs of the optional index) enumerates exactly the rows holding a value
       /\ (Has(c, "non_null") => c.non_null = [i \in 1..Len(c.rows) |-> c.rows[i][1]])
SparseReadOk ==
  /\ Ev.nrows = (IF Has(Ev, "stack") THEN SumRows(Ev.stack) ELSE tables[Ev.t].nrows)
  /\ {i \in 1..Len(Ev.cols) : ~SparseColOk(Ev.cols[i])} = {}
  /\ LET keys == {Ev.cols[i].key : i \in 1..Len(Ev.cols)}
         srcs == IF Has(Ev, "stack") THEN {Ev.stack[i] : i \in 1..Len(Ev.stack)} ELSE {Ev.t}
     IN {t \in srcs : {k \in DOMAIN tables[t].cols : k \notin keys /\ tables[t].cols[k].rows # <<>>} # {}} = {}

TTable ==
  /\ Ev.ev = "table" /\ Ev.t = Len(tables) + 1
  /\ IF Has(Ev, "sparse")        \* a huge table: the columns list their non-empty rows <<row, values>>, rows increasing
     THEN {i \in 1..Len(Ev.cols) : ~SparseWellFormed(Ev.cols[i].rows, Ev.nrows)} = {}
     ELSE {i \in 1..Len(Ev.cols) : ~(WellFormed(Ev.cols[i].off, Ev.cols[i].flat) /\ Len(Ev.cols[i].off) = Ev.nrows + 1)} = {}
  /\ tables' = Append(tables, [nrows |-> Ev.nrows,
                               cols |-> [k \in {Ev.cols[i].key : i \in 1..Len(Ev.cols)} |->
                                           Ev.cols[CHOOSE i \in 1..Len(Ev.cols) : Ev.cols[i].key = k]]])
  /\ UNCHANGED cvars

\* the input row that row r (1-based) of the columnar read must be: <<table, row (0-based)>>
Ident == ~Has(Ev, "rows")
Src(r) == IF Ident THEN <<Ev.t, r - 1>> ELSE Ev.rows[r]
ExpRow(key, r) ==
  LET s == Src(r)  T == tables[s[1]] IN
  IF key \in DOMAIN T.cols THEN RowOf(T.cols[key].off, T.cols[key].flat, s[2] + 1) ELSE <<>>

\* the values of a column that was read: typed columns carry ranks, dictionary columns ordinals + dictionary
ValsOf(c) == IF Has(c, "dict") THEN [i \in 1..Len(c.ords) |-> IF c.ords[i] < Len(c.dict) THEN c.dict[c.ords[i] + 1] ELSE -3] ELSE c.flat

\* a range is given by the places of its bounds in the certificate: values with rank in lo .. hiu - 1 are inside
RangeOk(c, vals, rg) ==
  /\ StrictlyIncreasing(rg.rows)
  /\ SeqSet(rg.rows) = {r - 1 : r \in {x \in 1..c.nrows : \E i \in (c.off[x] + 1)..c.off[x + 1] : rg.lo <= vals[i] /\ vals[i] < rg.hiu}}

\* ExistsQuery: exactly the rows that hold at least one value, in increasing order
ExistsOk(c, q) ==
  /\ StrictlyIncreasing(q.rows)
  /\ SeqSet(q.rows) = {r - 1 : r \in {x \in 1..c.nrows : c.off[x] < c.off[x + 1]}}

SrcTables == IF Ident THEN {Ev.t} ELSE {Ev.rows[r][1] : r \in 1..Len(Ev.rows)}
\* classes of the numerical values recorded under this key in the tables this columnar comes from
ClassesOf(key) == UNION {IF key \in DOMAIN tables[t].cols THEN SeqSet(tables[t].cols[key].classes) ELSE {} : t \in SrcTables}
Small(cl) == {IF x = "imax" THEN "small" ELSE x : x \in cl}

ColOk(c) ==
  IF Has(c, "error") \/ Has(c, "panic") THEN FALSE
  ELSE LET vals == ValsOf(c)  n == Ev.nrows IN
    /\ c.nrows = n /\ Len(c.off) = n + 1 /\ WellFormed(c.off, vals)
    \* every row holds exactly the values added, in the order added
    /\ {r \in 1..n : RowOf(c.off, vals, r) # ExpRow(c.key, r)} = {}
    /\ CardConsistent(c.card, FromFlat(c.off, vals))
    /\ IF Has(c, "dict")
       THEN \* ordinals = ranks in the sorted distinct values: the dictionary is sorted and duplicate free
            /\ StrictlyIncreasing(c.dict) /\ {i \in 1..Len(c.dict) : c.dict[i] < 0} = {}
       ELSE /\ c.first_ok
            \* the reported minimum and maximum bound all values
            /\ {i \in 1..Len(vals) : ~(c.min_below <= vals[i] /\ vals[i] < c.max_upto)} = {}
            /\ {j \in 1..Len(c.ranges) : ~RangeOk(c, vals, c.ranges[j])} = {}
    \* a freshly written numerical column has the first of i64, u64, f64 that holds all values
    /\ (Ident /\ c.type \in {"i64", "u64", "f64"} /\ ~Has(Ev, "phase")) => c.type = CoercedType(Small(ClassesOf(c.key)))

TRead ==
  /\ Ev.ev = "read" /\ ~Has(Ev, "sparse")
  /\ UNCHANGED <<tables, cvars>>
  /\ (Ident => Ev.nrows = tables[Ev.t].nrows)
  /\ (~Ident => Len(Ev.rows) = Ev.nrows)
  /\ {i \in 1..Len(Ev.cols) : ~ColOk(Ev.cols[i])} = {}
  \* no column is lost: a key with a value in some row was read
  /\ LET keys == {Ev.cols[i].key : i \in 1..Len(Ev.cols)} IN
     \* (only_listed_columns is set by the check when it re-judges the columns of a rejected event one by one)
     IF Has(Ev, "only_listed_columns") THEN TRUE
     ELSE {r \in 1..Ev.nrows : {k \in DOMAIN tables[Src(r)[1]].cols : k \notin keys /\ ExpRow(k, r) # <<>>} # {}} = {}
  \* one column per key
  /\ Cardinality({Ev.cols[i].key : i \in 1..Len(Ev.cols)}) = Len(Ev.cols)
  \* RangeQuery on a fast field returns the rows holding a value in the range
  /\ (Has(Ev, "queries") =>
        {j \in 1..Len(Ev.queries) :
           LET q == Ev.queries[j]
               cs == {i \in 1..Len(Ev.cols) : Ev.cols[i].key = q.key}
           IN IF Has(q, "error") \/ Has(q, "panic") THEN TRUE
              ELSE IF cs = {} THEN q.rows # <<>>
              ELSE LET c == Ev.cols[CHOOSE i \in cs : TRUE] IN
                   IF Has(q, "exists") THEN ~ExistsOk(c, q)
                   ELSE IF Has(c, "flat") THEN ~RangeOk(c, c.flat, q) ELSE FALSE} = {})

TReadSparse ==
  /\ Ev.ev = "read" /\ Has(Ev, "sparse")
  /\ UNCHANGED <<tables, cvars>>
  /\ SparseReadOk

TEnd == Ev.ev = "end" /\ UNCHANGED <<tables, cvars>>

TNext ==
  /\ l <= Len(Rec) /\ l' = l + 1
  /\ \/ TCase \/ TTable \/ TRead \/ TReadSparse \/ TEnd

TInit == l = 1 /\ tables = <<>> /\ Init
TSpec == TInit /\ [][TNext]_tvars

Accepted ==
  IF TLCGet("stats").diameter - 1 = Len(Rec) THEN TRUE
  ELSE Print(<<"REJECTED", TLCGet("stats").diameter, Rec[TLCGet("stats").diameter]>>, FALSE)
=============================================================================
