SPECIFICATION GSpec
CONSTANTS
  NK = 5
  Terms = {"a", "b"}
  MaxOps = 14
  MaxDocs = 9
CHECK_DEADLOCK FALSE
