SPECIFICATION TSpec
CONSTANTS
  CursorIds = {1, 2, 3}
POSTCONDITION Accepted
INVARIANT TypeOK
CHECK_DEADLOCK FALSE
