SPECIFICATION Spec
CONSTANTS
  Cursors = {c1, c2, c3}
  MaxOps = 3
  SecondLook = FALSE
CONSTRAINT Bound
INVARIANT NoLostDelete
CHECK_DEADLOCK FALSE
