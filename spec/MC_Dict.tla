------------------------------ MODULE MC_Dict ------------------------------
(* Bounded model checking of Dict: the builder state machine, and - on every dictionary it   *)
(* can build - the lemmas relating the evaluable operators to their textbook definitions.    *)
EXTENDS DictBuild, TLC
CONSTANTS Bytes, MaxLen

Strings(B, n) == UNION {[1..m -> B] : m \in 0..n}
MCKeyUniverse == Strings(Bytes, MaxLen)
KU == MCKeyUniverse
D == Built

LowerBounds == {<<"unb", <<>>>>} \cup {<<x, k>> : x \in {"ge", "gt"}, k \in KU}
UpperBounds == {<<"unb", <<>>>>} \cup {<<x, k>> : x \in {"le", "lt"}, k \in KU}

L_Count   == \A k \in KU : CountLess(D, k) = CountLessDef(D, k)
L_Lookup  == \A k \in KU :
               /\ Has(D, k) <=> k \in SeqSet(D.keys)
               /\ Get(D, k).found = Has(D, k) /\ Ord(D, k).found = Has(D, k)
               /\ Has(D, k) => /\ KeyOfOrd(D, Ord(D, k).ord) = [found |-> TRUE, k |-> k]
                               /\ ValOfOrd(D, Ord(D, k).ord).v = Get(D, k).v
L_Ordinal == \A o \in 0..(N(D) + 1) :
               /\ KeyOfOrd(D, o).found <=> o < N(D)
               /\ o < N(D) => Ord(D, KeyOfOrd(D, o).k) = [found |-> TRUE, ord |-> o]
\* ordinal-or-successor names the least key >= k when there is one
L_OrdOrNext == \A k \in KU :
               LET c == CountLess(D, k) IN
               /\ OrdOrNextOk(D, k, Has(D, k), c)
               /\ c < N(D) => LexLeq(k, D.keys[c + 1]) /\ \A i \in 1..c : LexLess(D.keys[i], k)
               /\ c = N(D) => \A i \in 1..N(D) : LexLess(D.keys[i], k)
L_Range   == \A lo \in LowerBounds, hi \in UpperBounds : Range(D, lo, hi) = RangeDef(D, lo, hi)
L_Prefix  == \A p \in KU : Prefix(D, p) = PrefixAsRange(D, p)
L_Search  == \A p \in KU :
               /\ Search(D, [t |-> "prefix", p |-> p], <<"unb", <<>>>>, <<"unb", <<>>>>) = Prefix(D, p)
               /\ Search(D, [t |-> "lev", q |-> p, d |-> 0, tr |-> FALSE, pre |-> FALSE], <<"unb", <<>>>>, <<"unb", <<>>>>)
                    = Range(D, <<"ge", p>>, <<"le", p>>)
               /\ Search(D, [t |-> "lev", q |-> p, d |-> 0, tr |-> TRUE, pre |-> TRUE], <<"unb", <<>>>>, <<"unb", <<>>>>)
                    = Prefix(D, p)
               /\ Search(D, [t |-> "all"], <<"ge", p>>, <<"unb", <<>>>>) = Range(D, <<"ge", p>>, <<"unb", <<>>>>)
L_Limit   == \A n \in 0..3 : LimitOk(SubSeq(Slice(D, 0, N(D)), 1, Min2(n, N(D))), Slice(D, 0, N(D)), n)

\* merge with every small second dictionary
SmallDicts == {[keys |-> ks, vals |-> [i \in 1..Len(ks) |-> 100 + i]] :
                 ks \in {s \in Strings(KU, 2) : StrictlySorted(s)}}
L_Merge   == \A d2 \in SmallDicts :
               LET srcs == <<D, d2>>
                   mk == MergeKeysDef(srcs)
                   out == [keys |-> mk, vals |-> [i \in 1..Len(mk) |-> SumOver(srcs, mk[i], 1)]]
                   maps == [s \in 1..2 |-> [i \in 1..N(srcs[s]) |-> Ord(out, srcs[s].keys[i]).ord]]
               IN  /\ IsMergeOf(out, srcs) /\ MapsOk(out, srcs, maps) /\ MergedValsOk(out, srcs, "sum")
                   /\ Len(mk) = Cardinality(AllKeys(srcs))
                   /\ \A k \in KU : Has(out, k) <=> (Has(D, k) \/ Has(d2, k))

Lemmas == WellFormed(D) => (L_Count /\ L_Lookup /\ L_Ordinal /\ L_OrdOrNext /\ L_Range /\ L_Prefix /\ L_Search /\ L_Limit)
MergeLemma == WellFormed(D) => L_Merge

\* constant-level lemmas (checked once, at start-up)
S3 == Strings({1, 2}, 3)
ASSUME OrderLemma == \A a, b \in Strings({0, 1, 255}, 2) \cup S3 : LexLess(a, b) = LexLessDef(a, b)
ASSUME LevLemma == \A q, k \in S3 : \A dd \in 0..2 : \A tr, pre \in BOOLEAN :
                      LevMatch(q, k, dd, tr, pre) = LevMatchDef(q, k, dd, tr, pre)
ASSUME LevExamples == /\ DistDef(<<1, 2>>, <<2, 1>>, FALSE) = 2 /\ DistDef(<<1, 2>>, <<2, 1>>, TRUE) = 1
                      /\ DistDef(<<3, 1>>, <<1, 2, 3>>, TRUE) = 3       \* optimal string alignment, not Damerau
                      /\ LevMatch(<<1, 2, 3, 4>>, <<2, 1, 4, 3>>, 2, TRUE, FALSE) /\ ~LevMatch(<<1, 2, 3, 4>>, <<2, 1, 4, 3>>, 2, FALSE, FALSE)
                      /\ LevMatch(<<1, 2>>, <<2, 1, 9, 9>>, 1, TRUE, TRUE) /\ ~LevMatch(<<1, 2>>, <<2, 1, 9, 9>>, 1, TRUE, FALSE)
lit(b) == <<"lit", b>>
ASSUME ReLemma == \A k \in S3 :
   /\ ReMatch(<<"star", <<"alt", lit(1), lit(2)>>>>, k)
   /\ ReMatch(<<"cat", lit(1), <<"star", <<"dot">>>>>>, k) = (k # <<>> /\ k[1] = 1)
   /\ ReMatch(<<"plus", lit(1)>>, k) = (k # <<>> /\ \A i \in 1..Len(k) : k[i] = 1)
   /\ ReMatch(<<"opt", lit(2)>>, k) = (k \in {<<>>, <<2>>})
   /\ ReMatch(<<"cat", <<"star", <<"dot">>>>, <<"cat", lit(2), <<"star", <<"dot">>>>>>>>, k) = (2 \in SeqSet(k))
   /\ ReMatch(<<"eps">>, k) = (k = <<>>)
   /\ ReMatch(<<"dot">>, <<255>>) = FALSE /\ ReMatch(<<"dot">>, <<127>>)
=============================================================================
