SPECIFICATION TSpec
POSTCONDITION Accepted
CHECK_DEADLOCK FALSE
CONSTANTS
  Cap = 8192
  MaxW = 0
  MaxLen = 1000000
  Chunks = {}
  HashOffered = FALSE
