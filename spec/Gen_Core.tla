------------------------------ MODULE Gen_Core ------------------------------
(* Generator configuration of IndexCore: the same actions, plus a history variable holding *)
(* the user-level operations of the behaviour, printed as one JSON line when the behaviour  *)
(* ends.  The harness replays each history on the real IndexWriter (R direction).           *)
EXTENDS IndexCore, Json

VARIABLES hist, fin
gvars == <<vars, hist, fin>>

H(rec) == hist' = Append(hist, rec) /\ UNCHANGED fin

GInit == Init /\ hist = <<>> /\ fin = FALSE

Finish ==
  /\ ~fin /\ nOps >= MaxOps /\ ~prepared.on
  /\ PrintT(<<"HISTORY", ToJson(hist)>>)
  /\ fin' = TRUE /\ UNCHANGED <<vars, hist>>

GNext ==
  /\ ~fin
  /\ \/ \E t \in Terms : UAdd(t) /\ H([op |-> "add", t |-> t])
     \/ \E t \in Terms : UDel(t) /\ H([op |-> "del", t |-> t])
     \/ \E t1, t2 \in Terms : \E b \in BOOLEAN : URun(t1, t2, b) /\ H([op |-> "run", t1 |-> t1, t2 |-> t2, delFirst |-> b])
     \/ UDeleteAll /\ H([op |-> "delete_all"])
     \/ UCommit /\ H([op |-> "commit"])
     \/ URollback /\ H([op |-> "rollback"])
     \/ UPrepare /\ UNCHANGED <<hist, fin>>
     \/ UCommitPrepared("p") /\ H([op |-> "prepare_commit", abort |-> FALSE])
     \/ UAbort /\ H([op |-> "prepare_commit", abort |-> TRUE])
     \/ UDropWriter /\ H([op |-> "drop_writer"])
     \/ UNewWriter /\ H([op |-> "new_writer"])
     \/ (\E w \in Workers : WTake(w) \/ WFlush(w)) /\ UNCHANGED <<hist, fin>>
     \/ PolicyMergeCommitted /\ H([op |-> "merge"])
     \/ PolicyMergeUncommitted /\ UNCHANGED <<hist, fin>>
     \/ (\E m \in merges : RunMerge(m) \/ EndMerge(m)) /\ UNCHANGED <<hist, fin>>
     \/ Finish

GSpec == GInit /\ [][GNext]_gvars
=============================================================================
