SPECIFICATION Spec
CONSTANTS
  Order = "asc"
  Keys = {0, 1}
  Terms = {"a", "b"}
  MaxDocs = 3
  MaxOps = 6
  PermuteOpstamps = TRUE
  StackNeedsNoNulls = TRUE
INVARIANT ReachReorderedDelete
CHECK_DEADLOCK FALSE
