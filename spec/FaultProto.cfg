SPECIFICATION Spec
CONSTANTS
  MaxDocs = 4
  MaxFaults = 2
  DeadWriterStaysDead = TRUE
INVARIANT OkCommitIsComplete
INVARIANT LastCommitIntact
CHECK_DEADLOCK FALSE
