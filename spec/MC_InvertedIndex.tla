--------------------------- MODULE MC_InvertedIndex ---------------------------
EXTENDS InvertedIndex

MCLists == {<<>>, <<0>>, <<3>>, <<0, 1>>, <<1, 4>>, <<0, 2, 3>>, <<1, 2, 5>>, <<0, 1, 2, 3, 4, 5>>}

RECURSIVE SortSet(_)
SortSet(S) == IF S = {} THEN <<>> ELSE LET m == CHOOSE x \in S : \A y \in S : x <= y IN <<m>> \o SortSet(S \ {m})
MCListsAll == {SortSet(S) : S \in SUBSET (0..6)}

\* position arithmetic of the multi-valued example of the documentation of the driver:
\* values <<a b a>> and <<c . . a(len 2)>> : a at 0, 2, 7; c at 4
Ex == << << <<"a", 0, 1>>, <<"b", 1, 1>>, <<"a", 2, 1>> >>, << <<"c", 0, 1>>, <<"a", 3, 2>> >> >>
ASSUME PositionsOf(Toks(Ex), "a") = <<0, 2, 7>> /\ PositionsOf(Toks(Ex), "c") = <<4>> /\ NumTokens(Ex) = 5
ASSUME FieldNormId(0) = 0 /\ FieldNormId(40) = 40 /\ FieldNormId(41) = 40 /\ FieldNormId(42) = 41 /\ FieldNormId(2013265944) = 255
       /\ FieldNormId(2147483647) = 255 /\ FieldNormId(5) = 5
ASSUME \A i \in 1..255 : FieldNormTable[i] < FieldNormTable[i + 1]
ASSUME \A i \in 1..256 : FieldNormId(FieldNormTable[i]) = i - 1
\* an over-long token is dropped: no posting, no position consumed, not counted; one of exactly MaxTokenLen is kept
ExLong == << << <<"a", 0, 1>>, <<"blob", 1, 1, MaxTokenLen + 1>>, <<"b", 2, 1>> >>, << <<"blob", 0, 1, 70000>> >>, << <<"edge", 0, 1, MaxTokenLen>> >> >>
ASSUME NumTokens(ExLong) = 3 /\ Keys(Toks(ExLong)) = {"a", "b", "edge"} /\ PositionsOf(Toks(ExLong), "b") = <<2>>
       /\ PositionsOf(Toks(ExLong), "edge") = <<5>>
ASSUME FacetToks(<<"a", "b">>) = << <<"/", 0>>, <<"/a", 0>>, <<"/a/b", 0>> >>
ASSUME LexLess(<<>>, <<0>>) /\ LexLess(<<1, 2>>, <<1, 3>>) /\ ~LexLess(<<2>>, <<1, 9>>) /\ ~LexLess(<<1>>, <<1>>) /\ LexLess(<<1>>, <<1, 0>>)

\* the index of a concatenation of two collections is the concatenation of the indexes (merge),
\* and the number of (term, document) pairs is the sum of the document frequencies
Coll == { << <<<<"a", 0>>, <<"b", 1>>>>, <<<<"a", 0>>>> >>, << <<<<"b", 0>>, <<"b", 3>>>> >>, << <<>>, <<<<"c", 5>>>> >>, <<>> }
Shift(ps, n) == [j \in 1..Len(ps) |-> [doc |-> ps[j].doc + n, tf |-> ps[j].tf, pos |-> ps[j].pos]]
ASSUME \A x \in Coll : \A y \in Coll : \A k \in {"a", "b", "c"} :
         PostingsOf(x \o y, k) = PostingsOf(x, k) \o Shift(PostingsOf(y, k), Len(x))
ASSUME \A x \in Coll : NumPairs(x) = SumR([i \in 1..3 |-> DocFreq(x, <<"a", "b", "c">>[i])], 3)
=============================================================================
