SPECIFICATION Spec
CONSTANTS
  MaxGen = 9
  GcWhenKilled = FALSE
INVARIANT DiskReadable
INVARIANT RegistersMatchDisk
CHECK_DEADLOCK FALSE
