------------------------------ MODULE MC_TopN ------------------------------
(* Bounded model checking of the TopNComputer machine (C06). *)
EXTENDS TopN, TLC
=============================================================================
