SPECIFICATION GSpec
CONSTANTS
  Cap = 8192
  MaxW = 0
  MaxLen = 1000000
  Chunks = {}
  HashOffered = FALSE
  MaxOps = 3
CHECK_DEADLOCK FALSE
