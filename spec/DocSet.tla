------------------------------- MODULE DocSet -------------------------------
(* C13 - every DocSet is one sorted sequence under any mix of advance and seek.              *)
(*                                                                                           *)
(* A document set is a strictly increasing sequence S of document ids and a cursor.  The     *)
(* module has two layers:                                                                    *)
(*  - the *observation* layer (`Explains`, `After`): given S, the state before a call and    *)
(*    the record of one call on the real object (arguments + everything it returned), is the *)
(*    record what the contract of src/docset.rs prescribes, and what is the state afterwards.*)
(*    It works on the sequence with binary search, so that the trace specification           *)
(*    (DocSetTrace) can judge real scorers with tens of thousands of documents;              *)
(*  - the *machine* (`Init`/`Next`): all call programs over all subsets of a small universe, *)
(*    whose call records are built constructively from the set-based meaning (`FirstGE`).    *)
(* The invariants relate the two layers and state the property clauses on the history.       *)
EXTENDS Naturals, Sequences, FiniteSets

CONSTANTS
  U,                \* the machine's documents are 0..U-1
  TERM,             \* the end marker TERMINATED (greater than every document)
  B,                \* COLLECT_BLOCK_BUFFER_LEN (fill_buffer)
  W,                \* BLOCK_WINDOW (fill_bitset_block)
  Depth,            \* the machine explores programs of at most Depth calls
  AllLowerBounds,   \* machine: seek_danger may answer any legal lower bound (TRUE) / the canonical one
  CountLeavesStale  \* FALSE: the contract.  TRUE: defect F8 (count does not move to the end)

-----------------------------------------------------------------------------
(* Observation layer: S is a strictly increasing sequence; a position is an index into S,    *)
(* Len(S)+1 = terminated.                                                                    *)

StrictlyIncreasing(S) == \A k \in 1..(Len(S) - 1) : S[k] < S[k + 1]
At(S, i) == IF i <= Len(S) THEN S[i] ELSE TERM

\* index of the first element >= t (Len(S)+1 if none): binary search
RECURSIVE Lower(_, _, _, _)
Lower(S, t, lo, hi) ==
  IF lo >= hi THEN lo
  ELSE LET mid == (lo + hi) \div 2 IN
       IF S[mid] < t THEN Lower(S, t, mid + 1, hi) ELSE Lower(S, t, lo, mid)
IdxGE(S, t) == Lower(S, t, 1, Len(S) + 1)
Member(S, t) == At(S, IdxGE(S, t)) = t /\ t # TERM

MinN(a, b) == IF a < b THEN a ELSE b

(* state of the cursor: i = position, valid = FALSE after a seek_danger that did not find    *)
(* its target (then only seek_danger may be called), lastD = last seek_danger target,        *)
(* chain = the previous call was a seek_danger (targets must then strictly increase)         *)
St0 == [i |-> 1, valid |-> TRUE, lastD |-> 0, chain |-> FALSE]

Has(c, k) == k \in DOMAIN c

\* what the caller is allowed to do (the contract's preconditions)
Legal(S, st, c) ==
  CASE c.op = "init"              -> TRUE
    [] c.op = "advance"           -> st.valid
    [] c.op = "seek"              -> st.valid /\ c.t >= At(S, st.i) /\ c.t <= TERM
    [] c.op = "seek_danger"       -> /\ c.t <= TERM
                                     /\ (st.valid => c.t >= At(S, st.i))
                                     /\ (st.chain => c.t > st.lastD)
    [] c.op = "fill_buffer"       -> st.valid
    [] c.op = "fill_bitset_block" -> st.valid /\ c.min >= At(S, st.i) /\ c.min + W < TERM
    [] c.op = "count"             -> st.valid
    [] OTHER                      -> FALSE

\* position after the call
Pos(S, st, c) ==
  CASE c.op = "init"              -> 1
    [] c.op = "advance"           -> IF st.i > Len(S) THEN st.i ELSE st.i + 1
    [] c.op = "seek"              -> IF c.t <= At(S, st.i) THEN st.i ELSE IdxGE(S, c.t)
    [] c.op = "seek_danger"       -> IF c.found THEN IdxGE(S, c.t) ELSE st.i
    [] c.op = "fill_buffer"       -> st.i + MinN(B, Len(S) + 1 - st.i)
    [] c.op = "fill_bitset_block" -> IdxGE(S, c.min + W)
    [] c.op = "count"             -> IF CountLeavesStale THEN st.i ELSE Len(S) + 1
    [] OTHER                      -> st.i

After(S, st, c) ==
  [i     |-> Pos(S, st, c),
   valid |-> IF c.op = "seek_danger" THEN c.found ELSE TRUE,
   lastD |-> IF c.op = "seek_danger" THEN c.t ELSE st.lastD,
   chain |-> c.op = "seek_danger"]

\* the value every call reports is the document under the cursor afterwards
RetOK(S, st, c) == LET p == Pos(S, st, c) IN
  /\ (Has(c, "ret") /\ c.op \in {"init", "advance", "seek", "fill_bitset_block"} => c.ret = At(S, p))
  /\ (Has(c, "doc_after") => c.doc_after = At(S, p))

\* what was returned besides the cursor
DataOK(S, st, c) ==
  CASE c.op = "seek_danger" ->
         IF c.found THEN Member(S, c.t)
         ELSE /\ ~Member(S, c.t)
              /\ \/ c.lb >= TERM
                 \/ c.lb > c.t /\ c.lb <= At(S, IdxGE(S, c.t))
    [] c.op = "fill_buffer" ->
         c.ret = SubSeq(S, st.i, Pos(S, st, c) - 1)
    [] c.op = "fill_bitset_block" ->
         c.mask = SubSeq(S, IdxGE(S, c.min), Pos(S, st, c) - 1)
    [] c.op = "count" ->
         c.ret = Len(S) + 1 - st.i
    [] OTHER -> TRUE

Explains(S, st, c) ==
  /\ Legal(S, st, c)
  /\ DataOK(S, st, c)
  /\ (After(S, st, c).valid => RetOK(S, st, c))

-----------------------------------------------------------------------------
(* The machine: every program of at most Depth calls on every subset of 0..U-1.  Call        *)
(* records are built from the *set* meaning of the operations, not from the operators above. *)

VARIABLES S, st, h
vars == <<S, st, h>>

Docs == 0..(U - 1)
SetOf(s) == {s[k] : k \in 1..Len(s)}
MinS(X) == CHOOSE m \in X : \A x \in X : m <= x
RECURSIVE SortedSeq(_)
SortedSeq(X) == IF X = {} THEN <<>> ELSE <<MinS(X)>> \o SortedSeq(X \ {MinS(X)})

DS == SetOf(S)
Cur == At(S, st.i)
FirstGE(t) == MinS({d \in DS : d >= t} \cup {TERM})
NextDoc(c) == IF c = TERM THEN TERM ELSE FirstGE(c + 1)
RECURSIVE Take(_, _)
Take(c, n) == IF n = 0 \/ c = TERM THEN <<>> ELSE <<c>> \o Take(NextDoc(c), n - 1)
RECURSIVE Skip(_, _)
Skip(c, n) == IF n = 0 \/ c = TERM THEN c ELSE Skip(NextDoc(c), n - 1)

Targets == Docs \cup {U, TERM}     \* U = a target past the last document that is not the end marker

Calls ==
  (IF st.valid THEN
       {[op |-> "advance", pre |-> Cur, ret |-> NextDoc(Cur), doc_after |-> NextDoc(Cur)]}
     \cup {[op |-> "seek", pre |-> Cur, t |-> t, ret |-> FirstGE(t), doc_after |-> FirstGE(t)] : t \in {x \in Targets : x >= Cur}}
     \cup {[op |-> "fill_buffer", pre |-> Cur, ret |-> Take(Cur, B), doc_after |-> Skip(Cur, B)]}
     \cup {[op |-> "fill_bitset_block", pre |-> Cur, min |-> m,
            mask |-> SortedSeq({d \in DS : d >= m /\ d < m + W}),
            ret |-> FirstGE(m + W), doc_after |-> FirstGE(m + W)] : m \in {x \in Docs : x >= Cur /\ x + W < TERM}}
     \cup {[op |-> "count", pre |-> Cur, ret |-> Cardinality({d \in DS : d >= Cur}),
            doc_after |-> IF CountLeavesStale THEN Cur ELSE TERM]}
   ELSE {})
  \cup UNION {
       IF t \in DS
       THEN {[op |-> "seek_danger", pre |-> IF st.valid THEN Cur ELSE TERM + 1, t |-> t, found |-> TRUE, lb |-> t, doc_after |-> t]}
       ELSE {[op |-> "seek_danger", pre |-> IF st.valid THEN Cur ELSE TERM + 1, t |-> t, found |-> FALSE, lb |-> b] :
               b \in IF AllLowerBounds THEN {x \in Targets : x > t /\ x <= FirstGE(t)} \cup {TERM} ELSE {FirstGE(t)}}
       : t \in {x \in Targets : (st.valid => x >= Cur) /\ (st.chain => x > st.lastD)}}

Init == /\ S \in {SortedSeq(X) : X \in SUBSET Docs}
        /\ st = St0
        /\ h = <<>>

Next == /\ Len(h) < Depth
        /\ \E c \in Calls :
             /\ st' = After(S, st, c)
             /\ h' = Append(h, c)
        /\ UNCHANGED S

Spec == Init /\ [][Next]_vars

-----------------------------------------------------------------------------
(* Invariants.                                                                               *)

TypeOK == /\ StrictlyIncreasing(S) /\ SetOf(S) \subseteq Docs
          /\ st.i \in 1..(Len(S) + 1) /\ st.valid \in BOOLEAN

\* the two layers agree: whatever the set meaning produces is what the judge accepts ...
JudgeAcceptsContract == \A c \in Calls : Explains(S, st, c)
\* ... and nothing else: another document under the cursor, another count, a document more or
\* less in a buffer / mask is rejected
Others(c) ==
  (IF Has(c, "doc_after") /\ (c.op # "seek_danger" \/ c.found)
     THEN {[c EXCEPT !.doc_after = x] : x \in Targets \ {c.doc_after}} ELSE {})
  \cup (IF c.op \in {"advance", "seek"} THEN {[c EXCEPT !.ret = x] : x \in Targets \ {c.ret}} ELSE {})
  \cup (IF c.op = "count" THEN {[c EXCEPT !.ret = c.ret + 1]} ELSE {})
  \cup (IF c.op = "fill_buffer" THEN {[c EXCEPT !.ret = Append(c.ret, TERM)]} ELSE {})
  \cup (IF c.op = "fill_buffer" /\ c.ret # <<>> THEN {[c EXCEPT !.ret = Tail(c.ret)]} ELSE {})
  \cup (IF c.op = "fill_bitset_block" /\ c.mask # <<>> THEN {[c EXCEPT !.mask = Tail(c.mask)]} ELSE {})
  \cup (IF c.op = "seek_danger" THEN {[c EXCEPT !.found = ~c.found]} ELSE {})
  \cup (IF c.op = "seek_danger" /\ ~c.found THEN {[c EXCEPT !.lb = x] : x \in {y \in Targets : y < TERM /\ (y <= c.t \/ y > FirstGE(c.t))}} ELSE {})
JudgeRejectsOthers == \A c \in Calls : \A x \in Others(c) : ~Explains(S, st, x)

\* the property clauses, on the history of a program (pre / doc_after of valid states)
ValidAt(k) == h[k].op # "seek_danger" \/ h[k].found
\* one sequence: the cursor never moves backwards, is always on a document of S or at the end
OneSortedSequence ==
  \A k \in 1..Len(h) : ValidAt(k) =>
     /\ h[k].doc_after \in DS \cup {TERM}
     /\ (h[k].pre <= TERM => h[k].doc_after >= h[k].pre)
     /\ (h[k].op = "advance" /\ h[k].pre # TERM => h[k].doc_after > h[k].pre)
\* advance skips nothing; seek(t) lands on the first document >= t; seek(doc()) stays
SeekIsFirstGE ==
  \A k \in 1..Len(h) :
     /\ h[k].op = "advance" => ~\E d \in DS : d > h[k].pre /\ d < h[k].doc_after
     /\ h[k].op = "seek" => /\ h[k].doc_after >= h[k].t
                            /\ ~\E d \in DS : d >= h[k].t /\ d < h[k].doc_after
     /\ h[k].op = "seek_danger" /\ h[k].found => h[k].doc_after = h[k].t /\ h[k].t \in DS
     /\ h[k].op = "seek_danger" /\ ~h[k].found =>
           /\ h[k].t \notin DS
           /\ ~\E d \in DS : d > h[k].t /\ d < h[k].lb /\ h[k].lb < TERM  \* a lower bound never jumps over a document
\* buffered fills, block fills and counting observe the same sequence
BulkCallsObserveTheSequence ==
  \A k \in 1..Len(h) :
     /\ h[k].op = "fill_buffer" =>
           /\ SetOf(h[k].ret) = {d \in DS : d >= h[k].pre /\ d < h[k].doc_after}
           /\ Len(h[k].ret) <= B /\ (Len(h[k].ret) < B => h[k].doc_after = TERM)
           /\ StrictlyIncreasing(h[k].ret)
     /\ h[k].op = "fill_bitset_block" =>
           /\ SetOf(h[k].mask) = {d \in DS : d >= h[k].min /\ d < h[k].min + W}
           /\ h[k].doc_after = FirstGE(h[k].min + W)
     /\ h[k].op = "count" => h[k].ret = Cardinality({d \in DS : d >= h[k].pre})
\* once the end is reached - by walking or by a consuming count - every call reports the end
StickyEnd ==
  \A k \in 1..Len(h) : ValidAt(k) =>
     /\ (h[k].pre = TERM => h[k].doc_after = TERM)
     /\ (h[k].op = "count" => h[k].doc_after = TERM)
\* consecutive valid calls continue where the previous one stopped
Continuity ==
  \A k \in 1..(Len(h) - 1) : ValidAt(k) /\ h[k + 1].pre <= TERM => h[k + 1].pre = h[k].doc_after
=============================================================================
