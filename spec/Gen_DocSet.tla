------------------------------ MODULE Gen_DocSet ------------------------------
(* Generator: prints every call program of exactly Depth calls of the DocSet machine, with   *)
(* the subset it runs on and the abstract observations, one JSON line each.  lib/props/c13.py *)
(* concretises the programs (stripes of r real documents per abstract document) and the      *)
(* harness runs them on every scorer type (R direction).                                     *)
EXTENDS DocSet, TLC, Json
Emit == (Len(h) = Depth) => PrintT(<<"CASE", ToJson([s |-> S, prog |-> h])>>)
=============================================================================
