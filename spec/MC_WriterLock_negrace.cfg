SPECIFICATION Spec
CONSTANTS
  Handles = {"A", "B"}
  NT = 2
  MaxSteps = 3
  ReleaseOnFailedCtor = TRUE
  RollbackKeepsLock = TRUE
  FailedRollbackKeepsLock = TRUE
  AtomicAcquire = FALSE
CONSTRAINT Bounded
INVARIANT RaceLemma
CHECK_DEADLOCK FALSE
