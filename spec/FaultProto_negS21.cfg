SPECIFICATION Spec
CONSTANTS
  MaxDocs = 4
  MaxFaults = 2
  DeadWriterStaysDead = TRUE
  KillUpdaterOnSaveFail = TRUE
  PipeCap = 2
  KillDropsReceiver = FALSE
INVARIANT OkCommitIsComplete
INVARIANT LastCommitIntact
INVARIANT DiskIsSomeCommit
INVARIANT RegistersMatchDisk
INVARIANT NoStuckProducer
CONSTRAINT Bound
CHECK_DEADLOCK FALSE
