SPECIFICATION Spec
CONSTANTS
  Handles = {"A", "B"}
  NT = 2
  MaxSteps = 4
  ReleaseOnFailedCtor = TRUE
  RollbackKeepsLock = FALSE
  FailedRollbackKeepsLock = TRUE
  AtomicAcquire = TRUE
CONSTRAINT Bounded
INVARIANT AtMostOneWriter
CHECK_DEADLOCK FALSE
