------------------------------ MODULE MC_DocSet ------------------------------
(* Bounded model checking of the DocSet contract machine (C13).                *)
EXTENDS DocSet, TLC
=============================================================================
