SPECIFICATION FSpec
POSTCONDITION Accepted
CHECK_DEADLOCK FALSE
