------------------------------ MODULE Gen_TopN ------------------------------
(* Generator: every sequence of MaxPush pushes (keys in Keys) for every K in 0..MaxK and both  *)
(* comparators, one JSON line each; harness/topk_driver pushes them through the public        *)
(* tantivy::collector::TopNComputer and records the threshold after each push (R direction).  *)
EXTENDS TopN, TLC, Json
KeySeq == [i \in 1..nPushed |-> (CHOOSE e \in pushed : e.doc = i).key]
Emit == (nPushed = MaxPush) => PrintT(<<"CASE", ToJson([k |-> K, ord |-> ord, keys |-> KeySeq])>>)
=============================================================================
