SPECIFICATION Spec
CONSTANTS
  NSeg = 4
  MaxCommits = 2
  SyncBeforeMeta = "always"
  SyncAfterMeta = TRUE
  RegisterFirst = TRUE
  OldDelDeletedEarly = FALSE
  GcProtectsBuilding = TRUE
  MaxFaults = 1
  StoreMetaFirst = FALSE
  KillWaits = TRUE
  GcProtectsMergeSources = TRUE
  ReplaceStaleDel = TRUE
INVARIANT CrashSafe
INVARIANT CrashDurable
INVARIANT NoCommitLost
INVARIANT NoSpuriousFailure
INVARIANT OrphanIsF4Class
INVARIANT GcComplete
PROPERTY GcTight
INVARIANT NeverDeletesNeeded
INVARIANT NeverDeletesBuilding
INVARIANT MergeSourcesReadable
INVARIANT LemmaSafe
INVARIANT LemmaOrphan
CHECK_DEADLOCK FALSE
