----------------------------- MODULE MC_Grammar -----------------------------
(* Bounded model checking of Grammar: a small machine builds queries (leaves wrapped up to     *)
(* MaxDepth times); on every query it reaches, the lemmas that pin down the meaning part of the  *)
(* specification (parentheses and boosts are neutral, AND binds tighter than OR, what + / - and  *)
(* the two default modes mean, field groups, all-negative queries) and the printer (balanced     *)
(* parentheses, never one of the steered shapes, never a blank before a closing range bracket).  *)
(* Negative configuration: OrBindsTighter, the opposite reading of `a AND b OR c`, must fail.   *)
EXTENDS Grammar, TLC

CONSTANTS MaxDepth
VARIABLES q, depth
vars == <<q, depth>>

Leaves == {<<"w", "", 1>>, <<"w", "title", 4>>, <<"w", "body", 3>>, <<"ph", "", <<1, 4>>, 0, FALSE>>, <<"ph", "title", <<4, 1>>, 1, FALSE>>,
           <<"ph", "", <<1, 4>>, 0, TRUE>>, <<"tag", 2>>, <<"num", "i", -2>>, <<"rng", "n", <<"incl", 3>>, <<"excl", 7>>>>,
           <<"rng", "title", <<"excl", 1>>, <<"unb", 1>>>>, <<"in", "n", <<3, 9>>>>, <<"date", 2>>, <<"all">>, <<"facet", 1>>}
A == <<"w", "", 3>>
B == <<"tag", 1>>
Atom(x) == IF x[1] \in {"bool", "bin", "grp", "boost"} THEN <<"paren", x>> ELSE x
Init == q \in Leaves /\ depth = 0
Next == /\ depth < MaxDepth /\ depth' = depth + 1
        /\ q' \in { <<"paren", q>>, <<"boost", Atom(q), 2>>,
                    <<"bool", << <<"", Atom(q)>>, <<"+", A>> >>>>, <<"bool", << <<"-", Atom(q)>>, <<"", B>> >>>>,
                    <<"bin", <<Atom(q), A>>, <<"AND">>>>, <<"bin", <<B, Atom(q), A>>, <<"OR", "AND">>>> }
Spec == Init /\ [][Next]_vars

MS(x, c) == MatchSet(x, c)
Modes == BOOLEAN
Neutral == \A c \in Modes : MS(<<"paren", q>>, c) = MS(q, c) /\ MS(<<"boost", Atom(q), 3>>, c) = MS(q, c)
AndBindsTighter == \A c \in Modes :
   /\ MS(<<"bin", <<Atom(q), A, B>>, <<"AND", "OR">>>>, c) = (MS(q, c) \cap MS(A, c)) \cup MS(B, c)
   /\ MS(<<"bin", <<Atom(q), A, B>>, <<"OR", "AND">>>>, c) = MS(q, c) \cup (MS(A, c) \cap MS(B, c))
   /\ MS(<<"bin", <<Atom(q), A>>, <<"OR">>>>, c) = MS(q, c) \cup MS(A, c)
OrBindsTighter == \A c \in Modes :
   MS(<<"bin", <<Atom(q), A, B>>, <<"AND", "OR">>>>, c) = MS(q, c) \cap (MS(A, c) \cup MS(B, c))
Occurs ==
   /\ MS(<<"bool", << <<"", Atom(q)>>, <<"", A>> >>>>, FALSE) = MS(q, FALSE) \cup MS(A, FALSE)     \* default: OR
   /\ MS(<<"bool", << <<"", Atom(q)>>, <<"", A>> >>>>, TRUE) = MS(q, TRUE) \cap MS(A, TRUE)        \* conjunction mode
   /\ \A c \in Modes :
        /\ MS(<<"bool", << <<"+", Atom(q)>>, <<"-", A>> >>>>, c) = MS(q, c) \ MS(A, c)
        /\ MS(<<"bool", << <<"+", Atom(q)>>, <<"+", A>> >>>>, c) = MS(q, c) \cap MS(A, c)
        /\ MS(<<"bool", << <<"+", Atom(q)>>, <<"", A>> >>>>, FALSE) = MS(q, FALSE)                  \* required + optional
        /\ AllNegative(<<"bool", << <<"-", Atom(q)>>, <<"-", A>> >>>>)
        /\ NegatedSet(<<"bool", << <<"-", Atom(q)>>, <<"-", A>> >>>>, c) = (1..ND) \ (MS(q, c) \cup MS(A, c))
Groups == \A c \in Modes : \A w \in 1..NW :
   /\ MS(<<"grp", "title", << <<"+", <<"w", "", w>>>>, <<"+", <<"w", "", 1>>>> >>>>, c) = MS(<<"w", "title", w>>, c) \cap MS(<<"w", "title", 1>>, c)
   /\ MS(<<"w", "", w>>, c) = MS(<<"w", "title", w>>, c) \cup MS(<<"w", "body", w>>, c)           \* default fields

\* the printer
Styles == {<<0, 0, 0, 0, 0, 0, 0>>, <<1, 2, 3, 4, 5, 6, 7>>, <<3, 1, 0, 2, 7, 5, 4>>, <<2, 2, 1, 1, 0, 3, 5>>}
Count(t, c) == Cardinality({p \in 1..Len(t) : t[p] = c})
Balanced == \A st \in Styles : LET t == PrintQ(q, st) IN Count(t, LPAR) = Count(t, RPAR) /\ Len(t) > 0
NoBlankBeforeBracket == \A st \in Styles : LET t == PrintQ(q, st) IN \A p \in 2..Len(t) : t[p] \in {93, 125} => t[p - 1] # SP
NoF9Shape == \A st \in Styles : LET t == PrintQ(q, st) IN
   \A p \in 1..Len(t) : t[p] = STAR /\ p > 1 /\ t[p - 1] = SP => ~\E b \in 1..(p - 1) : t[b] \in {43, 45} /\ \A x \in (b + 1)..(p - 1) : t[x] = SP
=============================================================================
