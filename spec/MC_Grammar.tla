----------------------------- MODULE MC_Grammar -----------------------------
(* Bounded model checking of Grammar: a small machine builds queries (leaves wrapped up to     *)
(* MaxDepth times); on every query it reaches, the lemmas that pin down the meaning part of the  *)
(* specification (parentheses and boosts are neutral, AND binds tighter than OR, what + / - and  *)
(* the two default modes mean, field groups, all-negative queries) and the printer (balanced     *)
(* parentheses, never one of the steered shapes, never a blank before a closing range bracket).  *)
(* Negative configuration: OrBindsTighter, the opposite reading of `a AND b OR c`, must fail.   *)
EXTENDS Grammar, TLC

CONSTANTS MaxDepth
VARIABLES q, depth
vars == <<q, depth>>

Leaves == {<<"w", "", 1>>, <<"w", "title", 4>>, <<"w", "body", 3>>, <<"ph", "", <<1, 4>>, 0, FALSE>>, <<"ph", "title", <<4, 1>>, 1, FALSE>>,
           <<"ph", "", <<1, 4>>, 0, TRUE>>, <<"tag", 2>>, <<"num", "i", -2>>, <<"rng", "n", <<"incl", 3>>, <<"excl", 7>>>>,
           <<"rng", "title", <<"excl", 1>>, <<"unb", 1>>>>, <<"in", "n", <<3, 9>>>>, <<"date", 2>>, <<"all">>, <<"facet", 1>>}
A == <<"w", "", 3>>
B == <<"tag", 1>>
Atom(x) == IF x[1] \in {"bool", "bin", "grp", "boost"} THEN <<"paren", x>> ELSE x
Init == q \in Leaves /\ depth = 0
Next == /\ depth < MaxDepth /\ depth' = depth + 1
        /\ q' \in { <<"paren", q>>, <<"boost", Atom(q), 2>>,
                    <<"bool", << <<"", Atom(q)>>, <<"+", A>> >>>>, <<"bool", << <<"-", Atom(q)>>, <<"", B>> >>>>,
                    <<"bin", <<Atom(q), A>>, <<"AND">>>>, <<"bin", <<B, Atom(q), A>>, <<"OR", "AND">>>> }
Spec == Init /\ [][Next]_vars

MS(x, c) == MatchSet(x, c)
Modes == BOOLEAN
Neutral == \A c \in Modes : MS(<<"paren", q>>, c) = MS(q, c) /\ MS(<<"boost", Atom(q), 3>>, c) = MS(q, c)
AndBindsTighter == \A c \in Modes :
   /\ MS(<<"bin", <<Atom(q), A, B>>, <<"AND", "OR">>>>, c) = (MS(q, c) \cap MS(A, c)) \cup MS(B, c)
   /\ MS(<<"bin", <<Atom(q), A, B>>, <<"OR", "AND">>>>, c) = MS(q, c) \cup (MS(A, c) \cap MS(B, c))
   /\ MS(<<"bin", <<Atom(q), A>>, <<"OR">>>>, c) = MS(q, c) \cup MS(A, c)
OrBindsTighter == \A c \in Modes :
   MS(<<"bin", <<Atom(q), A, B>>, <<"AND", "OR">>>>, c) = MS(q, c) \cap (MS(A, c) \cup MS(B, c))
Occurs ==
   /\ MS(<<"bool", << <<"", Atom(q)>>, <<"", A>> >>>>, FALSE) = MS(q, FALSE) \cup MS(A, FALSE)     \* default: OR
   /\ MS(<<"bool", << <<"", Atom(q)>>, <<"", A>> >>>>, TRUE) = MS(q, TRUE) \cap MS(A, TRUE)        \* conjunction mode
   /\ \A c \in Modes :
        /\ MS(<<"bool", << <<"+", Atom(q)>>, <<"-", A>> >>>>, c) = MS(q, c) \ MS(A, c)
        /\ MS(<<"bool", << <<"+", Atom(q)>>, <<"+", A>> >>>>, c) = MS(q, c) \cap MS(A, c)
        /\ MS(<<"bool", << <<"+", Atom(q)>>, <<"", A>> >>>>, FALSE) = MS(q, FALSE)                  \* required + optional
        /\ AllNegative(<<"bool", << <<"-", Atom(q)>>, <<"-", A>> >>>>)
        /\ NegatedSet(<<"bool", << <<"-", Atom(q)>>, <<"-", A>> >>>>, c) = (1..ND) \ (MS(q, c) \cup MS(A, c))
Groups == \A c \in Modes : \A w \in 1..NW :
   /\ MS(<<"grp", "title", << <<"+", <<"w", "", w>>>>, <<"+", <<"w", "", 1>>>> >>>>, c) = MS(<<"w", "title", w>>, c) \cap MS(<<"w", "title", 1>>, c)
   /\ MS(<<"w", "", w>>, c) = MS(<<"w", "title", w>>, c) \cup MS(<<"w", "body", w>>, c)           \* default fields

\* chains with markers: where the documentation speaks, the chain reading is the documented one -
\* AND binds tighter than OR, an exclusion inside an AND group removes documents from that group only
\* (`a OR -b AND c` = a OR (c AND NOT b)), a chain without markers is the plain expression, and a
\* chain of juxtaposed operands is the clause list
Ch3(m1, x, o1, m2, y, o2, m3, z) == <<"chain", << <<m1, x>>, <<m2, y>>, <<m3, z>> >>, <<o1, o2>>>>
Ch2(m1, x, o1, m2, y) == <<"chain", << <<m1, x>>, <<m2, y>> >>, <<o1>>>>
ChainDocumented == \A c \in Modes :
   /\ MS(Ch3("", Atom(q), "OR", "-", A, "AND", "", B), c) = MS(q, c) \cup (MS(B, c) \ MS(A, c))
   /\ MS(Ch3("", Atom(q), "OR", "", A, "AND", "-", B), c) = MS(q, c) \cup (MS(A, c) \ MS(B, c))
   /\ MS(Ch3("-", Atom(q), "AND", "", A, "OR", "", B), c) = (MS(A, c) \ MS(q, c)) \cup MS(B, c)
   /\ MS(Ch3("", B, "OR", "", A, "AND", "-", Atom(q)), c) = MS(B, c) \cup (MS(A, c) \ MS(q, c))
   /\ MS(Ch2("", Atom(q), "AND", "-", A), c) = MS(q, c) \ MS(A, c)
   /\ \A o1, o2 \in {"AND", "OR"} : MS(Ch3("", Atom(q), o1, "", A, o2, "", B), c) = MS(<<"bin", <<Atom(q), A, B>>, <<o1, o2>>>>, c)
   /\ \A m1, m2 \in {"", "+", "-"} : (m1 # "-" \/ m2 # "-") =>
          MS(Ch2(m1, Atom(q), "", m2, A), c) = MS(<<"bool", << <<m1, Atom(q)>>, <<m2, A>> >>>>, c)
\* the opposite reading of the seeded kind (the exclusion of `a OR -b AND c` ignored) must fail
ExclusionIgnored == \A c \in Modes : MS(Ch3("", Atom(q), "OR", "-", A, "AND", "", B), c) = MS(q, c) \cup MS(B, c)

\* an AND / OR expression whose operands are all-negative groups is all negative too (refused); the lenient
\* parser's "or anything" joins the expression's own clause list: required operands that select nothing leave
\* nothing, optional ones leave everything
NegativeExpr == \A c \in Modes :
   LET n1 == <<"paren", <<"bool", << <<"-", Atom(q)>> >>>>>>   n2 == <<"paren", <<"bool", << <<"-", A>> >>>>>> IN
   /\ AllNegative(<<"bin", <<n1, n2>>, <<"AND">>>>) /\ NegatedSet(<<"bin", <<n1, n2>>, <<"AND">>>>, c) = {}
   /\ AllNegative(<<"bin", <<n1, n2>>, <<"OR">>>>) /\ NegatedSet(<<"bin", <<n1, n2>>, <<"OR">>>>, c) = 1..ND
   /\ ~AllNegative(<<"bin", <<n1, A>>, <<"OR">>>>)

\* a phrase keeps the positions of its words when the analyzer drops one of them (LW): the literal text (9) and
\* `ab ba c` (7) match `"ab zz..z c"`, `ab c` (1) does not; a dropped word in front or at the end changes nothing
ASSUME PhraseGaps ==
  /\ MS(<<"ph", "title", <<1, LW, 4>>, 0, FALSE>>, FALSE) = {7, 9}
  /\ MS(<<"ph", "title", <<1, 4>>, 0, FALSE>>, FALSE) = {1}
  /\ MS(<<"ph", "title", <<LW, 1, 4>>, 0, FALSE>>, FALSE) = {1} /\ MS(<<"ph", "title", <<1, 4, LW>>, 0, FALSE>>, FALSE) = {1}
  /\ MS(<<"ph", "body", <<5, LW, LW, 3>>, 0, FALSE>>, FALSE) = {9}

\* the printer
Styles == {<<0, 0, 0, 0, 0, 0, 0>>, <<1, 2, 3, 4, 5, 6, 7>>, <<3, 1, 0, 2, 7, 5, 4>>, <<2, 2, 1, 1, 0, 3, 5>>}
Count(t, c) == Cardinality({p \in 1..Len(t) : t[p] = c})
Balanced == \A st \in Styles : LET t == PrintQ(q, st) IN Count(t, LPAR) = Count(t, RPAR) /\ Len(t) > 0
NoBlankBeforeBracket == \A st \in Styles : LET t == PrintQ(q, st) IN \A p \in 2..Len(t) : t[p] \in {93, 125} => t[p - 1] # SP
NoF9Shape == \A st \in Styles : LET t == PrintQ(q, st) IN
   \A p \in 1..Len(t) : t[p] = STAR /\ p > 1 /\ t[p - 1] = SP => ~\E b \in 1..(p - 1) : t[b] \in {43, 45} /\ \A x \in (b + 1)..(p - 1) : t[x] = SP
=============================================================================
