---------------------------- MODULE KillGcProto ----------------------------
(* A task of the segment updater that was queued BEFORE the updater was killed still runs (schedule_task  *)
(* tests is_alive when the task is queued; kill() - rollback, drop, a failed save_metas - waits for the   *)
(* queue).  An end_merge task in that position swaps the registers (sources -> merged segment), skips     *)
(* save_metas (the updater is dead: nothing is published any more) and then ran the garbage collection    *)
(* from those registers: meta.json on storage still names the sources WITH THE DELETE FILE OF THE NEWEST  *)
(* COMMIT, which only the registers knew (the merge holds the sources as they were when it started).      *)
(* Finding F55 (C11, seed 71 of the fault enumeration: sync_directory fails after meta.json was replaced, *)
(* a merge ends, <segment>.<opstamp>.del is collected, the index cannot be opened any more).              *)
(*   GcWhenKilled = FALSE - the repaired code: a killed updater collects nothing                          *)
(*   GcWhenKilled = TRUE  - the code as found                                                             *)
(* src/indexer/segment_updater.rs: schedule_task, kill, schedule_commit, end_merge, garbage_collect_files *)
EXTENDS Naturals, FiniteSets

CONSTANTS MaxGen, GcWhenKilled

VARIABLES
  reg,     \* committed register: segment -> generation of its delete file (0 = none)
  disk,    \* meta.json: the same shape
  held,    \* metas held by the running merge (its sources as they were at merge start)
  files,   \* files in the directory: <<segment, generation>>; generation 0 = the segment's own files
  killed,  \* the updater's killed flag
  merge,   \* "idle" | "running" | "queued" (its end_merge task passed the is_alive test)
  gen      \* commits so far
vars == <<reg, disk, held, files, killed, merge, gen>>

None == <<>>
FilesOf(m) == UNION {{<<s, 0>>} \cup (IF m[s] > 0 THEN {<<s, m[s]>>} ELSE {}) : s \in DOMAIN m}
Living == FilesOf(reg) \cup FilesOf(held)

Init == /\ reg = [s \in {"A"} |-> 0] /\ disk = [s \in {"A"} |-> 0] /\ held = None
        /\ files = {<<"A", 0>>} /\ killed = FALSE /\ merge = "idle" /\ gen = 0

\* a commit whose deletes touch every committed segment: new delete files, registers swapped, meta.json
\* replaced, collection (schedule_commit)
NewReg == [s \in DOMAIN reg |-> gen + 1]
CommitOk ==
  /\ ~killed /\ gen < MaxGen
  /\ gen' = gen + 1 /\ reg' = NewReg /\ disk' = NewReg
  /\ files' = (files \cup FilesOf(NewReg)) \cap (FilesOf(NewReg) \cup FilesOf(held))
  /\ UNCHANGED <<held, killed, merge>>
\* save_metas fails before (replaced = FALSE) or after (TRUE) meta.json was replaced: the updater is
\* killed, the task returns before the collection
CommitFail(replaced) ==
  /\ ~killed /\ gen < MaxGen
  /\ gen' = gen + 1 /\ reg' = NewReg
  /\ disk' = IF replaced THEN NewReg ELSE disk
  /\ files' = files \cup FilesOf(NewReg)
  /\ killed' = TRUE
  /\ UNCHANGED <<held, merge>>
StartMerge ==
  /\ ~killed /\ merge = "idle" /\ "A" \in DOMAIN reg
  /\ held' = reg /\ merge' = "running"
  /\ UNCHANGED <<reg, disk, files, killed, gen>>
\* the merge thread is done: its end_merge task is queued if the updater is alive, refused otherwise
MergeDone ==
  /\ merge = "running"
  /\ IF killed THEN merge' = "idle" /\ held' = None ELSE merge' = "queued" /\ UNCHANGED held
  /\ UNCHANGED <<reg, disk, files, killed, gen>>
\* rollback / drop: the flag is set while a task may be queued (kill waits for it afterwards)
Kill ==
  /\ ~killed /\ killed' = TRUE
  /\ UNCHANGED <<reg, disk, held, files, merge, gen>>
\* the queued end_merge task: deletes advanced to the register's generation, registers swapped,
\* meta.json rewritten only by a live updater, then the collection
EndMergeTask ==
  /\ merge = "queued"
  /\ LET r == [s \in {"M"} |-> reg["A"]] IN
     /\ reg' = r
     /\ disk' = IF killed THEN disk ELSE r
     /\ files' = IF killed /\ ~GcWhenKilled
                 THEN files \cup FilesOf(r)
                 ELSE (files \cup FilesOf(r)) \cap (FilesOf(r) \cup FilesOf(held))
  /\ merge' = "idle" /\ held' = None
  /\ UNCHANGED <<killed, gen>>
\* a new writer (after rollback, or a new IndexWriter): registers from meta.json, first collection
Reopen ==
  /\ killed /\ merge = "idle"
  /\ reg' = disk /\ killed' = FALSE
  /\ files' = files \cap FilesOf(disk)
  /\ UNCHANGED <<disk, held, merge, gen>>

Next == CommitOk \/ CommitFail(TRUE) \/ CommitFail(FALSE) \/ StartMerge \/ MergeDone \/ Kill \/ EndMergeTask \/ Reopen
Spec == Init /\ [][Next]_vars

\* C11 / C10: every file meta.json names exists - the index can always be opened
DiskReadable == FilesOf(disk) \subseteq files
\* a live updater's register is what meta.json holds
RegistersMatchDisk == ~killed => reg = disk
=============================================================================
