------------------------------ MODULE MC_Store ------------------------------
(* Bounded model checking of Store: the writer/reader/cache machine, the skip-index layer    *)
(* arithmetic on stores of up to 513 blocks, and the merge refinements.                      *)
EXTENDS Store

\* n blocks of k documents each (identities 1..n*k)
Synth(n, k) == [b \in 1..n |-> [ids |-> [j \in 1..k |-> (b - 1) * k + j], bytes |-> 10 * k + 4 * (k + 1)]]

ASSUME \A n \in {1, 2, 7, 8, 9, 15, 16, 17, 63, 64, 65, 72, 127, 128, 129} : \A k \in {1, 3} : SeekCorrect(Synth(n, k))
ASSUME \A n \in {511, 512, 513} : SeekCorrect(Synth(n, 1))
ASSUME NumLayers(Synth(1, 1)) = 1 /\ NumLayers(Synth(7, 2)) = 1 /\ NumLayers(Synth(8, 1)) = 2 /\ NumLayers(Synth(63, 1)) = 2
       /\ NumLayers(Synth(64, 1)) = 3 /\ NumLayers(Synth(511, 1)) = 3 /\ NumLayers(Synth(512, 1)) = 4
ASSUME Seek(<<>>, 0) = 0

Shift(blocks, k) == [b \in 1..Len(blocks) |-> [ids |-> [j \in 1..Len(blocks[b].ids) |-> blocks[b].ids[j] + k], bytes |-> blocks[b].bytes]]

\* both ways of merging two copies of the store (the first with any set of deletes) give the
\* concatenation of the live documents, and the skip index of the result finds every document
MergeRefinesConcat ==
  closed =>
    LET N == Len(sizes)
        S1 == Blocks
        S2 == Shift(Blocks, N)
        sizeOf == [i \in 1..(2 * N) |-> sizes[((i - 1) % N) + 1]]
    IN N > 0 =>
       /\ \A A \in SUBSET AllAlive(S1) :
            LET R == Recompress(<<S1, S2>>, <<A, AllAlive(S2)>>, sizeOf, BlockSize) IN
            /\ DocSeq(R) = Live(S1, A) \o DocSeq(S2)
            /\ SeekCorrect(R)
       /\ LET St == Stack(<<S1, S2>>) IN
            /\ DocSeq(St) = DocSeq(S1) \o DocSeq(S2)
            /\ SeekCorrect(St)
            /\ DocSeq(St) = DocSeq(Recompress(<<S1, S2>>, <<AllAlive(S1), AllAlive(S2)>>, sizeOf, BlockSize))
       \* a filtered merge: own deletes A and a caller's filter F - the merged store holds the documents alive under both
       /\ \A A \in SUBSET AllAlive(S1) : \A F \in {AllAlive(S1), AllAlive(S1) \ {0}, {0}, {}} :
            LET M == Merge(<<S1, S2>>, <<EffectiveAlive(A, F), AllAlive(S2)>>, sizeOf, BlockSize)
            IN DocSeq(M) = Live(S1, A \cap F) \o DocSeq(S2) /\ SeekCorrect(M)
       \* the merger itself (per source: stack or copy document by document), both orders
       /\ \A A \in SUBSET AllAlive(S1) :
            LET M1 == Merge(<<S1, S2>>, <<A, AllAlive(S2)>>, sizeOf, BlockSize)
                M2 == Merge(<<S2, S1>>, <<AllAlive(S2), A>>, sizeOf, BlockSize)
            IN /\ DocSeq(M1) = Live(S1, A) \o DocSeq(S2) /\ SeekCorrect(M1)
               /\ DocSeq(M2) = DocSeq(S2) \o Live(S1, A) /\ SeekCorrect(M2)
               \* per-source codecs, every order: the documents are the same, only sources of the merged store's codec may be stacked
               /\ \A cs \in {<<TRUE, FALSE>>, <<FALSE, TRUE>>} :
                    LET MS == MergeS(<<S1, S2>>, <<A, AllAlive(S2)>>, sizeOf, BlockSize, cs) IN
                    DocSeq(MS) = Live(S1, A) \o DocSeq(S2) /\ SeekCorrect(MS)
               \* with another codec nothing is stacked: the result is the re-compressed store
               /\ MergeC(<<S1, S2>>, <<A, AllAlive(S2)>>, sizeOf, BlockSize, FALSE) = Recompress(<<S1, S2>>, <<A, AllAlive(S2)>>, sizeOf, BlockSize)
=============================================================================
