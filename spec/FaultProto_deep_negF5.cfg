SPECIFICATION Spec
CONSTANTS
  MaxDocs = 6
  MaxFaults = 3
  DeadWriterStaysDead = FALSE
  KillUpdaterOnSaveFail = TRUE
  PipeCap = 3
  KillDropsReceiver = TRUE
INVARIANT OkCommitIsComplete
INVARIANT LastCommitIntact
INVARIANT DiskIsSomeCommit
INVARIANT RegistersMatchDisk
INVARIANT NoStuckProducer
CONSTRAINT BoundDeep
CHECK_DEADLOCK FALSE
