SPECIFICATION Spec
CONSTANTS
  Threads = {t1, t2, t3}
  MaxInodes = 3
  Blocking = FALSE
  UnlinkOnRelease = FALSE
  UnlinkOnRefusal = TRUE
INVARIANT Mutex
CHECK_DEADLOCK FALSE
