--------------------------- MODULE Gen_DeleteQueue ---------------------------
(* Generator: operation sequences on the delete queue, printed as JSON for          *)
(* harness/src/bin/delq_driver.rs; the results come back as a trace judged by        *)
(* DeleteQueueTrace.  Opstamps increase with gaps (as the stamper's do when adds     *)
(* lie between deletes).                                                             *)
EXTENDS DeleteQueue, Json, TLC

CONSTANTS MaxSteps, MaxOp
VARIABLES hist, nextOp, fin
gvars == <<qvars, hist, nextOp, fin>>

H(rec) == hist' = Append(hist, rec) /\ UNCHANGED fin
Go == ~fin /\ Len(hist) < MaxSteps

GNext ==
  \/ \E gap \in 1..3 : Go /\ nextOp + gap <= MaxOp /\ Push(nextOp + gap) /\ nextOp' = nextOp + gap
                          /\ H([op |-> "push", o |-> nextOp + gap])
  \/ \E c \in CursorIds : Go /\ NewCursor(c) /\ UNCHANGED nextOp /\ H([op |-> "cursor", c |-> c])
  \/ \E c, d \in CursorIds : Go /\ Clone(c, d) /\ UNCHANGED nextOp /\ H([op |-> "clone", c |-> c, d |-> d])
  \/ \E c \in CursorIds : Go /\ Drop(c) /\ UNCHANGED nextOp /\ H([op |-> "drop", c |-> c])
  \/ \E c \in CursorIds : Go /\ Get(c) /\ UNCHANGED nextOp /\ H([op |-> "get", c |-> c])
  \/ \E c \in CursorIds : Go /\ Advance(c) /\ UNCHANGED nextOp /\ H([op |-> "advance", c |-> c])
  \/ \E c \in CursorIds : \E t \in 1..(MaxOp + 1) : Go /\ t <= nextOp + 2 /\ SkipTo(c, t) /\ UNCHANGED nextOp
                                                       /\ H([op |-> "skip_to", c |-> c, t |-> t])
  \/ /\ ~fin /\ Len(hist) >= MaxSteps
     /\ PrintT(<<"CASE", ToJson(hist)>>)
     /\ fin' = TRUE /\ UNCHANGED <<qvars, hist, nextOp>>

GInit == QInit /\ hist = <<>> /\ nextOp = 0 /\ fin = FALSE
GSpec == GInit /\ [][GNext]_gvars
=============================================================================
