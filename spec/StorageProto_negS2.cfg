SPECIFICATION Spec
CONSTANTS
  NSeg = 4
  MaxCommits = 2
  SyncBeforeMeta = "ifnewseg"
  SyncAfterMeta = TRUE
  RegisterFirst = TRUE
  OldDelDeletedEarly = FALSE
  GcProtectsBuilding = TRUE
  MaxFaults = 1
  StoreMetaFirst = FALSE
  KillWaits = TRUE
  GcProtectsMergeSources = TRUE
  ReplaceStaleDel = TRUE
INVARIANT CrashSafe
CHECK_DEADLOCK FALSE
