SPECIFICATION Spec
CONSTANTS
  MaxDepth = 1
INVARIANT OrBindsTighter
CHECK_DEADLOCK FALSE
