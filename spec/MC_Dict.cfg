SPECIFICATION BSpec
CONSTANTS
  Bytes = {0, 1, 255}
  MaxLen = 2
  MaxKeys = 3
  CheckOrder = TRUE
  KeyUniverse <- MCKeyUniverse
INVARIANT BuiltIsSorted
INVARIANT Lemmas
CHECK_DEADLOCK FALSE
