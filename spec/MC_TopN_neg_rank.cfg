SPECIFICATION Spec
CONSTANTS
  MaxK = 3
  Keys = {1, 2, 3}
  MaxPush = 8
  StrictThreshold = TRUE
  AscendingDocs = TRUE
  ThresholdRankOff = 2
INVARIANT TypeOK
INVARIANT Retains
CHECK_DEADLOCK FALSE
