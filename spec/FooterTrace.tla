----------------------------- MODULE FooterTrace -----------------------------
(* Judge of the runs recorded by harness/src/bin/footer_driver.rs (C20).                     *)
(*  - write programs: the recorded calls are steps of the Footer pipeline machine seen from  *)
(*    outside (the internal buffer/drain steps are not logged): after every call the file is *)
(*    a prefix of the data, after a flush it is all of it, after terminate it is             *)
(*    data ++ footer(current version, CRC-32(data)) - the CRC is recomputed here;            *)
(*  - footer versions: supported => read back, otherwise an incompatibility error;           *)
(*  - damaged copies of the files of generated indexes: what validate_checksum reported is   *)
(*    compared with what the damage did to the body.                                         *)
EXTENDS Footer, Json, IOUtils

Rec == ndJsonDeserialize(IOEnv.TRACE)

VARIABLES l, files
tvars == <<l, files, pvars>>
Ev == Rec[l]

Has(r, k) == k \in DOMAIN r

\* ------------------------------------------------------------------ write programs
TOpen ==
  /\ Ev.ev = "open"
  /\ user' = <<>> /\ pend' = <<>> /\ buf' = <<>> /\ hashed' = <<>> /\ sink' = <<>>
  /\ phase' = "open" /\ fpend' = <<>> /\ clean' = TRUE
  /\ UNCHANGED files

TWrite ==
  /\ Ev.ev = "write" /\ phase = "open" /\ Has(Ev, "sink")
  /\ LET u == user \o Bytes(Len(user), Ev.n) IN
     /\ Ev.sink >= Len(sink) /\ Ev.sink <= Len(u)             \* AcceptedIsPrefix
     /\ user' = u /\ sink' = Sub(u, 1, Ev.sink) /\ hashed' = Sub(u, 1, Ev.sink)
     /\ buf' = Sub(u, Ev.sink + 1, Len(u))
  /\ clean' = (Ev.n = 0 /\ clean)
  /\ UNCHANGED <<pend, phase, fpend, files>>

TFlush ==
  /\ Ev.ev = "flush" /\ phase = "open" /\ Has(Ev, "sink")
  /\ Ev.sink = Len(user)                                       \* FlushComplete
  /\ sink' = user /\ hashed' = user /\ buf' = <<>> /\ clean' = TRUE
  /\ UNCHANGED <<user, pend, phase, fpend, files>>

FooterSays(fo, v, body) ==
  /\ fo.ok /\ fo.crc_fits
  /\ fo.fmt = v
  /\ fo.crc16 = Crc16(body)

TClose ==
  /\ Ev.ev = "close" /\ phase = "open" /\ Has(Ev, "file") /\ Has(Ev, "footer")
  /\ LET f == Ev.file
         n == Len(user)
     IN /\ FooterSays(Ev.footer, CurrentVersion, user)         \* ClosedFile
        /\ Len(f) = n + Ev.footer.plen + 8
        /\ Sub(f, 1, n) = user
        /\ Sub(f, Len(f) - 7, Len(f)) = FTail(Ev.footer.plen)
        /\ LET e == ExtractFooter(f) IN e.ok /\ e.body = user
        /\ Ev.read = "ok" /\ Has(Ev, "read_bytes") /\ Ev.read_bytes = user
        /\ Ev.validate = "ok"
        /\ sink' = f
  /\ phase' = "closed" /\ hashed' = user /\ buf' = <<>>
  /\ UNCHANGED <<user, pend, fpend, clean, files>>

\* ------------------------------------------------------------------ footer versions
TVerFile ==
  /\ Ev.ev = "ver_file"
  /\ Ev.footer.ok /\ Ev.footer.fmt = Ev.v
  /\ Ev.validate = "ok"
  /\ IF Supported(Ev.v) THEN Ev.read = "ok" /\ Has(Ev, "read_bytes") /\ Ev.read_bytes = Bytes(0, Ev.n)
     ELSE Ev.read = "incompatible"
  /\ UNCHANGED <<files, pvars>>

TVerIndex ==
  /\ Ev.ev = "ver_index"
  /\ Ev.before.st = "ok"
  /\ Ev.validate = "ok"
  /\ IF Supported(Ev.v) THEN Ev.after = Ev.before /\ Ev.read = "ok"
     ELSE Ev.after.st = "incompatible" /\ Ev.read = "incompatible"
  /\ UNCHANGED <<files, pvars>>

\* ------------------------------------------------------------------ damaged copies
Clean(c) == Has(c, "err") /\ c.err = 0 /\ c.rep = <<>> /\ c.one = 0

TIndex ==
  /\ Ev.ev = "index"
  /\ Clean(Ev.clean)                                            \* nothing reported on the intact index
  /\ {i \in 1..Len(Ev.files) : LET x == Ev.files[i] IN
        ~(Len(x.tail) = 8 /\ Sub(x.tail, 5, 8) = LE32(Magic) /\ BodyLen(x.len, x.tail) >= 0)} = {}
  /\ files' = [n \in {Ev.files[i].f : i \in 1..Len(Ev.files)} |->
                 LET x == Ev.files[CHOOSE i \in 1..Len(Ev.files) : Ev.files[i].f = n]
                 IN [len |-> x.len, bl |-> BodyLen(x.len, x.tail)]]
  /\ UNCHANGED pvars

TIndexEnd ==
  /\ Ev.ev = "index_end"
  /\ Clean(Ev.clean)
  /\ UNCHANGED <<files, pvars>>

\* does the damage change the body?  offsets are 0-based, bl = length of the body
Touches(k, o, len, bl) ==
  CASE k = "bit"    -> o[1] < bl
    [] k = "byte"   -> o[1] < bl /\ o[2] # o[3]
    [] k = "multi"  -> \E j \in 1..Len(o[2]) : o[1] + j - 1 < bl /\ o[2][j] # o[3][j]
    [] k = "trunc"  -> o[1] < len
    [] k = "append" -> o[1] >= 1
    [] k = "insert" -> o[1] <= bl /\ o[2] >= 1
    [] k = "delete" -> o[1] < bl /\ o[2] >= 1
    [] OTHER -> FALSE

\* o = <<a, b, c, err, reported, one>>: err = Index::validate_checksum returned Err,
\* reported = the set it returned, one = ManagedDirectory::validate_checksum(file): 0 true, 1 false, 2 Err
Judge(k, o, f) ==
  LET err == o[4]  rep == o[5]  one == o[6]  fi == files[f] IN
  /\ err \in {0, 1} /\ one \in {0, 1, 2}
  /\ err = 1 \/ rep \in {<<>>, <<f>>}                          \* never another file
  /\ err = 0 => one # 2 /\ (rep = <<f>> <=> one = 1)            \* index level = file level
  /\ err = 1 => one = 2
  /\ Touches(k, o, fi.len, fi.bl) => (err = 1 \/ rep = <<f>>)   \* damage of the body is detected

TDmg ==
  /\ Ev.ev = "dmg"
  /\ Ev.f \in DOMAIN files
  /\ Ev.k \in {"bit", "byte", "multi", "trunc", "append", "insert", "delete"}
  /\ UNCHANGED <<files, pvars>>
  \* (written as an expression: inside an action TLC would branch on every disjunction of Judge)
  /\ {i \in 1..Len(Ev.obs) : ~Judge(Ev.k, Ev.obs[i], Ev.f)} = {}

\* a panic, an error of write/flush/terminate on a fault-free directory: no action accepts them

TNext ==
  /\ l <= Len(Rec) /\ l' = l + 1
  /\ \/ TOpen \/ TWrite \/ TFlush \/ TClose \/ TVerFile \/ TVerIndex \/ TIndex \/ TIndexEnd \/ TDmg

TInit == l = 1 /\ files = <<>> /\ Init
TSpec == TInit /\ [][TNext]_tvars

Accepted ==
  IF TLCGet("stats").diameter - 1 = Len(Rec) THEN TRUE
  ELSE Print(<<"REJECTED", TLCGet("stats").diameter, Rec[TLCGet("stats").diameter]>>, FALSE)
=============================================================================
