--------------------------- MODULE WriterLockTrace ---------------------------
(* Trace specification of C18: consumes the events of harness/src/bin/lock_driver.rs (one per  *)
(* API call on the real tantivy code, for SimDir / RamDirectory / MmapDirectory) and accepts   *)
(* them only if every result, every "who can still add + commit" probe and every observation   *)
(* of the lock file is what WriterLock prescribes.  A creation round is judged by              *)
(* RaceOutcomeOK (proved against the interleavings of Begin/End by MC_WriterLock: RaceLemma).  *)
EXTENDS WriterLock, Json, IOUtils

Rec == ndJsonDeserialize(IOEnv.TRACE)

VARIABLES l
tvars == <<vars, l>>
Ev == Rec[l]

\* evaluated on the primed state, after the action fixed it
LiveOK ==
  /\ Len(Ev.live) = Cardinality(ws')
  /\ {<<Ev.live[i][1], Ev.live[i][2]>> : i \in 1..Len(Ev.live)} = {<<w.id, w.st = "ok">> : w \in ws'}
LockfileOK == IF "lockfile" \in DOMAIN Ev THEN Ev.lockfile = (guard'.k # "free") ELSE TRUE
Has(id) == id \in Live

TReset ==
  /\ Ev.ev = "reset"
  /\ guard' = Free /\ ws' = {} /\ pc' = [t \in Threads |-> IdlePc]
  /\ round' = NoRound /\ nextW' = 1 /\ steps' = 0

\* 1..n creation attempts, joined
TRace ==
  /\ Ev.ev = "race" /\ Quiet
  /\ LET n == Len(Ev.res)
         badf == [i \in 1..n |-> Ev.bad[i] # "none"]
         oks == {i \in 1..n : Ev.res[i] = "ok"}
     IN /\ RaceOutcomeOK(Ev.res, badf, Held)
        /\ {i \in 1..n : Ev.res[i] # "ok" /\ Ev.w[i] # 0} = {}
        /\ IF oks = {} THEN UNCHANGED <<guard, ws, nextW>>
           ELSE LET i == CHOOSE i \in oks : TRUE IN
                /\ Ev.w[i] = nextW
                /\ ws' = ws \cup {NewWriter(nextW, Ev.hs[i])}
                /\ guard' = [k |-> "w", id |-> nextW]
                /\ nextW' = nextW + 1
  /\ steps' = steps + 1 /\ UNCHANGED <<pc, round>>

\* rollback keeps the lock: it succeeds, nobody gets in while it runs, the lock file is never deleted
TRollback ==
  /\ Ev.ev = "rollback" /\ Has(Ev.w)
  /\ Ev.res = "ok" /\ Ev.intr_ok = 0 /\ Ev.lock_deletes = 0
  /\ Rollback(WriterOf(Ev.w))

\* rollback with an injected I/O fault (SimDir): if it fails, the writer object keeps the lock
TFailRoll ==
  /\ Ev.ev = "failroll" /\ Has(Ev.w) /\ Ev.res # "panic"
  /\ IF Ev.res = "ok" THEN Rollback(WriterOf(Ev.w)) ELSE RollbackFail(WriterOf(Ev.w))

TDrop ==
  /\ Ev.ev = "drop" /\ Has(Ev.w) /\ Ev.res = "ok"
  /\ Drop(WriterOf(Ev.w))

TWait ==
  /\ Ev.ev = "wait" /\ Has(Ev.w)
  /\ (IF WriterOf(Ev.w).st = "ok" THEN Ev.res = "ok" ELSE Ev.res # "panic")
  /\ Wait(WriterOf(Ev.w))

\* the indexing worker met an error: commit reports it, the object and its lock stay
TKill ==
  /\ Ev.ev = "kill" /\ Has(Ev.w) /\ Ev.commit # "ok" /\ Ev.commit # "panic" /\ Ev.add # "panic"
  /\ LET w == WriterOf(Ev.w) IN
     IF w.st = "ok" THEN Kill(w) ELSE UNCHANGED vars

\* the driver was asked to act on a writer object it does not hold (the generated lifecycle
\* assumed another winner of a race), or to inject a fault on a directory that has none
TSkip ==
  /\ Ev.ev = "skip" /\ (IF Ev.op = "failroll" THEN TRUE ELSE ~Has(Ev.w))
  /\ UNCHANGED vars

TEnd ==
  /\ Ev.ev = "end" /\ ws = {} /\ ~Held
  /\ UNCHANGED vars

\* the property, evaluated on every state the real runs went through - inside the step (an
\* INVARIANT of a trace configuration makes TLC print the whole, very long, behaviour)
Chk(name, ok) == IF ok THEN TRUE ELSE Print(<<"INVFAIL", name, l>>, FALSE)

TNext ==
  /\ l <= Len(Rec) /\ l' = l + 1
  /\ \/ TReset \/ TRace \/ TRollback \/ TFailRoll \/ TDrop \/ TWait \/ TKill \/ TSkip \/ TEnd
  /\ IF "live" \in DOMAIN Ev THEN LiveOK ELSE TRUE
  /\ LockfileOK
  /\ Chk("AtMostOneWriter", AtMostOneWriter') /\ Chk("LockFreeIffNoWriter", LockFreeIffNoWriter')

TInit == Init /\ l = 1
TSpec == TInit /\ [][TNext]_tvars

Accepted ==
  IF TLCGet("stats").diameter - 1 = Len(Rec) THEN TRUE
  ELSE Print(<<"REJECTED", TLCGet("stats").diameter, Rec[TLCGet("stats").diameter]>>, FALSE)
=============================================================================
