SPECIFICATION Spec
CONSTANTS
  MaxDepth = 2
INVARIANT Neutral
INVARIANT AndBindsTighter
INVARIANT Occurs
INVARIANT Groups
INVARIANT ChainDocumented
INVARIANT NegativeExpr
INVARIANT Balanced
INVARIANT NoBlankBeforeBracket
INVARIANT NoF9Shape
CHECK_DEADLOCK FALSE
