------------------------------ MODULE TopNTrace ------------------------------
(* Trace specification of C06 (harness/src/bin/topk_driver.rs).                               *)
(*  "topn": push sequences run through the real TopNComputer: the threshold after every push  *)
(*          and the final sorted vector must be those of the TopN machine (PushOp / Result).  *)
(*  "topk": one (searcher, query, sort key): `all` = the exhaustive (address, key) list of a  *)
(*          non-pruning collector, `sorted` = certificate of its complete order (verified in  *)
(*          linear time), and observations (K, O, TopDocs result): result = Page(sorted,K,O). *)
(*          Keys that are float sums of n > 2 clauses are compared within 4n ulp (the order   *)
(*          of summation differs between the pruning and the exhaustive path); then every     *)
(*          returned entry carries the position of its document in `sorted`.                  *)
EXTENDS TopN, Json, IOUtils, TLC

Rec == ndJsonDeserialize(IOEnv.TRACE)

\* ---- topn
ResultOK(c, b) ==
  LET r == Result(c.ord, c.k, b) IN
  /\ Len(r) = Len(c.result)
  /\ \A i \in 1..Len(r) : r[i].key = c.result[i][1] /\ r[i].doc = c.result[i][2]
RECURSIVE PushesOK(_, _, _)
PushesOK(c, i, s) ==
  IF i > Len(c.pushes) THEN ResultOK(c, s.buf)
  ELSE LET n == PushOp(c.ord, c.k, s, c.pushes[i][1], i, TRUE) IN
       /\ (IF c.pushes[i][2] = 0 THEN n.thr = None ELSE n.thr = c.pushes[i][3])
       /\ PushesOK(c, i + 1, n)
TopNCaseOK(c) == PushesOK(c, 1, [buf |-> {}, thr |-> None])
RECURSIVE FirstBadCase(_, _)
FirstBadCase(cases, i) == IF i > Len(cases) THEN 0 ELSE IF TopNCaseOK(cases[i]) THEN FirstBadCase(cases, i + 1) ELSE i

\* ---- topk
AbsD(a, b) == IF a > b THEN a - b ELSE b - a
Exact(e) == e.kind # "score" \/ e.n <= 2
Tol(e) == 4 * e.n
ScoreOf(x) == x[3][1][2]
ObsOK(e, o) ==
  LET page == Page(e.sorted, o.k, o.off) IN
  IF Exact(e) THEN o.top = page
  ELSE /\ Len(o.top) = Len(page)
       /\ Len(o.pos) = Len(o.top)
       /\ Cardinality(SeqSet(o.pos)) = Len(o.pos)
       /\ \A i \in 1..Len(o.top) :
            /\ o.pos[i] \in 1..Len(e.sorted)
            /\ e.sorted[o.pos[i]][1] = o.top[i][1] /\ e.sorted[o.pos[i]][2] = o.top[i][2]     \* a matching document
            /\ AbsD(ScoreOf(o.top[i]), ScoreOf(e.sorted[o.pos[i]])) <= Tol(e)                 \* reported with its own key
            /\ AbsD(ScoreOf(o.top[i]), ScoreOf(page[i])) <= Tol(e)                            \* and not beaten by an omitted one
       /\ \A i \in 1..(Len(o.top) - 1) : Before(e.cmp, o.top[i], o.top[i + 1])
RECURSIVE FirstBadObs(_, _)
FirstBadObs(e, i) == IF i > Len(e.obs) THEN 0 ELSE IF ObsOK(e, e.obs[i]) THEN FirstBadObs(e, i + 1) ELSE i

EvOK(e) ==
  \/ e.ev \in {"reset", "end", "info"}
  \/ e.ev = "topn" /\ FirstBadCase(e.cases, 1) = 0
  \/ e.ev = "topk" /\ CertOK(e.cmp, e.all, e.sorted) /\ FirstBadObs(e, 1) = 0

VARIABLE l
TInit == l = 1 /\ K = 0 /\ ord = "natural" /\ buf = {} /\ thr = None /\ pushed = {} /\ nPushed = 0
\* (EvOK(..) = TRUE: a guard written as an expression - TLC would treat the disjunctions of a bare guard as action branches)
TNext == l <= Len(Rec) /\ EvOK(Rec[l]) = TRUE /\ l' = l + 1 /\ UNCHANGED vars
TSpec == TInit /\ [][TNext]_<<l, vars>>

Diag(e) ==
  IF e.ev = "topn" THEN LET b == FirstBadCase(e.cases, 1) IN [why |-> "TopNComputer differs from the TopN machine", case |-> e.cases[b]]
  ELSE IF e.ev = "error" THEN [why |-> "search returned an error", ev |-> e.ev, q |-> e.q, key |-> e.key, err |-> e.err]
  ELSE IF e.ev = "panic" THEN [why |-> "search panicked", ev |-> e.ev, q |-> e.q, key |-> e.key, err |-> e.msg]
  ELSE IF e.ev # "topk" THEN [why |-> "unknown event", ev |-> e.ev]
  ELSE IF ~CertOK(e.cmp, e.all, e.sorted) THEN [why |-> "certificate: sorted is not the ordered permutation of the exhaustive list (tool problem)", q |-> e.q]
  ELSE LET b == FirstBadObs(e, 1)  o == e.obs[b] IN
       [why |-> "TopDocs result is not the page of the complete order", q |-> e.q, key |-> e.key, cmp |-> e.cmp, n |-> e.n, exact |-> Exact(e),
        k |-> o.k, off |-> o.off, mt |-> o.mt, nall |-> Len(e.all), top |-> o.top, expected |-> Page(e.sorted, o.k, o.off)]

Accepted ==
  IF TLCGet("stats").diameter - 1 = Len(Rec) THEN TRUE
  ELSE Print(<<"REJECTED", TLCGet("stats").diameter, ToJson(Diag(Rec[TLCGet("stats").diameter]))>>, FALSE)
=============================================================================
