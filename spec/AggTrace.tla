------------------------------ MODULE AggTrace ------------------------------
(* Trace specification of C14 (the judge).  Consumes the events recorded by                 *)
(* harness/src/bin/agg_driver.rs: per case the corpus, the partition, the request, and the   *)
(* normalised result observed after every step (search through AggregationCollector;        *)
(* collect of a part through DistributedAggregationCollector, merge_fruits of two           *)
(* intermediate results, serialisation round trip, into_final_result).  Which documents an  *)
(* intermediate result covers is tracked here (hd), never taken from the harness; every     *)
(* observed result must be explained by the denotation Den of module Agg over exactly those *)
(* documents.  AggTrace_f14.cfg (ValueCounts = TRUE) is the variant that mirrors recorded    *)
(* finding F14; it judges the dedicated F13 sub-run.                                         *)
(* Errors and panics of the code under test have no action: they reject.                    *)
EXTENDS Agg, Json, IOUtils

Rec == ndJsonDeserialize(IOEnv.TRACE)

VARIABLES l, hd
tvars == <<vars, l, hd>>
Ev == Rec[l]

(* outside the exact regime (a per-segment cut of a terms aggregation could bite) nothing is demanded. *)
(* Judge is used as an EXPRESSION (`= TRUE`): inside an action TLC would otherwise treat every \/ and  *)
(* \E of Match as a branch of the next-state relation and enumerate duplicate successors.             *)
JudgeExpr(D) ==
  IF ExactReq(req, docs, D) THEN MatchReq(req, DenReq(req, docs, D \cap Dq, D), Ev.res)
  ELSE PrintT(<<"INEXACT", l>>)
Judge(D) == JudgeExpr(D) = TRUE

TCase ==
  /\ Ev.ev = "case"
  /\ {i \in 1..Len(Ev.docs) : Ev.docs[i].id # <<i>>} = {}     \* a document's id is its index (top_hits identifies hits by it)
  /\ docs' = Ev.docs /\ part' = Ev.part /\ req' = Ev.req /\ query' = Ev.query
  /\ phase' = "run" /\ pool' = {} /\ collected' = {} /\ hd' = EmptyFn

TSearch ==
  /\ Ev.ev = "obs" /\ Ev.op = "search"
  /\ Judge(1..Len(docs))
  /\ UNCHANGED <<vars, hd>>

TCollect ==
  /\ Ev.ev = "obs" /\ Ev.op = "collect"
  /\ Ev.h \notin DOMAIN hd /\ Ev.part \notin collected      \* the part may be empty (an index without segments)
  /\ Judge(PartDocs(Ev.part))
  /\ hd' = hd @@ (Ev.h :> PartDocs(Ev.part))
  /\ collected' = collected \cup {Ev.part}
  /\ UNCHANGED <<docs, part, req, query, phase, pool>>

(* IntermediateAggregationResults::default(): the seed of a fold *)
TEmpty ==
  /\ Ev.ev = "obs" /\ Ev.op = "empty"
  /\ Ev.h \notin DOMAIN hd
  /\ Judge({})
  /\ hd' = hd @@ (Ev.h :> {})
  /\ UNCHANGED vars

TMerge ==
  /\ Ev.ev = "obs" /\ Ev.op = "merge"
  /\ Ev.a \in DOMAIN hd /\ Ev.b \in DOMAIN hd /\ Ev.a # Ev.b
  /\ hd[Ev.a] \cap hd[Ev.b] = {}
  /\ Judge(hd[Ev.a] \cup hd[Ev.b])
  /\ hd' = [h \in DOMAIN hd \ {Ev.b} |-> IF h = Ev.a THEN hd[Ev.a] \cup hd[Ev.b] ELSE hd[h]]
  /\ UNCHANGED vars

TSerFinal ==
  /\ Ev.ev = "obs" /\ Ev.op \in {"ser", "final"}
  /\ Ev.h \in DOMAIN hd
  /\ Judge(hd[Ev.h])
  /\ UNCHANGED <<vars, hd>>

TEnd == Ev.ev = "end" /\ UNCHANGED <<vars, hd>>

TNext == /\ l <= Len(Rec) /\ l' = l + 1
         /\ (TCase \/ TSearch \/ TCollect \/ TEmpty \/ TMerge \/ TSerFinal \/ TEnd)

TInit == /\ l = 1 /\ hd = EmptyFn /\ docs = <<>> /\ part = <<>> /\ req = <<>> /\ query = "all"
         /\ phase = "build" /\ pool = {} /\ collected = {}
TSpec == TInit /\ [][TNext]_tvars

Accepted ==
  IF TLCGet("stats").diameter - 1 = Len(Rec) THEN TRUE
  ELSE Print(<<"REJECTED", TLCGet("stats").diameter, Rec[TLCGet("stats").diameter]>>, FALSE)
=============================================================================
