SPECIFICATION Spec
CONSTANTS
  Order = "asc"
  Keys = {0, 1}
  Terms = {"a", "b"}
  MaxDocs = 3
  MaxOps = 6
  PermuteOpstamps = FALSE
  StackNeedsNoNulls = TRUE
INVARIANT DeletesHitTheRightDocs
CHECK_DEADLOCK FALSE
