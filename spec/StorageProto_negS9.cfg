SPECIFICATION Spec
CONSTANTS
  NSeg = 4
  MaxCommits = 2
  SyncBeforeMeta = "always"
  SyncAfterMeta = TRUE
  RegisterFirst = TRUE
  OldDelDeletedEarly = TRUE
  GcProtectsBuilding = TRUE
  MaxFaults = 1
  StoreMetaFirst = FALSE
  KillWaits = TRUE
  GcProtectsMergeSources = TRUE
  ReplaceStaleDel = TRUE
INVARIANT CrashSafe
CHECK_DEADLOCK FALSE
