SPECIFICATION Spec
CONSTANTS
  SyncAfterMeta = FALSE
  SyncAfterRegister = FALSE
  SyncBeforeMeta = TRUE
  GcBeforeMeta = FALSE
INVARIANT CrashDurable
CHECK_DEADLOCK FALSE
