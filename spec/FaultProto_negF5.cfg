SPECIFICATION Spec
CONSTANTS
  MaxDocs = 4
  MaxFaults = 2
  DeadWriterStaysDead = FALSE
  KillUpdaterOnSaveFail = TRUE
INVARIANT OkCommitIsComplete
INVARIANT LastCommitIntact
CONSTRAINT Bound
CHECK_DEADLOCK FALSE
