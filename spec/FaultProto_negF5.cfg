SPECIFICATION Spec
CONSTANTS
  MaxDocs = 4
  MaxFaults = 2
  DeadWriterStaysDead = FALSE
INVARIANT OkCommitIsComplete
INVARIANT LastCommitIntact
CHECK_DEADLOCK FALSE
