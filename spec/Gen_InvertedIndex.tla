-------------------------- MODULE Gen_InvertedIndex --------------------------
(* Generator for C07 (R direction): TLC enumerates                                            *)
(*  - seek programs over a posting list (advance, seek to the current document, to the k-th   *)
(*    next posting with k around the 128-posting block, between two postings, far beyond, past *)
(*    the end);                                                                                *)
(*  - posting-list shapes: length around the block size and its multiples, one doc-id gap      *)
(*    needing b bits somewhere in the list, term frequency around 128 positions, record option. *)
(* For a shape the doc ids are computed here (and the last one printed as a check).            *)
EXTENDS InvertedIndex, Json

SeekOps == {<<"adv">>, <<"same">>, <<"end">>}
           \cup {<<"skip", k>> : k \in {1, 2, 127, 128, 129, 300}}
           \cup {<<"between", k>> : k \in {0, 1, 128}}
           \cup {<<"plus", k>> : k \in {1, 1000}}
Programs == UNION {[1..n -> SeekOps] : n \in 1..3}

Lens == {1, 2, 127, 128, 129, 255, 256, 257, 384, 1000, 20000}
GapBits == {0, 1, 4, 7, 8, 9, 12, 15, 16}          \* one gap of 2^b + 1 in the middle of the list, the others 1 or 2
Tfs == {1, 2, 127, 128, 129, 300}
Opts == {"pos", "frq", "bas", "nn"}

\* doc id of the i-th posting (1-based): steps of `step`, one big gap after the middle posting
DocAt(len, step, bits, i) == (i - 1) * step + (IF bits > 0 /\ i > (len + 1) \div 2 THEN 2 ^ bits ELSE 0)

Mixed == <<1, 2, 1, 3, 2, 1, 3, 3, 2, 1, 1, 2>>
FieldAt(pat, nf, i) == IF pat = "roundrobin" THEN ((i - 1) % nf) + 1 ELSE (Mixed[((i * 5) % 12) + 1] % nf) + 1

VARIABLE done
GInit ==
  /\ done = FALSE /\ plist = <<>> /\ cur = TERMINATED /\ seen = <<>>
  /\ \A p \in Programs : PrintT(<<"CASE", ToJson([what |-> "prog", prog |-> p])>>)
  /\ \A n \in Lens : \A b \in GapBits : \A st \in {1, 2} : \A o \in Opts :
       (n = 20000 /\ (b \notin {0, 16} \/ st = 2)) \/
       PrintT(<<"CASE", ToJson([what |-> "shape", len |-> n, step |-> st, bits |-> b, opt |-> o,
                                 tf |-> (CHOOSE t \in Tfs : TRUE), last_doc |-> DocAt(n, st, b, n), mid |-> (n + 1) \div 2])>>)
  /\ \A t \in Tfs : \A o \in Opts : PrintT(<<"CASE", ToJson([what |-> "tf", tf |-> t, opt |-> o])>>)
  \* documents with many (field, value) pairs, two or three text fields interleaved: the order in which the
  \* pairs are added (field numbers), for numbers of pairs around ManyValuesLimit and well above
  /\ \A nf \in {2, 3} : \A n \in {ManyValuesLimit - 1, ManyValuesLimit, ManyValuesLimit + 1, ManyValuesLimit + 4, 2 * ManyValuesLimit, 5 * ManyValuesLimit} :
       \A pat \in {"roundrobin", "mixed"} :
         PrintT(<<"CASE", ToJson([what |-> "many", nfields |-> nf, pairs |-> n, pattern |-> pat,
                                   order |-> [i \in 1..n |-> FieldAt(pat, nf, i)]])>>)
  \* documents with 1..3 values of the JSON field sharing a path: words per leaf, repeated or distinct tokens,
  \* and whether a second path / an array under the path is present
  /\ \A nv \in {1, 2, 3} : \A w \in {1, 2, 4} : \A rep \in BOOLEAN : \A arr \in BOOLEAN :
       PrintT(<<"CASE", ToJson([what |-> "jsonvals", values |-> nv, words |-> w, repeated |-> rep, array |-> arr])>>)
  \* a term frequency / a gap between two consecutive positions of a term at a switch of the variable-length
  \* encoding, in a posting list shorter than a block (all of it in the incomplete block) and in a longer one
  \* (the special documents before and after the bit-packed block)
  /\ \A sw \in VintSwitches : \A v \in {sw - 1, sw, sw + 1} : \A kind \in {"tf", "gap"} : \A ll \in {3, BlockLen + 72} :
       \A o \in (IF kind = "gap" THEN {"pos", "nn"} ELSE {"pos", "frq", "nn"}) :
         PrintT(<<"CASE", ToJson([what |-> "vintb", kind |-> kind, value |-> v, listlen |-> ll, opt |-> o])>>)
  \* the same path (flat or nested) with text in BOTH JSON fields of a document; several leaves under it in one
  \* of the two; the positions of a path are counted per field
  /\ \A nested \in BOOLEAN : \A w1 \in {1, 3} : \A w2 \in {1, 2} : \A multi \in {"none", "first", "second"} : \A other \in BOOLEAN :
       PrintT(<<"CASE", ToJson([what |-> "json2", nested |-> nested, words1 |-> w1, words2 |-> w2, multi |-> multi, disjoint_path_too |-> other])>>)
  \* tokens around MaxTokenLen: alone in a value, between normal tokens, in one value of a multi-valued field
  /\ \A n \in {MaxTokenLen, MaxTokenLen + 1, 70000} : \A place \in {"alone", "between", "multi"} : \A o \in {"pos", "frq", "bas"} :
       PrintT(<<"CASE", ToJson([what |-> "longtok", bytes |-> n, place |-> place, opt |-> o, dropped |-> n > MaxTokenLen])>>)
  \* position gaps that need a fifth byte: in the tail of short and long posting lists, between two values of a
  \* multi-valued field, and in a document with more than BlockLen positions of the term
  /\ \A v \in BigPositionGaps : \A ll \in {3, BlockLen + 72} : \A o \in {"pos", "nn"} : \A place \in {"tail", "values", "many"} :
       PrintT(<<"CASE", ToJson([what |-> "vintb", kind |-> "biggap", value |-> v, listlen |-> ll, opt |-> o, place |-> place])>>)
GNext == done' = TRUE /\ UNCHANGED ivars
GSpec == GInit /\ [][GNext]_<<done, ivars>>
=============================================================================
