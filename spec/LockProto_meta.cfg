SPECIFICATION Spec
CONSTANTS
  Threads = {t1, t2, t3}
  MaxInodes = 3
  Blocking = TRUE
  UnlinkOnRelease = FALSE
  UnlinkOnRefusal = FALSE
INVARIANT Mutex
INVARIANT OneInode
CHECK_DEADLOCK FALSE
