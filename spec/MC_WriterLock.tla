--------------------------- MODULE MC_WriterLock ---------------------------
(* Bounded model checking of WriterLock: all lifecycles of at most MaxSteps user-level        *)
(* operations (creation rounds of 1..NT racing threads, rollback, drop, wait, worker death),  *)
(* every interleaving of the racing constructors.                                             *)
EXTENDS WriterLock
CONSTANT MaxSteps
Bounded == steps <= MaxSteps
\* vacuity guards: the interesting situations are reached
ReachTwoAttemptsOneWinner == ~(RoundDone /\ Cardinality(round.S) >= 2 /\ \E t \in round.S : pc[t].res = "ok")
=============================================================================
