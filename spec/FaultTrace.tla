------------------------------ MODULE FaultTrace ------------------------------
(* Trace specification for C11: the API-level oracle of CoreTrace extended with injected      *)
(* storage faults (harness/src/bin/fault_driver.rs).                                          *)
(*   ErrorsHaveACause   : a call fails only after a fault was injected (and before the heal)  *)
(*   OkCommitIsComplete : a commit that returns Ok publishes exactly the pending operations   *)
(*                        (CoreTrace!TCommit, unchanged) - an error is never swallowed        *)
(*   LastCommitIntact   : whatever failed, the storage read back with a fresh Index::open is  *)
(*                        a consistent index holding the last commit (or the one that failed  *)
(*                        after taking effect)                                                *)
(*   NewWriterAfterFailure : after the heal a new writer adds, commits and collects normally  *)
(*   no event accepts a panic or a hang                                                       *)
EXTENDS CoreTrace

VARIABLES faultSeen,    \* a fault was injected since the last heal
          dirtyCommit,  \* a commit failed and the caller kept the writer (recorded finding F40)
          wfault        \* a fault has fired since the current writer object was created (or rolled back):
                        \* only then may its calls fail; after a successful rollback / re-open the writer
                        \* "can continue indexing normally" (C11) until the next injected fault
fvars == <<vars, faultSeen, dirtyCommit, wfault>>
Cause == wfault \/ Ev.nf > 0

Same == UNCHANGED <<pend, commd, lo, metaop, payload, wopen, wCreated, dirty, sorted, kf>>

FFault == Ev.ev = "fault" /\ faultSeen' = TRUE /\ Same
FHeal == Ev.ev = "heal" /\ faultSeen' = FALSE /\ Same

\* add / delete / batch / delete_all failed: reported, nothing becomes pending
FOpFail ==
  /\ Ev.ev \in {"add", "del", "run", "delete_all"} /\ ~Ev.ok /\ Ev.err # "nowriter"
  /\ faultSeen /\ wopen /\ Cause
  /\ Same /\ UNCHANGED faultSeen

\* commit (or prepare_commit) failed: the storage holds the previous commit, or this one if the
\* failure came after meta.json was replaced; the observation decides which
FCommitFail ==
  /\ Ev.ev \in {"commit", "prepare_commit", "prepare_abort"} /\ ~Ev.ok /\ Ev.err # "nowriter"
  /\ faultSeen /\ wopen /\ Cause
  /\ ObsConsistent(Ev.obs) /\ ObsSorted(Ev.obs)
  /\ IF kf THEN TRUE ELSE (ObsDocs(Ev.obs) = commd \/ ObsDocs(Ev.obs) = pend)
  /\ commd' = ObsDocs(Ev.obs) /\ metaop' = Ev.obs.metaop /\ payload' = Ev.obs.payload
  /\ UNCHANGED <<pend, lo, wopen, wCreated, dirty, sorted, kf, faultSeen>>

FRollbackFail ==
  /\ Ev.ev = "rollback" /\ ~Ev.ok /\ Ev.err # "nowriter"
  /\ faultSeen /\ wopen
  /\ ObsIs(Ev.obs, commd)
  /\ pend' = commd
  /\ UNCHANGED <<commd, lo, metaop, payload, wopen, wCreated, dirty, sorted, kf, faultSeen>>

FNewWriterFail ==
  /\ Ev.ev = "new_writer" /\ ~Ev.ok /\ ~wopen /\ faultSeen
  /\ Same /\ UNCHANGED faultSeen

\* a second Index instance cannot be opened (its reads failed): an error with a cause, nothing changes;
\* the harness then has no instance to switch to and refuses `switch_index` itself
FSecondFail ==
  /\ \/ Ev.ev = "open_second" /\ ~Ev.ok /\ faultSeen
     \/ Ev.ev = "switch_index" /\ ~Ev.ok
  /\ Same /\ UNCHANGED faultSeen

FWaitFail ==
  /\ Ev.ev = "wait_merges" /\ ~Ev.ok /\ Ev.err # "nowriter" /\ faultSeen /\ wopen
  /\ ObsIs(Ev.obs, commd)
  /\ wopen' = FALSE /\ pend' = commd /\ dirty' = Clean
  /\ UNCHANGED <<commd, lo, metaop, payload, wCreated, sorted, kf, faultSeen>>

FGcFail ==
  /\ Ev.ev = "gc" /\ ~Ev.ok /\ Ev.err # "nowriter" /\ faultSeen /\ wopen /\ Cause
  /\ Same /\ UNCHANGED faultSeen

\* a background merge that failed is confined: the explicit merge call reports it, content intact
FMergeFail ==
  /\ Ev.ev = "merge" /\ ~Ev.ok /\ wopen
  /\ ("obs" \in DOMAIN Ev => ObsIs(Ev.obs, commd))
  /\ Same /\ UNCHANGED faultSeen

\* a reload of a long-lived reader: it either fails because an injected fault hit the reload ITSELF
\* (nf = faults fired on the calling thread during the call), or it exposes a consistent index
\* holding the last commit (there is no concurrency in these runs)
FReload ==
  /\ Ev.ev = "reload"
  /\ IF Ev.ok THEN ObsConsistent(Ev.obs) /\ ObsSorted(Ev.obs) /\ (kf \/ ObsDocs(Ev.obs) = commd)
     ELSE faultSeen /\ Ev.nf > 0
  /\ Same /\ UNCHANGED faultSeen

\* (F40 - a merge after a failed commit published the registers of the failed commit - is repaired:
\* the updater is killed when save_metas fails, so no action accepts such a publication any more)
FSummary == Ev.ev = "summary" /\ Same /\ UNCHANGED faultSeen

\* a dropped writer under a fault may leave its lock file if the delete itself failed: the harness
\* excludes lock files from the injected faults (skip_locks), so the lock must be gone
FStep ==
  /\ l <= Len(Rec) /\ l' = l + 1
  /\ calling' = CASE Ev.ev = "call" -> TRUE
                  [] Ev.ev \in {"commit", "prepare_commit", "prepare_abort", "reset"} -> FALSE
                  [] OTHER -> calling
  /\ (FFault \/ FHeal \/ FOpFail \/ FCommitFail \/ FRollbackFail \/ FNewWriterFail \/ FSecondFail \/ FWaitFail \/ FGcFail \/ FSummary \/ FReload)

\* successful calls follow CoreTrace unchanged; a successful merge keeps the content (TMerge)
FMergeStep ==
  /\ l <= Len(Rec) /\ l' = l + 1 /\ UNCHANGED calling
  /\ FMergeFail
DirtyNext == dirtyCommit' = CASE Ev.ev \in {"commit", "prepare_commit"} /\ ~Ev.ok /\ Ev.err # "nowriter" -> TRUE
                                [] Ev.ev \in {"reset", "rollback", "prepare_abort", "new_writer", "heal"} -> FALSE
                                [] OTHER -> dirtyCommit
WNext == wfault' = CASE Ev.ev = "fault" -> TRUE
                     [] Ev.ev = "reset" -> FALSE
                     [] Ev.ev \in {"new_writer", "rollback"} /\ Ev.ok -> FALSE
                     [] OTHER -> wfault
FNext == ((TNext /\ (Ev.ev = "merge" => Ev.ok) /\ faultSeen' = (IF Ev.ev = "reset" THEN FALSE ELSE faultSeen)) \/ FStep \/ FMergeStep) /\ DirtyNext /\ WNext
FInit == TInit /\ faultSeen = FALSE /\ dirtyCommit = FALSE /\ wfault = FALSE
FSpec == FInit /\ [][FNext]_fvars
=============================================================================
