SPECIFICATION Spec
CONSTANTS
  SizeClasses = {1, 40}
  BlockSize = 8
  MaxDocs = 7
  CacheCap = 1
  KeyByLength = FALSE
INVARIANT GetReturnsDoc
INVARIANT CacheBounded
INVARIANT StoreIsDocs
INVARIANT SeekIsBlockOf
INVARIANT MergeRefinesConcat
CHECK_DEADLOCK FALSE
