-------------------------------- MODULE Store --------------------------------
(* C09 - the document store, abstractly.                                                     *)
(* A store is a sequence of blocks; a block is a sequence of (serialised) documents.  A       *)
(* document is identified here by a number, its content is opaque, its serialised size        *)
(* matters only for the block cut rule.                                                       *)
(*  - Cut: the writer's rule for closing a block;                                             *)
(*  - Checkpoints + Layers + Seek: the skip index (layers of CheckpointPeriod = 8);           *)
(*  - the reader with its LRU block cache as a state machine: Get(d) returns document d       *)
(*    whatever the cache state and the order of the accesses;                                 *)
(*  - merges: Stack (blocks copied) and Recompress (documents copied) both refine             *)
(*    "concatenate the live documents".                                                       *)
EXTENDS Integers, Sequences, FiniteSets, TLC

CheckpointPeriod == 8
IndexBytesPerDoc == 8          \* the writer counts size_of::<usize>() per document of the block
StackMinBlocks == 6            \* a source is stacked only with >= 6 blocks, no deletes, same codec

\* Every string / bytes value (and array / object table) of a document is prefixed by its length as a
\* variable-length integer of 7 bits per byte: the encoding switches to one more byte at these lengths.
\* The generator emits stored values of length switch - 1, switch, switch + 1 (2^28 = 256 MiB is not exercised).
VintLen(n) == IF n < 2 ^ 7 THEN 1 ELSE IF n < 2 ^ 14 THEN 2 ELSE IF n < 2 ^ 21 THEN 3 ELSE IF n < 2 ^ 28 THEN 4 ELSE 5
VintSwitches == {2 ^ 7, 2 ^ 14, 2 ^ 21}
\* A stored document is, per field, the SEQUENCE of its values in the order added, however the values of the
\* fields were interleaved.  Grouping the (field, value) pairs by field must be stable; Rust's unstable sort is
\* stable in effect for short inputs (here up to 32 pairs): documents around and above that are generated.
ManyValuesSmallSort == 32
\* A stored OBJECT value is the sequence of its entries <<key, value>>: keys keep the order in which they were given,
\* also when it is not ascending, and a key given twice is stored twice.

-----------------------------------------------------------------------------
(* Block cut rule (StoreWriter::check_flush_block): after a document was appended, the block  *)
(* is closed when its bytes + 8 * its number of documents exceed the block size.              *)
(* ids = document identities, sizes = their serialised sizes (same length).                   *)

\* writer state: closed blocks, documents of the current block, their bytes
EmptyW == [acc |-> <<>>, cur |-> <<>>, bytes |-> 0]
CloseBlock(w) ==
  IF w.cur = <<>> THEN w
  ELSE [acc |-> Append(w.acc, [ids |-> w.cur, bytes |-> w.bytes + 4 * (Len(w.cur) + 1)]), cur |-> <<>>, bytes |-> 0]

RECURSIVE CutR(_, _, _, _, _)
CutR(ids, sizes, bs, i, w) ==
  IF i > Len(ids) THEN w
  ELSE LET w1 == [acc |-> w.acc, cur |-> Append(w.cur, ids[i]), bytes |-> w.bytes + sizes[i]]
       IN CutR(ids, sizes, bs, i + 1,
               IF w1.bytes + IndexBytesPerDoc * Len(w1.cur) > bs THEN CloseBlock(w1) ELSE w1)

\* the documents `ids` stored one by one into a writer in state w
StoreAll(ids, sizes, bs, w) == CutR(ids, sizes, bs, 1, w)

\* the blocks written for the documents `ids` (uncompressed length of a block: documents,
\* one u32 offset per document, one u32 count)
Cut(ids, sizes, bs) == CloseBlock(StoreAll(ids, sizes, bs, EmptyW)).acc

RECURSIVE Flatten(_)
Flatten(blocks) == IF blocks = <<>> THEN <<>> ELSE Head(blocks).ids \o Flatten(Tail(blocks))
DocSeq(blocks) == Flatten(blocks)
NumDocs(blocks) == Len(DocSeq(blocks))

RECURSIVE SumBytes(_)
SumBytes(blocks) == IF blocks = <<>> THEN 0 ELSE Head(blocks).bytes + SumBytes(Tail(blocks))

-----------------------------------------------------------------------------
(* Checkpoints: per block the half-open range of doc ids and of bytes.                        *)

RECURSIVE CheckpointsR(_, _, _, _)
CheckpointsR(blocks, i, doc, byte) ==
  IF i > Len(blocks) THEN <<>>
  ELSE <<[start |-> doc, end |-> doc + Len(blocks[i].ids), bstart |-> byte, bend |-> byte + blocks[i].bytes, blk |-> i]>>
       \o CheckpointsR(blocks, i + 1, doc + Len(blocks[i].ids), byte + blocks[i].bytes)
Checkpoints(blocks) == CheckpointsR(blocks, 1, 0, 0)

(* Skip index: layer 0 is the sequence of checkpoints; an entry of layer k+1 summarises a     *)
(* group of 8 consecutive entries of layer k (the last group may be shorter) and points to   *)
(* the first of them.  While the store is written, a layer passes one entry up per 8 entries  *)
(* it received; when the store is closed each layer flushes its rest and hands the pointer to  *)
(* the next layer *if that layer exists*: so layer k+1 exists iff layer k received at least 8  *)
(* entries before the close (`ins`), and the top layer can hold up to 8 entries.               *)
Groups(n) == (n + CheckpointPeriod - 1) \div CheckpointPeriod
Up(L) == [g \in 1..Groups(Len(L)) |->
            LET a == (g - 1) * CheckpointPeriod + 1
                b == IF g * CheckpointPeriod < Len(L) THEN g * CheckpointPeriod ELSE Len(L)
            IN [start |-> L[a].start, end |-> L[b].end, child |-> a]]

RECURSIVE LayersR(_, _)
LayersR(L, ins) == IF ins < CheckpointPeriod THEN <<L>> ELSE <<L>> \o LayersR(Up(L), ins \div CheckpointPeriod)
\* bottom layer first
Layers(blocks) == IF blocks = <<>> THEN <<>> ELSE LayersR(Checkpoints(blocks), Len(blocks))
NumLayers(blocks) == Len(Layers(blocks))

\* first entry at or after `from` whose range ends after the target; 0 if none
RECURSIVE SeekLayer(_, _, _)
SeekLayer(L, from, t) ==
  IF from > Len(L) THEN 0 ELSE IF L[from].end > t THEN from ELSE SeekLayer(L, from + 1, t)

\* SkipIndex::seek: from the top layer down, each layer scanned from the child pointer
RECURSIVE SeekR(_, _, _, _)
SeekR(layers, k, from, t) ==
  LET i == SeekLayer(layers[k], from, t) IN
  IF i = 0 THEN 0
  ELSE IF k = 1 THEN i
  ELSE SeekR(layers, k - 1, layers[k][i].child, t)
\* index of the block holding doc id t (0-based), 0 if there is none
SeekL(layers, t) == IF layers = <<>> THEN 0 ELSE SeekR(layers, Len(layers), 1, t)
Seek(blocks, t) == SeekL(Layers(blocks), t)

\* what it must be
BlockOfC(cps, t) ==
  LET S == {i \in 1..Len(cps) : cps[i].start <= t /\ t < cps[i].end}
  IN IF S = {} THEN 0 ELSE CHOOSE i \in S : TRUE
BlockOf(blocks, t) == BlockOfC(Checkpoints(blocks), t)

SeekCorrect(blocks) ==
  LET ls == Layers(blocks)
      cps == Checkpoints(blocks)
  IN \A t \in 0..(NumDocs(blocks) + 2) : SeekL(ls, t) = BlockOfC(cps, t)

\* reading document t through the index: the block, then the position inside the block
Fetch(blocks, blockContent, t) ==
  LET cps == Checkpoints(blocks) IN blockContent[t - cps[Seek(blocks, t)].start + 1]

-----------------------------------------------------------------------------
(* Merges.  A source is a sequence of blocks plus the set of alive doc ids (0-based).          *)

RECURSIVE LiveR(_, _, _)
LiveR(docs, alive, i) ==
  IF i > Len(docs) THEN <<>>
  ELSE (IF (i - 1) \in alive THEN <<docs[i]>> ELSE <<>>) \o LiveR(docs, alive, i + 1)
Live(blocks, alive) == LiveR(DocSeq(blocks), alive, 1)
AllAlive(blocks) == 0..(NumDocs(blocks) - 1)

RECURSIVE ConcatLive(_, _)
ConcatLive(srcs, alives) ==
  IF srcs = <<>> THEN <<>> ELSE Live(Head(srcs), Head(alives)) \o ConcatLive(Tail(srcs), Tail(alives))

\* documents copied one by one into a fresh writer
Recompress(srcs, alives, sizeOf, bs) ==
  LET ids == ConcatLive(srcs, alives) IN Cut(ids, [i \in 1..Len(ids) |-> sizeOf[ids[i]]], bs)

\* whole blocks copied (the writer's current block is flushed first)
RECURSIVE Stack(_)
Stack(srcs) == IF srcs = <<>> THEN <<>> ELSE Head(srcs) \o Stack(Tail(srcs))

\* A filtered merge (merge_filtered_segments) gives every source an additional alive set: the documents of a
\* source that reach the merged store are those alive under BOTH its own deletes and the caller's filter, and
\* only a source whose effective alive set is everything may be stacked.
EffectiveAlive(own, filter) == own \cap filter

\* the merger's choice for one source
Stacks(blocks, alive, sameCodec) ==
  alive = AllAlive(blocks) /\ Len(blocks) >= StackMinBlocks /\ sameCodec

\* IndexMerger::write_storable_fields without a sort: per source either stack (the writer's
\* current block is closed first) or store the live documents one by one
\* (sameCodec: the sources were written with the compressor the merged store is written with;
\* blocks of another codec must never be copied verbatim)
RECURSIVE MergeW(_, _, _, _, _, _)
MergeW(srcs, alives, sizeOf, bs, w, sameCodec) ==
  IF srcs = <<>> THEN w
  ELSE LET src == Head(srcs)
           live == Live(src, Head(alives))
           w1 == IF Stacks(src, Head(alives), sameCodec)
                 THEN [acc |-> CloseBlock(w).acc \o src, cur |-> <<>>, bytes |-> 0]
                 ELSE StoreAll(live, [i \in 1..Len(live) |-> sizeOf[live[i]]], bs, w)
       IN MergeW(Tail(srcs), Tail(alives), sizeOf, bs, w1, sameCodec)
MergeC(srcs, alives, sizeOf, bs, sameCodec) == CloseBlock(MergeW(srcs, alives, sizeOf, bs, EmptyW, sameCodec)).acc
Merge(srcs, alives, sizeOf, bs) == MergeC(srcs, alives, sizeOf, bs, TRUE)
\* the codec is a property of each SOURCE (the compressor of the index may have changed during its life): a
\* source may be stacked only if ITS codec is the one of the merged store, whatever the other sources are
RECURSIVE MergeWS(_, _, _, _, _, _)
MergeWS(srcs, alives, sizeOf, bs, w, sames) ==
  IF srcs = <<>> THEN w
  ELSE MergeWS(Tail(srcs), Tail(alives), sizeOf, bs, MergeW(<<Head(srcs)>>, <<Head(alives)>>, sizeOf, bs, w, Head(sames)), Tail(sames))
MergeS(srcs, alives, sizeOf, bs, sames) == CloseBlock(MergeWS(srcs, alives, sizeOf, bs, EmptyW, sames)).acc

-----------------------------------------------------------------------------
(* The machine: a writer adds documents and closes the store; a reader with an LRU cache of   *)
(* CacheCap blocks serves Get(d) in any order.                                                *)

CONSTANTS SizeClasses,   \* serialised sizes of documents
          BlockSize,
          MaxDocs,
          CacheCap,      \* 0 = no cache
          KeyByLength    \* negative configuration: the cache is keyed by the block's length

VARIABLES sizes,     \* sizes of the documents added so far (document i has identity i)
          closed,
          cache,     \* sequence of [key, content], most recently used first
          got        \* last Get: <<doc id, identity returned>> or <<>>

svars == <<sizes, closed, cache, got>>

Ids == [i \in 1..Len(sizes) |-> i]
Blocks == Cut(Ids, sizes, BlockSize)

Init == sizes = <<>> /\ closed = FALSE /\ cache = <<>> /\ got = <<>>

Add(s) ==
  /\ ~closed /\ Len(sizes) < MaxDocs
  /\ sizes' = Append(sizes, s)
  /\ UNCHANGED <<closed, cache, got>>

Close ==
  /\ ~closed /\ closed' = TRUE
  /\ UNCHANGED <<sizes, cache, got>>

KeyOf(cp) == IF KeyByLength THEN cp.bend - cp.bstart ELSE cp.bstart

CacheFind(key) == {i \in 1..Len(cache) : cache[i].key = key}
Without(s, i) == SubSeq(s, 1, i - 1) \o SubSeq(s, i + 1, Len(s))

\* StoreReader::get_document_bytes: seek, read_block through the cache, position in the block
Get(d) ==
  /\ closed /\ d \in 0..(Len(sizes) - 1)
  /\ LET cps == Checkpoints(Blocks)
         b == Seek(Blocks, d)
         cp == cps[b]
         key == KeyOf(cp)
         hit == CacheFind(key)
     IN /\ b # 0
        /\ IF hit # {}
           THEN LET i == CHOOSE i \in hit : TRUE IN
                /\ got' = <<d, cache[i].content[d - cp.start + 1]>>
                /\ cache' = <<cache[i]>> \o Without(cache, i)
           ELSE /\ got' = <<d, Blocks[b].ids[d - cp.start + 1]>>
                /\ cache' = IF CacheCap = 0 THEN <<>>
                            ELSE SubSeq(<<[key |-> key, content |-> Blocks[b].ids]>> \o cache, 1,
                                        IF Len(cache) + 1 > CacheCap THEN CacheCap ELSE Len(cache) + 1)
  /\ UNCHANGED <<sizes, closed>>

Next == (\E s \in SizeClasses : Add(s)) \/ Close \/ (\E d \in 0..(MaxDocs - 1) : Get(d))
Spec == Init /\ [][Next]_svars

\* Get(d) returns document d (identity d + 1), whatever the cache holds
GetReturnsDoc == got # <<>> => got[2] = got[1] + 1
CacheBounded == Len(cache) <= CacheCap
\* the store holds exactly the documents added, in order
StoreIsDocs == DocSeq(Blocks) = Ids
SeekIsBlockOf == closed => SeekCorrect(Blocks)
=============================================================================
