SPECIFICATION TSpec
CONSTANTS
  Words = {"a"}
  MaxLen = 0
  Pads = {0}
  MaxDocs = 0
  AllowDeletes = FALSE
  PerSegmentStats = FALSE
  Queries = {}
  Table <- TraceTable
  StrictBoostedExplain = FALSE
POSTCONDITION Accepted
CHECK_DEADLOCK FALSE
