---------------------------- MODULE ManagedProto ----------------------------
(* Two Index instances on ONE directory take the writer in turns (a writer restart through      *)
(* another Index object, or another process).  Each instance keeps its own in-memory copy of    *)
(* the managed list (ManagedDirectory::meta_informations), read when the instance was opened;   *)
(* `.managed.json` on storage is rewritten from that copy at every file registration and after  *)
(* every collection.                                                                            *)
(*   ReloadOnAcquire = TRUE  - the code since the F50 repair: a new holder of the writer lock   *)
(*                             reads the list again                                             *)
(*   ReloadOnAcquire = FALSE - the code as found: the second instance persists its stale list,  *)
(*                             files of the first writer drop out of it and are never collected *)
EXTENDS Naturals, FiniteSets, TLC

CONSTANTS Inst, MaxFiles, ReloadOnAcquire,
          AtomicReload,   \* TRUE (code): the list is read and installed in one critical section of the instance's
                          \* managed-paths lock | FALSE (first version of the repair): read, then install
          ReloadUnderLock,\* TRUE (code): the list is read once the writer lock is held | FALSE (seeded C10-s22): it is read
                          \* before the lock is asked for - at any time while another instance may still hold it
          MaxZombie       \* files a merge thread that outlived its writer may still register and create (same instance)

VARIABLES
  holder,    \* instance holding the writer lock, or "none"
  mem,       \* instance -> its in-memory managed list
  man,       \* the persisted managed list (.managed.json)
  exists,    \* files in the directory
  living,    \* files of the committed segments (what meta.json references)
  nextF,
  tmp,       \* instance in the middle of a non-atomic reload -> the list it has read (else not in DOMAIN)
  zleft,     \* zombie budget
  pre        \* instance -> the list it read before asking for the lock (ReloadUnderLock = FALSE only)
vars == <<holder, mem, man, exists, living, nextF, tmp, zleft, pre>>

Init ==
  /\ holder = "none" /\ mem = [i \in Inst |-> {}] /\ man = {} /\ exists = {} /\ living = {} /\ nextF = 1
  /\ tmp = <<>> /\ zleft = MaxZombie /\ pre = <<>>

\* Index::writer: take the lock (and, since the repair, read the managed list again)
\* (seeded change only) the list is read before the lock is asked for
PreRead(i) ==
  /\ ~ReloadUnderLock /\ holder # i
  /\ pre' = (i :> man) @@ pre
  /\ UNCHANGED <<holder, mem, man, exists, living, nextF, tmp, zleft>>
Fresh(i) == IF ReloadUnderLock THEN man ELSE pre[i]
Acquire(i) ==
  /\ holder = "none" /\ holder' = i
  /\ ReloadUnderLock \/ i \in DOMAIN pre
  /\ IF ReloadOnAcquire /\ ~AtomicReload
     THEN tmp' = (i :> Fresh(i)) /\ UNCHANGED mem               \* the list is read now, installed in a later step
     ELSE /\ mem' = IF ReloadOnAcquire THEN [mem EXCEPT ![i] = Fresh(i)] ELSE mem
          /\ UNCHANGED tmp
  /\ UNCHANGED <<man, exists, living, nextF, zleft, pre>>
Install(i) ==
  /\ i \in DOMAIN tmp
  /\ mem' = [mem EXCEPT ![i] = tmp[i]]
  /\ tmp' = <<>>
  /\ UNCHANGED <<holder, man, exists, living, nextF, zleft, pre>>

\* a merge thread of instance i's PREVIOUS writer is still running (drop does not wait for it): it
\* registers and creates a file of a merged segment that will never be published
ZombieCreate(i) ==
  /\ holder = i /\ zleft > 0 /\ nextF <= MaxFiles
  /\ mem' = [mem EXCEPT ![i] = @ \cup {nextF}]
  /\ man' = mem'[i]
  /\ exists' = exists \cup {nextF}
  /\ nextF' = nextF + 1 /\ zleft' = zleft - 1
  /\ UNCHANGED <<holder, living, tmp, pre>>

\* a segment file: registered (list persisted from the in-memory copy), then created; the commit
\* that makes it live is folded in
CreateFile(i) ==
  /\ holder = i /\ nextF <= MaxFiles /\ i \notin DOMAIN tmp
  /\ mem' = [mem EXCEPT ![i] = @ \cup {nextF}]
  /\ man' = mem'[i]
  /\ exists' = exists \cup {nextF}
  /\ living' = living \cup {nextF}
  /\ nextF' = nextF + 1
  /\ UNCHANGED <<holder, tmp, zleft, pre>>

\* a merge or a delete makes some live files garbage
Obsolete(i) ==
  /\ holder = i
  /\ \E S \in (SUBSET living) \ {{}} : living' = living \ S
  /\ UNCHANGED <<holder, mem, man, exists, nextF, tmp, zleft, pre>>

\* garbage_collect: delete the managed files that are not living, persist the shortened list
Collect(i) ==
  /\ holder = i /\ i \notin DOMAIN tmp
  /\ LET dead == mem[i] \ living IN
     /\ exists' = exists \ dead
     /\ mem' = [mem EXCEPT ![i] = @ \ dead]
     /\ man' = IF dead # {} THEN mem'[i] ELSE man
  /\ UNCHANGED <<holder, living, nextF, tmp, zleft, pre>>

\* the writer is dropped after a last collection (wait_merging_threads + commit's collection)
Release(i) ==
  /\ holder = i /\ mem[i] \ living = {} /\ i \notin DOMAIN tmp
  /\ holder' = "none"
  /\ zleft' = MaxZombie
  /\ UNCHANGED <<mem, man, exists, living, nextF, tmp, pre>>

Next == \E i \in Inst : PreRead(i) \/ Acquire(i) \/ Install(i) \/ ZombieCreate(i) \/ CreateFile(i) \/ Obsolete(i) \/ Collect(i) \/ Release(i)
Spec == Init /\ [][Next]_vars

TypeOK == holder \in Inst \cup {"none"} /\ man \subseteq 1..MaxFiles /\ exists \subseteq 1..MaxFiles
\* the persisted list of managed files covers the files that exist: nothing tantivy created is unmanaged
NoUnmanagedFile == exists \subseteq man
\* once the writer is gone (its last collection done) exactly the committed files are left
NoOrphanAtRest == holder = "none" => exists = living
NeverDeletesLiving == living \subseteq exists
=============================================================================
