SPECIFICATION RSpec
POSTCONDITION Accepted
CHECK_DEADLOCK FALSE
