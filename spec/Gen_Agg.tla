------------------------------ MODULE Gen_Agg ------------------------------
(* Generator configuration of Agg: the same state machine (so AlgebraSound is checked on    *)
(* every generated behaviour), plus a history of the steps.  When a behaviour ends (all     *)
(* parts collected and merged into one intermediate result) the case is printed as one JSON *)
(* line; lib/props/c14.py concretises it (segment cuts, document stripes) and the harness    *)
(* executes it on the real collectors (R direction).                                         *)
EXTENDS MC_Agg, Json

VARIABLES hist, cuts, nser, nemp, fin
gvars == <<vars, hist, cuts, nser, nemp, fin>>

DocG(c, v, w, d, g, q) == [id |-> <<0>>, cat |-> c, v |-> v, w |-> w, f |-> w, d |-> d, g |-> <<g>>, q |-> <<q>>]
GenDocDomain ==
  {DocG(c, v, w, d, g, q) : c \in {<<>>, <<0>>, <<1>>, <<0, 1>>},
                            v \in {<<>>, <<1>>, <<3, 1>>, <<3, 3, -2>>},
                            w \in {<<>>, <<0>>, <<2>>, <<5>>},
                            d \in {<<>>, <<1000>>, <<4000>>},
                            g \in {0, 1},
                            q \in {11, 15}}

DHist(i, off, mdc, sub) == [k |-> "date_histogram", field |-> "d", interval |-> i, offset |-> off, mdc |-> mdc, sub |-> sub]
Subs1 == << <<"s", M("sum", "v")>>, <<"m", M("min", "w")>> >>
GenReqs == MCReqs \cup {
  << <<"c", M("value_count", "cat")>>, <<"x", MM("max", "f", 7)>>, <<"e", M("extended_stats", "v")>> >>,
  << <<"t", Terms("cat", 1, 1, CountDesc, Subs1)>> >>,
  << <<"t", Terms("cat", 2, 2, Ord("count", TRUE, "", ""), <<>>)>> >>,
  << <<"t", Terms("cat", 3, 1, Ord("sub", FALSE, "s", ""), Subs1)>> >>,
  << <<"t", Terms("cat", 10, 0, Ord("key", FALSE, "", ""), Subs1)>> >>,
  << <<"t", Terms("v", 2, 1, Ord("key", TRUE, "", ""), << <<"t2", Terms("cat", 10, 1, CountDesc, <<>>)>> >>)>> >>,
  << <<"t", TermsMiss("w", 10, 1, Ord("sub", TRUE, "st", "max"), 9, << <<"st", M("stats", "v")>> >>)>> >>,
  << <<"r", Range("w", << [from |-> 0, to |-> 2], [from |-> 3] >>, Subs1)>> >>,
  << <<"r", Range("f", << [to |-> 5] >>, << <<"h", Hist("w", 2, 1, 0, <<>>)>> >>)>> >>,
  << <<"h", Hist("w", 2, 0, 0, Subs1)>> >>,
  << <<"h", Hist("f", 3, 2, 2, <<>>)>>, <<"a", M("avg", "v")>> >>,
  << <<"h", HistHard("w", 2, 1, 0, 0, 4, << <<"t", Terms("cat", 10, 1, CountDesc, <<>>)>> >>)>> >>,
  << <<"d", DHist(1000, 0, 0, << <<"c", M("value_count", "v")>> >>)>> >>,
  << <<"d", DHist(2000, 1000, 1, <<>>)>> >>,
  << <<"f", Filter("cat", 1, << <<"r", Range("w", << [to |-> 2], [from |-> 2] >>, <<>>)>>, <<"a", MM("avg", "w", 1)>> >>)>> >>,
  << <<"f", Filter("w", 2, Subs1)>>, <<"c", M("cardinality", "cat")>> >>,
  << <<"p", Pct("w", <<25, 75>>)>>, <<"co", Composite(3, << <<"a", "w", FALSE>> >>, << <<"p", Pct("v", <<50>>)>> >>)>> >>,
  << <<"h", Hist("w", 3, 0, 1, << <<"th", TopHits(1, << <<"id", FALSE>> >>, <<"id", "cat", "v">>)>> >>)>> >>,
  \* the fused terms x histogram collector, fractional intervals 0.1 / 0.3 on the full field q
  << <<"t", Terms("g", 10, 1, CountDesc, << <<"h", Hist("q", 2, 0, 0, <<>>)>> >>)>> >>,
  << <<"t", Terms("g", 10, 1, Ord("key", TRUE, "", ""), << <<"h", Hist("q", 2, 0, 1, <<>>)>> >>)>> >>,
  \* .. and the same shape over an optional (w) column, which must not take the fused path
  << <<"t", Terms("g", 10, 1, CountDesc, << <<"h", Hist("w", 2, 0, 1, <<>>)>> >>)>> >>,
  << <<"t", Terms("g", 1, 1, CountDesc, << <<"h", HistExt("q", 6, 2, -3, 21, <<>>)>> >>)>>, <<"h", Hist("q", 2, 0, 0, Subs1)>> >>,
  << <<"co", Composite(10, << <<"a", "g", TRUE>>, <<"b", "w", TRUE>> >>, << <<"th", TopHits(2, << <<"g", TRUE>>, <<"id", TRUE>> >>, <<"id">>)>> >>)>> >> }

H(rec) == hist' = Append(hist, rec) /\ UNCHANGED <<cuts, nser, nemp, fin>>
Ids(e) == SortedSeq(e.D)

GInit == Init /\ hist = <<>> /\ cuts = <<>> /\ nser = 0 /\ nemp = 0 /\ fin = FALSE

Finish ==
  /\ ~fin /\ phase = "run" /\ Cardinality(pool) = 1
  /\ \A i \in 1..Len(part) : part[i] \in collected
  /\ PrintT(<<"CASE", ToJson([docs |-> docs, part |-> part, cuts |-> cuts, query |-> query, req |-> req, plan |-> hist])>>)
  /\ fin' = TRUE /\ UNCHANGED <<vars, hist, cuts, nser, nemp>>

GNext ==
  /\ ~fin
  /\ \/ \E d \in DocDomain, p \in 1..MaxParts, c \in BOOLEAN :
          AddDoc(d, p) /\ cuts' = Append(cuts, c) /\ UNCHANGED <<hist, nser, nemp, fin>>
     \/ Start /\ UNCHANGED <<hist, cuts, nser, nemp, fin>>
     \* an empty intermediate result (fold seed / partition without segments), at most three per behaviour
     \/ CollectEmpty /\ nemp < 3 /\ [D |-> {}, x |-> EmptySubs(req)] \notin pool /\ nemp' = nemp + 1
        /\ hist' = Append(hist, [op |-> "empty"]) /\ UNCHANGED <<cuts, nser, fin>>
     \/ \E p \in 1..MaxParts : Collect(p) /\ H([op |-> "collect", part |-> p])
     \/ \E e1, e2 \in pool : MergeTwo(e1, e2) /\ H([op |-> "merge", a |-> Ids(e1), b |-> Ids(e2)])
     \/ \E e \in pool : SerializeStep(e) /\ nser < 2 /\ nser' = nser + 1
                        /\ hist' = Append(hist, [op |-> "ser", h |-> Ids(e)]) /\ UNCHANGED <<cuts, nemp, fin>>
     \/ Finish

GSpec == GInit /\ [][GNext]_gvars
=============================================================================
