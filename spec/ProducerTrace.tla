------------------------------ MODULE ProducerTrace ------------------------------
(* C02, concurrent producers: several threads call add_document / delete_term on one shared    *)
(* IndexWriter; every call is logged at its start (`call` = sequence number) and at its end.   *)
(* The content of the next commit must be LINEARIZABLE: explained by some total order of the   *)
(* operations that respects real time.  For this operation set (adds of distinct documents,    *)
(* deletes by term) that is equivalent to, for every document d added by call a:               *)
(*     every matching delete finished before a started  =>  d is in the commit                 *)
(*     some matching delete started after a finished    =>  d is not in the commit             *)
(* (a delete that overlaps a may be ordered either way), previously committed documents are    *)
(* removed by every matching delete, and nothing else appears.  Opstamps respect real time.    *)
EXTENDS SeqOracle, Json, IOUtils, TLC

Rec == ndJsonDeserialize(IOEnv.TRACE)
VARIABLES l, ops, base
vars == <<l, ops, base>>
Ev == Rec[l]
SeqToSet(s) == {s[i] : i \in 1..Len(s)}
ObsDocs(obs) == UNION {{[id |-> s.docs[j][1], t |-> s.docs[j][2]] : j \in 1..Len(s.docs)} : s \in SeqToSet(obs.segs)}

Adds == {o \in ops : o.k = "add"}
Dels == {o \in ops : o.k = "del"}
DocOf(a) == [id |-> a.id, t |-> a.t]
MustSurvive(a) == \A q \in Dels : q.t = a.t => q.ret < a.call
MustDie(a) == \E q \in Dels : q.t = a.t /\ a.ret < q.call
Linearizable(O) ==
  /\ {d \in base : ~(\E q \in Dels : q.t = d.t)} = {d \in base : d \in O}      \* committed documents
  /\ {a \in Adds : MustSurvive(a) /\ DocOf(a) \notin O} = {}
  /\ {a \in Adds : MustDie(a) /\ DocOf(a) \in O} = {}
  /\ O \subseteq base \cup {DocOf(a) : a \in Adds}

PReset == Ev.ev = "reset" /\ ops' = {} /\ base' = {}
PRet ==
  /\ Ev.ev = "pret" /\ Ev.ok
  \* opstamps respect real time: an operation that finished before this one started has a smaller one
  /\ {o \in ops : o.ret < Ev.call /\ o.opstamp >= Ev.opstamp} = {}
  /\ ops' = ops \cup {[k |-> Ev.k, id |-> (IF Ev.k = "add" THEN Ev.id ELSE 0), t |-> Ev.t, call |-> Ev.call, ret |-> Ev.seq, opstamp |-> Ev.opstamp]}
  /\ UNCHANGED base
PCommit ==
  /\ Ev.ev = "commit" /\ Ev.ok /\ Ev.obs.ok
  /\ {o \in ops : o.opstamp >= Ev.opstamp} = {}
  /\ Ev.obs.metaop = Ev.opstamp
  /\ Linearizable(ObsDocs(Ev.obs))
  /\ Ev.obs.n = Cardinality(ObsDocs(Ev.obs))          \* every document exactly once
  /\ base' = ObsDocs(Ev.obs) /\ ops' = {}
PRollback ==
  /\ Ev.ev = "rollback" /\ Ev.ok
  /\ ObsDocs(Ev.obs) = base
  /\ ops' = {} /\ UNCHANGED base
POther ==
  /\ Ev.ev \in {"pcall", "new_writer", "wait_merges", "end", "call"}
  /\ UNCHANGED <<ops, base>>

PNext == l <= Len(Rec) /\ l' = l + 1 /\ (PReset \/ PRet \/ PCommit \/ PRollback \/ POther)
PInit == l = 1 /\ ops = {} /\ base = {}
PSpec == PInit /\ [][PNext]_vars
Accepted ==
  IF TLCGet("stats").diameter - 1 = Len(Rec) THEN TRUE
  ELSE Print(<<"REJECTED", TLCGet("stats").diameter, Rec[TLCGet("stats").diameter]>>, FALSE)
=============================================================================
