SPECIFICATION TSpec
POSTCONDITION Accepted
CHECK_DEADLOCK FALSE
