SPECIFICATION Spec
CONSTANTS
  MaxClauses = 3
  UseNested = TRUE
  SingleShouldIgnoresMsm = FALSE
INVARIANT NoPositiveClauseMatchesNothing
INVARIANT MsmAboveShouldCountMatchesNothing
INVARIANT WithinMustOutsideMustNot
INVARIANT MsmCounts
INVARIANT OptionalShouldDoesNotFilter
INVARIANT AllShouldRequiredIsConjunction
CHECK_DEADLOCK FALSE
