------------------------------ MODULE WarmTrace ------------------------------
(* Trace specification for the warming contract (WarmProto) on real reader threads:      *)
(* reader_driver registers a logging Warmer with every IndexReader.                      *)
(*   warm(r, g)        Warmer::warm was called with a searcher of generation g           *)
(*   reload(r, g)      reader r's reload returned and reader.searcher() has generation g *)
(*                     -> it must have been warmed before (PublishedIsWarmed)            *)
(*   hold / release    the reader thread keeps / drops a Searcher of generation g        *)
(*   warm_gc(r, live)  Warmer::garbage_collect(live): every generation r's thread still  *)
(*                     holds must be in `live` (NeverDiscardHeld), and `live` only names *)
(*                     generations that were warmed                                      *)
EXTENDS Naturals, Sequences, FiniteSets, Json, IOUtils, TLC

Rec == ndJsonDeserialize(IOEnv.TRACE)
VARIABLES l, warmed, held, latest
wvars == <<l, warmed, held, latest>>
Ev == Rec[l]
R == 0..7
ToSet(s) == {s[i] : i \in 1..Len(s)}
Get(f, r) == IF r \in DOMAIN f THEN f[r] ELSE {}
Put(f, r, v) == [x \in DOMAIN f \cup {r} |-> IF x = r THEN v ELSE f[x]]

TReset == Ev.ev = "reset" /\ warmed' = <<>> /\ held' = <<>> /\ latest' = <<>>
TWarm == Ev.ev = "warm" /\ warmed' = Put(warmed, Ev.r, Get(warmed, Ev.r) \cup {Ev.sgen}) /\ UNCHANGED <<held, latest>>
TReload == /\ Ev.ev = "reload"
           /\ IF Ev.ok THEN Ev.sgen \in Get(warmed, Ev.r) /\ latest' = Put(latest, Ev.r, {Ev.sgen}) ELSE UNCHANGED latest
           /\ UNCHANGED <<warmed, held>>
THold == Ev.ev = "hold" /\ Ev.sgen \in Get(warmed, Ev.r)
         /\ held' = Put(held, Ev.r, Get(held, Ev.r) \cup {Ev.sgen}) /\ UNCHANGED <<warmed, latest>>
TRelease == Ev.ev = "release" /\ held' = Put(held, Ev.r, Get(held, Ev.r) \ {Ev.sgen}) /\ UNCHANGED <<warmed, latest>>
TGc == /\ Ev.ev = "warm_gc"
       /\ Get(held, Ev.r) \subseteq ToSet(Ev.live)
       /\ UNCHANGED <<warmed, held, latest>>

TNext == l <= Len(Rec) /\ l' = l + 1 /\ (TReset \/ TWarm \/ TReload \/ THold \/ TRelease \/ TGc)
TInit == l = 1 /\ warmed = <<>> /\ held = <<>> /\ latest = <<>>
TSpec == TInit /\ [][TNext]_wvars
Accepted == IF TLCGet("stats").diameter - 1 = Len(Rec) THEN TRUE
            ELSE Print(<<"REJECTED", TLCGet("stats").diameter, Rec[TLCGet("stats").diameter]>>, FALSE)
=============================================================================
