SPECIFICATION Spec
CONSTANTS
  Lists <- MCLists
  MaxDoc = 6
  SkipCurrent = FALSE
INVARIANT OnList
INVARIANT Forward
PROPERTY SeekSameStays
CHECK_DEADLOCK FALSE
