SPECIFICATION Spec
CONSTANTS
  SyncAfterMeta = TRUE
  SyncAfterRegister = FALSE
  SyncBeforeMeta = TRUE
  GcBeforeMeta = FALSE
INVARIANT CrashNoOrphan
CHECK_DEADLOCK FALSE
