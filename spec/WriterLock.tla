------------------------------ MODULE WriterLock ------------------------------
(***************************************************************************)
(* C18: at most one IndexWriter per index directory; the directory lock     *)
(* follows the lifetime of the writer object.                               *)
(*                                                                          *)
(* State: who owns the DirectoryLock *guard object* (dropping the guard     *)
(* releases `.tantivy-writer.lock`), the writer objects that exist, and the *)
(* threads that are inside `Index::writer_with_options`:                    *)
(*   Begin(t)  Directory::acquire_lock, one atomic test-and-set (create-new *)
(*             open_write / try_lock_exclusive) - src/index/index.rs        *)
(*   End(t)    IndexWriter::new with the guard in hand: invalid options     *)
(*             (memory budget, zero threads) return early and the guard     *)
(*             dies with the call; otherwise it moves into the writer       *)
(*   Rollback  `_directory_lock.take()` -> IndexWriter::new -> `*self = ..` *)
(*             (src/indexer/index_writer.rs): the guard moves into the      *)
(*             replacement writer, the lock is never released in between    *)
(*   RollbackFail  the same path when building the replacement fails (I/O   *)
(*             error): the old writer object still exists - unusable until  *)
(*             a later rollback succeeds - and must still own the guard     *)
(*   Drop / Wait   the writer object goes away, and its guard with it       *)
(*   Kill      an indexing worker dies; the object (and its guard) stay     *)
(* Creation attempts are grouped in rounds (1..NT threads behind a barrier, *)
(* joined before anything else happens).                                    *)
(***************************************************************************)
EXTENDS Naturals, Sequences, FiniteSets, TLC

CONSTANTS
  Handles,              \* Index handles on the same directory
  NT,                   \* threads that may race a creation
  ReleaseOnFailedCtor,  \* TRUE = the code; FALSE = mutant: a failed construction keeps the lock
  RollbackKeepsLock,    \* TRUE = the code; FALSE = mutant: rollback drops the guard
  AtomicAcquire,        \* TRUE = the code; FALSE = mutant: "does the lock file exist?" then "create it"
  FailedRollbackKeepsLock \* TRUE = the code; FALSE = mutant (the code before its repair): the guard was
                        \* moved out before the replacement was built and dies with the failed call

VARIABLES
  guard,   \* [k, id]: "free" | "w" (writer id) | "t" (thread id, inside the constructor) | "leak"
  ws,      \* writer objects: set of [id, h, st ("ok" | "dead" | "zombie"), g (owns the guard)]
  pc,      \* per thread [st ("idle"|"ready"|"ctor"|"done"), h, bad, res, w]
  round,   \* [on, held0, S]: a creation round is running; was the lock held when it started
  nextW,   \* next writer id
  steps    \* user-level operations so far

vars == <<guard, ws, pc, round, nextW, steps>>

Threads == 1..NT
Free == [k |-> "free", id |-> 0]
Leak == [k |-> "leak", id |-> 0]
Held == guard.k # "free"
IdlePc == [st |-> "idle", h |-> "-", bad |-> FALSE, res |-> "none", w |-> 0]
NoRound == [on |-> FALSE, held0 |-> FALSE, S |-> {}]
Live == {w.id : w \in ws}
WriterOf(id) == CHOOSE w \in ws : w.id = id

Init ==
  /\ guard = Free /\ ws = {} /\ pc = [t \in Threads |-> IdlePc]
  /\ round = NoRound /\ nextW = 1 /\ steps = 0

(* ------------------------------ creation ------------------------------ *)
StartRound(S, hf, bf) ==
  /\ ~round.on /\ S # {}
  /\ round' = [on |-> TRUE, held0 |-> Held, S |-> S]
  /\ pc' = [t \in Threads |-> IF t \in S THEN [st |-> "ready", h |-> hf[t], bad |-> bf[t], res |-> "none", w |-> 0] ELSE pc[t]]
  /\ steps' = steps + 1
  /\ UNCHANGED <<guard, ws, nextW>>

Begin(t) ==
  /\ pc[t].st = "ready"
  /\ IF Held
     THEN /\ pc' = [pc EXCEPT ![t].st = "done", ![t].res = "LockBusy"]
          /\ UNCHANGED guard
     ELSE IF AtomicAcquire
          THEN /\ guard' = [k |-> "t", id |-> t]
               /\ pc' = [pc EXCEPT ![t].st = "ctor"]
          ELSE /\ pc' = [pc EXCEPT ![t].st = "sawfree"]
               /\ UNCHANGED guard
  /\ UNCHANGED <<ws, round, nextW, steps>>

\* only in the non-atomic mutant: the second half of a check-then-create acquisition
BeginSet(t) ==
  /\ pc[t].st = "sawfree"
  /\ guard' = [k |-> "t", id |-> t]
  /\ pc' = [pc EXCEPT ![t].st = "ctor"]
  /\ UNCHANGED <<ws, round, nextW, steps>>

\* the guard after the constructor returned
CtorGuard(bad, w) == IF bad THEN (IF ReleaseOnFailedCtor THEN Free ELSE Leak) ELSE [k |-> "w", id |-> w]
NewWriter(w, h) == [id |-> w, h |-> h, st |-> "ok", g |-> TRUE]

End(t) ==
  /\ pc[t].st = "ctor" /\ (AtomicAcquire => guard = [k |-> "t", id |-> t])
  /\ guard' = CtorGuard(pc[t].bad, nextW)
  /\ IF pc[t].bad
     THEN /\ pc' = [pc EXCEPT ![t].st = "done", ![t].res = "InvalidArgument"]
          /\ UNCHANGED <<ws, nextW>>
     ELSE /\ ws' = ws \cup {NewWriter(nextW, pc[t].h)}
          /\ nextW' = nextW + 1
          /\ pc' = [pc EXCEPT ![t].st = "done", ![t].res = "ok", ![t].w = nextW]
  /\ UNCHANGED <<round, steps>>

RoundDone == round.on /\ \A t \in round.S : pc[t].st = "done"

Join ==
  /\ RoundDone
  /\ round' = NoRound /\ pc' = [t \in Threads |-> IdlePc]
  /\ UNCHANGED <<guard, ws, nextW, steps>>

(* What a round can return (res, bad: functions over the same index set; held0: the lock was   *)
(* held when it started).  This is the judge of the recorded `race` events; RaceLemma below     *)
(* proves it against the fine-grained interleavings.                                            *)
RaceOutcomeOK(res, bad, held0) ==
  LET D == DOMAIN res IN
  IF held0 THEN {i \in D : res[i] # "LockBusy"} = {}
  ELSE /\ {i \in D : res[i] \notin (IF bad[i] THEN {"InvalidArgument", "LockBusy"} ELSE {"ok", "LockBusy"})} = {}
       /\ Cardinality({i \in D : res[i] = "ok"}) <= 1
       /\ {i \in D : res[i] # "LockBusy"} # {}     \* the first to try gets the lock

(* --------------------------- the other operations --------------------------- *)
Quiet == ~round.on
Set(w, st, g) == (ws \ {w}) \cup {[w EXCEPT !.st = st, !.g = g]}

\* a writer without guard panics ("The IndexWriter does not have any lock"): not an action
Rollback(w) ==
  /\ Quiet /\ w \in ws /\ w.g
  /\ IF RollbackKeepsLock
     THEN ws' = Set(w, "ok", TRUE) /\ UNCHANGED guard
     ELSE ws' = Set(w, "ok", FALSE) /\ guard' = Free
  /\ steps' = steps + 1
  /\ UNCHANGED <<pc, round, nextW>>

RollbackFail(w) ==
  /\ Quiet /\ w \in ws /\ w.g
  /\ IF FailedRollbackKeepsLock
     THEN ws' = Set(w, "dead", TRUE) /\ UNCHANGED guard
     ELSE ws' = Set(w, "zombie", FALSE) /\ guard' = Free
  /\ steps' = steps + 1
  /\ UNCHANGED <<pc, round, nextW>>

\* Drop and wait_merging_threads (which consumes the writer)
Gone(w) ==
  /\ Quiet /\ w \in ws
  /\ ws' = ws \ {w}
  /\ guard' = IF w.g THEN Free ELSE guard
  /\ steps' = steps + 1
  /\ UNCHANGED <<pc, round, nextW>>
Drop(w) == Gone(w)
Wait(w) == Gone(w)

Kill(w) ==
  /\ Quiet /\ w \in ws /\ w.st = "ok"
  /\ ws' = Set(w, "dead", w.g)
  /\ steps' = steps + 1
  /\ UNCHANGED <<guard, pc, round, nextW>>

Next ==
  \/ \E S \in (SUBSET Threads) \ {{}} : \E hf \in [S -> Handles] : \E bf \in [S -> BOOLEAN] : StartRound(S, hf, bf)
  \/ \E t \in Threads : Begin(t) \/ BeginSet(t) \/ End(t)
  \/ Join
  \/ \E w \in ws : Rollback(w) \/ RollbackFail(w) \/ Drop(w) \/ Wait(w) \/ Kill(w)

Spec == Init /\ [][Next]_vars

(* ------------------------------ properties ------------------------------ *)
TypeOK ==
  /\ guard.k \in {"free", "w", "t", "leak"}
  /\ \A w \in ws : w.st \in {"ok", "dead", "zombie"} /\ w.h \in Handles
  /\ \A t \in Threads : pc[t].st \in {"idle", "ready", "sawfree", "ctor", "done"}

\* at most one writer object exists for the directory, at any time
AtMostOneWriter == Cardinality(ws) <= 1
\* the guard is where the state says it is
GuardConsistent ==
  /\ \A w \in ws : w.g <=> guard = [k |-> "w", id |-> w.id]
  /\ guard.k = "t" => pc[guard.id].st = "ctor"
  /\ \A t \in Threads : pc[t].st = "ctor" => guard = [k |-> "t", id |-> t]
\* outside a creation round the lock is held iff a writer exists: a failed construction, a
\* drop, a wait always leave an index on which a writer can be opened; a live writer (even one
\* whose worker died, even after rollback) keeps everybody else out
LockFreeIffNoWriter == Quiet => (Held <=> ws # {})
\* every round returns what the sequential reading allows: exactly one winner among valid
\* attempts on a free lock, none on a held lock
RaceLemma == RoundDone => RaceOutcomeOK([t \in round.S |-> pc[t].res], [t \in round.S |-> pc[t].bad], round.held0)
\* a failing creation attempt changes neither the existing writers nor their guard
FailedCreateDisturbsNothing ==
  [][(\E t \in Threads : pc'[t].st = "done" /\ pc[t].st = "ready") => UNCHANGED <<ws, guard>>]_vars
\* a writer id is never reused, writers only appear through a successful constructor
WritersOnlyFromCtor ==
  [][\A w \in ws' : w.id \notin Live => \E t \in Threads : pc'[t].res = "ok" /\ pc'[t].w = w.id /\ pc[t].st = "ctor"]_vars
=============================================================================
