SPECIFICATION Spec
CONSTANTS
  MaxGen = 4
  Users = {u1, u2}
  GcUnderMutex = FALSE
INVARIANT NeverDiscardHeld
CHECK_DEADLOCK FALSE
