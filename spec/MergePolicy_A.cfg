SPECIFICATION Spec
CONSTANTS
  MaxSegs = 4
  MaxDocs = 9
  SizeSet = {1, 3, 6}
  Policy <- PolA
CONSTRAINT Bound
INVARIANTS MergeConserves MergeProgress OrderMattersOnlyForTies CandidatesDisjoint CandidatesEligible CandidatesJustified CandidatesNonEmpty LevelsPartition LevelsTight
CHECK_DEADLOCK FALSE
