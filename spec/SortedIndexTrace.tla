--------------------------- MODULE SortedIndexTrace ---------------------------
(* Trace specification of C17 for harness/src/bin/sorted_driver.rs: real runs under            *)
(* IndexSettings::sort_by_field for every accepted key type (i64, u64, f64, date, str, bytes)   *)
(* and direction.  Sort values arrive as ranks (order preserving small integers, -1 = the       *)
(* document has no value).  After every commit / merge / rollback the driver reads every        *)
(* segment back in doc-id order; a row is                                                       *)
(*   <<pos, id (stored), t (stored), key (stored), ids (fast), keys (fast), field norm of body, *)
(*     live docs of the unique term u<id> in this segment, frequency of x in body>>             *)
(* Checked: Sorted(seg) on the FAST-field values; every structure attached to the right         *)
(* document; the content is what the sequential oracle (SeqOracle) says.                        *)
EXTENDS SortedOrder, SeqOracle, Json, IOUtils, TLC

Rec == ndJsonDeserialize(IOEnv.TRACE)

VARIABLES l, tpend, tcommd, lo, metaop, ord
tvars == <<l, tpend, tcommd, lo, metaop, ord>>
Ev == Rec[l]

SeqToSet(s) == {s[i] : i \in 1..Len(s)}
RECURSIVE SumLens(_)
SumLens(ss) == IF ss = <<>> THEN 0 ELSE Len(Head(ss).docs) + SumLens(Tail(ss))

RowDoc(r) == [id |-> r[2], t |-> r[3], v |-> r[4], nb |-> r[7], tf |-> r[9]]
\* stored id = fast id = the document found through its unique term; stored key = fast key
RowAttached(r) ==
  /\ r[5] = <<r[2]>>
  /\ r[6] = (IF r[4] = Missing THEN <<>> ELSE <<r[4]>>)
  /\ r[8] = <<r[1]>>
FastKey(r) == IF r[6] = <<>> THEN Missing ELSE r[6][1]

SegOK(s) ==
  LET n == Len(s.docs) IN
  /\ {j \in 1..n : ~RowAttached(s.docs[j])} = {}
  /\ {j \in 1..(n - 1) : s.docs[j][1] >= s.docs[j + 1][1]} = {}
  /\ (IF n > 0 THEN s.docs[n][1] < s.max_doc ELSE TRUE)
  /\ n = s.max_doc - s.ndel
  /\ SortedKeys(ord, [j \in 1..n |-> FastKey(s.docs[j])])          \* C17: Sorted(seg)

ObsDocs(obs) == UNION {{RowDoc(s.docs[j]) : j \in 1..Len(s.docs)} : s \in SeqToSet(obs.segs)}

ObsIs(obs, S) ==
  /\ obs.ok
  /\ {s \in SeqToSet(obs.segs) : ~SegOK(s)} = {}
  /\ LET D == ObsDocs(obs) IN
     /\ D = S
     /\ Cardinality({d.id : d \in D}) = SumLens(obs.segs)          \* every document once
     /\ obs.n = SumLens(obs.segs) /\ obs.count_all = obs.n
     /\ {t \in DOMAIN obs.byterm : SeqToSet(obs.byterm[t]) # {d.id : d \in {x \in D : x.t = t}}
                                   \/ Len(obs.byterm[t]) # Cardinality(SeqToSet(obs.byterm[t]))} = {}
     /\ {d \in D : d.t \notin DOMAIN obs.byterm} = {}

TReset ==
  /\ Ev.ev = "reset"
  /\ tpend' = {} /\ tcommd' = {} /\ lo' = 0 /\ metaop' = 0 /\ ord' = Ev.cfg.order

TAdd ==
  /\ Ev.ev = "add" /\ Ev.ok
  /\ Ev.opstamp >= lo /\ lo' = Ev.opstamp + 1
  /\ tpend' = OAdd(tpend, [id |-> Ev.id, t |-> Ev.t, v |-> Ev.v, nb |-> Ev.nb, tf |-> Ev.tf])
  /\ UNCHANGED <<tcommd, metaop, ord>>

TDel ==
  /\ Ev.ev = "del" /\ Ev.ok
  /\ Ev.opstamp >= lo /\ lo' = Ev.opstamp + 1
  /\ tpend' = ODel(tpend, Ev.pred)
  /\ UNCHANGED <<tcommd, metaop, ord>>

TCommit ==
  /\ Ev.ev = "commit" /\ Ev.ok
  /\ Ev.opstamp >= lo /\ lo' = Ev.opstamp + 1
  /\ ObsIs(Ev.obs, tpend) /\ Ev.obs.metaop = Ev.opstamp
  /\ tcommd' = tpend /\ metaop' = Ev.opstamp
  /\ UNCHANGED <<tpend, ord>>

TRollback ==
  /\ Ev.ev = "rollback" /\ Ev.ok /\ Ev.opstamp = metaop
  /\ ObsIs(Ev.obs, tcommd) /\ Ev.obs.metaop = metaop
  /\ tpend' = tcommd /\ lo' = metaop
  /\ UNCHANGED <<tcommd, metaop, ord>>

\* an explicit merge of sorted segments succeeds, keeps the content and leaves sorted segments
TMerge ==
  /\ Ev.ev = "merge"
  /\ IF Ev.ok
     THEN /\ ObsIs(Ev.obs, tcommd) /\ Ev.obs.metaop = metaop
          /\ (IF "res" \in DOMAIN Ev THEN {s \in SeqToSet(Ev.obs.segs) : s.sid = Ev.res} # {} ELSE TRUE)
          /\ {s \in SeqToSet(Ev.obs.segs) : s.sid \in SeqToSet(Ev.sids)} = {}
     ELSE Ev.err = "nosegments"
  /\ UNCHANGED <<tpend, tcommd, lo, metaop, ord>>

TEnd ==
  /\ Ev.ev = "end"
  /\ ObsIs(Ev.obs, tcommd)
  /\ UNCHANGED <<tpend, tcommd, lo, metaop, ord>>

TNext ==
  /\ l <= Len(Rec) /\ l' = l + 1
  /\ \/ TReset \/ TAdd \/ TDel \/ TCommit \/ TRollback \/ TMerge \/ TEnd

TInit == l = 1 /\ tpend = {} /\ tcommd = {} /\ lo = 0 /\ metaop = 0 /\ ord = "asc"
TSpec == TInit /\ [][TNext]_tvars

Accepted ==
  IF TLCGet("stats").diameter - 1 = Len(Rec) THEN TRUE
  ELSE Print(<<"REJECTED", TLCGet("stats").diameter, Rec[TLCGet("stats").diameter]>>, FALSE)
=============================================================================
