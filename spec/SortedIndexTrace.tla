--------------------------- MODULE SortedIndexTrace ---------------------------
(* Trace specification of C17 for harness/src/bin/sorted_driver.rs: real runs under            *)
(* IndexSettings::sort_by_field for every accepted key type (i64, u64, f64, date, str, bytes)   *)
(* and direction.  Sort values arrive as ranks (order preserving small integers, -1 = the       *)
(* document has no value).  After every commit / merge / rollback the driver reads every        *)
(* segment back in doc-id order; a row is                                                       *)
(*   <<pos, id (stored), t (stored), key (stored), ids (fast), keys (fast), field norm of body, *)
(*     live docs of the unique term u<id> in this segment, frequency of x in body>>             *)
(* and `terms` lists, for EVERY term of every indexed field of the segment (id, t, u, body with *)
(* positions, the sort key when indexed, and the paths of the JSON field js: text leaf with     *)
(* positions, i64 / bool / date / f64 leaves), the documents its posting list designates:       *)
(*   <<"<field or path>:<value>", << <<id, positions>>, ... >> >>                               *)
(* Checked: Sorted(seg) on the FAST-field values; every structure attached to the right         *)
(* document - the posting lists of a segment are exactly the terms of the documents that the    *)
(* add events put there, positions included; the content is what the sequential oracle says.    *)
EXTENDS SortedOrder, SeqOracle, Json, IOUtils, TLC

Rec == ndJsonDeserialize(IOEnv.TRACE)

VARIABLES l, tpend, tcommd, lo, metaop, ord,
  ty,      \* type of the sort key (the key itself is an indexed field for i64 and str)
  info     \* id -> what the add event said about the indexed text of the document: [toks, raw, js]
tvars == <<l, tpend, tcommd, lo, metaop, ord, ty, info>>
Ev == Rec[l]

SeqToSet(s) == {s[i] : i \in 1..Len(s)}
RECURSIVE SumLens(_)
SumLens(ss) == IF ss = <<>> THEN 0 ELSE Len(Head(ss).docs) + SumLens(Tail(ss))

RowDoc(r) == [id |-> r[2], t |-> r[3], v |-> r[4], nb |-> r[7], tf |-> r[9]]
\* stored id = fast id = the document found through its unique term; stored key = fast key
\* (a document may have been given a second value for the sort field, v2: the column is then multi-valued and
\* holds both in the order added; the sort key of the document is its FIRST value - Column::first - as in the
\* writer's sort_order and the merger's comparison)
RowAttached(r) ==
  /\ r[5] = <<r[2]>>
  /\ r[6] = (IF r[4] = Missing THEN <<>> ELSE IF r[2] \in DOMAIN info /\ "v2" \in DOMAIN info[r[2]] THEN <<r[4], info[r[2]].v2>> ELSE <<r[4]>>)
  /\ r[8] = <<r[1]>>
FastKey(r) == IF r[6] = <<>> THEN Missing ELSE r[6][1]

SegOK(s) ==
  LET n == Len(s.docs) IN
  /\ {j \in 1..n : ~RowAttached(s.docs[j])} = {}
  /\ {j \in 1..(n - 1) : s.docs[j][1] >= s.docs[j + 1][1]} = {}
  /\ (IF n > 0 THEN s.docs[n][1] < s.max_doc ELSE TRUE)
  /\ n = s.max_doc - s.ndel
  /\ SortedKeys(ord, [j \in 1..n |-> FastKey(s.docs[j])])          \* C17: Sorted(seg)

(* ---- postings: the terms a document must be found under, from its add event ---- *)
PosOf(toks, tok) == SelectSeq([i \in 1..Len(toks) |-> i - 1], LAMBDA p : toks[p + 1] = tok)
BoolStr(b) == IF b THEN "true" ELSE "false"
JsTerms(js) ==
  (IF "name" \in DOMAIN js THEN {<<"js.name:" \o js.name[i], PosOf(js.name, js.name[i])>> : i \in 1..Len(js.name)} ELSE {})
  \cup (IF "n" \in DOMAIN js
        THEN {<<"js.n:" \o ToString(js.n), <<>>>>, <<"js.even:" \o BoolStr(js.even), <<>>>>,
              <<"js.d:" \o ToString(js.d), <<>>>>, <<"js.f:" \o js.f, <<>>>>}
        ELSE {})
DocTerms(id, t, v, c) ==
  {<<"id:" \o ToString(id), <<>>>>, <<"t:" \o t, <<>>>>, <<"u:u" \o ToString(id), <<>>>>}
  \cup {<<"body:" \o c.toks[i], PosOf(c.toks, c.toks[i])>> : i \in 1..Len(c.toks)}
  \* the same text in the field indexed with frequencies only (TermFrequencyRecorder): <<term, <<term frequency>>>>
  \cup {<<"fr:" \o c.toks[i], <<Len(PosOf(c.toks, c.toks[i]))>>>> : i \in 1..Len(c.toks)}
  \cup (IF ty \in {"i64", "str"} /\ v # Missing THEN {<<"k:" \o c.raw, <<>>>>} ELSE {})
  \cup (IF ty \in {"i64", "str"} /\ v # Missing /\ "v2" \in DOMAIN c THEN {<<"k:" \o c.raw2, <<>>>>} ELSE {})
  \cup (IF "js" \in DOMAIN c THEN JsTerms(c.js) ELSE {})
\* <<term, id, positions>> for every live document of the segment
SegTermsExpected(s) ==
  UNION {{<<x[1], s.docs[j][2], x[2]>> : x \in DocTerms(s.docs[j][2], s.docs[j][3], s.docs[j][4], info[s.docs[j][2]])} : j \in 1..Len(s.docs)}
SegTermsObserved(s) ==
  UNION {{<<s.terms[i][1], s.terms[i][2][h][1], s.terms[i][2][h][2]>> : h \in 1..Len(s.terms[i][2])} : i \in 1..Len(s.terms)}
\* C17: postings stay attached to the right document
TermsOK(s) == SegTermsObserved(s) = SegTermsExpected(s)

ObsDocs(obs) == UNION {{RowDoc(s.docs[j]) : j \in 1..Len(s.docs)} : s \in SeqToSet(obs.segs)}

ObsIs(obs, S) ==
  /\ obs.ok
  /\ {s \in SeqToSet(obs.segs) : ~SegOK(s)} = {}
  /\ LET D == ObsDocs(obs) IN
     /\ D = S
     /\ Cardinality({d.id : d \in D}) = SumLens(obs.segs)          \* every document once
     /\ obs.n = SumLens(obs.segs) /\ obs.count_all = obs.n
     /\ {t \in DOMAIN obs.byterm : SeqToSet(obs.byterm[t]) # {d.id : d \in {x \in D : x.t = t}}
                                   \/ Len(obs.byterm[t]) # Cardinality(SeqToSet(obs.byterm[t]))} = {}
     /\ {d \in D : d.t \notin DOMAIN obs.byterm} = {}
     /\ {s \in SeqToSet(obs.segs) : ~TermsOK(s)} = {}

TReset ==
  /\ Ev.ev = "reset"
  /\ tpend' = {} /\ tcommd' = {} /\ lo' = 0 /\ metaop' = 0 /\ ord' = Ev.cfg.order
  /\ ty' = Ev.cfg.type /\ info' = <<>>

TAdd ==
  /\ Ev.ev = "add" /\ Ev.ok
  /\ Ev.opstamp >= lo /\ lo' = Ev.opstamp + 1
  /\ tpend' = OAdd(tpend, [id |-> Ev.id, t |-> Ev.t, v |-> Ev.v, nb |-> Ev.nb, tf |-> Ev.tf])
  /\ LET c0 == IF "js" \in DOMAIN Ev THEN [toks |-> Ev.toks, raw |-> Ev.raw, js |-> Ev.js] ELSE [toks |-> Ev.toks, raw |-> Ev.raw]
         c == IF "v2" \in DOMAIN Ev THEN c0 @@ [v2 |-> Ev.v2, raw2 |-> Ev.raw2] ELSE c0
     IN info' = [x \in (DOMAIN info) \cup {Ev.id} |-> IF x = Ev.id THEN c ELSE info[x]]
  /\ UNCHANGED <<tcommd, metaop, ord, ty>>

TDel ==
  /\ Ev.ev = "del" /\ Ev.ok
  /\ Ev.opstamp >= lo /\ lo' = Ev.opstamp + 1
  /\ tpend' = ODel(tpend, Ev.pred)
  /\ UNCHANGED <<tcommd, metaop, ord, ty, info>>

TCommit ==
  /\ Ev.ev = "commit" /\ Ev.ok
  /\ Ev.opstamp >= lo /\ lo' = Ev.opstamp + 1
  /\ ObsIs(Ev.obs, tpend) /\ Ev.obs.metaop = Ev.opstamp
  /\ tcommd' = tpend /\ metaop' = Ev.opstamp
  /\ UNCHANGED <<tpend, ord, ty, info>>

TRollback ==
  /\ Ev.ev = "rollback" /\ Ev.ok /\ Ev.opstamp = metaop
  /\ ObsIs(Ev.obs, tcommd) /\ Ev.obs.metaop = metaop
  /\ tpend' = tcommd /\ lo' = metaop
  /\ UNCHANGED <<tcommd, metaop, ord, ty, info>>

\* an explicit merge of sorted segments succeeds, keeps the content and leaves sorted segments
TMerge ==
  /\ Ev.ev = "merge"
  /\ IF Ev.ok
     THEN /\ ObsIs(Ev.obs, tcommd) /\ Ev.obs.metaop = metaop
          /\ (IF "res" \in DOMAIN Ev THEN {s \in SeqToSet(Ev.obs.segs) : s.sid = Ev.res} # {} ELSE TRUE)
          /\ {s \in SeqToSet(Ev.obs.segs) : s.sid \in SeqToSet(Ev.sids)} = {}
     ELSE Ev.err = "nosegments"
  /\ UNCHANGED <<tpend, tcommd, lo, metaop, ord, ty, info>>

TEnd ==
  /\ Ev.ev = "end"
  /\ ObsIs(Ev.obs, tcommd)
  /\ UNCHANGED <<tpend, tcommd, lo, metaop, ord, ty, info>>

TNext ==
  /\ l <= Len(Rec) /\ l' = l + 1
  /\ \/ TReset \/ TAdd \/ TDel \/ TCommit \/ TRollback \/ TMerge \/ TEnd

TInit == l = 1 /\ tpend = {} /\ tcommd = {} /\ lo = 0 /\ metaop = 0 /\ ord = "asc" /\ ty = "i64" /\ info = <<>>
TSpec == TInit /\ [][TNext]_tvars

Accepted ==
  IF TLCGet("stats").diameter - 1 = Len(Rec) THEN TRUE
  ELSE Print(<<"REJECTED", TLCGet("stats").diameter, Rec[TLCGet("stats").diameter]>>, FALSE)
=============================================================================
