---------------------------- MODULE LockProtoInd ----------------------------
(* Apalache instance of LockProto: IndInv is inductive for the code as it is (no unlink), for  *)
(* both kinds of lock and any number of inodes; Mutex follows from it.  Not used by TLC.       *)
EXTENDS Integers, FiniteSets
CONSTANTS
  \* @type: Set(Str);
  Threads,
  \* @type: Int;
  MaxInodes,
  \* @type: Bool;
  Blocking,
  \* @type: Bool;
  UnlinkOnRelease,
  \* @type: Bool;
  UnlinkOnRefusal
VARIABLES
  \* @type: Int;
  pathIno,
  \* @type: Int;
  nextIno,
  \* @type: Int -> Str;
  lockedBy,
  \* @type: Str -> {st: Str, ino: Int};
  pc
INSTANCE LockProto
ConstInit ==
  /\ Threads = {"t1", "t2", "t3", "t4"}
  /\ MaxInodes \in 1..6
  /\ Blocking \in BOOLEAN
  /\ UnlinkOnRelease = FALSE
  /\ UnlinkOnRefusal = FALSE
IndInit == IndInv
IndAndMutex == IndInv /\ Mutex
=============================================================================
