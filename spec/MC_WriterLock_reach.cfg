SPECIFICATION Spec
CONSTANTS
  Handles = {"A", "B"}
  NT = 2
  MaxSteps = 3
  ReleaseOnFailedCtor = TRUE
  RollbackKeepsLock = TRUE
  FailedRollbackKeepsLock = TRUE
  AtomicAcquire = TRUE
CONSTRAINT Bounded
INVARIANT ReachTwoAttemptsOneWinner
CHECK_DEADLOCK FALSE
