------------------------------ MODULE StorageTrace ------------------------------
(* Trace specification for C01 / C10: consumes the storage operations, register hook events  *)
(* and commit calls recorded from real runs on SimDirectory and evaluates, after EVERY event, *)
(* the crash invariants of the Storage module (all crash images at once, through the linear   *)
(* characterisations) and the garbage-collection invariants.                                  *)
EXTENDS Storage, Json, IOUtils, TLC

Rec == ndJsonDeserialize(IOEnv.TRACE)

VARIABLES
  l,
  callIdx,    \* Len(metaV) when the current commit call started
  ackedIdx,   \* version of meta.json written by the last commit whose call returned
  regs,       \* segments in the writer's registers: set of [sid, delop] (from the hook)
  metaSegs,   \* segments of the newest meta.json: set of [sid, delop]
  segOf,      \* path -> [sid, ext, delop] for segment files seen so far
  faulted,    \* an injected I/O error has fired in this run: what is durable is unknown from here on, and a
              \* crash on top of it is a second fault (the crash invariants are not evaluated any more)
  building    \* segments known to be under construction right now (gate-forced GC races only:
              \* the thread creating them is parked by the harness)

tvars == <<svars, l, callIdx, ackedIdx, regs, metaSegs, segOf, building, faulted>>
Ev == Rec[l]
SeqToSet(s) == {s[i] : i \in 1..Len(s)}
Put(f, k, v) == (k :> v) @@ f    \* eager (a function constructor here builds nested lazy closures)
Known(tag) == PrintT(<<"KF", tag, l>>)

Same == UNCHANGED <<callIdx, ackedIdx, regs, metaSegs, segOf, building, faulted>>

SegRec(e) == [sid |-> e.sid, ext |-> e.ext, delop |-> e.delop]

\* C10: a file is needed if the newest meta.json references it or if its segment is in the
\* writer's registers (the .del file: the one the register names).  Files of a segment still
\* under construction are not judged here: a writer object that is alive does not prove the
\* segment is still wanted (after a rollback the doc-store compressor thread or a merge thread of
\* the old writer may still be finishing), so that clause is decided by the GcProto model, by the
\* gated GC-race replays, and indirectly by CrashSafe (a commit referencing a deleted file).
NeededFile(p) ==
  \/ p \in metaV[Len(metaV)].files
  \/ /\ p \in DOMAIN segOf
     \* (<seg>.store.temp, the doc store of a sorted segment before its documents are permuted, is
     \* only needed while the segment is being finalised)
     /\ LET s == segOf[p] IN \/ \E r \in regs : r.sid = s.sid /\ s.ext # "store.temp" /\ (s.ext # "del" \/ r.delop = s.delop)
                            \/ s.sid \in building

TReset ==
  /\ Ev.e = "reset"
  /\ exists' = {} /\ entDur' = {} /\ termd' = {} /\ ghosts' = {} /\ live' = {}
  /\ metaV' = <<[files |-> {}, op |-> 0]>> /\ metaDur' = 0 /\ manV' = <<{}>> /\ manDur' = 0
  /\ callIdx' = 1 /\ ackedIdx' = 1 /\ regs' = {} /\ metaSegs' = {} /\ segOf' = <<>> /\ building' = {} /\ faulted' = FALSE

TCreate ==
  /\ Ev.e = "create"
  /\ Create(Ev.p)
  /\ segOf' = IF "sid" \in DOMAIN Ev THEN Put(segOf, Ev.p, SegRec(Ev)) ELSE segOf
  /\ UNCHANGED <<callIdx, ackedIdx, regs, metaSegs, building, faulted>>

TTerm == Ev.e = "term" /\ Terminate(Ev.p) /\ Same
TDropW == Ev.e = "dropw" /\ DropWriter(Ev.p) /\ Same

\* GcNeverDeletesNeeded is the enabling condition of the delete: a delete of a needed file is an
\* event that no action accepts
TDelete ==
  /\ Ev.e = "delete"
  /\ ~NeededFile(Ev.p)
  /\ Delete(Ev.p) /\ Same

TSync == Ev.e = "sync" /\ SyncDir /\ Same

\* (traces taken from the system calls of MmapDirectory say whether the temporary file was fsynced
\* before it was renamed onto meta.json; a version whose data is not durable is not accepted)
TMeta ==
  /\ Ev.e = "meta"
  /\ ("synced" \in DOMAIN Ev => Ev.synced)
  /\ AWriteMeta(SeqToSet(Ev.files), Ev.op)
  /\ metaSegs' = SeqToSet(Ev.segs)
  /\ UNCHANGED <<callIdx, ackedIdx, regs, segOf, building, faulted>>

\* (the same holds for .managed.json: ManagedDirectory::wrap parses it when the index is opened, so a
\* version renamed into place before its data is durable can leave an index that does not open)
TMan ==
  /\ Ev.e = "man"
  /\ ("synced" \in DOMAIN Ev => Ev.synced)
  /\ AWriteMan(SeqToSet(Ev.files))
  /\ Same

TRegs ==
  /\ Ev.e = "regs"
  /\ regs' = SeqToSet(Ev.segs)
  /\ UNCHANGED <<svars, callIdx, ackedIdx, metaSegs, segOf, building, faulted>>

TCall ==
  /\ Ev.e = "call"
  /\ callIdx' = Len(metaV)
  /\ UNCHANGED <<svars, ackedIdx, regs, metaSegs, segOf, building, faulted>>

\* commit returned Ok: the version it wrote must already be durable (C01 clause 2)
TCommitRet ==
  /\ Ev.e = "commit"
  /\ \E i \in (callIdx + 1)..Len(metaV) :
        /\ metaV[i].op = Ev.op
        /\ \A j \in (callIdx + 1)..(i - 1) : metaV[j].op # Ev.op
        /\ ackedIdx' = i
        /\ Lo(metaDur) >= i                                  \* CrashDurable
  /\ UNCHANGED <<svars, callIdx, regs, metaSegs, segOf, building, faulted>>

\* rollback / new writer / drop / wait_merging_threads: the registers are rebuilt from meta.json
TFresh ==
  /\ Ev.e = "fresh"
  /\ regs' = metaSegs
  /\ UNCHANGED <<svars, callIdx, ackedIdx, metaSegs, segOf, building, faulted>>

\* explicit garbage collection returned (other threads may be active: only `nothing needed is
\* missing` is claimed here; `nothing else is left` is claimed at the quiescent end of the run)
TGc2 ==
  /\ Ev.e = "gc"
  /\ metaV[Len(metaV)].files \subseteq exists
  /\ UNCHANGED <<svars, callIdx, ackedIdx, regs, metaSegs, segOf, building, faulted>>

\* quiescent end of a run (commit returned, merges waited for, GC ran): exactly the committed
\* files are left and the persisted managed list matches them (C10)
TEnd ==
  /\ Ev.e = "end"
  /\ SeqToSet(Ev.listing) = exists
  /\ exists = metaV[Len(metaV)].files
  /\ SeqToSet(Ev.managed) = exists \cup {"meta.json"}
  /\ manV[Len(manV)] = SeqToSet(Ev.managed)
  /\ live = {}
  /\ UNCHANGED <<svars, callIdx, ackedIdx, regs, metaSegs, segOf, building, faulted>>

TBuild ==
  /\ Ev.e \in {"build_start", "build_end"}
  /\ building' = IF Ev.e = "build_start" THEN building \cup {Ev.sid} ELSE building \ {Ev.sid}
  /\ UNCHANGED <<svars, callIdx, ackedIdx, regs, metaSegs, segOf, faulted>>

TFault ==
  /\ Ev.e = "fault" /\ faulted' = TRUE
  /\ UNCHANGED <<svars, callIdx, ackedIdx, regs, metaSegs, segOf, building>>

TStep ==
  /\ l <= Len(Rec) /\ l' = l + 1
  /\ \/ TReset \/ TCreate \/ TTerm \/ TDropW \/ TDelete \/ TSync \/ TMeta \/ TMan \/ TRegs
     \/ TCall \/ TCommitRet \/ TFresh \/ TGc2 \/ TEnd \/ TBuild \/ TFault

\* state invariants, evaluated after every event = at every crash point of the run
InvCrashSafe == CrashSafe
InvDurable == Lo(metaDur) >= ackedIdx
\* C10 crash clause: no image holds a file that is neither referenced nor managed; the recorded
\* class F4 (registration not yet durable) is reported once, anything else is a violation
InvNoOrphan == IF CrashNoOrphan THEN TRUE ELSE (OrphanIsF4Class /\ Known("F4 crash image with a file whose registration in .managed.json is not durable"))

\* The invariants are evaluated on the successor state INSIDE the step (a violated one leaves the
\* event unexplained and names itself): declared as INVARIANTs, TLC would print an error trace as long
\* as the validated trace - gigabytes for the thorough tier, and cut at an arbitrary point.
Chk(name, ok) == IF ok THEN TRUE ELSE Print(<<"INVFAIL", name, l>>, FALSE)
TNext == TStep /\ Chk("InvCrashSafe", InvCrashSafe') /\ Chk("InvDurable", InvDurable') /\ Chk("InvNoOrphan", InvNoOrphan')
\* after an injected fault the crash-safety of the image is a double-fault question (see DESIGN 12.4); that a commit
\* which RETURNED OK is durable holds whatever failed before or after it
TNextCrash == TStep /\ Chk("InvDurable", InvDurable') /\ (IF faulted' THEN TRUE ELSE Chk("InvCrashSafe", InvCrashSafe'))

TInit == SInit /\ l = 1 /\ callIdx = 1 /\ ackedIdx = 1 /\ regs = {} /\ metaSegs = {} /\ segOf = <<>> /\ building = {} /\ faulted = FALSE
TSpec == TInit /\ [][TNext]_tvars
TSpecCrash == TInit /\ [][TNextCrash]_tvars

Accepted ==
  IF TLCGet("stats").diameter - 1 = Len(Rec) THEN TRUE
  ELSE Print(<<"REJECTED", TLCGet("stats").diameter, Rec[TLCGet("stats").diameter]>>, FALSE)
=============================================================================
