------------------------------ MODULE GcProto ------------------------------
(***************************************************************************)
(* Garbage collection against everything it can race with (C10, C05):      *)
(* indexing workers creating segment files, commits and merges rewriting   *)
(* meta.json, rollback, and readers reloading - on the writer's Index      *)
(* object (shared SegmentMeta inventory) and on a second Index instance /  *)
(* process (own inventory: protected only by .tantivy-meta.lock).          *)
(* One action per Directory operation or critical section:                 *)
(*   managed_directory.rs garbage_collect / register_file_as_managed,      *)
(*   segment_updater.rs list_files, reader/mod.rs open_segment_readers,    *)
(*   index.rs new_segment / searchable_segment_metas (inventory.track).    *)
(* A segment stands for all of its files.                                  *)
(***************************************************************************)
EXTENDS Naturals, FiniteSets, TLC

CONSTANTS NSeg,            \* number of segment ids available
          ReaderLocks,     \* readers take the meta lock around load_metas + open (code: TRUE)
          GcLocks,         \* GC takes the meta lock while listing living files (code: TRUE)
          TrackOnNew,      \* a new segment's meta is tracked in the inventory from creation (code: TRUE)
          RemoteReader     \* the reader uses a second Index instance (own inventory)

Segs == 1..NSeg
VARIABLES
  disk, managed,        \* segments whose files exist / are in the managed list
  inv,                  \* the writer-side inventory of live SegmentMeta objects
  meta, regs,           \* segments listed by meta.json / in the writer's registers
  next,                 \* next fresh segment id
  lock,                 \* holder of .tantivy-meta.lock: "none" | "reader" | "gc"
  wpc, wseg,            \* indexing worker: "idle" | "registered" | "created"
  mpc, msrc, mseg,      \* merge thread
  gpc, todel,           \* garbage collector: "idle" | "locked" | "deleting"
  rpc, rlist, ropened, rfail, rseen,   \* reader
  dirty                 \* something changed since the last GC listing

vars == <<disk, managed, inv, meta, regs, next, lock, wpc, wseg, mpc, msrc, mseg, gpc, todel,
          rpc, rlist, ropened, rfail, rseen, dirty>>

Init ==
  /\ disk = {} /\ managed = {} /\ inv = {} /\ meta = {} /\ regs = {} /\ next = 1 /\ lock = "none"
  /\ wpc = "idle" /\ wseg = 0 /\ mpc = "idle" /\ msrc = {} /\ mseg = 0
  /\ gpc = "idle" /\ todel = {} /\ rpc = "idle" /\ rlist = {} /\ ropened = {} /\ rfail = FALSE /\ rseen = {}
  /\ dirty = FALSE

(* --------------------------- indexing worker --------------------------- *)
WNew ==  \* index.new_segment(): a fresh id, its SegmentMeta tracked (or not: negative config)
  /\ wpc = "idle" /\ next <= NSeg
  /\ wseg' = next /\ next' = next + 1 /\ wpc' = "new"
  /\ inv' = IF TrackOnNew THEN inv \cup {next} ELSE inv
  /\ UNCHANGED <<disk, managed, meta, regs, lock, mpc, msrc, mseg, gpc, todel, rpc, rlist, ropened, rfail, rseen, dirty>>
WRegister ==  \* register_file_as_managed (managed write lock: atomic w.r.t. the GC listing)
  /\ wpc = "new" /\ wpc' = "registered" /\ managed' = managed \cup {wseg} /\ dirty' = TRUE
  /\ UNCHANGED <<disk, inv, meta, regs, next, lock, wseg, mpc, msrc, mseg, gpc, todel, rpc, rlist, ropened, rfail, rseen>>
WCreate ==
  /\ wpc = "registered" /\ wpc' = "created" /\ disk' = disk \cup {wseg} /\ dirty' = TRUE
  /\ UNCHANGED <<managed, inv, meta, regs, next, lock, wseg, mpc, msrc, mseg, gpc, todel, rpc, rlist, ropened, rfail, rseen>>
WFinish ==  \* schedule_add_segment: the entry (holding the tracked meta) enters the registers
  /\ wpc = "created" /\ wpc' = "idle" /\ regs' = regs \cup {wseg} /\ inv' = inv \cup {wseg} /\ wseg' = 0
  /\ dirty' = TRUE
  /\ UNCHANGED <<disk, managed, meta, next, lock, mpc, msrc, mseg, gpc, todel, rpc, rlist, ropened, rfail, rseen>>

(* ------------------------ commit / rollback (updater) ------------------------ *)
Commit ==
  /\ meta # regs /\ meta' = regs /\ dirty' = TRUE
  /\ UNCHANGED <<disk, managed, inv, regs, next, lock, wpc, wseg, mpc, msrc, mseg, gpc, todel, rpc, rlist, ropened, rfail, rseen>>
Rollback ==  \* new registers from meta.json; uncommitted entries (and their metas) are dropped
  /\ regs # meta /\ mpc = "idle" /\ wpc = "idle"
  /\ regs' = meta /\ inv' = (inv \ regs) \cup meta /\ dirty' = TRUE
  /\ UNCHANGED <<disk, managed, meta, next, lock, wpc, wseg, mpc, msrc, mseg, gpc, todel, rpc, rlist, ropened, rfail, rseen>>

(* ------------------------------- merge ------------------------------- *)
MStart ==
  /\ mpc = "idle" /\ next <= NSeg /\ \E S \in SUBSET regs : S # {} /\ (S \subseteq meta \/ S \cap meta = {}) /\ msrc' = S
  /\ mseg' = next /\ next' = next + 1 /\ mpc' = "new"
  /\ inv' = IF TrackOnNew THEN inv \cup {next} ELSE inv
  /\ UNCHANGED <<disk, managed, meta, regs, lock, wpc, wseg, gpc, todel, rpc, rlist, ropened, rfail, rseen, dirty>>
MRegister ==
  /\ mpc = "new" /\ mpc' = "registered" /\ managed' = managed \cup {mseg} /\ dirty' = TRUE
  /\ UNCHANGED <<disk, inv, meta, regs, next, lock, wpc, wseg, msrc, mseg, gpc, todel, rpc, rlist, ropened, rfail, rseen>>
MCreate ==
  /\ mpc = "registered" /\ mpc' = "created" /\ disk' = disk \cup {mseg} /\ dirty' = TRUE
  /\ UNCHANGED <<managed, inv, meta, regs, next, lock, wpc, wseg, msrc, mseg, gpc, todel, rpc, rlist, ropened, rfail, rseen>>
MEnd ==  \* end_merge on the updater: registers swap, meta.json rewritten for committed sources;
         \* the source entries are dropped (their metas leave the inventory); discarded if vanished
  /\ mpc = "created" /\ mpc' = "idle"
  /\ IF msrc \subseteq regs
     THEN /\ regs' = (regs \ msrc) \cup {mseg}
          /\ meta' = IF msrc \subseteq meta THEN (meta \ msrc) \cup {mseg} ELSE meta
          /\ inv' = (inv \ msrc) \cup {mseg}
     ELSE /\ inv' = inv \ {mseg} /\ UNCHANGED <<regs, meta>>
  /\ msrc' = {} /\ mseg' = 0 /\ dirty' = TRUE
  /\ UNCHANGED <<disk, managed, next, lock, wpc, wseg, gpc, todel, rpc, rlist, ropened, rfail, rseen>>

(* --------------------------- garbage collector --------------------------- *)
\* on the writer's Index object the SegmentMetas a reload created are tracked in the same
\* inventory until the segment readers are open (a reference count, modelled as a second holder)
ReaderHolds == IF ~RemoteReader /\ rpc = "opening" THEN rlist ELSE {}
GLock ==
  /\ gpc = "idle" /\ (IF GcLocks THEN lock = "none" /\ lock' = "gc" ELSE UNCHANGED lock)
  /\ gpc' = "locked"
  /\ UNCHANGED <<disk, managed, inv, meta, regs, next, wpc, wseg, mpc, msrc, mseg, todel, rpc, rlist, ropened, rfail, rseen, dirty>>
GList ==  \* under the managed read lock and the meta lock: living = inventory; then unlock
  /\ gpc = "locked" /\ todel' = managed \ (inv \cup ReaderHolds)
  /\ (IF GcLocks THEN lock' = "none" ELSE UNCHANGED lock)
  /\ gpc' = "deleting" /\ dirty' = FALSE
  /\ UNCHANGED <<disk, managed, inv, meta, regs, next, wpc, wseg, mpc, msrc, mseg, rpc, rlist, ropened, rfail, rseen>>
GDel ==
  /\ gpc = "deleting"
  /\ IF todel = {} THEN gpc' = "idle" /\ UNCHANGED <<disk, managed, todel>>
     ELSE \E s \in todel : disk' = disk \ {s} /\ managed' = managed \ {s} /\ todel' = todel \ {s} /\ UNCHANGED gpc
  /\ UNCHANGED <<inv, meta, regs, next, lock, wpc, wseg, mpc, msrc, mseg, rpc, rlist, ropened, rfail, rseen, dirty>>

(* ------------------------------- reader ------------------------------- *)
RLock ==
  /\ rpc = "idle" /\ (IF ReaderLocks THEN lock = "none" /\ lock' = "reader" ELSE UNCHANGED lock)
  /\ rpc' = "locked"
  /\ UNCHANGED <<disk, managed, inv, meta, regs, next, wpc, wseg, mpc, msrc, mseg, gpc, todel, rlist, ropened, rfail, rseen, dirty>>
RMeta ==  \* load_metas + searchable_segment_metas: on the writer's Index the metas are tracked
  /\ rpc = "locked" /\ rlist' = meta /\ ropened' = {} /\ rpc' = "opening"
  /\ UNCHANGED <<disk, managed, inv, meta, regs, next, lock, wpc, wseg, mpc, msrc, mseg, gpc, todel, rfail, rseen, dirty>>
ROpen ==
  /\ rpc = "opening" /\ \E s \in rlist \ ropened :
       /\ ropened' = ropened \cup {s} /\ rfail' = (rfail \/ s \notin disk)
  /\ UNCHANGED <<disk, managed, inv, meta, regs, next, lock, wpc, wseg, mpc, msrc, mseg, gpc, todel, rpc, rlist, rseen, dirty>>
RUnlock ==  \* the searcher holds open handles from here on; the tracked metas are dropped
  /\ rpc = "opening" /\ ropened = rlist
  /\ (IF ReaderLocks THEN lock' = "none" ELSE UNCHANGED lock)
  /\ rseen' = rlist /\ rpc' = "idle"
  /\ dirty' = (dirty \/ ~RemoteReader)    \* files the reload kept alive may now be garbage
  /\ UNCHANGED <<disk, managed, inv, meta, regs, next, wpc, wseg, mpc, msrc, mseg, gpc, todel, rlist, ropened, rfail>>

Next == WNew \/ WRegister \/ WCreate \/ WFinish \/ Commit \/ Rollback \/ MStart \/ MRegister \/ MCreate \/ MEnd
        \/ GLock \/ GList \/ GDel \/ RLock \/ RMeta \/ ROpen \/ RUnlock
Spec == Init /\ [][Next]_vars

(* ------------------------------ properties ------------------------------ *)
Building == (IF wpc \in {"new", "registered", "created"} THEN {wseg} ELSE {})
            \cup (IF mpc \in {"new", "registered", "created"} THEN {mseg} ELSE {})
ReaderNeeds == IF rpc = "opening" THEN rlist \ ropened ELSE {}
\* C10: GC never removes a file needed by the latest commit, by a segment being written or
\* merged, by the registers, or by a reader in the middle of loading
GcNeverDeletesNeeded == todel \cap (meta \cup regs \cup Building \cup msrc \cup ReaderNeeds) = {}
\* C05: no open of a file listed by the meta.json the reader loaded ever fails
OpenNeverFails == ~rfail
\* C05: a reload yields the segments of one meta.json version (rlist is read atomically) and
\* every file of it exists when opened: whole commits only
\* C10: every existing file is managed (register-before-create)
DiskIsManaged == disk \subseteq managed
\* C10: once the GC has listed and deleted with nothing happening since, exactly the files in use remain
QuiescentNoOrphan == (gpc = "idle" /\ ~dirty /\ wpc = "idle" /\ mpc = "idle" /\ rpc = "idle") => disk \subseteq (meta \cup regs)
=============================================================================
