SPECIFICATION Spec
CONSTANTS
  Handles = {"A", "B"}
  NT = 3
  MaxSteps = 5
  ReleaseOnFailedCtor = TRUE
  RollbackKeepsLock = TRUE
  FailedRollbackKeepsLock = TRUE
  AtomicAcquire = TRUE
CONSTRAINT Bounded
INVARIANT TypeOK
INVARIANT AtMostOneWriter
INVARIANT GuardConsistent
INVARIANT LockFreeIffNoWriter
INVARIANT RaceLemma
PROPERTY FailedCreateDisturbsNothing
PROPERTY WritersOnlyFromCtor
CHECK_DEADLOCK FALSE
