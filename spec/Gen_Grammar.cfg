SPECIFICATION GSpec
CONSTANTS
  Mode = "strings"
  MaxLen = 4
  NTexts = 3
  NestedDepths = {10, 100, 500}
CHECK_DEADLOCK FALSE
