SPECIFICATION GSpec
CONSTANTS
  Mode = "strings"
  MaxLen = 4
  NTexts = 3
CHECK_DEADLOCK FALSE
