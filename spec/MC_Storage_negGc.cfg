SPECIFICATION Spec
CONSTANTS
  SyncAfterMeta = TRUE
  SyncAfterRegister = FALSE
  SyncBeforeMeta = TRUE
  GcBeforeMeta = TRUE
INVARIANT CrashSafe
CHECK_DEADLOCK FALSE
