SPECIFICATION Spec
CONSTANTS
  MaxDepth = 1
INVARIANT ExclusionIgnored
CHECK_DEADLOCK FALSE
