SPECIFICATION Spec
CONSTANTS
  NSeg = 4
  ReaderLocks = TRUE
  GcLocks = FALSE
  TrackOnNew = TRUE
  RemoteReader = TRUE
INVARIANT GcNeverDeletesNeeded
INVARIANT OpenNeverFails
INVARIANT DiskIsManaged
INVARIANT QuiescentNoOrphan
CHECK_DEADLOCK FALSE
