SPECIFICATION ISpec
CONSTANTS
  Terms = {"a", "b", "c"}
  NW = 1
  MaxOps = 1000000
  MaxStamp = 1000000
  MaxMerges = 100
  AllowDeleteAll = FALSE
  AllowExplicitUncommittedMerge = FALSE
  ExplicitMergeTarget = "current"
  AllowBatch = TRUE
  AllowReopen = TRUE
  AllowPrepare = TRUE
  StrictTarget = TRUE
POSTCONDITION Accepted
CHECK_DEADLOCK FALSE
