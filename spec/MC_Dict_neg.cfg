SPECIFICATION BSpec
CONSTANTS
  Bytes = {0, 255}
  MaxLen = 1
  MaxKeys = 2
  CheckOrder = FALSE
  KeyUniverse <- MCKeyUniverse
INVARIANT BuiltIsSorted
CHECK_DEADLOCK FALSE
