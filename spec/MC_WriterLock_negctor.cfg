SPECIFICATION Spec
CONSTANTS
  Handles = {"A", "B"}
  NT = 2
  MaxSteps = 4
  ReleaseOnFailedCtor = FALSE
  RollbackKeepsLock = TRUE
  AllowFailedRollback = FALSE
  AtomicAcquire = TRUE
CONSTRAINT Bounded
INVARIANT LockFreeIffNoWriter
CHECK_DEADLOCK FALSE
