SPECIFICATION Spec
CONSTANTS
  Handles = {"A", "B"}
  NT = 2
  MaxSteps = 4
  ReleaseOnFailedCtor = FALSE
  RollbackKeepsLock = TRUE
  FailedRollbackKeepsLock = TRUE
  AtomicAcquire = TRUE
CONSTRAINT Bounded
INVARIANT LockFreeIffNoWriter
CHECK_DEADLOCK FALSE
