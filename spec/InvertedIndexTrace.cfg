SPECIFICATION TSpec
POSTCONDITION Accepted
CHECK_DEADLOCK FALSE
CONSTANTS
  Lists = {}
  MaxDoc = 0
  SkipCurrent = FALSE
