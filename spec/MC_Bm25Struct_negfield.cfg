SPECIFICATION Spec
CONSTANTS
  Words = {"a", "b"}
  MaxLen = 1
  Pads = {0}
  MaxDocs = 1
  AllowDeletes = FALSE
  PerSegmentStats = FALSE
  Queries <- MCQueries
  Table <- MCTable
  MCLeaderFieldNorm = TRUE
INVARIANT CrossFieldLemma
CHECK_DEADLOCK FALSE
