--------------------------- MODULE DeleteQueueImpl ---------------------------
(***************************************************************************)
(* The delete queue of src/indexer/delete_queue.rs, shaped like the code:  *)
(* a writer buffer, a linked list of read-only blocks, a WEAK reference to *)
(* the last block, cursors (block, pos), and the two double-checked        *)
(* locking sequences (get_last_block: read lock, then write lock + second  *)
(* look; NextBlock::next_block: read lock, then write lock + second look + *)
(* flush) as separate steps, so that TLC explores every interleaving of    *)
(* several threads each owning one cursor, plus a pusher.                  *)
(* Property (C02, "broadcast log of delete operations"): whatever the      *)
(* interleaving, what a cursor will still read is exactly the suffix of    *)
(* the pushed operations behind its position - no delete is lost, none is  *)
(* seen twice, by any consumer.                                            *)
(***************************************************************************)
EXTENDS Naturals, Sequences, FiniteSets, TLC

CONSTANTS Cursors, MaxOps,
          SecondLook    \* TRUE = code: both write-lock sections look again before creating a block / flushing

VARIABLES
  log,      \* ghost: every pushed operation, in push order
  writer,   \* InnerDeleteQueue.writer
  blocks,   \* Seq of [ops, next, base]: next = 0 (NextBlock::Writer) or the index of the next block (Closed);
            \* base = ghost: number of operations in the blocks before it
  last,     \* InnerDeleteQueue.last_block (weak): index, 0 = never set
  cur,      \* [Cursors -> [st, b, pos]]  st: "off" | "on" | "glb" (in get_last_block, read lock missed)
            \*                              | "nbw" (in next_block, read lock saw Writer)
  nextOp

vars == <<log, writer, blocks, last, cur, nextOp>>

Off == [st |-> "off", b |-> 0, pos |-> 0]
Init == /\ log = <<>> /\ writer = <<>> /\ blocks = <<>> /\ last = 0
        /\ cur = [c \in Cursors |-> Off] /\ nextOp = 1

\* strong references: a block is alive iff a cursor stands on it, or an alive block links to it
RECURSIVE AliveFrom(_, _)
AliveFrom(b, target) == IF b = 0 THEN FALSE ELSE IF b = target THEN TRUE ELSE AliveFrom(blocks[b].next, target)
Held(b) == \E c \in Cursors : cur[c].st # "off" /\ cur[c].b # 0 /\ AliveFrom(cur[c].b, b)
LastAlive == last # 0 /\ Held(last)
Flushed == Len(log) - Len(writer)

Push ==
  /\ nextOp <= MaxOps
  /\ writer' = Append(writer, nextOp) /\ log' = Append(log, nextOp) /\ nextOp' = nextOp + 1
  /\ UNCHANGED <<blocks, last, cur>>

(* ------------------------------ DeleteQueue::cursor ------------------------------ *)
\* get_last_block, read lock: the weak reference upgrades
CursorFast(c) ==
  /\ cur[c].st = "off" /\ LastAlive
  /\ cur' = [cur EXCEPT ![c] = [st |-> "on", b |-> last, pos |-> Len(blocks[last].ops)]]
  /\ UNCHANGED <<log, writer, blocks, last, nextOp>>
\* read lock: it does not; the read lock is released, the write lock comes next
CursorMiss(c) ==
  /\ cur[c].st = "off" /\ ~LastAlive
  /\ cur' = [cur EXCEPT ![c] = [st |-> "glb", b |-> 0, pos |-> 0]]
  /\ UNCHANGED <<log, writer, blocks, last, nextOp>>
\* write lock: look again (someone may have created the block in between), else create an empty block
CursorSlow(c) ==
  /\ cur[c].st = "glb"
  /\ IF SecondLook /\ LastAlive
     THEN /\ cur' = [cur EXCEPT ![c] = [st |-> "on", b |-> last, pos |-> Len(blocks[last].ops)]]
          /\ UNCHANGED <<blocks, last>>
     ELSE /\ blocks' = Append(blocks, [ops |-> <<>>, next |-> 0, base |-> Flushed])
          /\ last' = Len(blocks) + 1
          /\ cur' = [cur EXCEPT ![c] = [st |-> "on", b |-> Len(blocks) + 1, pos |-> 0]]
  /\ UNCHANGED <<log, writer, nextOp>>
Clone(c, d) ==
  /\ cur[c].st = "on" /\ cur[d].st = "off"
  /\ cur' = [cur EXCEPT ![d] = cur[c]]
  /\ UNCHANGED <<log, writer, blocks, last, nextOp>>
Drop(c) ==
  /\ cur[c].st = "on"
  /\ cur' = [cur EXCEPT ![c] = Off]
  /\ UNCHANGED <<log, writer, blocks, last, nextOp>>

(* --------------- DeleteCursor::load_block_if_required / NextBlock::next_block --------------- *)
AtEnd(c) == cur[c].pos >= Len(blocks[cur[c].b].ops)
\* read lock on block.next: Closed -> move on
NextFast(c) ==
  /\ cur[c].st = "on" /\ AtEnd(c) /\ blocks[cur[c].b].next # 0
  /\ cur' = [cur EXCEPT ![c] = [st |-> "on", b |-> blocks[cur[c].b].next, pos |-> 0]]
  /\ UNCHANGED <<log, writer, blocks, last, nextOp>>
\* read lock: Writer -> release, take the write lock next
NextMiss(c) ==
  /\ cur[c].st = "on" /\ AtEnd(c) /\ blocks[cur[c].b].next = 0
  /\ cur' = [cur EXCEPT ![c].st = "nbw"]
  /\ UNCHANGED <<log, writer, blocks, last, nextOp>>
\* write lock on block.next: look again; Writer -> flush() (nested write lock on the queue)
NextSlow(c) ==
  /\ cur[c].st = "nbw"
  /\ LET b == cur[c].b IN
     IF SecondLook /\ blocks[b].next # 0
     THEN /\ cur' = [cur EXCEPT ![c] = [st |-> "on", b |-> blocks[b].next, pos |-> 0]]
          /\ UNCHANGED <<writer, blocks, last>>
     ELSE IF writer = <<>>
     THEN /\ cur' = [cur EXCEPT ![c].st = "on"]        \* None: stays at the end of its block
          /\ UNCHANGED <<writer, blocks, last>>
     ELSE /\ blocks' = Append([blocks EXCEPT ![b].next = Len(blocks) + 1],
                              [ops |-> writer, next |-> 0, base |-> Flushed])
          /\ last' = Len(blocks) + 1 /\ writer' = <<>>
          /\ cur' = [cur EXCEPT ![c] = [st |-> "on", b |-> Len(blocks) + 1, pos |-> 0]]
  /\ UNCHANGED <<log, nextOp>>
\* advance() once the block is loaded
Advance(c) ==
  /\ cur[c].st = "on" /\ ~AtEnd(c)
  /\ cur' = [cur EXCEPT ![c].pos = @ + 1]
  /\ UNCHANGED <<log, writer, blocks, last, nextOp>>

Next == Push \/ \E c \in Cursors : CursorFast(c) \/ CursorMiss(c) \/ CursorSlow(c) \/ Drop(c)
                   \/ NextFast(c) \/ NextMiss(c) \/ NextSlow(c) \/ Advance(c) \/ \E d \in Cursors : Clone(c, d)
Spec == Init /\ [][Next]_vars

Bound == Len(blocks) <= MaxOps + 2
(* ---------------------------------- properties ---------------------------------- *)
RECURSIVE ChainOps(_)
\* what a walk from block b will deliver: its operations, those of the blocks linked behind it,
\* and - if the chain ends in NextBlock::Writer - the writer buffer
ChainOps(b) == blocks[b].ops \o (IF blocks[b].next = 0 THEN writer ELSE ChainOps(blocks[b].next))
Future(c) == SubSeq(ChainOps(cur[c].b), cur[c].pos + 1, Len(ChainOps(cur[c].b)))
Idx(c) == blocks[cur[c].b].base + cur[c].pos
\* C02: no consumer ever loses or repeats a delete operation
NoLostDelete == \A c \in Cursors : cur[c].st \in {"on", "nbw"} =>
                  Future(c) = SubSeq(log, Idx(c) + 1, Len(log))
\* the alive blocks form one chain; only its end links to the writer
OneWriterEnd == \A b \in 1..Len(blocks) : (Held(b) /\ blocks[b].next = 0) => b = last
\* a new cursor sees every operation pushed after its creation (and those still in the writer buffer)
CursorAtFlushed == \A c \in Cursors : (cur[c].st = "on") => Idx(c) <= Flushed
=============================================================================
