------------------------------ MODULE StorageProto ------------------------------
(***************************************************************************)
(* The commit / delete-file / merge / garbage-collection protocol over the *)
(* durability model of Storage.tla, as INTERLEAVED processes (MC_Storage   *)
(* walks one fixed script; here TLC explores every interleaving):          *)
(*   builder : a worker or a merge thread: register the new segment's file *)
(*             in .managed.json, create it, terminate it                   *)
(*   updater : one task at a time (it is a single-threaded pool):          *)
(*             add_segment; commit = [write a new .del file for a segment],*)
(*             sync_directory, replace meta.json, sync_directory, GC;      *)
(*             end_merge = the same publication when the sources were      *)
(*             committed, then GC                                          *)
(*   GC      : lists the managed files no live SegmentMeta needs, deletes  *)
(*             them one by one, sync_directory, rewrites .managed.json     *)
(* A crash may happen between any two steps: the invariants of Storage.tla *)
(* quantify over all crash images of every reachable state.  One file      *)
(* stands for the files of a segment; "d<s>.<n>" is the delete file of     *)
(* segment s written by commit n.                                          *)
(* Anchors: segment_updater.rs (save_metas, schedule_commit, end_merge,    *)
(* garbage_collect_files, list_files), index_writer.rs / segment_updater   *)
(* advance_deletes, managed_directory.rs (open_write, garbage_collect).    *)
(* The constants select the code ("code" values below) or one of the       *)
(* seeded / repaired deviations, which the negative configurations of      *)
(* MC_StorageProto must reject.                                            *)
(***************************************************************************)
EXTENDS Storage, TLC

CONSTANTS
  NSeg,                 \* number of segments that can be created (workers + merges)
  MaxCommits,
  SyncBeforeMeta,       \* "always" (code) | "ifnewseg" (seeded C01-s2) | "never"
  SyncAfterMeta,        \* TRUE (code since the F1 repair)
  RegisterFirst,        \* TRUE (code) | FALSE (seeded C10-s8: create, then register)
  OldDelDeletedEarly,   \* FALSE (code) | TRUE (seeded C01-s9: old .del unlinked before meta.json is replaced)
  GcProtectsBuilding,   \* TRUE (code: the SegmentMeta inventory) | FALSE (living files = registers only)
  MaxFaults,            \* I/O errors injected into the meta.json replacement (0: none)
  StoreMetaFirst,       \* FALSE (code: the active metas are replaced AFTER the durable write) | TRUE (seeded C11-s9)
  ReplaceStaleDel,      \* TRUE (code since the F45 repair: a left-over delete file of the same name is replaced)
                        \* | FALSE (open_write refuses it: the commit fails on a healthy storage)
  GcProtectsMergeSources, \* TRUE (code: the living files are those of EVERY live SegmentMeta, also the older metas a
                        \* running merge holds) | FALSE (seeded C10-s19: only the newest meta of each segment counts)
  KillWaits             \* TRUE (code since the F43 repair: rollback waits for the task the old updater is running)
                        \* | FALSE (the task goes on next to the new writer and saves ITS metas)

VARIABLES
  regs,        \* the segment registers: set of [s, del, st]; del = 0: no delete file; st \in {"c","u"}
  building,    \* the segment under construction: [s, by, pc, src] or NoB
  nextS,
  upc,         \* updater pc: "idle" | "del" | "sync1" | "meta" | "sync2" | "gc" | "gcdel" | "gcman"
  ujob,        \* [kind, newregs, op, publish]
  gc,          \* [todo, done]: files the running GC still has to delete / has deleted
  ncommit,
  active,      \* the updater's in-memory copy of the metas (active_index_meta): its SegmentMetas protect their files
  ondisk,      \* ghost: the registers as the newest meta.json describes them (what a re-opened writer loads)
  faults,
  stale,       \* the task a rolled-back writer's updater is still running: [pc, job] (pc = "none": no such task)
  ackedIdx     \* index in metaV of the last commit whose call has returned (1 = the initial meta.json)

vars == <<svars, regs, building, nextS, upc, ujob, gc, ncommit, active, ondisk, faults, stale, ackedIdx>>

Seg(s) == "s" \o ToString(s)
Del(s, n) == "d" \o ToString(s) \o "." \o ToString(n)
FilesOf(R) == {Seg(r.s) : r \in R} \cup {Del(r.s, r.del) : r \in {x \in R : x.del > 0}}
NoB == [s |-> 0, by |-> "none", pc |-> "none", src |-> {}, hold |-> {}]
NoJob == [kind |-> "none", newregs |-> {}, op |-> 0, publish |-> FALSE]
NoGc == [todo |-> {}, done |-> {}]
NoStale == [pc |-> "none", job |-> NoJob]
LastMeta == metaV[Len(metaV)]
LastMan == manV[Len(manV)]

Init ==
  /\ SInit /\ regs = {} /\ building = NoB /\ nextS = 1 /\ upc = "idle" /\ ujob = NoJob /\ gc = NoGc
  /\ ncommit = 0 /\ ackedIdx = 1 /\ active = {} /\ ondisk = {} /\ faults = 0 /\ stale = NoStale

(* ------------------------------ builder: worker or merge thread ------------------------------ *)
StartWorker ==
  /\ building = NoB /\ nextS <= NSeg
  /\ building' = [s |-> nextS, by |-> "worker", pc |-> IF RegisterFirst THEN "register" ELSE "create", src |-> {}, hold |-> {}]
  /\ nextS' = nextS + 1
  /\ UNCHANGED <<svars, regs, upc, ujob, gc, ncommit, active, ondisk, faults, stale, ackedIdx>>
\* start_merge runs on the updater: two segments of the same status
StartMerge ==
  /\ building = NoB /\ nextS <= NSeg /\ upc = "idle"
  /\ \E a, b \in regs :
       /\ a.s < b.s /\ a.st = b.st
       \* the merge operation holds the SegmentMetas of its sources as they are NOW (with their
       \* current delete files) until it ends; its thread opens them in a later step
       /\ building' = [s |-> nextS, by |-> "merge", pc |-> "open", src |-> {a.s, b.s}, hold |-> FilesOf({a, b})]
  /\ nextS' = nextS + 1
  /\ UNCHANGED <<svars, regs, upc, ujob, gc, ncommit, active, ondisk, faults, stale, ackedIdx>>
\* the merge thread opens its sources (SegmentReader::open of the metas it holds)
BuildOpen ==
  /\ building.pc = "open"
  /\ building' = [building EXCEPT !.pc = IF RegisterFirst THEN "register" ELSE "create"]
  /\ UNCHANGED <<svars, regs, nextS, upc, ujob, gc, ncommit, active, ondisk, faults, stale, ackedIdx>>
BuildRegister ==
  /\ building.pc = "register"
  /\ AWriteMan(LastMan \cup {Seg(building.s)})
  /\ building' = [building EXCEPT !.pc = IF RegisterFirst THEN "create" ELSE "term"]
  /\ UNCHANGED <<regs, nextS, upc, ujob, gc, ncommit, active, ondisk, faults, stale, ackedIdx>>
BuildCreate ==
  /\ building.pc = "create"
  /\ Create(Seg(building.s))
  /\ building' = [building EXCEPT !.pc = IF RegisterFirst THEN "term" ELSE "register"]
  /\ UNCHANGED <<regs, nextS, upc, ujob, gc, ncommit, active, ondisk, faults, stale, ackedIdx>>
BuildTerm ==
  /\ building.pc = "term"
  /\ Terminate(Seg(building.s))
  /\ building' = [building EXCEPT !.pc = "done"]
  /\ UNCHANGED <<regs, nextS, upc, ujob, gc, ncommit, active, ondisk, faults, stale, ackedIdx>>

(* ---------------------------------- updater tasks ---------------------------------- *)
AddSegment ==
  /\ building.pc = "done" /\ building.by = "worker" /\ upc = "idle"
  /\ DropWriter(Seg(building.s))
  /\ regs' = regs \cup {[s |-> building.s, del |-> 0, st |-> "u"]}
  /\ building' = NoB
  /\ UNCHANGED <<nextS, upc, ujob, gc, ncommit, active, ondisk, faults, stale, ackedIdx>>

Committed(R) == {[s |-> r.s, del |-> r.del, st |-> "c"] : r \in R}
\* the commit may first write a new delete file for one segment (advance_deletes / purge_deletes)
StartCommit ==
  /\ upc = "idle" /\ ncommit < MaxCommits /\ building.by # "worker"   \* prepare_commit has joined the workers
  /\ ncommit' = ncommit + 1
  /\ \/ /\ ujob' = [kind |-> "commit", newregs |-> Committed(regs), op |-> ncommit + 1, publish |-> TRUE]
        /\ upc' = "sync1"
     \/ \E r \in regs :
          /\ ujob' = [kind |-> "commit", op |-> ncommit + 1, publish |-> TRUE,
                      newregs |-> Committed((regs \ {r}) \cup {[s |-> r.s, del |-> ncommit + 1, st |-> "c"]})]
          /\ upc' = "del"
  /\ UNCHANGED <<svars, regs, building, nextS, gc, active, ondisk, faults, stale, ackedIdx>>
\* the new delete file: registered, created, terminated (three Directory operations, no step of
\* another process between them matters for the invariants, so they are one step here)
CommitDelFile ==
  /\ upc = "del"
  /\ LET r == CHOOSE x \in ujob.newregs : x.del = ujob.op
         f == Del(r.s, r.del)
         old == IF OldDelDeletedEarly
                THEN {Del(x.s, x.del) : x \in {y \in regs : y.s = r.s /\ y.del > 0}} ELSE {}
     IN IF f \in exists /\ ~ReplaceStaleDel
        THEN \* a delete file of that name is left over from a failed commit with the same opstamp:
             \* open_write refuses it, the commit fails although the storage is healthy
             /\ upc' = "failed" /\ UNCHANGED <<svars, ujob>>
        ELSE /\ manV' = Append(manV, LastMan \cup {f})
             /\ exists' = (exists \cup {f}) \ old
             /\ termd' = termd \cup {f}
             /\ ghosts' = ghosts \cup (old \cap entDur)
             /\ upc' = "sync1"
             /\ UNCHANGED <<entDur, live, metaV, metaDur, manDur, ujob>>
  /\ UNCHANGED <<regs, building, nextS, gc, ncommit, active, ondisk, faults, stale, ackedIdx>>
SegIds(R) == {r.s : r \in R}
AddsSegment == \E r \in ujob.newregs : Seg(r.s) \notin LastMeta.files
UpdSync1 ==
  /\ upc = "sync1"
  /\ IF ~ujob.publish THEN UNCHANGED svars
     ELSE IF SyncBeforeMeta = "always" \/ (SyncBeforeMeta = "ifnewseg" /\ AddsSegment)
     THEN SyncDir ELSE UNCHANGED svars
  /\ upc' = "meta"
  /\ UNCHANGED <<regs, building, nextS, ujob, gc, ncommit, active, ondisk, faults, stale, ackedIdx>>
Published == {r \in ujob.newregs : r.st = "c"}
UpdMeta ==
  /\ upc = "meta"
  /\ IF ujob.publish
     THEN AWriteMeta(FilesOf(Published), ujob.op) /\ active' = FilesOf(Published) /\ ondisk' = Published
     ELSE UNCHANGED <<svars, active, ondisk>>
  /\ regs' = ujob.newregs
  /\ upc' = "sync2"
  /\ UNCHANGED <<building, nextS, ujob, gc, ncommit, faults, stale, ackedIdx>>
\* the replacement of meta.json fails (I/O error): the registers are already swapped; the commit reports
\* the error and the updater is dead (F40 repair); an end_merge just reports it (no GC in that task)
UpdMetaFail ==
  /\ upc = "meta" /\ ujob.publish /\ faults < MaxFaults
  /\ faults' = faults + 1
  /\ regs' = ujob.newregs
  /\ active' = IF StoreMetaFirst THEN FilesOf(Published) ELSE active
  /\ upc' = IF ujob.kind = "commit" THEN "dead" ELSE "idle"
  /\ ujob' = NoJob
  /\ UNCHANGED <<svars, building, nextS, gc, ncommit, ondisk, stale, ackedIdx>>
\* the caller drops / rolls back the writer and opens a new one: registers and active metas from meta.json
Reopen ==
  /\ upc = "dead" /\ building = NoB
  /\ regs' = ondisk /\ active' = FilesOf(ondisk) /\ upc' = "idle"
  /\ ncommit' = LastMeta.op       \* the new writer's stamper starts at the committed opstamp again
  /\ UNCHANGED <<svars, building, nextS, ujob, gc, ondisk, faults, stale, ackedIdx>>
\* IndexWriter::garbage_collect_files, any time the updater is idle
ExplicitGc ==
  /\ upc = "idle" /\ ujob = NoJob /\ faults > 0
  /\ upc' = "gc" /\ ujob' = [NoJob EXCEPT !.kind = "gc"]
  /\ UNCHANGED <<svars, regs, building, nextS, gc, ncommit, active, ondisk, faults, stale, ackedIdx>>
UpdSync2 ==
  /\ upc = "sync2"
  /\ IF ujob.publish /\ SyncAfterMeta THEN SyncDir ELSE UNCHANGED svars
  /\ upc' = "gc"
  /\ UNCHANGED <<regs, building, nextS, ujob, gc, ncommit, active, ondisk, faults, stale, ackedIdx>>

\* end_merge: the merged segment replaces its sources; meta.json is rewritten only when they were committed
EndMerge ==
  /\ building.pc = "done" /\ building.by = "merge" /\ upc = "idle"
  /\ DropWriter(Seg(building.s))
  /\ LET src == {r \in regs : r.s \in building.src} IN
     IF Cardinality(src) = 2
     THEN LET st == (CHOOSE r \in src : TRUE).st IN
          /\ ujob' = [kind |-> "merge", op |-> LastMeta.op, publish |-> (st = "c"),
                      newregs |-> (regs \ src) \cup {[s |-> building.s, del |-> 0, st |-> st]}]
     ELSE \* a source is gone: the merge is abandoned, its files are garbage
          ujob' = [kind |-> "merge", op |-> LastMeta.op, publish |-> FALSE, newregs |-> regs]
  /\ building' = NoB /\ upc' = "sync1"
  /\ UNCHANGED <<regs, nextS, gc, ncommit, active, ondisk, faults, stale, ackedIdx>>

(* ------------------------------ garbage collection ------------------------------ *)
\* list_files(): every live SegmentMeta (registers AND the segment a merge thread is building)
Living == FilesOf(regs) \cup active \cup (IF GcProtectsBuilding /\ building # NoB THEN {Seg(building.s)} ELSE {})
            \cup (IF GcProtectsMergeSources THEN building.hold ELSE {})
GcList ==
  /\ upc = "gc"
  /\ gc' = [todo |-> LastMan \ Living, done |-> {}]
  /\ upc' = "gcdel"
  /\ UNCHANGED <<svars, regs, building, nextS, ujob, ncommit, active, ondisk, faults, stale, ackedIdx>>
GcDel ==
  /\ upc = "gcdel" /\ gc.todo # {}
  /\ \E f \in gc.todo :
       /\ IF f \in exists THEN Delete(f) ELSE UNCHANGED svars     \* FileDoesNotExist counts as deleted
       /\ gc' = [todo |-> gc.todo \ {f}, done |-> gc.done \cup {f}]
  /\ UNCHANGED <<regs, building, nextS, upc, ujob, ncommit, active, ondisk, faults, stale, ackedIdx>>
GcSync ==
  /\ upc = "gcdel" /\ gc.todo = {}
  /\ IF gc.done # {} THEN SyncDir ELSE UNCHANGED svars
  /\ upc' = "gcman"
  /\ UNCHANGED <<regs, building, nextS, ujob, gc, ncommit, active, ondisk, faults, stale, ackedIdx>>
GcDone ==
  /\ upc = "gcman"
  /\ IF gc.done # {} THEN AWriteMan(LastMan \ gc.done) ELSE UNCHANGED svars
  /\ upc' = "idle" /\ gc' = NoGc /\ ujob' = NoJob
  /\ ackedIdx' = IF ujob.kind = "commit"
                 THEN CHOOSE i \in 1..Len(metaV) : metaV[i].op = ujob.op /\ \A j \in 1..(i-1) : metaV[j].op # ujob.op
                 ELSE ackedIdx
  /\ UNCHANGED <<regs, building, nextS, ncommit, active, ondisk, faults, stale>>

(* ------------------------------ rollback next to a running task ------------------------------ *)
\* IndexWriter::rollback: kill the updater, build a new writer from meta.json.  The killed updater
\* refuses NEW tasks; with KillWaits the task it is running is finished first (so rollback is only
\* possible between tasks), without it the task goes on as `stale`
Rollback ==
  /\ building = NoB /\ stale = NoStale /\ ncommit < MaxCommits
  /\ upc \in (IF KillWaits THEN {"idle"} ELSE {"idle", "sync1", "meta"})
  /\ stale' = IF upc = "idle" THEN NoStale ELSE [pc |-> upc, job |-> ujob]
  /\ regs' = ondisk /\ active' = FilesOf(ondisk) /\ upc' = "idle" /\ ujob' = NoJob /\ gc' = NoGc
  /\ UNCHANGED <<svars, building, nextS, ncommit, ondisk, faults, ackedIdx>>
\* the stale task: directory sync, then meta.json from ITS registers under ITS opstamp
StaleSync ==
  /\ stale.pc = "sync1"
  /\ IF stale.job.publish THEN SyncDir ELSE UNCHANGED svars
  /\ stale' = [stale EXCEPT !.pc = "meta"]
  /\ UNCHANGED <<regs, building, nextS, upc, ujob, gc, ncommit, active, ondisk, faults, ackedIdx>>
StaleMeta ==
  /\ stale.pc = "meta"
  /\ IF stale.job.publish
     THEN AWriteMeta(FilesOf({r \in stale.job.newregs : r.st = "c"}), stale.job.op) /\ ondisk' = {r \in stale.job.newregs : r.st = "c"}
     ELSE UNCHANGED <<svars, ondisk>>
  /\ stale' = NoStale
  /\ UNCHANGED <<regs, building, nextS, upc, ujob, gc, ncommit, active, faults, ackedIdx>>

Next ==
  \/ Rollback \/ StaleSync \/ StaleMeta
  \/ StartWorker \/ StartMerge \/ BuildOpen \/ BuildRegister \/ BuildCreate \/ BuildTerm \/ AddSegment
  \/ StartCommit \/ CommitDelFile \/ UpdSync1 \/ UpdMeta \/ UpdMetaFail \/ Reopen \/ ExplicitGc \/ UpdSync2 \/ EndMerge
  \/ GcList \/ GcDel \/ GcSync \/ GcDone
Spec == Init /\ [][Next]_vars

(* ---------------------------------- properties ---------------------------------- *)
\* C01 (2): whatever survives a crash, it is the last acknowledged commit or a later state
CrashDurable == Lo(metaDur) >= ackedIdx
\* C11: a commit never fails on a healthy storage (no injected fault in this task)
NoSpuriousFailure == upc # "failed"
\* C01 / C02 / C05: the visible meta.json never falls back behind an acknowledged commit
NoCommitLost == LastMeta.op >= metaV[ackedIdx].op
\* C01 (3)(4): CrashSafe (Storage.tla): every surviving meta.json finds all its files, complete
\* C10: a file no live SegmentMeta needs is gone once the GC has run to completion
GcComplete == (upc = "idle" /\ building = NoB /\ ujob = NoJob) =>
                 \A f \in exists : f \in FilesOf(regs) \/ f \in LastMan
\* C10 "nothing leaks": whenever a collection has run to its end with no segment under construction,
\* the directory holds exactly the files of the registers (rollbacks and failed publications leave
\* files behind only until that next collection)
GcTight == [][(upc = "gcman" /\ upc' = "idle" /\ building = NoB /\ stale = NoStale) => exists' \subseteq FilesOf(regs') \cup active']_vars
\* C10 (never delete what is needed): a visible meta.json never loses a file
NeverDeletesNeeded == \A f \in LastMeta.files : f \in exists
\* a file under construction is never deleted under its writer
\* a merge that has not opened its sources yet still finds every file of the metas it holds
MergeSourcesReadable == building.pc = "open" => building.hold \subseteq exists
NeverDeletesBuilding == building.pc \in {"term", "done"} /\ RegisterFirst => Seg(building.s) \in exists
=============================================================================
