SPECIFICATION Spec
CONSTANTS
  Cap = 5
  MaxW = 4
  MaxLen = 16
  Chunks = {1, 2, 3, 4, 5, 6, 7, 11}
  HashOffered = FALSE
INVARIANT HashedIsAccepted
INVARIANT AcceptedIsPrefix
INVARIANT FlushComplete
INVARIANT ClosedFile
INVARIANT BitFlipsDetected
INVARIANT SubstitutionsDetected
INVARIANT TruncationsDetected
INVARIANT ExtensionsDetected
INVARIANT DeletionsDetected
INVARIANT FooterDamageHarmless
INVARIANT VersionGate
CHECK_DEADLOCK FALSE
