SPECIFICATION TSpec
CONSTANTS
  Handles = {"A", "B"}
  NT = 4
  ReleaseOnFailedCtor = TRUE
  RollbackKeepsLock = TRUE
  AllowFailedRollback = TRUE
  AtomicAcquire = TRUE
POSTCONDITION Accepted
CHECK_DEADLOCK FALSE
