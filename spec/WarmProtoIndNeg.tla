---------------------------- MODULE WarmProtoIndNeg ----------------------------
(* Apalache instance of WarmProto: as WarmProtoInd with the collection split (list, then discard):  *)
(* the inductive step must be refuted.                                                           *)
(* Not used by TLC.                                                                            *)
EXTENDS Integers, FiniteSets
CONSTANTS
  \* @type: Int;
  MaxGen,
  \* @type: Set(Str);
  Users,
  \* @type: Bool;
  GcUnderMutex
VARIABLES
  \* @type: Int;
  nextGen,
  \* @type: Set(Int);
  tracked,
  \* @type: Int;
  published,
  \* @type: {st: Str, g: Int};
  reload,
  \* @type: Str -> Set(Int);
  held,
  \* @type: Set(Int);
  warmedIds,
  \* @type: Set(Int);
  wstate,
  \* @type: {st: Str, live: Set(Int)};
  gc
INSTANCE WarmProto
ConstInit ==
  /\ MaxGen = 16
  /\ Users = {"u1", "u2", "u3"}
  /\ GcUnderMutex = FALSE
IndInit == IndInv
IndAll == IndInv /\ PublishedIsWarmed /\ NeverDiscardHeld /\ InventoryExact
=============================================================================
