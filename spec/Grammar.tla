------------------------------ MODULE Grammar ------------------------------
(* C16 - the query language of tantivy's QueryParser, as documented.                          *)
(* Texts are sequences of code points.  Three parts:                                          *)
(*  1. totality: an alphabet of lexical classes, the shapes of the recorded defects, and what  *)
(*     every parse of every string owes (no panic, lenient always a query, lenient = strict     *)
(*     without errors whenever strict succeeds);                                                *)
(*  2. abstract queries, their meaning Match(q, doc, conjunction) on a corpus, and              *)
(*  3. PrintQ(q, style): the texts that denote an abstract query (white space, redundant          *)
(*     parentheses, quoting and escaping are the style).                                        *)
EXTENDS Naturals, Integers, Sequences, FiniteSets

SeqSet(s) == {s[i] : i \in 1..Len(s)}
RECURSIVE Flat(_)
Flat(ss) == IF ss = <<>> THEN <<>> ELSE Head(ss) \o Flat(Tail(ss))
Min2(a, b) == IF a <= b THEN a ELSE b

---------------------------------------------------------------------------
(* 1. lexical classes and totality *)
SP == 32   U3000 == 12288
AsciiWs == {9, 10, 13, 32}
\* '^' '`' ':' '{' '}' '"' ''' '[' ']' '(' ')' '\'   (ESCAPE_IN_WORD of the grammar)
EscapeInWord == {94, 96, 58, 123, 125, 34, 39, 91, 93, 40, 41, 92}

\* the alphabet of the totality enumeration: one token per lexical class
Alphabet == <<
  <<97>>,            \*  1  a        word
  <<97, 58>>,        \*  2  a:       field prefix
  <<34>>,            \*  3  "
  <<39>>,            \*  4  '
  <<92>>,            \*  5  \        escape
  <<91>>,            \*  6  [
  <<93>>,            \*  7  ]
  <<123>>,           \*  8  {
  <<125>>,           \*  9  }
  <<40>>,            \* 10  (
  <<41>>,            \* 11  )
  <<43>>,            \* 12  +
  <<45>>,            \* 13  -
  <<42>>,            \* 14  *
  <<126>>,           \* 15  ~
  <<94>>,            \* 16  ^
  <<65, 78, 68>>,    \* 17  AND
  <<79, 82>>,        \* 18  OR
  <<78, 79, 84>>,    \* 19  NOT
  <<73, 78>>,        \* 20  IN
  <<84, 79>>,        \* 21  TO
  <<49>>,            \* 22  1        digit
  <<46>>,            \* 23  .
  <<32>>,            \* 24  space
  <<12288>>,         \* 25  U+3000   white space outside ASCII (3 bytes)
  <<233>> >>         \* 26  e-acute  (2 bytes)
T_PLUS == 12  T_MINUS == 13  T_STAR == 14  T_SPACE == 24  T_U3000 == 25
TextOf(ts) == Flat([i \in 1..Len(ts) |-> Alphabet[ts[i]]])

\* F9 (recorded): the strict parser panics ("Exist query without a field isn't allowed") on a
\* bare `*` reached through its `exists` rule: after an occur sign and blanks (`+ *`, `- *`), or
\* followed by white space that is not ASCII (`*` U+3000).  The enumeration steps around this
\* (slightly larger) shape; a dedicated run reproduces it.
ShapeF9(ts) ==
  \E i \in 1..Len(ts) :
    \/ /\ ts[i] \in {T_PLUS, T_MINUS}
       /\ \E j \in (i + 2)..Len(ts) : ts[j] = T_STAR /\ \A k \in (i + 1)..(j - 1) : ts[k] = T_SPACE
    \/ ts[i] = T_STAR /\ i < Len(ts) /\ ts[i + 1] = T_U3000

\* C16-d (recorded): a negative number followed by `*` or `~n` (`-1*`, `a:-1~2`): the strict parser
\* reads a number with a prefix / slop mark, the lenient one the word `-1*`; no error is reported.
T_DIGIT == 22  T_DOT == 23  T_TILDE == 15
ShapeNegNum(ts) ==
  \E i \in 1..Len(ts) :
    /\ ts[i] = T_MINUS /\ i < Len(ts) /\ ts[i + 1] = T_DIGIT
    /\ \E j \in (i + 2)..Len(ts) : ts[j] \in {T_STAR, T_TILDE} /\ \A k \in (i + 1)..(j - 1) : ts[k] \in {T_DIGIT, T_DOT}
\* F11 family (recorded): further strings the strict parser accepts and the lenient parser reads
\* differently or with an error: an empty quoted string next to something (`a a""`, `a ""a`),
\* a blank inside an empty set (`IN [ ]`)
T_DQ == 3  T_SQ == 4  T_IN == 20  T_LBRACK == 6  T_RBRACK == 7
ShapeEmptyQuotes(ts) == \E i \in 1..(Len(ts) - 1) : ts[i] \in {T_DQ, T_SQ} /\ ts[i + 1] = ts[i]
ShapeBlankSet(ts) ==
  \E i \in 1..Len(ts) : ts[i] = T_LBRACK /\ \E j \in (i + 2)..Len(ts) : ts[j] = T_RBRACK /\ \A k \in (i + 1)..(j - 1) : ts[k] = T_SPACE
Steered(ts) == ShapeF9(ts) \/ ShapeNegNum(ts) \/ ShapeEmptyQuotes(ts) \/ ShapeBlankSet(ts)
\* unbounded recursion (recorded, C16-e): a few thousand nested `(`, `a:(`, `+(` or `NOT ` overflow
\* the stack and abort the process; while that stands, generated nestings stay small
\* (Gen_Grammar!NestedDepths).  Its repair is a nesting limit: NestingLimit levels of groups / NOTs,
\* the innermost operand counting as one.  pre^n x post^n with a nesting `pre` has n + 1 levels:
\* within the limit a well-formed nest parses; beyond it the strict parsers return an error and the
\* lenient ones a query together with at least one error (DeepOk, used once the repair is in).
NestingLimit == 64
DeepOk(n, closed, x) ==
  LET o == [gs |-> x[1], gl |-> x[2], gle |-> x[3], qs |-> x[5], ql |-> x[6], qle |-> x[7]] IN
  /\ n + 1 > NestingLimit => (o.gs = 1 /\ o.gl = 0 /\ o.gle >= 1 /\ o.qs = 1 /\ o.ql = 0 /\ o.qle >= 1)
  /\ (n + 1 <= NestingLimit /\ closed) => o.gs = 0

\* one observation of the four parsers on one string (codes: 0 = returned a query / AST,
\* 1 = returned an error, 2 = panicked); gle / qle = number of errors the lenient parsers report
Obs(o) == [gs |-> o[1], gl |-> o[2], gle |-> o[3], same |-> o[4], qs |-> o[5], ql |-> o[6], qle |-> o[7], qsame |-> o[8]]
TotalOk(x) ==
  LET o == Obs(x) IN
  /\ o.gs \in {0, 1} /\ o.qs \in {0, 1}              \* strict: a query or an error, never a panic
  /\ o.gl = 0 /\ o.ql = 0                             \* lenient: always a query
  /\ o.gs = 0 => (o.gle = 0 /\ o.same)                \* strict succeeded: lenient agrees, no error
  /\ o.qs = 0 => (o.qle = 0 /\ o.qsame)

---------------------------------------------------------------------------
(* 2. the corpus: words, typed values and documents (all by index into these tables) *)
\* ab abc ba c cab (sorted), and LW = a word of 45 letters z: the analyzer of the text fields (`default`) drops
\* words of more than 40 bytes from documents and from queries alike - the words around it keep their positions
Words == << <<97, 98>>, <<97, 98, 99>>, <<98, 97>>, <<99>>, <<99, 97, 98>>,
            <<122, 122, 122, 122, 122, 122, 122, 122, 122, 122, 122, 122, 122, 122, 122, 122, 122, 122, 122, 122, 122, 122, 122, 122, 122, 122, 122, 122, 122, 122, 122, 122, 122, 122, 122, 122, 122, 122, 122, 122, 122, 122, 122, 122, 122>> >>
NW == 5      \* the words queries choose from
LW == 6      \* the over-long word (only inside phrases and documents)
\* values of the raw (untokenised) field `tag`:  red   x:y   "a b"   -1   q"r
Tags == << <<114, 101, 100>>, <<120, 58, 121>>, <<97, 32, 98>>, <<45, 49>>, <<113, 34, 114>> >>
Digits(n) == IF n < 10 THEN <<48 + n>> ELSE <<48 + (n \div 10), 48 + (n % 10)>>
IntText(v) == IF v < 0 THEN <<45>> \o Digits(0 - v) ELSE Digits(v)
\* dates 1..4: 2020-01-0k T00:00:00Z
DateText(k) == <<50, 48, 50, 48, 45, 48, 49, 45, 48, 48 + k, 84, 48, 48, 58, 48, 48, 58, 48, 48, 90>>
BoolText(b) == IF b = 1 THEN <<116, 114, 117, 101>> ELSE <<102, 97, 108, 115, 101>>
\* ip 1..3: 10.0.0.k   (k = 3 is also written ::ffff:10.0.0.3 in queries)
IpText(k) == <<49, 48, 46, 48, 46, 48, 46, 48 + k>>
\* bytes 1..2 are the bytes of "ab" / "cab"; queries write them in base64: YWI=  Y2Fi
BytesRaw(k) == IF k = 1 THEN <<97, 98>> ELSE <<99, 97, 98>>
BytesB64(k) == IF k = 1 THEN <<89, 87, 73, 61>> ELSE <<89, 50, 70, 105>>
\* facets 1..3: /x  /x/y  /z
FacetText(k) == CASE k = 1 -> <<47, 120>> [] k = 2 -> <<47, 120, 47, 121>> [] OTHER -> <<47, 122>>
FacetIsPrefix(a, b) == a = b \/ (a = 1 /\ b = 2)     \* a facet term matches its descendants

F_title == <<116, 105, 116, 108, 101>>  F_body == <<98, 111, 100, 121>>  F_tag == <<116, 97, 103>>
F_n == <<110>>  F_i == <<105>>  F_flag == <<102, 108, 97, 103>>  F_d == <<100>>
F_ip == <<105, 112>>  F_b == <<98, 105, 110>>  F_fc == <<102, 99>>  F_js == <<106, 115>>
FieldName(f) == CASE f = "title" -> F_title [] f = "body" -> F_body [] f = "tag" -> F_tag [] f = "n" -> F_n
                  [] f = "i" -> F_i [] f = "flag" -> F_flag [] f = "d" -> F_d [] f = "ip" -> F_ip
                  [] f = "b" -> F_b [] f = "fc" -> F_fc [] f = "js" -> F_js
NoVal == 99      \* absent value of a typed field
\* title/body: word indices in order; tag: index or 0; n (u64), i (i64), d, ip, b, fc: value or NoVal;
\* flag: 0 / 1 / NoVal; js: the JSON object {"k": word, "v": number} or absent (k = 0)
Docs == <<
  [title |-> <<1, 4>>,    body |-> <<3>>,       tag |-> 1, n |-> 3,     i |-> -2,    flag |-> 1,     d |-> 1,     ip |-> 1,     b |-> 1,     fc |-> 2,     jk |-> 1, jv |-> 5],
  [title |-> <<2, 1>>,    body |-> <<4, 5>>,    tag |-> 2, n |-> 5,     i |-> 0,     flag |-> 0,     d |-> 2,     ip |-> 2,     b |-> NoVal, fc |-> 1,     jk |-> 3, jv |-> 7],
  [title |-> <<3>>,       body |-> <<1, 2, 4>>, tag |-> 3, n |-> NoVal, i |-> 4,     flag |-> NoVal, d |-> NoVal, ip |-> NoVal, b |-> 2,     fc |-> 3,     jk |-> 0, jv |-> 0],
  [title |-> <<4, 1>>,    body |-> <<>>,        tag |-> 1, n |-> 0,     i |-> -5,    flag |-> 1,     d |-> 3,     ip |-> 3,     b |-> NoVal, fc |-> NoVal, jk |-> 1, jv |-> 7],
  [title |-> <<5, 4, 1>>, body |-> <<3, 3>>,    tag |-> 4, n |-> 9,     i |-> NoVal, flag |-> 0,     d |-> 4,     ip |-> 1,     b |-> 1,     fc |-> 2,     jk |-> 0, jv |-> 0],
  [title |-> <<>>,        body |-> <<2>>,       tag |-> 0, n |-> 3,     i |-> 1,     flag |-> NoVal, d |-> 2,     ip |-> NoVal, b |-> NoVal, fc |-> NoVal, jk |-> 4, jv |-> 5],
  [title |-> <<1, 3, 4>>, body |-> <<5>>,       tag |-> 5, n |-> 7,     i |-> -2,    flag |-> 1,     d |-> NoVal, ip |-> 2,     b |-> 2,     fc |-> 1,     jk |-> 5, jv |-> 9],
  [title |-> <<4>>,       body |-> <<4>>,       tag |-> 2, n |-> NoVal, i |-> NoVal, flag |-> NoVal, d |-> 1,     ip |-> NoVal, b |-> NoVal, fc |-> 3,     jk |-> 0, jv |-> 0],
  [title |-> <<1, 6, 4>>, body |-> <<5, 6, 6, 3>>, tag |-> 0, n |-> NoVal, i |-> NoVal, flag |-> NoVal, d |-> NoVal, ip |-> NoVal, b |-> NoVal, fc |-> NoVal, jk |-> 0, jv |-> 0] >>
ND == Len(Docs)
DefaultFields == <<"title", "body">>

---------------------------------------------------------------------------
(* abstract queries (tuples).  Leaves:                                                        *)
(*  <<"w", f, w>>            word w in field f; f = "" means the default fields                *)
(*  <<"ph", f, ws, slop, pre>> phrase; slop > 0 only for two distinct words; pre = last word   *)
(*                            is a prefix                                                       *)
(*  <<"tag", t>> <<"num", f, v>> (f \in "n" "i") <<"flag", b>> <<"date", k>> <<"ip", k>>        *)
(*  <<"bytes", k>> <<"facet", k>> <<"jsw", w>> (js.k:word) <<"jsn", v>> (js.v:number)           *)
(*  <<"rng", f, lo, hi>>     f \in "n" "i" "d" "title" "ip"; bounds <<"incl"|"excl"|"unb", v>>  *)
(*  <<"in", f, vs>>          f \in "title" "n" "tag"                                           *)
(*  <<"ex", f>>              the field has a value (fast fields)                               *)
(*  <<"all">>                                                                                  *)
(* Composites:                                                                                 *)
(*  <<"bool", cl>>   cl = sequence of <<occ, q>>, occ \in "+" "-" ""                           *)
(*  <<"bin", qs, ops>> q1 op1 q2 op2 ... with ops \in "AND" "OR"; AND binds tighter            *)
(*  <<"grp", f, cl>> f:( ... ) - f is the field of every word / phrase below that names none,     *)
(*                   through markers, parentheses, boosts, chains (an inner group takes over)   *)
(*  <<"boost", q, b>> <<"paren", q>>                                                           *)
(*  <<"chain", items, ops>> operands with markers in an unparenthesised AND / OR / juxtaposition chain *)
Has(s, x) == \E p \in 1..Len(s) : s[p] = x
FieldWords(d, f) == IF f = "title" THEN d.title ELSE d.body
TextFields(f) == IF f = "" THEN SeqSet(DefaultFields) ELSE {f}
IsPrefixW(a, b) == Len(Words[a]) <= Len(Words[b]) /\ \A p \in 1..Len(Words[a]) : Words[b][p] = Words[a][p]

\* a phrase in one field: consecutive words; with slop (two words x y): |pos(y) - (pos(x) + 1)| <= slop
\* A phrase denotes its words AT THE POSITIONS the analyzer gives them: a dropped word (LW) leaves a gap, in
\* the phrase as in the document (`"ab zz..z c"` = ab, anything or nothing recorded, c: it matches the literal
\* text and `ab ba c`, not `ab c`).  base = position of the (possibly dropped) first word of the phrase.
PhraseIn(s, ws, slop, pre) ==
  IF slop = 0 THEN
    \E base \in (2 - Len(ws))..Len(s) :
       \A k \in {x \in 1..Len(ws) : ws[x] # LW} :
            /\ base + k - 1 >= 1 /\ base + k - 1 <= Len(s) /\ s[base + k - 1] # LW
            /\ IF pre /\ k = Len(ws) THEN IsPrefixW(ws[k], s[base + k - 1]) ELSE s[base + k - 1] = ws[k]
  ELSE \E p, q \in 1..Len(s) :
         /\ s[p] = ws[1] /\ s[q] = ws[2]
         /\ (IF q >= p + 1 THEN q - (p + 1) ELSE (p + 1) - q) <= slop

Present(v) == v # NoVal
InBound(v, lo, hi) ==
  /\ CASE lo[1] = "incl" -> v >= lo[2] [] lo[1] = "excl" -> v > lo[2] [] OTHER -> TRUE
  /\ CASE hi[1] = "incl" -> v <= hi[2] [] hi[1] = "excl" -> v < hi[2] [] OTHER -> TRUE
FieldVal(d, f) == CASE f = "n" -> d.n [] f = "i" -> d.i [] f = "d" -> d.d [] f = "ip" -> d.ip [] f = "flag" -> d.flag

(* <<"chain", items, ops>>: operands item = <<mark, q>>, mark \in "" "+" "-" "NOT", joined by ops \in     *)
(* "AND" "OR" "" (juxtaposition), without parentheses.  The grammar reads such a chain as a list of   *)
(* clauses (ChainToBool), "trying to make sense of what a user meant" (query_grammar.rs):              *)
(*  - AND binds tighter: an operand followed by AND opens a group, operands preceded by AND join it;   *)
(*    in a group an unmarked operand is required, a marker applies to its operand; a group of several  *)
(*    operands is one optional clause of the list;                                                     *)
(*  - an operand alone in its group is a clause of the list with its marker; unmarked it is optional   *)
(*    next to an OR and follows the default mode between juxtapositions;                               *)
(*  - `-x` next to an OR and not opening an AND group becomes an optional clause made of the exclusion *)
(*    only (it selects nothing and excludes nothing);                                                  *)
(*  - `NOT x` is the clause list (-x); it dissolves into -x only as an unmarked juxtaposed operand.     *)
(*    That last simplification is not made anywhere below a boost (`(a NOT b)^2`: the parser's tidying *)
(*    pass does not look inside a boosted sub-query) - there the chain is a "rawchain" (RawQ).         *)
(* Where the documentation speaks (AND / OR precedence, an exclusion inside an AND group: `a OR -b     *)
(* AND c` = a OR (c AND NOT b)) this is the documented meaning - lemma MC_Grammar!ChainDocumented.     *)
ChainMember(items, ops, i, collapse) ==
  LET n == Len(items)
      mark == items[i][1]
      ast == IF mark = "NOT" THEN <<"bool", << <<"-", items[i][2]>> >>>> ELSE items[i][2]
      p == IF i = 1 THEN "" ELSE ops[i - 1]
      nx == IF i = n THEN "end" ELSE ops[i]
      def == CASE p = "AND" \/ nx = "AND" -> "+" [] p = "OR" \/ nx = "OR" -> "?" [] OTHER -> ""
  IN  IF mark = "-" /\ p # "AND" /\ def = "?" THEN <<"?", <<"bool", << <<"-", ast>> >>>>>>
      ELSE IF collapse /\ mark = "NOT" /\ def = "" THEN <<"-", items[i][2]>>
      ELSE <<IF mark \in {"+", "-"} THEN mark ELSE def, ast>>
RECURSIVE ChainGroups(_, _, _, _, _)
ChainGroups(items, ops, i, acc, collapse) ==       \* acc = groups so far, the last one still open
  IF i > Len(items) THEN acc
  ELSE IF i > 1 /\ ops[i - 1] = "AND"
       THEN ChainGroups(items, ops, i + 1, [acc EXCEPT ![Len(acc)] = Append(@, ChainMember(items, ops, i, collapse))], collapse)
       ELSE ChainGroups(items, ops, i + 1, Append(acc, <<ChainMember(items, ops, i, collapse)>>), collapse)
ChainToBool(q) ==
  LET g == ChainGroups(q[2], q[3], 1, <<>>, q[1] = "chain") IN
  IF Len(g) = 1 THEN <<"bool", g[1]>>
  ELSE <<"bool", [k \in 1..Len(g) |-> IF Len(g[k]) = 1 THEN g[k][1] ELSE <<"?", <<"bool", g[k]>>>>]>>

RECURSIVE RawQ(_)
RawQ(q) == CASE q[1] = "chain" -> <<"rawchain", [x \in 1..Len(q[2]) |-> <<q[2][x][1], RawQ(q[2][x][2])>>], q[3]>>
             [] q[1] = "bool"  -> <<"bool", [x \in 1..Len(q[2]) |-> <<q[2][x][1], RawQ(q[2][x][2])>>]>>
             [] q[1] = "bin"   -> <<"bin", [x \in 1..Len(q[2]) |-> RawQ(q[2][x])], q[3]>>
             [] q[1] = "paren" -> <<"paren", RawQ(q[2])>>
             [] q[1] = "grp"   -> <<"grp", q[2], [x \in 1..Len(q[3]) |-> <<q[3][x][1], RawQ(q[3][x][2])>>]>>
             [] q[1] = "boost" -> <<"boost", RawQ(q[2]), q[3]>>
             [] OTHER -> q

RECURSIVE M(_, _, _, _)
\* does document d match q?  conj = conjunction-by-default; sc = field scope given by a group
MClauses(cl, d, conj, sc) ==
  LET must == {k \in 1..Len(cl) : cl[k][1] = "+" \/ (conj /\ cl[k][1] = "")}
      should == {k \in 1..Len(cl) : cl[k][1] = "?" \/ (~conj /\ cl[k][1] = "")}    \* "?" = optional in both modes (never printed)
      mustnot == {k \in 1..Len(cl) : cl[k][1] = "-"}
  IN  /\ \A k \in must : M(cl[k][2], d, conj, sc)
      /\ \A k \in mustnot : ~M(cl[k][2], d, conj, sc)
      /\ must = {} => \E k \in should : M(cl[k][2], d, conj, sc)
M(q, d, conj, sc) ==
  CASE q[1] = "w"     -> \E f \in TextFields(IF q[2] = "" THEN sc ELSE q[2]) : Has(FieldWords(d, f), q[3])
    [] q[1] = "ph"    -> \E f \in TextFields(IF q[2] = "" THEN sc ELSE q[2]) : PhraseIn(FieldWords(d, f), q[3], q[4], q[5])
    [] q[1] = "tag"   -> d.tag = q[2]
    [] q[1] = "num"   -> FieldVal(d, q[2]) = q[3]
    [] q[1] = "flag"  -> d.flag = q[2]
    [] q[1] = "date"  -> d.d = q[2]
    [] q[1] = "ip"    -> d.ip = q[2]
    [] q[1] = "bytes" -> d.b = q[2]
    [] q[1] = "facet" -> Present(d.fc) /\ FacetIsPrefix(q[2], d.fc)
    [] q[1] = "jsw"   -> d.jk = q[2]
    [] q[1] = "jsn"   -> d.jk # 0 /\ d.jv = q[2]
    [] q[1] = "rng"   -> IF q[2] = "title" THEN \E p \in 1..Len(d.title) : d.title[p] # LW /\ InBound(d.title[p], q[3], q[4])
                         ELSE Present(FieldVal(d, q[2])) /\ InBound(FieldVal(d, q[2]), q[3], q[4])
    [] q[1] = "in"    -> CASE q[2] = "title" -> \E k \in 1..Len(q[3]) : Has(d.title, q[3][k])
                           [] q[2] = "tag"   -> \E k \in 1..Len(q[3]) : d.tag = q[3][k]
                           [] OTHER          -> \E k \in 1..Len(q[3]) : d.n = q[3][k]
    [] q[1] = "ex"    -> Present(FieldVal(d, q[2]))
    [] q[1] = "all"   -> TRUE
    [] q[1] = "bool"  -> MClauses(q[2], d, conj, sc)
    [] q[1] = "grp"   -> MClauses(q[3], d, conj, q[2])
    [] q[1] = "bin"   ->   \* OR of the maximal AND-groups
         LET n == Len(q[2])
             starts == {1} \cup {k \in 2..n : q[3][k - 1] = "OR"}
             EndOf(s) == CHOOSE e \in s..n : (e = n \/ q[3][e] = "OR") /\ \A x \in s..(e - 1) : q[3][x] = "AND"
         IN \E s \in starts : \A k \in s..EndOf(s) : M(q[2][k], d, conj, sc)
    [] q[1] = "boost" -> M(RawQ(q[2]), d, conj, sc)
    [] q[1] = "paren" -> M(q[2], d, conj, sc)
    [] q[1] \in {"chain", "rawchain"} -> M(ChainToBool(q), d, conj, sc)
MatchSet(q, conj) == {k \in 1..ND : M(q, Docs[k], conj, "")}
\* a query whose every top-level clause is negative is refused ("Only excluding terms given");
\* the lenient parser reports that error and answers everything but the excluded documents
\* an AND / OR expression is the chain of its operands without markers
BinAsChain(q) == <<"chain", [x \in 1..Len(q[2]) |-> <<"", q[2][x]>>], q[3]>>
RECURSIVE AllNegative(_)
AllNegative(q) == CASE q[1] = "bool" -> \A k \in 1..Len(q[2]) : q[2][k][1] = "-" \/ AllNegative(q[2][k][2])
                    [] q[1] = "paren" -> AllNegative(q[2])
                    [] q[1] = "grp" -> \A k \in 1..Len(q[3]) : q[3][k][1] = "-" \/ AllNegative(q[3][k][2])
                    [] q[1] = "boost" -> AllNegative(RawQ(q[2]))
                    [] q[1] \in {"chain", "rawchain"} -> AllNegative(ChainToBool(q))
                    [] q[1] = "bin" -> AllNegative(ChainToBool(BinAsChain(q)))     \* (operands may be all-negative groups)
                    [] OTHER -> FALSE
\* ... the lenient parser adds "or anything" to the outermost clause list
RECURSIVE NonNegative(_)
NonNegative(q) == CASE q[1] = "bool" -> <<"bool", Append(q[2], <<"?", <<"all">>>>)>>
                    [] q[1] = "grp" -> <<"grp", q[2], Append(q[3], <<"?", <<"all">>>>)>>
                    [] q[1] \in {"chain", "rawchain"} -> NonNegative(ChainToBool(q))
                    [] q[1] = "bin" -> NonNegative(ChainToBool(BinAsChain(q)))
                    [] q[1] = "boost" -> <<"boost", NonNegative(RawQ(q[2])), q[3]>>
                    [] OTHER -> <<q[1], NonNegative(q[2])>>
NegatedSet(q, conj) == MatchSet(NonNegative(q), conj)
\* does some word or phrase have no field, neither its own nor that of a group around it (whatever sits
\* in between: markers, parentheses, boosts, chains)?  Such a query needs a default field.
RECURSIVE Unscoped(_, _)
Unscoped(q, sc) ==
  CASE q[1] \in {"w", "ph"} -> q[2] = "" /\ sc = ""
    [] q[1] = "bool" -> \E k \in 1..Len(q[2]) : Unscoped(q[2][k][2], sc)
    [] q[1] = "grp" -> \E k \in 1..Len(q[3]) : Unscoped(q[3][k][2], q[2])
    [] q[1] = "bin" -> \E k \in 1..Len(q[2]) : Unscoped(q[2][k], sc)
    [] q[1] \in {"chain", "rawchain"} -> \E k \in 1..Len(q[2]) : Unscoped(q[2][k][2], sc)
    [] q[1] \in {"boost", "paren"} -> Unscoped(q[2], sc)
    [] OTHER -> FALSE

---------------------------------------------------------------------------
(* 3. printing.  st is a sequence of small numbers (the style); Sty(st, k) reads the k-th,      *)
(* cyclically.  One blank is written where the grammar needs white space, more where the style  *)
(* says so.                                                                                      *)
Sty(st, k) == st[((k - 1) % Len(st)) + 1]
Blanks(n) == [x \in 1..n |-> SP]
COLON == 58  LPAR == 40  RPAR == 41  DQ == 34  SQ == 39  BS == 92  STAR == 42  TILDE == 126  CARET == 94
K_AND == <<65, 78, 68>>  K_OR == <<79, 82>>  K_TO == <<84, 79>>  K_IN == <<73, 78>>
NeedsEscape(c) == c \in EscapeInWord \/ c \in AsciiWs \/ c = 45
\* a bare word with every special character escaped; or quoted with " or '
Bare(s) == Flat([p \in 1..Len(s) |-> IF NeedsEscape(s[p]) THEN <<BS, s[p]>> ELSE <<s[p]>>])
Quoted(s, qc) == <<qc>> \o Flat([p \in 1..Len(s) |-> IF s[p] = qc \/ s[p] = BS THEN <<BS, s[p]>> ELSE <<s[p]>>]) \o <<qc>>
Lit(s, k) == CASE k % 3 = 0 -> Bare(s) [] k % 3 = 1 -> Quoted(s, DQ) [] OTHER -> Quoted(s, SQ)
FieldPrefix(f, k) == IF f = "" THEN <<>>
                     ELSE FieldName(f) \o (IF k % 4 = 1 THEN <<SP>> ELSE <<>>) \o <<COLON>> \o (IF k % 4 = 2 THEN <<SP>> ELSE <<>>)
JoinWith(parts, sep) == Flat([p \in 1..Len(parts) |-> IF p = 1 THEN parts[p] ELSE sep \o parts[p]])
NumLit(f, v, k) == IF k % 2 = 0 \/ v < 0 THEN IntText(v) ELSE Quoted(IntText(v), DQ)
RangeVal(f, v) == CASE f = "d" -> DateText(v) [] f = "title" -> Words[v] [] f = "ip" -> IpText(v) [] OTHER -> IntText(v)

RECURSIVE P(_, _, _)
PClauses(cl, st, k) ==
  JoinWith([c \in 1..Len(cl) |-> (CASE cl[c][1] = "+" -> <<43>> [] cl[c][1] = "-" -> <<45>> [] OTHER -> <<>>) \o P(cl[c][2], st, k + 3 * c)],
           Blanks(1 + (Sty(st, k) % 2)))
P(q, st, k) ==
  CASE q[1] = "w"     -> FieldPrefix(q[2], Sty(st, k)) \o (IF Sty(st, k + 1) % 3 = 0 THEN Words[q[3]] ELSE Quoted(Words[q[3]], IF Sty(st, k + 1) % 3 = 1 THEN DQ ELSE SQ))
    [] q[1] = "ph"    -> FieldPrefix(q[2], Sty(st, k))
                         \o Quoted(JoinWith([x \in 1..Len(q[3]) |-> Words[q[3][x]]], Blanks(1 + (Sty(st, k + 1) % 2))), IF Sty(st, k + 2) % 2 = 0 THEN DQ ELSE SQ)
                         \o (IF q[4] > 0 THEN <<TILDE>> \o IntText(q[4]) ELSE <<>>) \o (IF q[5] THEN <<STAR>> ELSE <<>>)
    [] q[1] = "tag"   -> FieldPrefix("tag", Sty(st, k)) \o Lit(Tags[q[2]], Sty(st, k + 1))
    [] q[1] = "num"   -> FieldPrefix(q[2], Sty(st, k)) \o NumLit(q[2], q[3], Sty(st, k + 1))
    [] q[1] = "flag"  -> FieldPrefix("flag", Sty(st, k)) \o BoolText(q[2])
    [] q[1] = "date"  -> FieldPrefix("d", Sty(st, k)) \o Lit(DateText(q[2]), Sty(st, k + 1))
    [] q[1] = "ip"    -> FieldPrefix("ip", Sty(st, k)) \o (IF q[2] = 3 /\ Sty(st, k + 1) % 2 = 1
                                                           THEN Quoted(<<58, 58, 102, 102, 102, 102, 58>> \o IpText(3), DQ)
                                                           ELSE Lit(IpText(q[2]), 2 * Sty(st, k + 1)))
    [] q[1] = "bytes" -> FieldPrefix("b", Sty(st, k)) \o (IF Sty(st, k + 1) % 2 = 0 THEN BytesB64(q[2]) ELSE Quoted(BytesB64(q[2]), DQ))
    [] q[1] = "facet" -> FieldPrefix("fc", Sty(st, k)) \o Quoted(FacetText(q[2]), IF Sty(st, k + 1) % 2 = 0 THEN DQ ELSE SQ)
    [] q[1] = "jsw"   -> F_js \o <<46, 107, COLON>> \o Words[q[2]]
    [] q[1] = "jsn"   -> F_js \o <<46, 118, COLON>> \o IntText(q[2])
    [] q[1] = "rng"   ->
         LET lo == q[3]  hi == q[4]  sp == Blanks(Sty(st, k + 1) % 2) IN
         FieldPrefix(q[2], Sty(st, k)) \o
         (IF Sty(st, k + 2) % 2 = 1 /\ lo[1] = "unb" /\ hi[1] # "unb"
            THEN (IF hi[1] = "incl" THEN <<60, 61>> ELSE <<60>>) \o sp \o RangeVal(q[2], hi[2])
          ELSE IF Sty(st, k + 2) % 2 = 1 /\ hi[1] = "unb" /\ lo[1] # "unb"
            THEN (IF lo[1] = "incl" THEN <<62, 61>> ELSE <<62>>) \o sp \o RangeVal(q[2], lo[2])
          ELSE (IF lo[1] = "excl" THEN <<123>> ELSE <<91>>) \o sp \o (IF lo[1] = "unb" THEN <<STAR>> ELSE RangeVal(q[2], lo[2]))
               \o Blanks(1 + (Sty(st, k + 3) % 2)) \o K_TO \o <<SP>>
               \o (IF hi[1] = "unb" THEN <<STAR>> ELSE RangeVal(q[2], hi[2])) \o (IF hi[1] = "excl" THEN <<125>> ELSE <<93>>))
         \* (no blank before the closing bracket: the lenient parser rejects it - recorded finding C16-a)
    [] q[1] = "in"    -> FieldPrefix(q[2], Sty(st, k)) \o K_IN \o Blanks(1 + (Sty(st, k + 1) % 2)) \o <<91>>   \* (no blank after `[`: recorded finding C16-c)
                         \o JoinWith([x \in 1..Len(q[3]) |-> CASE q[2] = "title" -> Words[q[3][x]]
                                                               [] q[2] = "tag" -> Lit(Tags[q[3][x]], Sty(st, k + 2 + x))
                                                               [] OTHER -> IntText(q[3][x])], Blanks(1 + (Sty(st, k + 3) % 2)))
                         \o <<93>>
    [] q[1] = "ex"    -> FieldPrefix(q[2], Sty(st, k)) \o <<STAR>>
    [] q[1] = "all"   -> <<STAR>>
    [] q[1] = "bool"  -> PClauses(q[2], st, k + 1)
    [] q[1] = "grp"   -> FieldPrefix(q[2], Sty(st, k)) \o <<LPAR>> \o Blanks(Sty(st, k + 1) % 2) \o PClauses(q[3], st, k + 2) \o Blanks(Sty(st, k + 2) % 2) \o <<RPAR>>
    [] q[1] = "bin"   -> JoinWith([x \in 1..Len(q[2]) |-> (IF x = 1 THEN <<>> ELSE (IF q[3][x - 1] = "AND" THEN K_AND ELSE K_OR) \o Blanks(1 + (Sty(st, k + x) % 2)))
                                                          \o P(q[2][x], st, k + 5 * x)], Blanks(1 + (Sty(st, k) % 2)))
    [] q[1] = "chain" -> JoinWith([x \in 1..Len(q[2]) |->
                                     (IF x = 1 \/ q[3][x - 1] = "" THEN <<>> ELSE (IF q[3][x - 1] = "AND" THEN K_AND ELSE K_OR) \o Blanks(1 + (Sty(st, k + x) % 2)))
                                     \o (CASE q[2][x][1] = "+" -> <<43>> [] q[2][x][1] = "-" -> <<45>> [] q[2][x][1] = "NOT" -> <<78, 79, 84>> \o Blanks(1 + (Sty(st, k + x + 1) % 2)) [] OTHER -> <<>>)
                                     \o P(q[2][x][2], st, k + 5 * x)], Blanks(1 + (Sty(st, k) % 2)))
    [] q[1] = "boost" -> P(q[2], st, k + 1) \o <<CARET>> \o IntText(q[3]) \o (IF q[3] # 0 /\ Sty(st, k) % 2 = 0 THEN <<>> ELSE <<46, 53>>)    \* ^2 ^2.5 ^0.5
    [] q[1] = "paren" -> <<LPAR>> \o Blanks(Sty(st, k) % 2) \o P(q[2], st, k + 1) \o Blanks(Sty(st, k + 1) % 2) \o <<RPAR>>
\* the whole query: optional blanks around it, optionally one more pair of parentheses
PrintQ(q, st) ==
  LET body == P(q, st, 1) IN
  Blanks(Sty(st, 2) % 2) \o (IF Sty(st, 3) % 4 = 0 THEN <<LPAR>> \o body \o <<RPAR>> ELSE body) \o Blanks(Sty(st, 4) % 2)
=============================================================================
