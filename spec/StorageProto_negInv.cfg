SPECIFICATION Spec
CONSTANTS
  NSeg = 4
  MaxCommits = 2
  SyncBeforeMeta = "always"
  SyncAfterMeta = TRUE
  RegisterFirst = TRUE
  OldDelDeletedEarly = FALSE
  GcProtectsBuilding = FALSE
  MaxFaults = 1
  StoreMetaFirst = FALSE
  KillWaits = TRUE
  GcProtectsMergeSources = TRUE
  ReplaceStaleDel = TRUE
INVARIANT NeverDeletesBuilding
CHECK_DEADLOCK FALSE
