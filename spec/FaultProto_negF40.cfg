SPECIFICATION Spec
CONSTANTS
  MaxDocs = 4
  MaxFaults = 2
  DeadWriterStaysDead = TRUE
  KillUpdaterOnSaveFail = FALSE
  PipeCap = 2
  KillDropsReceiver = TRUE
INVARIANT DiskIsSomeCommit
CONSTRAINT Bound
CHECK_DEADLOCK FALSE
