SPECIFICATION TSpec
INVARIANT InvCrashSafe
INVARIANT InvDurable
POSTCONDITION Accepted
CHECK_DEADLOCK FALSE
