SPECIFICATION TSpecCrash
POSTCONDITION Accepted
CHECK_DEADLOCK FALSE
