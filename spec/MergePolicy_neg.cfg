SPECIFICATION Spec
CONSTANTS
  MaxSegs = 5
  SizeSet = {1, 2, 3, 5, 8}
  Policy <- PolOne
CONSTRAINT Bound
INVARIANTS CandidatesDisjoint CandidatesEligible CandidatesJustified CandidatesNonEmpty LevelsPartition LevelsTight
PROPERTIES MergeConserves MergeProgress
CHECK_DEADLOCK FALSE
