SPECIFICATION Spec
CONSTANTS
  Threads = {a, b, c, d, e}
  MaxCommits = 7
  Serialize = FALSE
  Callbacks = FALSE
INVARIANTS TypeOK NeverMovesBack ReloadIsFresh
PROPERTIES PublishedMonotone
CHECK_DEADLOCK FALSE
