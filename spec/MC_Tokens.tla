----------------------------- MODULE MC_Tokens -----------------------------
(* Bounded model checking of Tokens: on every text of at most MaxLen code points over the first *)
(* NA classes, the token sequences the specification prescribes (for every exact chain of       *)
(* Gen_Tokens!Chains) satisfy the invariants the property demands, plus lemmas on offsets,      *)
(* n-gram counts, range collapsing and HTML rendering.  Negative configuration: n-grams cut at   *)
(* byte granularity (ByteGramsOk) must violate the boundary invariant.                           *)
EXTENDS Gen_Tokens

ExactChains == {c \in 1..Len(Chains) : Chains[c].exact}
SpecTokensOk == \A c \in ExactChains : TokenInv(text, Chains[c], Analyze(text, Chains[c]))
OffsLemma == LET o == Offs(text) IN
  /\ Len(o) = Len(text) + 1 /\ o[1] = 0
  /\ \A i \in 1..Len(text) : o[i + 1] = o[i] + Width(text[i])
NgramCount == \A mn \in 1..3 : \A mx \in mn..3 :
  LET n == Len(text)
      cnt(i) == Max2(0, Min2(mx, n - i + 1) - mn + 1)
      RECURSIVE Sum(_)
      Sum(i) == IF i > n THEN 0 ELSE cnt(i) + Sum(i + 1)
  IN  /\ Len(Ngram(text, mn, mx, FALSE)) = Sum(1)
      /\ Len(Ngram(text, mn, mx, TRUE)) = (IF n = 0 THEN 0 ELSE cnt(1))
\* simple tokens are exactly the alphanumeric code points, white-space tokens everything but ASCII blanks
Coverage ==
  LET bytesOf(ts) == UNION {ts[k][1]..(ts[k][2] - 1) : k \in 1..Len(ts)}
      o == Offs(text)
      cls(P(_)) == UNION {o[i]..(o[i + 1] - 1) : i \in {j \in 1..Len(text) : P(text[j])}}
  IN  bytesOf(Simple(text)) = cls(Alnum) /\ bytesOf(Whitespace(text)) = cls(NotAsciiWs)
\* collapsing the (overlapping) 1..2-gram ranges: sorted, disjoint, same bytes
CollapseLemma ==
  LET ts == Ngram(text, 1, 2, FALSE)
      rs == [k \in 1..Len(ts) |-> <<ts[k][1], ts[k][2]>>]
      c == Collapse(rs)
      bytes(x) == UNION {x[k][1]..(x[k][2] - 1) : k \in 1..Len(x)}
  IN  /\ \A k \in 1..(Len(c) - 1) : c[k][2] <= c[k + 1][1]
      /\ bytes(c) = bytes(rs)
      /\ (text # <<>>) => Len(c) = 1
HtmlLemma == /\ Html(text, <<>>) = EscText(text)
             /\ Html(text, << <<0, ByteLen(text)>> >>) = TagOpen \o EscText(text) \o TagClose
\* vacuity guard: a tokenizer that cuts at byte granularity breaks the boundary invariant
ByteGrams == [b \in 1..ByteLen(text) |-> <<b - 1, b, 0, <<>>>>]
ByteGramsOk == TokenInv(text, Chains[2], ByteGrams)
=============================================================================
