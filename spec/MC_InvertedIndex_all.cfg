SPECIFICATION Spec
CONSTANTS
  Lists <- MCListsAll
  MaxDoc = 8
  SkipCurrent = FALSE
INVARIANT OnList
INVARIANT Forward
PROPERTY SeekSameStays
CHECK_DEADLOCK FALSE
