SPECIFICATION Spec
CONSTANTS
  SyncAfterMeta = TRUE
  SyncAfterRegister = TRUE
  SyncBeforeMeta = TRUE
  GcBeforeMeta = FALSE
INVARIANT CrashSafe
INVARIANT CrashDurable
INVARIANT CrashNoOrphan
INVARIANT LemmaSafe
INVARIANT LemmaOrphan
CHECK_DEADLOCK FALSE
