-------------------------- MODULE InvertedIndexTrace --------------------------
(* Judge of the runs recorded by harness/src/bin/invidx_driver.rs (C07).  The `docs` event    *)
(* holds the documents as token streams; every `seg` event names the documents of a segment   *)
(* (ids in doc-id order, read from the store); every `field` event is the complete dump of    *)
(* one field's inverted index in that segment.  The index is recomputed here from the         *)
(* documents:                                                                                 *)
(*   - terms strictly increasing in byte order;                                               *)
(*   - every posting (term, doc) is right: the key occurs in the document with exactly that   *)
(*     frequency and those positions;                                                         *)
(*   - the number of postings equals the number of (distinct key, document) pairs, so none    *)
(*     is missing;                                                                            *)
(*   - doc freq, field norm ids, total number of tokens;                                      *)
(*   - seek programs end on the first document >= target with the right frequency/positions.  *)
EXTENDS InvertedIndex, Json, IOUtils

Rec == ndJsonDeserialize(IOEnv.TRACE)

VARIABLES l, docs, segtoks, segnum, hasdel, dead
tvars == <<l, docs, segtoks, segnum, hasdel, dead, ivars>>
Ev == Rec[l]
Has(r, k) == k \in DOMAIN r

TextFields == {"pos", "frq", "bas", "nn"}
TypedFields == {"raw", "u", "i", "b", "d", "y", "ip"}
JsonFields == {"j", "j2"}          \* two JSON fields indexed with positions
Fields == TextFields \cup TypedFields \cup {"fa"} \cup JsonFields

\* JSON: one token stream per path; a text value is a sequence of words at positions 0, 1, ...
\* A document may hold several values (objects) for the JSON field and a path may hold several text leaves
\* (an array, or the same path in several of the values): the positions of a path CONTINUE across all of them,
\* in the order indexed, with the same gap of PositionGap as between the values of a text field (this is what
\* the unchanged indexer does: one position counter per path and document).  `vals` lists the leaves of a path
\* The counter belongs to one (field, path, document): the same path in ANOTHER JSON field of the document starts
\* at 0 again.
\* in that order; the member `obj` (which value of the document a leaf sits in) does not enter the positions.
RECURSIVE PathStr(_, _)
PathStr(p, n) == IF n = 1 THEN p[1] ELSE PathStr(p, n - 1) \o "." \o p[n]
JsonTextVals(path, vals) ==
  LET sv == SelectSeq(vals, LAMBDA v : Has(v, "s")) IN
  [i \in 1..Len(sv) |-> [j \in 1..Len(sv[i].s) |-> <<PathStr(path, Len(path)) \o "|s:" \o sv[i].s[j], j - 1, 1>>]]
JsonOtherToks(path, vals) ==
  LET ov == SelectSeq(vals, LAMBDA v : ~Has(v, "s")) IN
  [i \in 1..Len(ov) |-> <<PathStr(path, Len(path)) \o (IF Has(ov[i], "i") THEN "|i:" \o ov[i].i ELSE IF ov[i].o THEN "|o:true" ELSE "|o:false"), 0>>]
RECURSIVE JsonToks(_, _)
JsonToks(streams, i) ==
  IF i > Len(streams) THEN <<>>
  ELSE Toks(JsonTextVals(streams[i].path, streams[i].vals)) \o JsonOtherToks(streams[i].path, streams[i].vals) \o JsonToks(streams, i + 1)
RECURSIVE FacetsToks(_, _)
FacetsToks(fs, i) == IF i > Len(fs) THEN <<>> ELSE FacetToks(fs[i]) \o FacetsToks(fs, i + 1)

\* the tokens <<key, position>> of field f of document d
DocToks(d, f) ==
  IF ~Has(d, f) THEN <<>>
  ELSE IF f \in TextFields THEN Toks(d[f])
  ELSE IF f \in TypedFields THEN Single(d[f])
  ELSE IF f = "fa" THEN FacetsToks(d.fa, 1)
  ELSE JsonToks(d[f], 1)
DocNum(d, f) == IF ~Has(d, f) THEN 0 ELSE IF f \in TextFields THEN NumTokens(d[f]) ELSE Len(d[f])

TDocs ==
  /\ Ev.ev = "docs"
  /\ docs' = Ev.docs /\ segtoks' = <<>> /\ segnum' = <<>> /\ hasdel' = FALSE /\ dead' = {}
  /\ UNCHANGED ivars

TDeleted ==
  /\ Ev.ev = "deleted"
  /\ dead' = dead \cup SeqSet(Ev.ids) /\ hasdel' = TRUE
  /\ UNCHANGED <<docs, segtoks, segnum, ivars>>

\* a segment: its documents are docs[ids[i]]; the tokens of every field are computed once
TSeg ==
  /\ Ev.ev = "seg"
  /\ Len(Ev.ids) = Ev.max_doc /\ Ev.deleted = <<>>
  /\ {i \in 1..Len(Ev.ids) : ~(Ev.ids[i] \in 1..Len(docs)) \/ Ev.ids[i] \in dead} = {}
  /\ Cardinality(SeqSet(Ev.ids)) = Len(Ev.ids)
  /\ segtoks' = [i \in 1..Len(Ev.ids) |-> [f \in Fields |-> DocToks(docs[Ev.ids[i]], f)]]
  /\ segnum' = [i \in 1..Len(Ev.ids) |-> [f \in Fields |-> DocNum(docs[Ev.ids[i]], f)]]
  /\ UNCHANGED <<docs, hasdel, dead, ivars>>

\* one posting of term t: doc, frequency, positions as recomputed from the document
PostingOk(f, t, j) ==
  LET d == t.docs[j] IN
  IF d < 0 \/ d >= Len(segtoks) THEN FALSE
  ELSE LET ps == PositionsOf(segtoks[d + 1][f], t.k) IN
       /\ Len(ps) >= 1
       /\ (t.o \in {"pos", "freq"} => t.tf[j] = Len(ps))
       /\ (t.o = "pos" => t.pos[j] = ps)

TermOk(f, t) ==
  /\ t.df = Len(t.docs) /\ t.df >= 1
  /\ (t.o \in {"pos", "freq"} => Len(t.tf) = Len(t.docs))
  /\ (t.o = "pos" => Len(t.pos) = Len(t.docs))
  /\ {j \in 1..(Len(t.docs) - 1) : t.docs[j] >= t.docs[j + 1]} = {}      \* strictly increasing doc ids
  /\ {j \in 1..Len(t.docs) : ~PostingOk(f, t, j)} = {}
  /\ (Has(t, "df_lookup") => t.df_lookup = t.df)

TField ==
  /\ Ev.ev = "field" /\ Ev.field \in Fields
  /\ UNCHANGED <<docs, segtoks, segnum, hasdel, dead, ivars>>
  /\ LET f == Ev.field  ts == Ev.terms  n == Len(segtoks) IN
     \* dictionary order
     /\ {i \in 1..(Len(ts) - 1) : ~LexLess(ts[i].b, ts[i + 1].b)} = {}
     /\ Cardinality({ts[i].k : i \in 1..Len(ts)}) = Len(ts)
     /\ {i \in 1..Len(ts) : ~TermOk(f, ts[i])} = {}
     \* nothing is missing: as many postings as (distinct key, document) pairs
     /\ SumR([i \in 1..Len(ts) |-> ts[i].df], Len(ts)) = SumR([d \in 1..n |-> Cardinality(Keys(segtoks[d][f]))], n)
     \* field norms: the id of the number of tokens of the document in the field
     /\ (Has(Ev, "norms") => Len(Ev.norms) = n /\ {d \in 1..n : Ev.norms[d] # FieldNormId(segnum[d][f])} = {})
     \* total number of tokens (an estimate after a merge with deletes: not compared then)
     /\ ((f \in TextFields /\ ~hasdel) => Ev.total = SumR([d \in 1..n |-> segnum[d][f]], n))

\* a seek program on the postings of one key: every step ends on the first document >= target
\* (advance: > current); frequency and positions there are those of the document
DocsWith(f, k) == SelectSeq([d \in 1..Len(segtoks) |-> d - 1], LAMBDA d : k \in Keys(segtoks[d + 1][f]))
ResOk(f, k, o, res, want) ==
  /\ res[1] = want
  /\ (want # TERMINATED =>
        LET ps == PositionsOf(segtoks[want + 1][f], k) IN
        /\ (o \in {"pos", "freq"} => res[2] = Len(ps))
        /\ (o = "pos" => res[3] = ps))
RECURSIVE StepsOk(_, _, _, _, _, _)
StepsOk(f, k, o, dl, steps, i) ==
  IF i > Len(steps) THEN TRUE
  ELSE LET st == steps[i]
           at == IF i = 1 THEN -1 ELSE steps[i - 1].res[1]
           want == IF st.op = "start" THEN SeekIn(dl, 0)
                   ELSE IF st.op = "adv" THEN NextIn(dl, at)
                   ELSE SeekIn(dl, st.t)
       IN /\ (st.op = "seek" => st.t >= at /\ st.ret = want)
          /\ ResOk(f, k, o, st.res, want)
          /\ StepsOk(f, k, o, dl, steps, i + 1)

TSeek ==
  /\ Ev.ev = "seek"
  /\ UNCHANGED <<docs, segtoks, segnum, hasdel, dead, ivars>>
  /\ StepsOk(Ev.field, Ev.k, Ev.opt, DocsWith(Ev.field, Ev.k), Ev.steps, 1)

TOther ==
  /\ Ev.ev \in {"phase_end", "end"}
  /\ UNCHANGED <<docs, segtoks, segnum, hasdel, dead, ivars>>

TNext ==
  /\ l <= Len(Rec) /\ l' = l + 1
  /\ \/ TDocs \/ TDeleted \/ TSeg \/ TField \/ TSeek \/ TOther

TInit == l = 1 /\ docs = <<>> /\ segtoks = <<>> /\ segnum = <<>> /\ hasdel = FALSE /\ dead = {}
         /\ plist = <<>> /\ cur = TERMINATED /\ seen = <<>>
TSpec == TInit /\ [][TNext]_tvars

Accepted ==
  IF TLCGet("stats").diameter - 1 = Len(Rec) THEN TRUE
  ELSE Print(<<"REJECTED", TLCGet("stats").diameter, Rec[TLCGet("stats").diameter]>>, FALSE)
=============================================================================
