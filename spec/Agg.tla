-------------------------------- MODULE Agg --------------------------------
(* C14 - aggregations equal a direct computation and do not depend on partitioning.        *)
(*                                                                                          *)
(* Part 1: the denotation Den(a, docs, D, U) of an aggregation request `a` over the         *)
(*         documents D (indices into docs) of a corpus, computed directly from the field    *)
(*         values; U = the documents of the searched index (only used by terms with         *)
(*         min_doc_count = 0, which lists every term of the field).                         *)
(* Part 2: the abstract merge algebra on intermediate results: DocInter (one document),     *)
(*         Merge, Empty, Fin.  Partition independence is  Fin(fold Merge) = Den.            *)
(* Part 3: Match(a, den, obs): when an observed (normalised JSON) result is explained by    *)
(*         the denotation.  Ties of the order key are unordered, a `size` cut inside a tie  *)
(*         group may keep any member, comparisons that involve "no value" are unordered.    *)
(* Part 4: the state machine Collect(part) / Merge(a, b) / Serialize / Finalize.            *)
(*                                                                                          *)
(* Kinds: value_count, sum, min, max, avg, stats, extended_stats (exact moments),           *)
(* cardinality, percentiles (exact rank), top_hits, terms, range, histogram,                *)
(* date_histogram, filter, composite (terms sources), nested to any depth.                  *)
(* All field values are integers (integer valued f64 included): text terms are small        *)
(* integers that the harness maps to strings by an order preserving injection, dates are    *)
(* milliseconds.  A number of a result is a rational <<n, d>> (d > 0) or NullQ.             *)
EXTENDS Integers, Sequences, FiniteSets, TLC

CONSTANT BrokenMerge   \* TRUE only in negative configurations: merging two minima keeps the left one
CONSTANT ValueCounts   \* FALSE: doc_count of a range / histogram bucket = number of documents with a value
                       \* in the bucket.  TRUE mirrors recorded finding F14 (one count per value) so that
                       \* the dedicated F13 sub-run is judged on everything else

INF == 1000000000
NullQ == <<0, 0>>
EmptyFn == [x \in {} |-> 0]

SeqToSet(s) == {s[i] : i \in 1..Len(s)}
Min2(a, b) == IF a <= b THEN a ELSE b
Max2(a, b) == IF a >= b THEN a ELSE b
SetMin(S) == CHOOSE x \in S : \A y \in S : x <= y
SetMax(S) == CHOOSE x \in S : \A y \in S : x >= y
RECURSIVE SeqSum(_)
SeqSum(s) == IF s = <<>> THEN 0 ELSE Head(s) + SeqSum(Tail(s))
RECURSIVE SeqSumSq(_)
SeqSumSq(s) == IF s = <<>> THEN 0 ELSE Head(s) * Head(s) + SeqSumSq(Tail(s))
RECURSIVE SumOver(_, _)
SumOver(f, S) == IF S = {} THEN 0 ELSE LET x == CHOOSE y \in S : TRUE IN f[x] + SumOver(f, S \ {x})
SortedSeq(S) == [j \in 1..Cardinality(S) |-> CHOOSE p \in S : Cardinality({q \in S : q < p}) = j - 1]

MetricKinds == {"value_count", "sum", "min", "max", "avg", "stats", "extended_stats", "cardinality", "percentiles"}
IsMetric(a) == a.k \in MetricKinds
IsLeaf(a) == IsMetric(a) \/ a.k = "top_hits"
IsHist(a) == a.k \in {"histogram", "date_histogram"}

---------------------------------------------------------------------------------------------
(* values of a document *)
HasMiss(a) == "missing" \in DOMAIN a
DocVals(doc, a) == IF Len(doc[a.field]) = 0 /\ HasMiss(a) THEN <<a.missing>> ELSE doc[a.field]
DocValSet(doc, a) == SeqToSet(DocVals(doc, a))

(* moments of a bag of values *)
CountIn(vs, x) == Cardinality({j \in 1..Len(vs) : vs[j] = x})
BagEq(s, t) == Len(s) = Len(t) /\ \A x \in SeqToSet(s) \cup SeqToSet(t) : CountIn(s, x) = CountIn(t, x)
EmptyMom == [n |-> 0, s |-> 0, q |-> 0, lo |-> INF, hi |-> -INF, set |-> {}, bag |-> EmptyFn]
DocMom(doc, a) ==
  LET vs == DocVals(doc, a) IN
  [n |-> Len(vs), s |-> SeqSum(vs), q |-> SeqSumSq(vs),
   lo |-> IF vs = <<>> THEN INF ELSE SetMin(SeqToSet(vs)),
   hi |-> IF vs = <<>> THEN -INF ELSE SetMax(SeqToSet(vs)), set |-> SeqToSet(vs),
   bag |-> [x \in SeqToSet(vs) |-> CountIn(vs, x)]]
MergeMom(x, y) ==
  [n |-> x.n + y.n, s |-> x.s + y.s, q |-> x.q + y.q,
   lo |-> IF BrokenMerge THEN x.lo ELSE Min2(x.lo, y.lo), hi |-> Max2(x.hi, y.hi), set |-> x.set \cup y.set,
   bag |-> [v \in x.set \cup y.set |-> (IF v \in x.set THEN x.bag[v] ELSE 0) + (IF v \in y.set THEN y.bag[v] ELSE 0)]]
(* direct: over the whole bag at once *)
DirectMom(a, docs, D) ==
  LET all == UNION {DocValSet(docs[i], a) : i \in D} IN
  [n |-> SumOver([i \in D |-> Len(DocVals(docs[i], a))], D),
   s |-> SumOver([i \in D |-> SeqSum(DocVals(docs[i], a))], D),
   q |-> SumOver([i \in D |-> SeqSumSq(DocVals(docs[i], a))], D),
   lo |-> IF all = {} THEN INF ELSE SetMin(all), hi |-> IF all = {} THEN -INF ELSE SetMax(all), set |-> all,
   bag |-> [x \in all |-> SumOver([i \in D |-> CountIn(DocVals(docs[i], a), x)], D)]]
(* the value at index r (from 0) of the sorted bag *)
Kth(m, r) == SetMin({x \in m.set : SumOver(m.bag, {y \in m.set : y <= x}) >= r + 1})

StatsVal(m) ==
  [count |-> <<m.n, 1>>, sum |-> <<m.s, 1>>,
   min |-> IF m.n = 0 THEN NullQ ELSE <<m.lo, 1>>, max |-> IF m.n = 0 THEN NullQ ELSE <<m.hi, 1>>,
   avg |-> IF m.n = 0 THEN NullQ ELSE <<m.s, m.n>>]
MetricVal(a, m) ==
  CASE a.k = "value_count" -> [value |-> <<m.n, 1>>]
    [] a.k = "sum" -> [value |-> <<m.s, 1>>, empty |-> m.n = 0]
    [] a.k = "min" -> [value |-> IF m.n = 0 THEN NullQ ELSE <<m.lo, 1>>]
    [] a.k = "max" -> [value |-> IF m.n = 0 THEN NullQ ELSE <<m.hi, 1>>]
    [] a.k = "avg" -> [value |-> IF m.n = 0 THEN NullQ ELSE <<m.s, m.n>>]
    [] a.k = "cardinality" -> [value |-> <<Cardinality(m.set), 1>>]
    [] a.k = "stats" -> StatsVal(m)
    \* percentile p = the value of rank floor(p/100 * (n - 1)) (what the sketch estimates)
    [] a.k = "percentiles" ->
         [ps |-> [j \in 1..Len(a.percents) |-> IF m.n = 0 THEN NullQ ELSE <<Kth(m, (a.percents[j] * (m.n - 1)) \div 100), 1>>]]
    [] a.k = "extended_stats" ->
         [st |-> StatsVal(m),
          sumsq |-> IF m.n = 0 THEN NullQ ELSE <<m.q, 1>>,
          var |-> IF m.n <= 1 THEN NullQ ELSE <<m.n * m.q - m.s * m.s, m.n * m.n>>,
          vars |-> IF m.n <= 1 THEN NullQ ELSE <<m.n * m.q - m.s * m.s, m.n * (m.n - 1)>>]

---------------------------------------------------------------------------------------------
(* bucket geometry *)
HasExt(a) == "ext" \in DOMAIN a
HasHard(a) == "hard" \in DOMAIN a
InHard(a, x) == HasHard(a) => (a.hard.min <= x /\ x <= a.hard.max)
HKey(a, x) == ((x - a.offset) \div a.interval) * a.interval + a.offset
DocHKeys(a, doc) == {HKey(a, x) : x \in {y \in SeqToSet(doc[a.field]) : InHard(a, y)}}
(* keys returned by a histogram with min_doc_count = 0: from the lowest to the highest key,    *)
(* the range extended by extended_bounds and clipped by hard_bounds, no gaps                    *)
HistSpan(a, keys) ==
  LET lo0 == keys \cup (IF HasExt(a) THEN {a.ext.min} ELSE {})
      hi0 == keys \cup (IF HasExt(a) THEN {a.ext.max} ELSE {})
  IN IF lo0 = {} THEN {}
     ELSE LET lo1 == SetMin(lo0)
              hi1 == SetMax(hi0)
              lo == IF HasHard(a) THEN Max2(lo1, a.hard.min) ELSE lo1
              hi == IF HasHard(a) THEN Min2(hi1, a.hard.max) ELSE hi1
          IN IF hi < lo THEN {} ELSE {HKey(a, lo) + j * a.interval : j \in 0..((HKey(a, hi) - HKey(a, lo)) \div a.interval)}

RFrom(r) == IF "from" \in DOMAIN r THEN r.from ELSE -INF
RTo(r) == IF "to" \in DOMAIN r THEN r.to ELSE INF
(* the requested ranges do not overlap; the buckets cover the whole line: the requested ranges, *)
(* the gaps between them, and the two open ends                                                 *)
RangePoints(a) == SortedSeq({-INF, INF} \cup {RFrom(a.ranges[j]) : j \in 1..Len(a.ranges)} \cup {RTo(a.ranges[j]) : j \in 1..Len(a.ranges)})
NumRangeBuckets(a) == Len(RangePoints(a)) - 1
DocInRange(doc, a, lo, hi) == \E x \in SeqToSet(doc[a.field]) : lo <= x /\ x < hi
(* what one document adds to the doc_count of the buckets it falls into *)
RangeCnt(doc, a, lo, hi) ==
  IF ValueCounts THEN Cardinality({j \in 1..Len(doc[a.field]) : lo <= doc[a.field][j] /\ doc[a.field][j] < hi})
  ELSE IF DocInRange(doc, a, lo, hi) THEN 1 ELSE 0
HistCnt(doc, a, k) ==
  IF ValueCounts THEN Cardinality({j \in 1..Len(doc[a.field]) : InHard(a, doc[a.field][j]) /\ HKey(a, doc[a.field][j]) = k})
  ELSE IF k \in DocHKeys(a, doc) THEN 1 ELSE 0
FilterMatch(doc, a) == a.qv \in SeqToSet(doc[a.qf])

(* composite: one bucket per combination of the values of the source fields; a document without *)
(* a value for one of the sources is ignored.  a.sources[k] = <<name, field, ascending>>          *)
RECURSIVE CTuples(_, _, _)
CTuples(doc, a, k) ==
  IF k = 0 THEN {<<>>}
  ELSE {Append(t, x) : t \in CTuples(doc, a, k - 1), x \in SeqToSet(doc[a.sources[k][2]])}
DocCKeys(doc, a) == CTuples(doc, a, Len(a.sources))
RECURSIVE CMult(_, _, _, _)
CMult(doc, a, key, k) == IF k = 0 THEN 1 ELSE CountIn(doc[a.sources[k][2]], key[k]) * CMult(doc, a, key, k - 1)
CompCnt(doc, a, key) == IF ValueCounts THEN CMult(doc, a, key, Len(a.sources)) ELSE 1
(* top_hits: a.sort[k] = <<field, ascending>> over single-valued fields that every document has *)
HitOf(a, doc) == [key |-> [k \in 1..Len(a.sort) |-> doc[a.sort[k][1]][1]], dv |-> [k \in 1..Len(a.dv) |-> doc[a.dv[k]]]]

---------------------------------------------------------------------------------------------
(* Part 1: the denotation *)
RECURSIVE Den(_, _, _, _)
DenSubs(subs, docs, D, U) == [j \in 1..Len(subs) |-> Den(subs[j][2], docs, D, U)]
Den(a, docs, D, U) ==
  IF IsMetric(a) THEN MetricVal(a, DirectMom(a, docs, D))
  ELSE CASE a.k = "terms" ->
         LET KD(k) == {i \in D : k \in DocValSet(docs[i], a)}
             keys == UNION {DocValSet(docs[i], a) : i \in D}
             all == keys \cup (IF a.mdc = 0 THEN UNION {SeqToSet(docs[i][a.field]) : i \in U} ELSE {})
             cand == {k \in all : Cardinality(KD(k)) >= a.mdc}
         IN [b |-> [k \in cand |-> [cnt |-> Cardinality(KD(k)), sub |-> DenSubs(a.sub, docs, KD(k), KD(k))]],
             dropped |-> SumOver([k \in all |-> Cardinality(KD(k))], all \ cand)]
       [] a.k = "range" ->
         LET P == RangePoints(a) IN
         [nodocs |-> D = {},
          bs |-> [j \in 1..(Len(P) - 1) |->
            LET BD == {i \in D : DocInRange(docs[i], a, P[j], P[j + 1])} IN
            [lo |-> P[j], hi |-> P[j + 1],
             cnt |-> IF ValueCounts THEN SumOver([i \in BD |-> RangeCnt(docs[i], a, P[j], P[j + 1])], BD) ELSE Cardinality(BD),
             sub |-> DenSubs(a.sub, docs, BD, BD)]]]
       [] IsHist(a) ->
         LET KD(k) == {i \in D : k \in DocHKeys(a, docs[i])}
             keys == UNION {DocHKeys(a, docs[i]) : i \in D}
             cnt(k) == IF ValueCounts THEN SumOver([i \in KD(k) |-> HistCnt(docs[i], a, k)], KD(k)) ELSE Cardinality(KD(k))
             exp == IF a.mdc = 0 THEN HistSpan(a, keys) \cup keys ELSE {k \in keys : cnt(k) >= a.mdc}
         IN [k \in exp |-> [cnt |-> cnt(k), sub |-> DenSubs(a.sub, docs, KD(k), KD(k))]]
       [] a.k = "filter" ->
         LET FD == {i \in D : FilterMatch(docs[i], a)} IN
         [cnt |-> Cardinality(FD), sub |-> DenSubs(a.sub, docs, FD, FD)]
       [] a.k = "composite" ->
         LET KD(key) == {i \in D : key \in DocCKeys(docs[i], a)}
             keys == UNION {DocCKeys(docs[i], a) : i \in D}
         IN [key \in keys |-> [cnt |-> SumOver([i \in KD(key) |-> CompCnt(docs[i], a, key)], KD(key)),
                                sub |-> DenSubs(a.sub, docs, KD(key), KD(key))]]
       [] a.k = "top_hits" ->
         \* hits are identified by the document id, which is the index of the document in the corpus
         \* (docs[i].id = <<i>>: AddDoc numbers them so, the trace specification checks it of a recorded case)
         [i \in D |-> HitOf(a, docs[i])]

(* the regime in which the property promises exact results: for every terms aggregation of the *)
(* tree the number of distinct terms a segment can hold (including the `missing` key) is at     *)
(* most its segment_size, so that the per-segment cut cannot bite                               *)
RECURSIVE Exact(_, _, _)
Exact(a, docs, U) ==
  IF IsLeaf(a) THEN TRUE
  ELSE /\ (a.k = "terms" => Cardinality(UNION {DocValSet(docs[i], a) \cup SeqToSet(docs[i][a.field]) : i \in U}) <= a.segsize)
       /\ \A j \in 1..Len(a.sub) : Exact(a.sub[j][2], docs, U)

---------------------------------------------------------------------------------------------
(* Part 2: the merge algebra *)
RECURSIVE Empty(_)
EmptySubs(subs) == [j \in 1..Len(subs) |-> Empty(subs[j][2])]
Empty(a) ==
  IF IsMetric(a) THEN EmptyMom
  ELSE CASE a.k = "terms" -> [m |-> EmptyFn, z |-> {}]
         [] a.k = "range" -> [n |-> 0, bs |-> [j \in 1..NumRangeBuckets(a) |-> [cnt |-> 0, sub |-> EmptySubs(a.sub)]]]
         [] IsHist(a) -> EmptyFn
         [] a.k = "filter" -> [cnt |-> 0, sub |-> EmptySubs(a.sub)]
         [] a.k \in {"composite", "top_hits"} -> EmptyFn

(* the contribution of one document; inD: the document matches the query *)
RECURSIVE DocInter(_, _, _)
DocInterSubs(subs, doc) == [j \in 1..Len(subs) |-> DocInter(subs[j][2], doc, TRUE)]
DocInter(a, doc, inD) ==
  IF IsMetric(a) THEN (IF inD THEN DocMom(doc, a) ELSE EmptyMom)
  ELSE CASE a.k = "terms" ->
         [m |-> [k \in (IF inD THEN DocValSet(doc, a) ELSE {}) |-> [cnt |-> 1, sub |-> DocInterSubs(a.sub, doc)]],
          z |-> SeqToSet(doc[a.field])]
       [] a.k = "range" ->
         LET P == RangePoints(a) IN
         [n |-> IF inD THEN 1 ELSE 0,
          bs |-> [j \in 1..(Len(P) - 1) |->
            IF inD /\ DocInRange(doc, a, P[j], P[j + 1]) THEN [cnt |-> RangeCnt(doc, a, P[j], P[j + 1]), sub |-> DocInterSubs(a.sub, doc)]
            ELSE [cnt |-> 0, sub |-> EmptySubs(a.sub)]]]
       [] IsHist(a) ->
         [k \in (IF inD THEN DocHKeys(a, doc) ELSE {}) |-> [cnt |-> HistCnt(doc, a, k), sub |-> DocInterSubs(a.sub, doc)]]
       [] a.k = "filter" ->
         IF inD /\ FilterMatch(doc, a) THEN [cnt |-> 1, sub |-> DocInterSubs(a.sub, doc)]
         ELSE [cnt |-> 0, sub |-> EmptySubs(a.sub)]
       [] a.k = "composite" ->
         [key \in (IF inD THEN DocCKeys(doc, a) ELSE {}) |-> [cnt |-> CompCnt(doc, a, key), sub |-> DocInterSubs(a.sub, doc)]]
       [] a.k = "top_hits" ->
         [id \in (IF inD THEN {doc.id[1]} ELSE {}) |-> HitOf(a, doc)]

RECURSIVE Merge(_, _, _)
MergeSubs(subs, x, y) == [j \in 1..Len(subs) |-> Merge(subs[j][2], x[j], y[j])]
MergeMap(a, x, y) ==
  [k \in DOMAIN x \cup DOMAIN y |->
     IF k \in DOMAIN x /\ k \in DOMAIN y THEN [cnt |-> x[k].cnt + y[k].cnt, sub |-> MergeSubs(a.sub, x[k].sub, y[k].sub)]
     ELSE IF k \in DOMAIN x THEN x[k] ELSE y[k]]
Merge(a, x, y) ==
  IF IsMetric(a) THEN MergeMom(x, y)
  ELSE CASE a.k = "terms" -> [m |-> MergeMap(a, x.m, y.m), z |-> x.z \cup y.z]
         [] a.k = "range" -> [n |-> x.n + y.n,
                              bs |-> [j \in DOMAIN x.bs |-> [cnt |-> x.bs[j].cnt + y.bs[j].cnt, sub |-> MergeSubs(a.sub, x.bs[j].sub, y.bs[j].sub)]]]
         [] IsHist(a) -> MergeMap(a, x, y)
         [] a.k = "filter" -> [cnt |-> x.cnt + y.cnt, sub |-> MergeSubs(a.sub, x.sub, y.sub)]
         [] a.k = "composite" -> MergeMap(a, x, y)
         [] a.k = "top_hits" -> [id \in DOMAIN x \cup DOMAIN y |-> IF id \in DOMAIN x THEN x[id] ELSE y[id]]

RECURSIVE Fin(_, _)
FinSubs(subs, x) == [j \in 1..Len(subs) |-> Fin(subs[j][2], x[j])]
Fin(a, x) ==
  IF IsMetric(a) THEN MetricVal(a, x)
  ELSE CASE a.k = "terms" ->
         LET all == DOMAIN x.m \cup (IF a.mdc = 0 THEN x.z ELSE {})
             cnt(k) == IF k \in DOMAIN x.m THEN x.m[k].cnt ELSE 0
             cand == {k \in all : cnt(k) >= a.mdc}
         IN [b |-> [k \in cand |-> [cnt |-> cnt(k),
                                    sub |-> FinSubs(a.sub, IF k \in DOMAIN x.m THEN x.m[k].sub ELSE EmptySubs(a.sub))]],
             dropped |-> SumOver([k \in all |-> cnt(k)], all \ cand)]
       [] a.k = "range" ->
         LET P == RangePoints(a) IN
         [nodocs |-> x.n = 0,
          bs |-> [j \in DOMAIN x.bs |-> [lo |-> P[j], hi |-> P[j + 1], cnt |-> x.bs[j].cnt, sub |-> FinSubs(a.sub, x.bs[j].sub)]]]
       [] IsHist(a) ->
         LET exp == IF a.mdc = 0 THEN HistSpan(a, DOMAIN x) \cup DOMAIN x ELSE {k \in DOMAIN x : x[k].cnt >= a.mdc} IN
         [k \in exp |-> IF k \in DOMAIN x THEN [cnt |-> x[k].cnt, sub |-> FinSubs(a.sub, x[k].sub)]
                        ELSE [cnt |-> 0, sub |-> FinSubs(a.sub, EmptySubs(a.sub))]]
       [] a.k = "filter" -> [cnt |-> x.cnt, sub |-> FinSubs(a.sub, x.sub)]
       [] a.k = "composite" -> [key \in DOMAIN x |-> [cnt |-> x[key].cnt, sub |-> FinSubs(a.sub, x[key].sub)]]
       [] a.k = "top_hits" -> x

(* requests: a sequence of <<name, aggregation>> *)
DenReq(req, docs, D, U) == DenSubs(req, docs, D, U)
ExactReq(req, docs, U) == \A j \in 1..Len(req) : Exact(req[j][2], docs, U)

(* intermediate result of a set of documents S (those of them in Dq match the query) *)
RECURSIVE FoldInter(_, _, _, _)
FoldInter(req, docs, S, Dq) ==
  IF S = {} THEN EmptySubs(req)
  ELSE LET i == SetMax(S) IN
       MergeSubs(req, FoldInter(req, docs, S \ {i}, Dq), [j \in 1..Len(req) |-> DocInter(req[j][2], docs[i], i \in Dq)])

---------------------------------------------------------------------------------------------
(* Part 3: observed results.  A number is [t |-> "i", v], [t |-> "q", n, d], [t |-> "null"],   *)
(* [t |-> "a", v, scale] (rounded decimal of an inexact float) or [t |-> "x", s] (anything else) *)
NumIs(o, q) ==
  IF q[2] = 0 THEN o.t = "null"
  ELSE \/ o.t = "i" /\ o.v * q[2] = q[1]
       \/ o.t = "q" /\ o.d > 0 /\ o.n * q[2] = q[1] * o.d
(* inexact floats (variance): |o.v / scale - n/d| <= 2/scale *)
ApproxIs(o, q) ==
  IF q[2] = 0 THEN o.t = "null"
  ELSE /\ o.t = "a"
       /\ (o.v - 2) * q[2] <= q[1] * o.scale /\ q[1] * o.scale <= (o.v + 2) * q[2]
(* square root: (o.v -+ 2)^2 / scale^2 brackets n/d *)
SqrtIs(o, q) ==
  IF q[2] = 0 THEN o.t = "null"
  ELSE /\ o.t = "a" /\ o.v >= 0
       /\ (IF o.v >= 2 THEN (o.v - 2) * (o.v - 2) * q[2] <= q[1] * o.scale * o.scale ELSE TRUE)
       /\ q[1] * o.scale * o.scale <= (o.v + 2) * (o.v + 2) * q[2]

(* a sketch estimate: within 2 % of the exact value (+ 0.02) *)
RelIs(o, q) ==
  IF q[2] = 0 THEN o.t = "null"
  ELSE LET x == q[1]
           diff == IF o.v >= x * o.scale THEN o.v - x * o.scale ELSE x * o.scale - o.v
           ax == IF x >= 0 THEN x ELSE -x
       IN o.t = "a" /\ 100 * diff <= 2 * ax * o.scale + 2 * o.scale
(* lexicographic order of top_hits sort keys / composite keys; dirs[k] = ascending *)
RECURSIVE LexLe(_, _, _, _)
LexLe(dirs, x, y, k) ==
  IF k > Len(dirs) THEN TRUE
  ELSE IF x[k] = y[k] THEN LexLe(dirs, x, y, k + 1)
  ELSE IF dirs[k] THEN x[k] < y[k] ELSE x[k] > y[k]

StatsMatch(v, o) ==
  /\ NumIs(o.count, v.count) /\ NumIs(o.sum, v.sum) /\ NumIs(o.min, v.min)
  /\ NumIs(o.max, v.max) /\ NumIs(o.avg, v.avg)

(* the value terms are ordered by, as a rational or NullQ *)
OrdVal(a, e) ==
  IF a.ord.t = "count" THEN <<e.cnt, 1>>
  ELSE LET j == CHOOSE j \in 1..Len(a.sub) : a.sub[j][1] = a.ord.name
           sv == e.sub[j]
           sa == a.sub[j][2]
       IN IF sa.k = "stats" THEN sv[a.ord.prop]
          ELSE sv.value                                  \* a sum over no value is shown as 0 and ordered as 0
QLe(x, y) == x[1] * y[2] <= y[1] * x[2]
(* bucket (k1, e1) may come before bucket (k2, e2) *)
MayPrecede(a, k1, e1, k2, e2) ==
  IF a.ord.t = "key" THEN (IF a.ord.asc THEN k1 <= k2 ELSE k1 >= k2)
  ELSE LET x == OrdVal(a, e1)
           y == OrdVal(a, e2)
       IN IF x[2] = 0 \/ y[2] = 0 THEN TRUE
          ELSE IF a.ord.asc THEN QLe(x, y) ELSE QLe(y, x)

RECURSIVE Match(_, _, _)
SubsMatch(subs, vs, os) ==
  /\ Len(os) = Len(subs)
  /\ \A j \in 1..Len(subs) : os[j][1] = subs[j][1] /\ Match(subs[j][2], vs[j], os[j][2])
Match(a, v, o) ==
  CASE a.k \in {"value_count", "sum", "min", "max", "avg", "cardinality"} -> NumIs(o.value, v.value)
    [] a.k = "stats" -> StatsMatch(v, o)
    [] a.k = "extended_stats" ->
         /\ StatsMatch(v.st, o)
         /\ NumIs(o.sum_of_squares, v.sumsq)
         /\ ApproxIs(o.variance, v.var) /\ ApproxIs(o.variance_population, v.var)
         /\ ApproxIs(o.variance_sampling, v.vars)
         /\ SqrtIs(o.std_deviation, v.var) /\ SqrtIs(o.std_deviation_sampling, v.vars)
    [] a.k = "terms" ->
         LET B == o.buckets
             n == Len(B)
             cand == DOMAIN v.b
             okeys == {B[j].key : j \in 1..n}
             cut == cand \ okeys
             cutsum == SumOver([k \in cand |-> v.b[k].cnt], cut)
         IN /\ n = Min2(a.size, Cardinality(cand))
            /\ okeys \subseteq cand /\ Cardinality(okeys) = n
            /\ \A j \in 1..n : /\ B[j].doc_count = v.b[B[j].key].cnt
                               /\ SubsMatch(a.sub, v.b[B[j].key].sub, B[j].sub)
            /\ \A j \in 1..(n - 1) : MayPrecede(a, B[j].key, v.b[B[j].key], B[j + 1].key, v.b[B[j + 1].key])
            /\ \A k \in cut : \A j \in 1..n : MayPrecede(a, B[j].key, v.b[B[j].key], k, v.b[k])
            \* buckets below min_doc_count: whether they count as "other" is not documented
            /\ cutsum <= o.other /\ o.other <= cutsum + v.dropped
            \* no per-segment cut in this regime: the error bound is 0 where it is shown
            /\ o.err = (IF a.ord.t = "count" /\ ~a.ord.asc THEN 0 ELSE -1)
    [] a.k = "range" ->
         \* over no document at all (an empty parent bucket) the list of ranges may also be absent:
         \* the documentation does not say (observed: gap / zero buckets carry no range buckets)
         \/ v.nodocs /\ Len(o.buckets) = 0
         \/ /\ Len(o.buckets) = Len(v.bs)
            /\ \A j \in 1..Len(v.bs) :
                 LET b == o.buckets[j]
                     e == v.bs[j]
                 IN
                 /\ (IF e.lo = -INF THEN b.from.t = "null" ELSE NumIs(b.from, <<e.lo, 1>>))
                 /\ (IF e.hi = INF THEN b.to.t = "null" ELSE NumIs(b.to, <<e.hi, 1>>))
                 /\ b.key = (IF e.lo = -INF THEN "*" ELSE ToString(e.lo)) \o "-" \o (IF e.hi = INF THEN "*" ELSE ToString(e.hi))
                 /\ b.doc_count = e.cnt
                 /\ SubsMatch(a.sub, e.sub, b.sub)
    [] IsHist(a) ->
         LET B == o.buckets
             n == Len(B)
         IN /\ n = Cardinality(DOMAIN v)
            /\ \A j \in 1..n : /\ B[j].key \in DOMAIN v
                               /\ B[j].doc_count = v[B[j].key].cnt
                               /\ SubsMatch(a.sub, v[B[j].key].sub, B[j].sub)
            /\ \A j \in 1..(n - 1) : B[j].key < B[j + 1].key
    [] a.k = "filter" -> o.doc_count = v.cnt /\ SubsMatch(a.sub, v.sub, o.sub)
    [] a.k = "percentiles" ->
         /\ Len(o.values) = Len(v.ps)
         /\ \A j \in 1..Len(v.ps) : RelIs(o.values[j], v.ps[j])
    [] a.k = "composite" ->
         LET B == o.buckets
             n == Len(B)
             dirs == [k \in 1..Len(a.sources) |-> a.sources[k][3]]
             okeys == {B[j].key : j \in 1..n}
         IN /\ n = Min2(a.size, Cardinality(DOMAIN v))
            /\ okeys \subseteq DOMAIN v /\ Cardinality(okeys) = n
            /\ \A j \in 1..n : B[j].doc_count = v[B[j].key].cnt /\ SubsMatch(a.sub, v[B[j].key].sub, B[j].sub)
            /\ \A j \in 1..(n - 1) : LexLe(dirs, B[j].key, B[j + 1].key, 1)
            /\ \A key \in DOMAIN v \ okeys : LexLe(dirs, B[n].key, key, 1)
    [] a.k = "top_hits" ->
         LET H == o.hits
             n == Len(H)
             dirs == [k \in 1..Len(a.sort) |-> a.sort[k][2]]
             ids == {H[j].id : j \in 1..n}
         IN /\ n = Min2(a.size, Cardinality(DOMAIN v))
            /\ ids \subseteq DOMAIN v /\ Cardinality(ids) = n
            /\ \A j \in 1..n :
                 /\ Len(H[j].sort) = Len(a.sort) /\ \A k \in 1..Len(a.sort) : NumIs(H[j].sort[k], <<v[H[j].id].key[k], 1>>)
                 /\ Len(H[j].dv) = Len(a.dv) /\ \A k \in 1..Len(a.dv) : BagEq(H[j].dv[k], v[H[j].id].dv[k])
            /\ \A j \in 1..(n - 1) : LexLe(dirs, v[H[j].id].key, v[H[j + 1].id].key, 1)
            /\ \A id \in DOMAIN v \ ids : LexLe(dirs, v[H[n].id].key, v[id].key, 1)

MatchReq(req, vs, os) == SubsMatch(req, vs, os)

---------------------------------------------------------------------------------------------
(* Part 4: the state machine.  A corpus is built, each document goes to one part (a          *)
(* separately searched index / segment); parts are collected into intermediate results, which *)
(* are merged in any order and grouping, serialised, and finalised.                           *)
CONSTANTS DocDomain, Reqs, Queries, MaxDocs, MaxParts

VARIABLES docs, part, req, query, phase, pool, collected
vars == <<docs, part, req, query, phase, pool, collected>>

QMatch(doc, q) == q = "all" \/ (q = "g1" /\ 1 \in SeqToSet(doc.g))
Dq == {i \in 1..Len(docs) : QMatch(docs[i], query)}
PartDocs(p) == {i \in 1..Len(docs) : part[i] = p}

Init == /\ docs = <<>> /\ part = <<>> /\ req \in Reqs /\ query \in Queries
        /\ phase = "build" /\ pool = {} /\ collected = {}

AddDoc(d, p) ==
  /\ phase = "build" /\ Len(docs) < MaxDocs
  /\ p <= (IF part = <<>> THEN 0 ELSE SetMax(SeqToSet(part))) + 1     \* parts are numbered in order of appearance
  /\ docs' = Append(docs, [d EXCEPT !.id = <<Len(docs) + 1>>]) /\ part' = Append(part, p)
  /\ UNCHANGED <<req, query, phase, pool, collected>>

Start == /\ phase = "build" /\ Len(docs) >= 1 /\ phase' = "run"
         /\ UNCHANGED <<docs, part, req, query, pool, collected>>

Collect(p) ==
  /\ phase = "run" /\ p \notin collected /\ PartDocs(p) # {}
  /\ pool' = pool \cup {[D |-> PartDocs(p), x |-> FoldInter(req, docs, PartDocs(p), Dq)]}
  /\ collected' = collected \cup {p}
  /\ UNCHANGED <<docs, part, req, query, phase>>

(* an intermediate result over no document at all: a partition without segments, or the       *)
(* `default()` value that seeds a fold.  It is the neutral element of the merge on both sides. *)
CollectEmpty ==
  /\ phase = "run"
  /\ pool' = pool \cup {[D |-> {}, x |-> EmptySubs(req)]}
  /\ UNCHANGED <<docs, part, req, query, phase, collected>>

MergeTwo(e1, e2) ==
  /\ phase = "run" /\ e1 \in pool /\ e2 \in pool /\ e1 # e2
  /\ pool' = (pool \ {e1, e2}) \cup {[D |-> e1.D \cup e2.D, x |-> MergeSubs(req, e1.x, e2.x)]}
  /\ UNCHANGED <<docs, part, req, query, phase, collected>>

(* serialisation and finalisation do not change the abstract state *)
SerializeStep(e) == phase = "run" /\ e \in pool /\ UNCHANGED vars
FinalizeStep(e) == phase = "run" /\ e \in pool /\ UNCHANGED vars

Next == \/ \E d \in DocDomain, p \in 1..MaxParts : AddDoc(d, p)
        \/ Start
        \/ \E p \in 1..MaxParts : Collect(p)
        \/ CollectEmpty
        \/ \E e1, e2 \in pool : MergeTwo(e1, e2)

Spec == Init /\ [][Next]_vars

(* every intermediate result, however it was obtained, finalises to the denotation of the   *)
(* documents it covers                                                                       *)
AlgebraSound ==
  \A e \in pool : FinSubs(req, e.x) = DenReq(req, docs, e.D \cap Dq, e.D)
Disjoint == \A e1, e2 \in pool : e1 # e2 => e1.D \cap e2.D = {}
(* the empty intermediate result is neutral on the left and on the right *)
EmptyNeutral ==
  \A e \in pool : /\ MergeSubs(req, EmptySubs(req), e.x) = e.x
                   /\ MergeSubs(req, e.x, EmptySubs(req)) = e.x
=============================================================================
