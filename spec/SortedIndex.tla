------------------------------ MODULE SortedIndex ------------------------------
(***************************************************************************)
(* C17: with IndexSettings::sort_by_field every segment - freshly written   *)
(* or merged - lists its documents in the order of the sort field, the      *)
(* documents WITHOUT a value first in ascending and last in descending      *)
(* order; nothing else changes (deletes hit the documents they would hit    *)
(* unsorted; every structure stays attached to its document).               *)
(*                                                                          *)
(* The order itself (Sorted(seg)) is in SortedOrder.tla, shared with the    *)
(* trace specification.  This module: a small model of the mechanism       *)
(* (src/indexer/segment_writer.rs finalize / remap_doc_opstamps,            *)
(* doc_id_mapping.rs, merger.rs):                                           *)
(*   documents are buffered in insertion order with their opstamps;         *)
(*   Flush sorts the buffer (stable) and permutes the per-document opstamps *)
(*   with it, then applies the deletes of the same transaction by opstamp;  *)
(*   Merge stacks the sources when their value ranges are disjoint and no   *)
(*   live document lacks a value, and otherwise interleaves them by value.  *)
(***************************************************************************)
EXTENDS SortedOrder, FiniteSets, TLC

(* ------------------------------- the model ------------------------------- *)
CONSTANTS
  Order,             \* "asc" | "desc"
  Keys,              \* sort values of the model (naturals); Missing is always possible
  Terms,
  MaxDocs, MaxOps,
  PermuteOpstamps,   \* TRUE = the code; FALSE = mutant: doc opstamps stay in insertion order
  StackNeedsNoNulls  \* TRUE = the code; FALSE = mutant: disjoint ranges are stacked even with live nulls

VARIABLES
  buf,      \* in-memory segment: Seq of [id, t, k, op] in insertion order
  dq,       \* delete queue: Seq of [op, t]
  stamp,    \* next opstamp
  segs,     \* finalised segments [sid, docs (Seq of [id, t, k]), alive (ids), cur (deletes applied)]
  nextId, nextSid, nOps,
  pend,     \* sequential oracle: ids alive after the operations so far
  pub,      \* ids published by the last commit
  commd     \* oracle at the last commit

vars == <<buf, dq, stamp, segs, nextId, nextSid, nOps, pend, pub, commd>>

KeysOf(docs) == [j \in 1..Len(docs) |-> docs[j].k]
IdsOf(docs) == {docs[j].id : j \in 1..Len(docs)}
AllDocs == {buf[j] : j \in 1..Len(buf)} \cup UNION {{s.docs[j] : j \in 1..Len(s.docs)} : s \in segs}
TermOf(id) == (CHOOSE d \in AllDocs : d.id = id).t

Init ==
  /\ buf = <<>> /\ dq = <<>> /\ stamp = 0 /\ segs = {} /\ nextId = 1 /\ nextSid = 1 /\ nOps = 0
  /\ pend = {} /\ pub = {} /\ commd = {}

CanOp == nOps < MaxOps

Add(t, k) ==
  /\ CanOp /\ nextId <= MaxDocs
  /\ buf' = Append(buf, [id |-> nextId, t |-> t, k |-> k, op |-> stamp])
  /\ stamp' = stamp + 1 /\ nextId' = nextId + 1 /\ nOps' = nOps + 1
  /\ pend' = pend \cup {nextId}
  /\ UNCHANGED <<dq, segs, nextSid, pub, commd>>

Del(t) ==
  /\ CanOp
  /\ dq' = Append(dq, [op |-> stamp, t |-> t])
  /\ stamp' = stamp + 1 /\ nOps' = nOps + 1
  /\ pend' = {i \in pend : TermOf(i) # t}
  /\ UNCHANGED <<buf, segs, nextId, nextSid, pub, commd>>

\* the stable sort of the buffer: new position -> old position
SortPerm(docs) ==
  LET n == Len(docs) IN
  CHOOSE p \in [1..n -> 1..n] :
    /\ \A i, j \in 1..n : i # j => p[i] # p[j]
    /\ \A i, j \in 1..n : i < j =>
         /\ LeqO(Order, docs[p[i]].k, docs[p[j]].k)
         /\ (LeqO(Order, docs[p[j]].k, docs[p[i]].k) => p[i] < p[j])

\* segment finalisation: sort, permute the opstamps, apply the deletes of the queue by opstamp
Flush ==
  /\ buf # <<>>
  /\ LET n == Len(buf)
         p == SortPerm(buf)
         docs == [j \in 1..n |-> [id |-> buf[p[j]].id, t |-> buf[p[j]].t, k |-> buf[p[j]].k]]
         ops == [j \in 1..n |-> IF PermuteOpstamps THEN buf[p[j]].op ELSE buf[j].op]
         dead == {docs[j].id : j \in {x \in 1..n : \E i \in 1..Len(dq) : dq[i].t = docs[x].t /\ ops[x] < dq[i].op}}
     IN segs' = segs \cup {[sid |-> nextSid, docs |-> docs, alive |-> IdsOf(docs) \ dead, cur |-> Len(dq)]}
  /\ buf' = <<>> /\ nextSid' = nextSid + 1
  /\ UNCHANGED <<dq, stamp, nextId, nOps, pend, pub, commd>>

\* deletes newer than the segment apply to all its documents
Advance(s) ==
  LET hit == {s.docs[j].id : j \in {x \in 1..Len(s.docs) : \E i \in (s.cur + 1)..Len(dq) : dq[i].t = s.docs[x].t}}
  IN [s EXCEPT !.alive = s.alive \ hit, !.cur = Len(dq)]

Live(s) == SelectSeq(s.docs, LAMBDA d : d.id \in s.alive)
Present(docs) == {docs[j].k : j \in 1..Len(docs)} \ {Missing}
MinK(docs) == CHOOSE m \in Present(docs) : \A x \in Present(docs) : m <= x
MaxK(docs) == CHOOSE m \in Present(docs) : \A x \in Present(docs) : m >= x

RECURSIVE Inter(_, _)
Inter(a, b) ==
  IF a = <<>> THEN {b} ELSE IF b = <<>> THEN {a}
  ELSE {<<Head(a)>> \o r : r \in Inter(Tail(a), b)} \cup {<<Head(b)>> \o r : r \in Inter(a, Tail(b))}

\* merge of two segments (both with at least one value, as sort_readers_by_min_sort_field
\* orders them by the minimum of the column - over all documents, deleted ones included)
Merge(s1, s2) ==
  /\ CanOp /\ buf = <<>> /\ s1 \in segs /\ s2 \in segs /\ s1.sid # s2.sid
  /\ Present(s1.docs) # {} /\ Present(s2.docs) # {}
  /\ IF Order = "asc" THEN MinK(s1.docs) <= MinK(s2.docs) ELSE MinK(s1.docs) >= MinK(s2.docs)
  /\ LET a == Advance(s1)  b == Advance(s2)
         la == Live(a)  lb == Live(b)
         disjoint == IF Order = "asc" THEN MaxK(a.docs) <= MinK(b.docs) ELSE MinK(a.docs) >= MaxK(b.docs)
         nulls == \E d \in {la[j] : j \in 1..Len(la)} \cup {lb[j] : j \in 1..Len(lb)} : d.k = Missing
         stack == disjoint /\ (StackNeedsNoNulls => ~nulls)
     IN \E r \in (IF stack THEN {la \o lb} ELSE {x \in Inter(la, lb) : SortedKeys(Order, KeysOf(x))}) :
          segs' = (segs \ {s1, s2}) \cup (IF r = <<>> THEN {} ELSE {[sid |-> nextSid, docs |-> r, alive |-> IdsOf(r), cur |-> Len(dq)]})
  /\ nextSid' = nextSid + 1 /\ nOps' = nOps + 1
  /\ UNCHANGED <<buf, dq, stamp, nextId, pend, pub, commd>>

Commit ==
  /\ CanOp /\ buf = <<>>
  /\ segs' = {Advance(s) : s \in segs}
  /\ pub' = UNION {Advance(s).alive : s \in segs}
  /\ commd' = pend
  /\ stamp' = stamp + 1 /\ nOps' = nOps + 1
  /\ UNCHANGED <<buf, dq, nextId, nextSid, pend>>

Next ==
  \/ \E t \in Terms : \E k \in Keys \cup {Missing} : Add(t, k)
  \/ \E t \in Terms : Del(t)
  \/ Flush \/ Commit
  \/ \E s1, s2 \in segs : Merge(s1, s2)

Spec == Init /\ [][Next]_vars

(* ------------------------------ properties ------------------------------ *)
\* every segment, fresh or merged, is in sort order
SegsSorted == \A s \in segs : SortedKeys(Order, KeysOf(s.docs))
\* deletes hit exactly the documents they hit unsorted: a commit publishes the sequential effect
DeletesHitTheRightDocs == pub = commd
\* no document is lost or duplicated by sorting or merging
NoDup == \A s1, s2 \in segs : s1.sid # s2.sid => IdsOf(s1.docs) \cap IdsOf(s2.docs) = {}
\* a merge never changes what is alive (sorted + same multiset)
MergeKeepsContent ==
  [][nextSid' > nextSid /\ buf' = buf => UNION {Advance(s).alive : s \in segs} = UNION {Advance(s).alive : s \in segs'}]_vars
\* vacuity guards
ReachReorderedDelete == ~(\E s \in segs : Len(s.docs) >= 2 /\ s.alive # IdsOf(s.docs) /\ s.alive # {} /\ \E j \in 1..(Len(s.docs) - 1) : s.docs[j].id > s.docs[j + 1].id)
=============================================================================
