SPECIFICATION GSpec
CONSTANTS
  Terms = {"a", "b"}
  NW = 1
  MaxOps = 7
  MaxStamp = 30
  MaxMerges = 1
  AllowDeleteAll = FALSE
  AllowExplicitUncommittedMerge = FALSE
  ExplicitMergeTarget = "current"
  AllowBatch = TRUE
  AllowReopen = TRUE
  AllowPrepare = TRUE
  StrictTarget = TRUE
INVARIANT PublishedIsSequential
CHECK_DEADLOCK FALSE
