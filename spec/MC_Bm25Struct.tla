------------------------------ MODULE MC_Bm25Struct ------------------------------
(* Bounded model checking of Bm25Struct: tiny corpora (documents = sequences over a 2-word   *)
(* vocabulary, optionally padded), every way of committing them into segments, merges, and   *)
(* (in the configurations that allow them) deletes.                                          *)
EXTENDS Bm25Struct

B1 == <<16384, 0>>        \* 2.0f32
B2 == <<16128, 0>>        \* 0.5f32
C1 == <<16087, 2621>>     \* 0.42f32
T1 == <<16025, 39322>>    \* 0.3f32

QT(w) == [k |-> "term", w |-> w]
QP(ws) == [k |-> "phrase", ws |-> ws]
QB(cl) == [k |-> "bool", cl |-> cl]
Cl(o, q) == [o |-> o, q |-> q]

\* query trees over the words "a", "b": every node kind, one and several scoring clauses
MCQueries ==
  { QT("a"), QT("b"), QP(<<"a", "b">>), QP(<<"a", "a">>),
    [k |-> "boost", b |-> B1, q |-> QT("a")],
    [k |-> "boost", b |-> B1, q |-> [k |-> "boost", b |-> B2, q |-> QP(<<"b", "a">>)]],
    [k |-> "const", c |-> C1, q |-> QT("b")],
    QB(<<Cl("should", QT("a")), Cl("should", QT("b"))>>),
    QB(<<Cl("must", QT("a")), Cl("should", QT("b"))>>),
    QB(<<Cl("must", QT("a")), Cl("must", QP(<<"a", "b">>))>>),
    QB(<<Cl("must", QT("a")), Cl("mustnot", QT("b"))>>),
    QB(<<Cl("should", QT("b")), Cl("mustnot", QP(<<"a", "a">>))>>),
    QB(<<Cl("must", QT("b"))>>),
    QB(<<Cl("mustnot", QT("b"))>>),
    [k |-> "dismax", tie |-> T1, qs |-> <<QT("a"), QT("b")>>],
    [k |-> "dismax", tie |-> T1, qs |-> <<QP(<<"a", "b">>), [k |-> "boost", b |-> B1, q |-> QT("b")]>>],
    [k |-> "boost", b |-> B2, q |-> QB(<<Cl("should", QT("a")), Cl("should", [k |-> "const", c |-> C1, q |-> QT("a")])>>)],
    QB(<<Cl("should", [k |-> "dismax", tie |-> T1, qs |-> <<QT("a"), QT("b")>>]), Cl("should", QT("a"))>>) }

\* a small quantisation table of the same shape as the real one (exact, then coarser)
MCTable == <<0, 1, 2, 3, 4, 6, 8, 12>>
=============================================================================
