------------------------------ MODULE MC_Bm25Struct ------------------------------
(* Bounded model checking of Bm25Struct: tiny corpora (documents = sequences over a 2-word   *)
(* vocabulary, optionally padded), every way of committing them into segments, merges, and   *)
(* (in the configurations that allow them) deletes.                                          *)
EXTENDS Bm25Struct

CONSTANT MCLeaderFieldNorm   \* NEGATIVE switch of the cross-field lemma: score every clause with the first clause's field-norm id

B1 == <<16384, 0>>        \* 2.0f32
B2 == <<16128, 0>>        \* 0.5f32
C1 == <<16087, 2621>>     \* 0.42f32
T1 == <<16025, 39322>>    \* 0.3f32

QT(w) == [k |-> "term", w |-> w]
QP(ws) == [k |-> "phrase", ws |-> ws]
QB(cl) == [k |-> "bool", cl |-> cl]
Cl(o, q) == [o |-> o, q |-> q]

\* query trees over the words "a", "b": every node kind, one and several scoring clauses
MCQueries ==
  { QT("a"), QT("b"), QP(<<"a", "b">>), QP(<<"a", "a">>),
    [k |-> "boost", b |-> B1, q |-> QT("a")],
    [k |-> "boost", b |-> B1, q |-> [k |-> "boost", b |-> B2, q |-> QP(<<"b", "a">>)]],
    [k |-> "const", c |-> C1, q |-> QT("b")],
    QB(<<Cl("should", QT("a")), Cl("should", QT("b"))>>),
    QB(<<Cl("must", QT("a")), Cl("should", QT("b"))>>),
    QB(<<Cl("must", QT("a")), Cl("must", QP(<<"a", "b">>))>>),
    QB(<<Cl("must", QT("a")), Cl("mustnot", QT("b"))>>),
    QB(<<Cl("should", QT("b")), Cl("mustnot", QP(<<"a", "a">>))>>),
    QB(<<Cl("must", QT("b"))>>),
    QB(<<Cl("mustnot", QT("b"))>>),
    [k |-> "dismax", tie |-> T1, qs |-> <<QT("a"), QT("b")>>],
    [k |-> "dismax", tie |-> T1, qs |-> <<QP(<<"a", "b">>), [k |-> "boost", b |-> B1, q |-> QT("b")]>>],
    [k |-> "boost", b |-> B2, q |-> QB(<<Cl("should", QT("a")), Cl("should", [k |-> "const", c |-> C1, q |-> QT("a")])>>)],
    QB(<<Cl("should", [k |-> "dismax", tie |-> T1, qs |-> <<QT("a"), QT("b")>>]), Cl("should", QT("a"))>>) }

(* Cross-field lemma: two scored fields of different lengths.  For every pair of two-field documents  *)
(* (f1 short, f2 long and padded) and the conjunction +f1:a +f2:b (also boosted, with a should clause   *)
(* on a third occurrence, and under a dis-max), every bm25 leaf of the score term carries the           *)
(* statistics and the quantised length of ITS OWN field.                                                *)
F1Docs == {[toks |-> t, pad |-> 0] : t \in {<<"a">>, <<"a", "b">>, <<"b", "a", "a">>}}
F2Docs == {[toks |-> t, pad |-> p] : t \in {<<"b">>, <<"a", "b", "b">>}, p \in {3, 9}}
TwoFieldDocs == {[f1 |-> x, f2 |-> y] : x \in F1Docs, y \in F2Docs}
FT(f, w) == [k |-> "term", w |-> w, f |-> f]
CrossQueries ==
  { QB(<<Cl("must", FT("f1", "a")), Cl("must", FT("f2", "b"))>>),
    QB(<<Cl("must", FT("f2", "b")), Cl("must", FT("f1", "a"))>>),
    QB(<<Cl("must", FT("f1", "a")), Cl("must", FT("f2", "b")), Cl("should", FT("f2", "a"))>>),
    [k |-> "boost", b |-> B1, q |-> QB(<<Cl("must", FT("f1", "a")), Cl("must", FT("f2", "b"))>>)],
    [k |-> "dismax", tie |-> T1, qs |-> <<FT("f1", "a"), FT("f2", "b"), [k |-> "phrase", ws |-> <<"b", "b">>, f |-> "f2"]>>] }
RECURSIVE FirstField(_)
FirstField(q) == CASE q.k \in {"term", "phrase"} -> Fld(q)
                   [] q.k = "bool" -> FirstField(q.cl[1].q)
                   [] q.k = "dismax" -> FirstField(q.qs[1])
                   [] OTHER -> FirstField(q.q)
\* the field-norm ids an implementation hands to the clauses of q for document d
UsedFieldNorms(q, d) ==
  IF MCLeaderFieldNorm THEN [f \in {"f1", "f2"} |-> NormId(Table, DocLen(d[FirstField(q)]))]
  ELSE [f \in {"f1", "f2"} |-> NormId(Table, DocLen(d[f]))]
RECURSIVE LeafSet(_)
LeafSet(t) == IF t.k = "bm25" THEN {t} ELSE IF t.k = "const" THEN {} ELSE UNION {LeafSet(t.args[i]) : i \in DOMAIN t.args}
CrossFieldLemma ==
  Len(segs) >= 0 /\      \* (a state-level formula, so that TLC reports a violation of it as an invariant violation)
  \A d1, d2 \in TwoFieldDocs : \A q \in CrossQueries :
    LET corpus == <<d1, d2>>
        st == StatsF(<<corpus>>, {"f1", "f2"}, {"a", "b"})
        own == [f \in {"f1", "f2"} |-> NormId(Table, DocLen(d1[f]))]
        t == ScoreTermF(q, d1, st, <<>>, UsedFieldNorms(q, d1))
    IN  /\ st.T["f1"] = DocLen(d1["f1"]) + DocLen(d2["f1"]) /\ st.T["f2"] = DocLen(d1["f2"]) + DocLen(d2["f2"])
        /\ IsSome(t) <=> MatchesF(q, d1)
        /\ IsSome(t) =>
             \A leaf \in {x \in LeafSet(t) : x.boosts = <<>> \/ x.boosts = <<B1>>} :
               \/ leaf.T = st.T["f1"] /\ leaf.fn = own["f1"] /\ \E w \in {"a", "b"} : leaf.ns = <<st.n["f1"][w]>> /\ leaf.tf = Tf(d1["f1"], w)
               \/ leaf.T = st.T["f2"] /\ leaf.fn = own["f2"]

\* a small quantisation table of the same shape as the real one (exact, then coarser)
MCTable == <<0, 1, 2, 3, 4, 6, 8, 12>>
=============================================================================
