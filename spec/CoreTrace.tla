------------------------------ MODULE CoreTrace ------------------------------
(* Trace specification, API level (C02, parts of C04/C17/C18): consumes the recorded calls   *)
(* of real IndexWriter histories (harness/src/bin/core_driver.rs) and checks every           *)
(* observation against the sequential oracle.  Opstamps are bound, never predicted.          *)
EXTENDS SeqOracle, Json, IOUtils, TLC

Rec == ndJsonDeserialize(IOEnv.TRACE)

VARIABLES
  l,        \* next line of the trace
  pend,     \* oracle: documents after the operations issued so far
  commd,    \* oracle: documents of the last commit
  lo,       \* every opstamp returned next must be >= lo
  metaop,   \* opstamp of the last commit
  payload,  \* payload of the last commit
  wopen,    \* a writer object exists
  wCreated, \* opstamp at which the current writer was created (stale commit_opstamp, F-A)
  dirty,    \* operations issued since the last commit / rollback / writer creation: [on, adds (plain adds),
            \* other (anything else), flushed (all of them are known to sit in uncommitted segments)]
  sorted,   \* "" | "v_asc" | "v_desc" (configuration of the run)
  kf,       \* a recorded finding was triggered in this run (content checks suspended)
  calling   \* a commit call is in progress (between its `call` event and its result)

vars == <<l, pend, commd, lo, metaop, payload, wopen, wCreated, dirty, sorted, kf, calling>>
Ev == Rec[l]

SeqToSet(s) == {s[i] : i \in 1..Len(s)}
RECURSIVE SumLens(_)
SumLens(segs) == IF segs = <<>> THEN 0 ELSE Len(Head(segs).docs) + SumLens(Tail(segs))

ObsDocs(obs) == UNION {{[id |-> s.docs[j][1], t |-> s.docs[j][2], v |-> s.docs[j][3]] : j \in 1..Len(s.docs)} : s \in SeqToSet(obs.segs)}

\* stored fields, fast fields and the inverted index tell the same story, every id once
ObsConsistent(obs) ==
  /\ obs.ok
  /\ \A s \in SeqToSet(obs.segs) : \A j \in 1..Len(s.docs) :
        s.docs[j][4] = <<s.docs[j][1]>> /\ s.docs[j][5] = <<s.docs[j][3]>>
  /\ LET D == ObsDocs(obs) IN
     /\ Cardinality({d.id : d \in D}) = SumLens(obs.segs)
     /\ obs.n = SumLens(obs.segs) /\ obs.count_all = obs.n
     /\ \A t \in DOMAIN obs.byterm : SeqToSet(obs.byterm[t]) = {d.id : d \in {x \in D : x.t = t}}
                                     /\ Len(obs.byterm[t]) = Cardinality(SeqToSet(obs.byterm[t]))
     /\ \A d \in D : d.t \in DOMAIN obs.byterm

\* C17: every segment is in the configured order
SegSorted(s) ==
  \A j \in 1..(Len(s.docs) - 1) :
     CASE sorted = "v_asc"  -> s.docs[j][3] <= s.docs[j+1][3]
       [] sorted = "v_desc" -> s.docs[j][3] >= s.docs[j+1][3]
       [] OTHER -> TRUE
ObsSorted(obs) == \A s \in SeqToSet(obs.segs) : SegSorted(s)

\* the observation equals the committed state of the oracle
ObsIs(obs, S) == ObsConsistent(obs) /\ ObsSorted(obs) /\ (kf \/ ObsDocs(obs) = S)
                 /\ obs.metaop = metaop

\* C18: the writer lock is released (the meta lock may be held by a concurrent reader)
WriterLockFree(locks) == ".tantivy-writer.lock" \notin SeqToSet(locks)

Known(tag) == PrintT(<<"KF", tag, l>>)

\* (wdel: this writer object has issued a delete since it was created - kept across commits, see TDeleteAll)
Clean == [on |-> FALSE, adds |-> 0, other |-> FALSE, flushed |-> FALSE, wdel |-> FALSE]
AfterAdd(d) == [on |-> TRUE, adds |-> d.adds + 1, other |-> d.other, flushed |-> FALSE, wdel |-> d.wdel]
AfterOther(d) == [on |-> TRUE, adds |-> d.adds, other |-> TRUE, flushed |-> FALSE, wdel |-> d.wdel]
AfterDel(d) == [AfterOther(d) EXCEPT !.wdel = TRUE]
HasDel(ops) == \E i \in 1..Len(ops) : ops[i].k = "del"

TReset ==
  /\ Ev.ev = "reset"
  /\ pend' = {} /\ commd' = {} /\ lo' = 0 /\ metaop' = 0 /\ payload' = "null" /\ wopen' = FALSE
  /\ wCreated' = 0 /\ dirty' = Clean /\ sorted' = Ev.cfg.sorted /\ kf' = FALSE

TNewWriter ==
  /\ Ev.ev = "new_writer"
  /\ IF Ev.ok THEN ~wopen /\ wopen' = TRUE /\ lo' = metaop /\ wCreated' = metaop /\ pend' = commd /\ dirty' = Clean
                   \* a new writer starts from the opstamp of the last commit
                   /\ ("commit_opstamp" \in DOMAIN Ev => Ev.commit_opstamp = metaop)
     ELSE wopen /\ UNCHANGED <<wopen, lo, wCreated, pend, dirty>>   \* C18: fails iff one exists
  /\ UNCHANGED <<commd, metaop, payload, sorted, kf>>

TDropWriter ==
  /\ Ev.ev = "drop_writer"
  /\ Ev.ok = wopen
  /\ WriterLockFree(Ev.locks)                       \* C18: the lock is released with the writer
  /\ wopen' = FALSE /\ pend' = commd /\ dirty' = Clean
  /\ UNCHANGED <<commd, lo, metaop, payload, wCreated, sorted, kf>>

TAdd ==
  /\ Ev.ev = "add" /\ Ev.ok /\ wopen
  /\ Ev.opstamp >= lo /\ lo' = Ev.opstamp + 1
  /\ pend' = OAdd(pend, [id |-> Ev.id, t |-> Ev.t, v |-> Ev.v])
  /\ dirty' = AfterAdd(dirty)
  /\ UNCHANGED <<commd, metaop, payload, wopen, wCreated, sorted, kf>>

TDel ==
  /\ Ev.ev = "del" /\ Ev.ok /\ wopen
  /\ Ev.opstamp >= lo /\ lo' = Ev.opstamp + 1
  /\ pend' = ODel(pend, Ev.pred)
  /\ dirty' = AfterDel(dirty)
  /\ UNCHANGED <<commd, metaop, payload, wopen, wCreated, sorted, kf>>

TRun ==
  /\ Ev.ev = "run" /\ Ev.ok /\ wopen
  /\ Ev.opstamp >= lo + Len(Ev.ops) /\ lo' = Ev.opstamp + 1
  /\ pend' = ORun(pend, Ev.ops)
  /\ dirty' = IF HasDel(Ev.ops) THEN AfterDel(dirty) ELSE AfterOther(dirty)
  /\ UNCHANGED <<commd, metaop, payload, wopen, wCreated, sorted, kf>>

\* delete_all_documents mirrors the code: the stamper is reverted to the (stale) opstamp of
\* writer creation; with pending operations the outcome is a recorded finding (F-B, F-C)
TDeleteAll ==
  /\ Ev.ev = "delete_all" /\ Ev.ok /\ wopen
  /\ Ev.opstamp = wCreated /\ lo' = wCreated
  /\ pend' = {}
  \* (when the only pending operations are plain adds and the hook state has shown that all of them sit
  \* in uncommitted segments, the outcome is determined: delete_all clears that register)
  /\ kf' = (kf \/ (IF dirty.on /\ ~dirty.flushed THEN Known("F-B/F-C delete_all with pending operations") ELSE FALSE)
               \* the stamper goes back to the opstamp of WRITER CREATION (commit_opstamp() is stale, F-A): below every
               \* delete this writer object has issued so far, committed or not - a later add that such an old delete
               \* matches is deleted (recorded finding F52)
               \/ (IF dirty.wdel THEN Known("F52 delete_all after deletes of the same writer") ELSE FALSE))
  /\ dirty' = [AfterOther(Clean) EXCEPT !.wdel = dirty.wdel]
  /\ UNCHANGED <<commd, metaop, payload, wopen, wCreated, sorted>>

TCommit ==
  /\ Ev.ev = "commit" /\ Ev.ok /\ wopen
  /\ Ev.opstamp >= lo /\ lo' = Ev.opstamp + 1
  /\ metaop' = Ev.opstamp
  /\ payload' = IF "payload" \in DOMAIN Ev THEN Ev.payload ELSE "null"
  /\ commd' = pend
  /\ ObsConsistent(Ev.obs) /\ ObsSorted(Ev.obs)
  /\ kf \/ ObsDocs(Ev.obs) = pend
  /\ Ev.obs.metaop = Ev.opstamp                          \* what the metadata reports
  /\ Ev.obs.payload = payload'
  /\ ("prepared_opstamp" \in DOMAIN Ev => Ev.prepared_opstamp = Ev.opstamp)
  \* what the writer reports: finding F-A (commit_opstamp() is the opstamp of writer creation)
  /\ ("writer_commit_opstamp" \in DOMAIN Ev =>
        IF Ev.writer_commit_opstamp = Ev.opstamp THEN TRUE
        ELSE Ev.writer_commit_opstamp = wCreated /\ Known("F-A commit_opstamp() is stale"))
  /\ dirty' = [Clean EXCEPT !.wdel = dirty.wdel]
  /\ UNCHANGED <<pend, wopen, wCreated, sorted, kf>>

\* rollback() and PreparedCommit::abort(): precisely the last committed state
TRollback ==
  /\ Ev.ev \in {"rollback", "prepare_abort"} /\ Ev.ok /\ wopen
  /\ Ev.opstamp = metaop
  /\ ObsIs(Ev.obs, commd) /\ Ev.obs.payload = payload
  /\ pend' = commd /\ lo' = metaop /\ wCreated' = metaop /\ dirty' = Clean
  /\ UNCHANGED <<commd, metaop, payload, wopen, sorted, kf>>

\* an explicit merge, waited for: never changes the content (C04); it may be refused
TMerge ==
  /\ Ev.ev = "merge" /\ wopen
  /\ ("obs" \in DOMAIN Ev => ObsIs(Ev.obs, commd) /\ Ev.obs.payload = payload)
  /\ (Ev.ok /\ "res" \in DOMAIN Ev => \E s \in SeqToSet(Ev.obs.segs) : s.sid = Ev.res)
  /\ UNCHANGED <<pend, commd, lo, metaop, payload, wopen, wCreated, dirty, sorted, kf>>

TWaitMerges ==
  /\ Ev.ev = "wait_merges" /\ Ev.ok /\ wopen
  /\ ObsIs(Ev.obs, commd) /\ Ev.obs.payload = payload
  /\ WriterLockFree(Ev.locks)
  /\ wopen' = FALSE /\ pend' = commd /\ dirty' = Clean
  /\ UNCHANGED <<commd, lo, metaop, payload, wCreated, sorted, kf>>

TGc ==
  /\ Ev.ev = "gc" /\ wopen
  /\ UNCHANGED <<pend, commd, lo, metaop, payload, wopen, wCreated, dirty, sorted, kf>>

TObserve ==
  /\ Ev.ev = "observe"
  /\ ObsIs(Ev.obs, commd) /\ Ev.obs.payload = payload
  /\ UNCHANGED <<pend, commd, lo, metaop, payload, wopen, wCreated, dirty, sorted, kf>>

TEnd ==
  /\ Ev.ev = "end"
  /\ WriterLockFree(Ev.locks)
  /\ UNCHANGED <<pend, commd, lo, metaop, payload, wopen, wCreated, dirty, sorted, kf>>

\* calls on a missing writer are refused by the harness itself
TNoWriter ==
  /\ "err" \in DOMAIN Ev /\ Ev.err = "nowriter" /\ ~wopen
  /\ UNCHANGED <<pend, commd, lo, metaop, payload, wopen, wCreated, dirty, sorted, kf>>



\* IndexWriter::merge on UNCOMMITTED segments: content-neutral like every merge (finding F6, repaired:
\* it used the commit opstamp as target and the next commit lost documents)
TMergeUncommitted ==
  /\ Ev.ev = "merge_uncommitted" /\ wopen
  /\ UNCHANGED <<pend, commd, lo, metaop, payload, wopen, wCreated, dirty, sorted, kf>>

\* the harness waited until the hook state showed n uncommitted segments holding `docs` documents
TWaitUncommitted ==
  /\ Ev.ev = "wait_uncommitted"
  /\ dirty' = IF Ev.ok /\ "docs" \in DOMAIN Ev /\ dirty.on /\ ~dirty.other /\ Ev.docs = dirty.adds
              THEN [dirty EXCEPT !.flushed = TRUE] ELSE dirty
  /\ UNCHANGED <<pend, commd, lo, metaop, payload, wopen, wCreated, sorted, kf>>

\* a second Index instance on the same directory is opened / the next writer will be created
\* through the other instance (no writer is open): nothing changes - an index is its directory
TSecondInstance ==
  /\ \/ Ev.ev = "open_second" /\ Ev.ok
     \/ Ev.ev = "switch_index" /\ Ev.ok /\ ~wopen
  /\ UNCHANGED <<pend, commd, lo, metaop, payload, wopen, wCreated, dirty, sorted, kf>>

TCall ==
  /\ Ev.ev = "call"
  /\ UNCHANGED <<pend, commd, lo, metaop, payload, wopen, wCreated, dirty, sorted, kf>>

\* C01 / C10: a crash image materialised at this point of the run and recovered with the real
\* code.  It must open, pass its checksums, hold exactly the last acknowledged commit (or the
\* one in progress), and accept a writer, an add, a commit and a garbage collection.
ProbeDoc == [id |-> 9999, t |-> "zz", v |-> 0]
TCrashImage ==
  /\ Ev.ev = "crash_image"
  /\ "panic" \notin DOMAIN Ev.rec
  /\ LET o == Ev.rec.obs IN
     /\ ObsConsistent(o) /\ ObsSorted(o)
     /\ kf \/ ObsDocs(o) = commd \/ (calling /\ ObsDocs(o) = pend)
     /\ "damaged" \in DOMAIN Ev.rec /\ Ev.rec.damaged = <<>>
     /\ LET a == Ev.rec.after IN
        /\ a.writer = "ok" /\ a.add /\ a.commit /\ a.gc /\ a.wait
        /\ ObsConsistent(a.obs) /\ ObsDocs(a.obs) = ObsDocs(o) \cup {ProbeDoc}
        /\ WriterLockFree(a.locks)
        /\ \A i \in 1..Len(a.orphans) : a.orphans[i][2]
        /\ IF a.orphans = <<>> THEN TRUE
           ELSE Known("F4 orphan after recovering a crash image: registered in .managed.json but the registration was not durable")
  /\ UNCHANGED <<pend, commd, lo, metaop, payload, wopen, wCreated, dirty, sorted, kf>>

TNext ==
  /\ l <= Len(Rec) /\ l' = l + 1
  /\ \/ TReset \/ TNewWriter \/ TDropWriter \/ TAdd \/ TDel \/ TRun \/ TDeleteAll \/ TCommit
     \/ TRollback \/ TMerge \/ TWaitMerges \/ TGc \/ TObserve \/ TEnd \/ TNoWriter
     \/ TCall \/ TCrashImage \/ TMergeUncommitted \/ TWaitUncommitted \/ TSecondInstance
  /\ calling' = CASE Ev.ev = "call" -> TRUE
                  [] Ev.ev \in {"commit", "prepare_commit", "prepare_abort", "reset"} -> FALSE
                  [] OTHER -> calling

TInit == /\ l = 1 /\ pend = {} /\ commd = {} /\ lo = 0 /\ metaop = 0 /\ payload = "null"
         /\ wopen = FALSE /\ wCreated = 0 /\ dirty = Clean /\ sorted = "" /\ kf = FALSE /\ calling = FALSE
TSpec == TInit /\ [][TNext]_vars

Accepted ==
  IF TLCGet("stats").diameter - 1 = Len(Rec) THEN TRUE
  ELSE Print(<<"REJECTED", TLCGet("stats").diameter, Rec[TLCGet("stats").diameter]>>, FALSE)
=============================================================================
