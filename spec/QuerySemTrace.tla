---------------------------- MODULE QuerySemTrace ----------------------------
(* Trace specification of C03 (harness/src/bin/query_driver.rs).                              *)
(*  "corpus"  : the logical documents of a run (+ the deleted ids, the vocabulary)            *)
(*  "search"  : one query tree and what every collector path returned on every segmentation   *)
(*              of the corpus: all must be exactly {d live : Match(q, d)} (ids, no duplicates)*)
(*  "error" / "panic": a search that failed - no action accepts it (the trace is rejected there)  *)
(*  "scorpus" / "ssearch": the same on the abstract 8-document universe of QuerySem, every    *)
(*              abstract document being a stripe of r real ones; answers come as maximal      *)
(*              intervals of ids and are checked by inclusion + cardinality (linear).         *)
EXTENDS QuerySem, Json, IOUtils, TLC

Rec == ndJsonDeserialize(IOEnv.TRACE)

VARIABLES l, cur      \* next line; line of the current corpus
tvars == <<l, cur, cl, msm>>

\* ---- rich corpus (c = the corpus event)
ListIs(s, X) == Len(s) = Cardinality(X) /\ SeqSet(s) = X
\* (TLC re-evaluates a LET definition at every use inside the comprehension; binding the prepared query
\* and the deleted set as elements of singleton sets evaluates them once)
ExpectedIdx(c, q) ==
  UNION {{i \in 1..Len(c.docs) : c.docs[i].id \notin del /\ Match(pq, c.docs[i])} :
           pq \in {Prepare(q, TLCEval(SeqSet(c.words)), c.tok)}, del \in {TLCEval(SeqSet(c.deleted))}}

BadField(r, E, F) ==
  LET n == Cardinality(E) IN
  IF r.count # n THEN "Count"
  ELSE IF r.qcount # n THEN "Query::count"
  ELSE IF ~ListIs(r.docset, E) THEN "DocSetCollector"
  ELSE IF ~ListIs(r.top, E) THEN "TopDocs by score"
  ELSE IF ~ListIs(r.topff, E) THEN "TopDocs by fast field"
  ELSE IF ~ListIs(r.scored, E) THEN "scoring collector (for_each)"
  ELSE IF r.mcount # n \/ ~ListIs(r.mdocset, E) \/ ~ListIs(r.mtop, E) THEN "MultiCollector"
  ELSE IF ~ListIs(r.filtered, F) \/ r.fcount # Cardinality(F) THEN "FilterCollector"
  ELSE "ok"

RECURSIVE FirstBadRes(_, _, _, _)
FirstBadRes(res, E, F, i) ==
  IF i > Len(res) THEN <<0, "ok">>
  ELSE LET b == BadField(res[i], E, F) IN IF b = "ok" THEN FirstBadRes(res, E, F, i + 1) ELSE <<i, b>>

\* <<index of the first segmentation that disagrees (0 = none), collector path, expected cardinality>>
\* a top-level phrase of three or more terms with slop: every collector path must return the same set, scoring on or off, and the
\* set must lie between the exact-phrase matches and the documents with some assignment within the slop budget
Slop3Diag(c, e) ==
  LET del == SeqSet(c.deleted)
      live == {i \in 1..Len(c.docs) : c.docs[i].id \notin del}
      Lo == {c.docs[i].id : i \in {j \in live : PhraseExact(Vals(c.docs[j], e.q.f), e.q.ts)}}
      Up == {c.docs[i].id : i \in {j \in live : WithinBudget(Vals(c.docs[j], e.q.f), e.q.ts, e.q.slop)}}
      T == e.res[1].filter_ge
      Obs(k) == SeqSet(e.res[k].docset)
      FOf(O) == {x \in O : \E k \in 1..Len(c.docs[x + 1].num) : c.docs[x + 1].num[k] >= T}
      \* per segmentation: the bounds, then every collector path against the DocSetCollector answer of the same index
      bad == {k \in 1..Len(e.res) : ~(Lo \subseteq Obs(k) /\ Obs(k) \subseteq Up) \/ BadField(e.res[k], Obs(k), FOf(Obs(k))) # "ok"} IN
  IF bad # {}
  THEN LET k == CHOOSE x \in bad : \A y \in bad : x <= y IN
       IF ~(Lo \subseteq Obs(k) /\ Obs(k) \subseteq Up)
       THEN <<k, "phrase with slop over 3+ terms: answer outside [exact phrase, some assignment within the slop budget]", Cardinality(Lo)>>
       ELSE <<k, BadField(e.res[k], Obs(k), FOf(Obs(k))) \o " (differs from DocSetCollector on a phrase with slop over 3+ terms)", Cardinality(Obs(k))>>
  ELSE IF \E k \in 2..Len(e.res) : Obs(k) # Obs(1)
  THEN <<CHOOSE k \in 2..Len(e.res) : Obs(k) # Obs(1), "segmentation (the answer of a phrase with slop over 3+ terms differs between segmentations of the same documents)", Cardinality(Obs(1))>>
  ELSE <<0, "ok", Cardinality(Obs(1))>>

SearchDiag(c, e) ==
  IF IsSlopPhrase3(e.q) THEN Slop3Diag(c, e) ELSE
  LET X == ExpectedIdx(c, e.q)
      E == {c.docs[i].id : i \in X}
      T == e.res[1].filter_ge
      F == {c.docs[i].id : i \in {j \in X : \E k \in 1..Len(c.docs[j].num) : c.docs[j].num[k] >= T}}
      b == FirstBadRes(e.res, E, F, 1) IN
  <<b[1], b[2], Cardinality(E)>>

\* ---- stripe corpus
SMatch(c, q) == {a \in 0..7 : Match(q, c.docs[a + 1])}
SCount(c, M) == Cardinality(M) * c.r - Cardinality({x \in SeqSet(c.deleted) : (x \div c.r) \in M})
RECURSIVE IvLen(_, _)
IvLen(iv, i) == IF i > Len(iv) THEN 0 ELSE iv[i][2] - iv[i][1] + 1 + IvLen(iv, i + 1)
IvIs(c, iv, M) ==
  /\ \A i \in 1..Len(iv) : /\ iv[i][1] <= iv[i][2]
                           /\ \A a \in (iv[i][1] \div c.r)..(iv[i][2] \div c.r) : a \in M
                           /\ \A x \in SeqSet(c.deleted) : x < iv[i][1] \/ x > iv[i][2]
  /\ \A i \in 1..(Len(iv) - 1) : iv[i][2] < iv[i + 1][1]
  /\ IvLen(iv, 1) = SCount(c, M)
SBadField(c, r, M, MF) ==
  LET n == SCount(c, M) IN
  IF r.count # n THEN "Count"
  ELSE IF r.qcount # n THEN "Query::count"
  ELSE IF ~IvIs(c, r.docset, M) THEN "DocSetCollector"
  ELSE IF ~IvIs(c, r.top, M) THEN "TopDocs by score"
  ELSE IF ~IvIs(c, r.topff, M) THEN "TopDocs by fast field"
  ELSE IF ~IvIs(c, r.scored, M) THEN "scoring collector (for_each)"
  ELSE IF r.mcount # n \/ ~IvIs(c, r.mdocset, M) \/ ~IvIs(c, r.mtop, M) THEN "MultiCollector"
  ELSE IF ~IvIs(c, r.filtered, MF) \/ r.fcount # SCount(c, MF) THEN "FilterCollector"
  ELSE "ok"
\* <<collector path that disagrees ("ok" = none), expected abstract documents, expected cardinality>>
SSearchDiag(c, e) ==
  LET M == SMatch(c, e.q)
      MF == {a \in M : \E k \in 1..Len(c.docs[a + 1].num) : c.docs[a + 1].num[k] >= e.res.filter_ge} IN
  <<SBadField(c, e.res, M, MF), M, SCount(c, M)>>

CorpusOK(e) == \A i \in 1..Len(e.docs) :
                  /\ e.docs[i].id = i - 1
                  /\ \A k \in 1..Len(e.docs[i].tag) : e.docs[i].tag[k] \in SeqSet(e.words)
                  /\ \A k \in 1..Len(e.docs[i].title) : e.docs[i].title[k] \in DOMAIN e.tok

TNext ==
  /\ l <= Len(Rec) /\ l' = l + 1 /\ UNCHANGED <<cl, msm>>
  /\ LET e == Rec[l] IN
     \/ e.ev \in {"reset", "end", "info"} /\ UNCHANGED cur
     \/ e.ev = "corpus" /\ CorpusOK(e) = TRUE /\ cur' = l
     \/ e.ev = "scorpus" /\ cur' = l
     \/ e.ev = "search" /\ SearchDiag(Rec[cur], e)[1] = 0 /\ UNCHANGED cur
     \/ e.ev = "ssearch" /\ SSearchDiag(Rec[cur], e)[1] = "ok" /\ UNCHANGED cur
TInit == l = 1 /\ cur = 1 /\ cl = <<>> /\ msm = 0
TSpec == TInit /\ [][TNext]_tvars

\* `cur` at the rejected line is the last corpus line before it
RECURSIVE LastCorpus(_)
LastCorpus(i) == IF i <= 1 THEN 1 ELSE IF Rec[i].ev \in {"corpus", "scorpus"} THEN i ELSE LastCorpus(i - 1)
Accepted ==
  LET n == TLCGet("stats").diameter IN
  IF n - 1 = Len(Rec) THEN TRUE
  ELSE LET e == Rec[n]  c == Rec[LastCorpus(n - 1)] IN
       Print(<<"REJECTED", n,
               ToJson(IF e.ev = "search" /\ c.ev = "corpus"
                      THEN LET d == SearchDiag(c, e) IN
                           [ev |-> e.ev, q |-> e.q, index |-> d[1], path |-> d[2], expected_count |-> d[3],
                            got |-> IF d[1] > 0 THEN [count |-> e.res[d[1]].count, qcount |-> e.res[d[1]].qcount, docset |-> Len(e.res[d[1]].docset),
                                                       top |-> Len(e.res[d[1]].top), scored |-> Len(e.res[d[1]].scored), filtered |-> Len(e.res[d[1]].filtered)]
                                    ELSE [count |-> -1]]
                      ELSE IF e.ev = "ssearch" /\ c.ev = "scorpus"
                      THEN LET d == SSearchDiag(c, e) IN
                           [ev |-> e.ev, q |-> e.q, path |-> d[1], expected_abstract_docs |-> d[2], expected_count |-> d[3], r |-> c.r,
                            segments |-> c.segments, merged |-> c.merged, deleted |-> Len(c.deleted),
                            got |-> [count |-> e.res.count, qcount |-> e.res.qcount, docset |-> e.res.docset, top |-> e.res.top]]
                      \* an answer that is an error or a panic is an observation no action accepts
                      ELSE IF e.ev = "error" THEN [ev |-> e.ev, q |-> e.q, path |-> "search returned an error", err |-> e.err]
                      ELSE IF e.ev = "panic" THEN [ev |-> e.ev, q |-> e.q, path |-> "search panicked", err |-> e.msg]
                      ELSE [ev |-> e.ev, why |-> "unknown event or corpus check failed"])>>, FALSE)
=============================================================================
