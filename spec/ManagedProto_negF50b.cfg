SPECIFICATION Spec
CONSTANTS
  Inst = {a, b}
  MaxFiles = 4
  ReloadOnAcquire = TRUE
  AtomicReload = FALSE
  ReloadUnderLock = TRUE
  MaxZombie = 1
INVARIANTS TypeOK NoUnmanagedFile NoOrphanAtRest NeverDeletesLiving
CHECK_DEADLOCK FALSE
