---------------------------- MODULE Gen_QuerySem ----------------------------
(* Generator: every boolean query the QuerySem machine builds (clauses x occur x leaf, with   *)
(* every minimum_number_should_match in 0..3 and the constructor's default), one JSON line    *)
(* each; harness/query_driver runs them on the abstract universe concretised by stripes       *)
(* (R direction: one implementation test per path of BooleanWeight::complex_scorer).          *)
EXTENDS QuerySem, Json
Emit == (cl # <<>>) => PrintT(<<"CASE", ToJson([k |-> "bool", cl |-> cl, msm |-> EffMsm, explicit |-> (msm # -1)])>>)
=============================================================================
