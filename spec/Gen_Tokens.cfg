SPECIFICATION GSpec
CONSTANTS
  Mode = "texts"
  MaxLen = 3
  NA = 15
CHECK_DEADLOCK FALSE
