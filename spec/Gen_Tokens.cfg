SPECIFICATION GSpec
CONSTANTS
  Mode = "texts"
  MaxLen = 3
  SteerOverlapBytes = TRUE
  NA = 15
CHECK_DEADLOCK FALSE
