SPECIFICATION Spec
CONSTANTS
  MaxClauses = 2
  UseNested = FALSE
  SingleShouldIgnoresMsm = TRUE
INVARIANT NoPositiveClauseMatchesNothing
INVARIANT MsmAboveShouldCountMatchesNothing
INVARIANT WithinMustOutsideMustNot
INVARIANT MsmCounts
INVARIANT OptionalShouldDoesNotFilter
INVARIANT AllShouldRequiredIsConjunction
CHECK_DEADLOCK FALSE
