SPECIFICATION Spec
CONSTANTS
  Vals = {0, 1}
  MaxRows = 2
  MaxPerRow = 2
  TightBounds = FALSE
INVARIANT FlatRoundTrip
INVARIANT CardRule
INVARIANT StackIsShuffle
INVARIANT RangeOnStack
INVARIANT MergedBounds
INVARIANT DictExact
CHECK_DEADLOCK FALSE
