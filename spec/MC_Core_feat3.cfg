SPECIFICATION Spec
CONSTANTS
  Terms = {a, b}
  NW = 1
  MaxOps = 3
  MaxStamp = 14
  MaxMerges = 1
  AllowDeleteAll = FALSE
  AllowExplicitUncommittedMerge = FALSE
  ExplicitMergeTarget = "current"
  AllowBatch = TRUE
  AllowReopen = TRUE
  AllowPrepare = TRUE
  StrictTarget = TRUE
SYMMETRY Perms
INVARIANT PublishedIsSequential
INVARIANT NoDup
INVARIANT CommitOpstampIsMeta
INVARIANT RollbackRestores
INVARIANT MergeOrderKept
PROPERTY MetaContentOnlyChangesInCommit
CHECK_DEADLOCK FALSE
