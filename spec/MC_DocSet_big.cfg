SPECIFICATION Spec
CONSTANTS
  U = 5
  TERM = 100
  B = 2
  W = 2
  Depth = 4
  AllLowerBounds = TRUE
  CountLeavesStale = FALSE
INVARIANT TypeOK
INVARIANT JudgeAcceptsContract
INVARIANT JudgeRejectsOthers
INVARIANT OneSortedSequence
INVARIANT SeekIsFirstGE
INVARIANT BulkCallsObserveTheSequence
INVARIANT StickyEnd
INVARIANT Continuity
CHECK_DEADLOCK FALSE
