SPECIFICATION PSpec
POSTCONDITION Accepted
CHECK_DEADLOCK FALSE
