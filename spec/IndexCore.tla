------------------------------ MODULE IndexCore ------------------------------
(***************************************************************************)
(* The logical layer of the tantivy IndexWriter, one action per critical    *)
(* section / linearisation point of the implementation:                     *)
(*   user thread      : add, delete, run(batch), delete_all, prepare_commit,*)
(*                      commit / abort, rollback, explicit merge, drop and  *)
(*                      re-open of the writer                               *)
(*   indexing workers : take a batch from the pipeline, cut a segment       *)
(*                      (apply_deletes with per-document opstamps)          *)
(*   segment updater  : add_segment, commit task (purge deletes, registers  *)
(*                      swap, save metas), end_merge (reconciliation)       *)
(*   merge threads    : advance sources to the target opstamp, concatenate  *)
(* plus the sequential oracle (pend, commd) the properties are stated with. *)
(*                                                                          *)
(* Anchors: src/indexer/index_writer.rs, segment_updater.rs,                *)
(* segment_manager.rs, delete_queue.rs, stamper.rs, prepared_commit.rs.     *)
(***************************************************************************)
EXTENDS Naturals, Sequences, FiniteSets, TLC

CONSTANTS
  Terms,            \* values of the text field used by adds and delete-by-term
  NW,               \* number of indexing worker threads
  MaxOps,           \* bound on user operations (model checking only)
  MaxStamp,         \* bound on opstamps (model checking only)
  MaxMerges,        \* concurrent merges
  AllowDeleteAll, AllowExplicitUncommittedMerge, AllowBatch, AllowReopen, AllowPrepare,
  ExplicitMergeTarget,   \* "current" (code since the F6 repair: IndexWriter::merge on uncommitted segments draws a
                         \* fresh stamp, as the policy merges do) | "commit" (the commit opstamp: the merged entry
                         \* inherits its first source's cursor and the next commit applies pending deletes to everything)
  StrictTarget      \* TRUE: a delete belongs to a commit iff its opstamp is < the commit
                    \* opstamp (repaired code); FALSE: <= (code before the F0 repair)

VARIABLES
  stamp,        \* Stamper: next opstamp
  wCommitted,   \* IndexWriter.committed_opstamp (set at writer creation only: finding F-A)
  dq,           \* delete queue: Seq of [op, term]
  dqFlushed,    \* number of delete ops already flushed into read-only blocks
  chan,         \* pipeline: Seq of batches; a batch is a Seq of docs [id, term, op]
  wbuf,         \* [worker -> Seq of docs]  in-memory segment under construction
  wcur,         \* [worker -> Nat]          delete cursor (number of consumed delete ops)
  wfresh,       \* [worker -> BOOLEAN]      no batch peeked yet for the current segment
  unc, com,     \* registers: sets of entries [sid, docs, alive, cur, delop, fdel]
                \* (delop / fdel: opstamp and deleted-document count of the segment's .del FILE;
                \*  deletes found at segment creation live in memory only until the next purge)
  meta,         \* persisted commit: [segs, opstamp, payload]
  merges,       \* set of merge operations
  prepared,     \* 0 or the opstamp of a PreparedCommit the user thread holds
  wopen,        \* TRUE iff an IndexWriter object exists
  nextId, nextSid, nOps,
  pend, commd,  \* sequential oracle: pending / committed sets of document ids
  lastRet,      \* what the last commit / rollback returned
  kf            \* a recorded finding (F-B / F-C / F6 class) was triggered in this behaviour

vars == <<stamp, wCommitted, dq, dqFlushed, chan, wbuf, wcur, wfresh, unc, com, meta, merges,
          prepared, wopen, nextId, nextSid, nOps, pend, commd, lastRet, kf>>

Workers == 1..NW
Ids(docs) == {docs[i].id : i \in 1..Len(docs)}
Content(segs) == UNION {s.alive : s \in segs}
RECURSIVE Concat(_)
Concat(seqs) == IF seqs = <<>> THEN <<>> ELSE Head(seqs) \o Concat(Tail(seqs))

NotPrepared == [on |-> FALSE, op |-> 0]

Init ==
  /\ stamp = 0 /\ wCommitted = 0
  /\ dq = <<>> /\ dqFlushed = 0
  /\ chan = <<>>
  /\ wbuf = [w \in Workers |-> <<>>] /\ wcur = [w \in Workers |-> 0] /\ wfresh = [w \in Workers |-> TRUE]
  /\ unc = {} /\ com = {}
  /\ meta = [segs |-> {}, opstamp |-> 0, payload |-> "none"]
  /\ merges = {} /\ prepared = NotPrepared /\ wopen = TRUE
  /\ nextId = 1 /\ nextSid = 1 /\ nOps = 0
  /\ pend = {} /\ commd = {}
  /\ lastRet = [kind |-> "none", op |-> 0, at |-> 0]
  /\ kf = FALSE

CanOp == wopen /\ ~prepared.on /\ nOps < MaxOps /\ stamp < MaxStamp

\* every document known anywhere (the oracle needs the term of an id)
AllDocs == UNION {{chan[i][j] : j \in 1..Len(chan[i])} : i \in 1..Len(chan)}
           \cup UNION {{wbuf[w][i] : i \in 1..Len(wbuf[w])} : w \in Workers}
           \cup UNION {{e.docs[i] : i \in 1..Len(e.docs)} : e \in unc \cup com}
           \cup UNION {{s.docs[i] : i \in 1..Len(s.docs)} : s \in meta.segs}
           \cup UNION {UNION {{e.docs[i] : i \in 1..Len(e.docs)} : e \in m.ents} : m \in merges}

OracleDel(S, t) == {i \in S : \A d \in AllDocs : d.id = i => d.term # t}

(* ---------------------------- user thread ---------------------------- *)
UAdd(t) ==
  /\ CanOp
  /\ chan' = Append(chan, <<[id |-> nextId, term |-> t, op |-> stamp]>>)
  /\ stamp' = stamp + 1 /\ nextId' = nextId + 1 /\ nOps' = nOps + 1
  /\ pend' = pend \cup {nextId}
  /\ UNCHANGED <<wCommitted, dq, dqFlushed, wbuf, wcur, wfresh, unc, com, meta, merges, prepared, wopen, nextSid, commd, lastRet, kf>>

UDel(t) ==
  /\ CanOp
  /\ dq' = Append(dq, [op |-> stamp, term |-> t])
  /\ stamp' = stamp + 1 /\ nOps' = nOps + 1
  /\ pend' = OracleDel(pend, t)
  /\ UNCHANGED <<wCommitted, dqFlushed, chan, wbuf, wcur, wfresh, unc, com, meta, merges, prepared, wopen, nextId, nextSid, commd, lastRet, kf>>

\* run([Delete(t1), Add(t2)]) and run([Add(t1), Delete(t2)]): contiguous stamps, the deletes
\* enter the queue at once, the adds travel as ONE batch; the batch itself takes one more stamp
URun(t1, t2, delFirst) ==
  /\ AllowBatch /\ CanOp /\ stamp + 2 < MaxStamp
  /\ LET dop == IF delFirst THEN stamp ELSE stamp + 1
         aop == IF delFirst THEN stamp + 1 ELSE stamp
         dt  == IF delFirst THEN t1 ELSE t2
         at  == IF delFirst THEN t2 ELSE t1
     IN /\ dq' = Append(dq, [op |-> dop, term |-> dt])
        /\ chan' = Append(chan, <<[id |-> nextId, term |-> at, op |-> aop]>>)
        /\ pend' = IF delFirst THEN OracleDel(pend, dt) \cup {nextId}
                   ELSE IF at = dt THEN OracleDel(pend, dt) ELSE OracleDel(pend, dt) \cup {nextId}
  /\ stamp' = stamp + 3 /\ nextId' = nextId + 1 /\ nOps' = nOps + 1
  /\ UNCHANGED <<wCommitted, dqFlushed, wbuf, wcur, wfresh, unc, com, meta, merges, prepared, wopen, nextSid, commd, lastRet, kf>>

\* delete_all_documents: registers cleared, stamper reverted to the writer's committed_opstamp.
\* Pending adds still in the pipeline and pending deletes in the queue are NOT cleared
\* (recorded findings F-B, F-C), and committed_opstamp is stale (F-A).
UDeleteAll ==
  /\ AllowDeleteAll /\ CanOp
  /\ unc' = {} /\ com' = {}
  /\ stamp' = wCommitted
  /\ nOps' = nOps + 1
  /\ pend' = {}
  /\ kf' = (kf \/ chan # <<>> \/ (\E w \in Workers : wbuf[w] # <<>>)
               \/ (\E i \in 1..Len(dq) : dq[i].op >= wCommitted) \/ wCommitted # meta.opstamp)
  /\ UNCHANGED <<wCommitted, dq, dqFlushed, chan, wbuf, wcur, wfresh, meta, merges, prepared, wopen, nextId, nextSid, commd, lastRet>>

(* ---------------------- delete cursor helpers ---------------------- *)
Belongs(dop, target) == IF StrictTarget THEN dop < target ELSE dop <= target

\* apply to (alive, cur) the delete ops from position cur on while they belong to target;
\* perDoc = TRUE compares with the per-document opstamps (segment creation only)
RECURSIVE Advance(_, _, _, _, _)
Advance(docs, alive, cur, target, perDoc) ==
  IF cur < Len(dq) /\ Belongs(dq[cur+1].op, target)
  THEN LET dop == dq[cur+1]
           hit == {docs[i].id : i \in {j \in 1..Len(docs) :
                      docs[j].term = dop.term /\ (perDoc => docs[j].op < dop.op)}}
       IN Advance(docs, alive \ hit, cur + 1, target, perDoc)
  ELSE [alive |-> alive, cur |-> cur]

\* apply_deletes at segment creation: stops at the first delete newer than the newest document
RECURSIVE AdvanceCreate(_, _, _, _)
AdvanceCreate(docs, alive, cur, maxop) ==
  IF cur < Len(dq) /\ dq[cur+1].op <= maxop
  THEN LET dop == dq[cur+1]
           hit == {docs[i].id : i \in {j \in 1..Len(docs) : docs[j].term = dop.term /\ docs[j].op < dop.op}}
       IN AdvanceCreate(docs, alive \ hit, cur + 1, maxop)
  ELSE [alive |-> alive, cur |-> cur]

RECURSIVE SkipTo(_, _)
SkipTo(cur, target) == IF cur < Len(dq) /\ dq[cur+1].op < target THEN SkipTo(cur+1, target) ELSE cur

MaxOp(docs) == LET S == {docs[i].op : i \in 1..Len(docs)} IN CHOOSE m \in S : \A x \in S : x <= m

(* --------------------------- indexing workers --------------------------- *)
WTake(w) ==
  /\ wopen /\ chan # <<>>
  /\ LET b == Head(chan) IN
     /\ wbuf' = [wbuf EXCEPT ![w] = wbuf[w] \o b]
     /\ wcur' = [wcur EXCEPT ![w] = IF wfresh[w] THEN SkipTo(wcur[w], b[1].op) ELSE wcur[w]]
  /\ chan' = Tail(chan)
  /\ wfresh' = [wfresh EXCEPT ![w] = FALSE]
  /\ dqFlushed' = IF wfresh[w] THEN Len(dq) ELSE dqFlushed  \* a reading cursor flushes pending ops
  /\ UNCHANGED <<stamp, wCommitted, dq, unc, com, meta, merges, prepared, wopen, nextId, nextSid, nOps, pend, commd, lastRet, kf>>

\* segment cut (memory budget, or channel closed by prepare_commit): finalize, apply_deletes,
\* schedule_add_segment (waited for by the worker)
WFlush(w) ==
  /\ wopen /\ wbuf[w] # <<>>
  /\ LET res == AdvanceCreate(wbuf[w], Ids(wbuf[w]), wcur[w], MaxOp(wbuf[w]))
         e == [sid |-> nextSid, docs |-> wbuf[w], alive |-> res.alive, cur |-> res.cur, delop |-> 0, fdel |-> 0]
     IN unc' = unc \cup {e}
  /\ dqFlushed' = Len(dq)
  /\ nextSid' = nextSid + 1
  /\ wbuf' = [wbuf EXCEPT ![w] = <<>>] /\ wfresh' = [wfresh EXCEPT ![w] = TRUE]
  /\ UNCHANGED <<stamp, wCommitted, dq, chan, wcur, com, meta, merges, prepared, wopen, nextId, nOps, pend, commd, lastRet, kf>>

AllJoined == chan = <<>> /\ \A w \in Workers : wbuf[w] = <<>>

(* ------------------------------- commit ------------------------------- *)
\* advance_deletes: the early exit on an equal delete opstamp, then the cursor walk; a new .del
\* file (named by the target opstamp) is written when the segment now has more deleted documents
\* than its previous .del file records - this includes deletes that were found at segment
\* creation and so far only lived in the in-memory bitset
Purge(e, target) ==
  IF e.delop = target /\ e.fdel > 0 THEN e
  ELSE LET r == Advance(e.docs, e.alive, e.cur, target, FALSE)
           ndel == Len(e.docs) - Cardinality(r.alive)
       IN [e EXCEPT !.alive = r.alive, !.cur = r.cur,
                    !.delop = IF ndel > e.fdel THEN target ELSE e.delop,
                    !.fdel = IF ndel > e.fdel THEN ndel ELSE e.fdel]

\* prepare_commit: close the pipeline, join the workers (modelled as an enabling condition:
\* the workers have drained and cut), re-spawn them with fresh cursors, draw the commit stamp
UPrepare ==
  /\ AllowPrepare /\ CanOp /\ AllJoined
  /\ prepared' = [on |-> TRUE, op |-> stamp] /\ stamp' = stamp + 1
  /\ wcur' = [w \in Workers |-> dqFlushed] /\ wfresh' = [w \in Workers |-> TRUE]
  /\ nOps' = nOps + 1
  /\ UNCHANGED <<wCommitted, dq, dqFlushed, chan, wbuf, unc, com, meta, merges, wopen, nextId, nextSid, pend, commd, lastRet, kf>>

\* the commit task on the segment-updater thread: purge deletes, swap registers, save metas
CommitTask(op, payload) ==
  LET purged == {Purge(e, op) : e \in unc \cup com}
      kept == {e \in purged : e.alive # {}}
  IN /\ com' = kept /\ unc' = {}
     /\ meta' = [segs |-> {[sid |-> e.sid, docs |-> e.docs, alive |-> e.alive, delop |-> e.delop] : e \in kept},
                 opstamp |-> op, payload |-> payload]
     /\ lastRet' = [kind |-> "commit", op |-> op, at |-> nOps + 1]
     /\ commd' = pend

UCommitPrepared(payload) ==
  /\ wopen /\ prepared.on
  /\ CommitTask(prepared.op, payload)
  /\ prepared' = NotPrepared
  /\ UNCHANGED <<stamp, wCommitted, dq, dqFlushed, chan, wbuf, wcur, wfresh, merges, wopen, nextId, nextSid, nOps, pend, kf>>

\* commit() = prepare_commit().commit()
UCommit ==
  /\ wopen /\ ~prepared.on /\ nOps < MaxOps + 1 /\ stamp < MaxStamp
  /\ AllJoined
  /\ CommitTask(stamp, "none")
  /\ stamp' = stamp + 1
  /\ wcur' = [w \in Workers |-> dqFlushed] /\ wfresh' = [w \in Workers |-> TRUE]
  /\ nOps' = nOps + 1
  /\ UNCHANGED <<wCommitted, dq, dqFlushed, chan, wbuf, merges, prepared, wopen, nextId, nextSid, pend, kf>>

(* ------------- rollback / abort / re-open: a new writer from meta.json ------------- *)
FreshWriter ==
  /\ stamp' = meta.opstamp /\ wCommitted' = meta.opstamp
  /\ dq' = <<>> /\ dqFlushed' = 0
  /\ chan' = <<>> /\ wbuf' = [w \in Workers |-> <<>>] /\ wcur' = [w \in Workers |-> 0]
  /\ wfresh' = [w \in Workers |-> TRUE]
  /\ unc' = {}
  /\ com' = {[sid |-> s.sid, docs |-> s.docs, alive |-> s.alive, cur |-> 0, delop |-> s.delop, fdel |-> Len(s.docs) - Cardinality(s.alive)] : s \in meta.segs}
  /\ merges' = {}    \* merges of the killed updater can no longer be applied
  /\ pend' = commd /\ prepared' = NotPrepared

URollback ==
  /\ CanOp
  /\ FreshWriter
  /\ nOps' = nOps + 1
  /\ lastRet' = [kind |-> "rollback", op |-> meta.opstamp, at |-> nOps + 1]
  /\ UNCHANGED <<meta, wopen, nextId, nextSid, commd, kf>>

UAbort ==
  /\ wopen /\ prepared.on
  /\ FreshWriter
  /\ lastRet' = [kind |-> "rollback", op |-> meta.opstamp, at |-> nOps]
  /\ UNCHANGED <<meta, wopen, nextId, nextSid, nOps, commd, kf>>

UDropWriter ==
  /\ AllowReopen /\ wopen /\ ~prepared.on /\ nOps < MaxOps
  /\ wopen' = FALSE
  /\ chan' = <<>> /\ wbuf' = [w \in Workers |-> <<>>] /\ unc' = {} /\ merges' = {}
  /\ pend' = commd /\ nOps' = nOps + 1
  /\ UNCHANGED <<stamp, wCommitted, dq, dqFlushed, wcur, wfresh, com, meta, prepared, nextId, nextSid, commd, lastRet, kf>>

UNewWriter ==
  /\ ~wopen
  /\ FreshWriter /\ wopen' = TRUE
  /\ UNCHANGED <<meta, nextId, nextSid, nOps, commd, lastRet, kf>>

(* ------------------------------- merges ------------------------------- *)
InMerge == UNION {m.sids : m \in merges}
NoEntry == [sid |-> 0, docs |-> <<>>, alive |-> {}, cur |-> 0, delop |-> 0, fdel |-> 0]

StartMerge(reg, S, target) ==
  /\ wopen /\ Cardinality(S) = 2 /\ S \subseteq reg /\ {e.sid : e \in S} \cap InMerge = {}
  /\ Cardinality(merges) < MaxMerges
  /\ merges' = merges \cup {[mid |-> nextSid, sids |-> {e.sid : e \in S}, ents |-> S,
                             target |-> target, st |-> "running", res |-> NoEntry]}
  /\ nextSid' = nextSid + 1

\* by policy (consider_merge_options): committed segments use the commit opstamp, uncommitted
\* ones draw a fresh stamp (which is why user-visible opstamps depend on the schedule)
PolicyMergeCommitted ==
  /\ \E S \in SUBSET com : StartMerge(com, S, meta.opstamp)
  /\ UNCHANGED <<stamp, wCommitted, dq, dqFlushed, chan, wbuf, wcur, wfresh, unc, com, meta, prepared, wopen, nextId, nOps, pend, commd, lastRet, kf>>
PolicyMergeUncommitted ==
  /\ stamp < MaxStamp
  /\ \E S \in SUBSET unc : StartMerge(unc, S, stamp)
  /\ stamp' = stamp + 1
  /\ UNCHANGED <<wCommitted, dq, dqFlushed, chan, wbuf, wcur, wfresh, unc, com, meta, prepared, wopen, nextId, nOps, pend, commd, lastRet, kf>>
\* IndexWriter::merge on uncommitted segments (make_merge_operation)
ExplicitMergeUncommitted ==
  /\ AllowExplicitUncommittedMerge /\ ~prepared.on
  /\ IF ExplicitMergeTarget = "current"
     THEN /\ stamp < MaxStamp
          /\ \E S \in SUBSET unc : StartMerge(unc, S, stamp)
          /\ stamp' = stamp + 1
     ELSE /\ \E S \in SUBSET unc : StartMerge(unc, S, meta.opstamp)
          /\ UNCHANGED stamp
  /\ UNCHANGED <<wCommitted, dq, dqFlushed, chan, wbuf, wcur, wfresh, unc, com, meta, prepared, wopen, nextId, nOps, pend, commd, lastRet, kf>>

SeqOfSet(S) == CHOOSE s \in [1..Cardinality(S) -> S] : \A i, j \in 1..Cardinality(S) : i < j => s[i].sid < s[j].sid

\* merge thread: advance every source to the target, concatenate the live documents;
\* the merged entry inherits the delete cursor of the first source
RunMerge(m) ==
  /\ m \in merges /\ m.st = "running"
  /\ LET adv == {Purge(e, m.target) : e \in m.ents}
         ord == SeqOfSet(adv)
         liveDocs(e) == SelectSeq(e.docs, LAMBDA d : d.id \in e.alive)
         docs == Concat([i \in 1..Len(ord) |-> liveDocs(ord[i])])
         res == [sid |-> m.mid, docs |-> docs, alive |-> Ids(docs), cur |-> ord[1].cur, delop |-> 0, fdel |-> 0]
     IN merges' = (merges \ {m}) \cup {[m EXCEPT !.res = res, !.st = IF docs = <<>> THEN "empty" ELSE "done"]}
  /\ UNCHANGED <<stamp, wCommitted, dq, dqFlushed, chan, wbuf, wcur, wfresh, unc, com, meta, prepared, wopen, nextId, nextSid, nOps, pend, commd, lastRet, kf>>

\* end_merge task on the updater thread
EndMerge(m) ==
  /\ m \in merges /\ m.st # "running"
  /\ merges' = merges \ {m}
  /\ LET inUnc == m.sids \subseteq {e.sid : e \in unc}
         inCom == m.sids \subseteq {e.sid : e \in com}
         \* reconciliation: deletes newer than the target but older than the committed opstamp
         fix(e) == IF e.cur < Len(dq) /\ dq[e.cur+1].op < meta.opstamp THEN Purge(e, meta.opstamp) ELSE e
     IN IF m.st = "empty"
        THEN /\ unc' = IF inUnc THEN {e \in unc : e.sid \notin m.sids} ELSE unc
             /\ com' = IF ~inUnc /\ inCom THEN {e \in com : e.sid \notin m.sids} ELSE com
             /\ meta' = IF ~inUnc /\ inCom THEN [meta EXCEPT !.segs = {s \in meta.segs : s.sid \notin m.sids}] ELSE meta
        ELSE LET e == fix(m.res) IN
             IF inUnc THEN /\ unc' = {x \in unc : x.sid \notin m.sids} \cup {e} /\ UNCHANGED <<com, meta>>
             ELSE IF inCom THEN
                  /\ com' = {x \in com : x.sid \notin m.sids} \cup (IF e.alive = {} THEN {} ELSE {e})
                  /\ meta' = [meta EXCEPT !.segs = {s \in meta.segs : s.sid \notin m.sids}
                                   \cup (IF e.alive = {} THEN {} ELSE {[sid |-> e.sid, docs |-> e.docs, alive |-> e.alive, delop |-> e.delop]})]
                  /\ UNCHANGED unc
             ELSE UNCHANGED <<unc, com, meta>>     \* the sources vanished: merge discarded
  /\ UNCHANGED <<stamp, wCommitted, dq, dqFlushed, chan, wbuf, wcur, wfresh, prepared, wopen, nextId, nextSid, nOps, pend, commd, lastRet, kf>>

Next ==
  \/ \E t \in Terms : UAdd(t) \/ UDel(t)
  \/ \E t1, t2 \in Terms : \E b \in BOOLEAN : URun(t1, t2, b)
  \/ UDeleteAll \/ UCommit \/ URollback
  \/ UPrepare \/ UCommitPrepared("p") \/ UAbort
  \/ UDropWriter \/ UNewWriter
  \/ \E w \in Workers : WTake(w) \/ WFlush(w)
  \/ PolicyMergeCommitted \/ PolicyMergeUncommitted \/ ExplicitMergeUncommitted
  \/ \E m \in merges : RunMerge(m) \/ EndMerge(m)

Spec == Init /\ [][Next]_vars

(* ------------------------------ properties ------------------------------ *)
\* C02: what is persisted is exactly the sequential effect of the operations before the commit
PublishedIsSequential == kf \/ Content(meta.segs) = commd
\* C02: every surviving document exactly once
NoDup == \A s1, s2 \in meta.segs : s1.sid # s2.sid => s1.alive \cap s2.alive = {}
\* C02: the opstamp returned by commit is what the metadata reports
CommitOpstampIsMeta == lastRet.kind = "commit" => lastRet.op = meta.opstamp
\* C02: rollback restores precisely the last committed state
RollbackRestores == (lastRet.kind = "rollback" /\ lastRet.at = nOps) => (kf \/ (pend = commd /\ Content(com) = commd))
\* C04 / C05: the content of the persisted commit changes only in a commit step
\* (merges, rollbacks, worker steps, drops never change what readers can load)
MetaContentOnlyChangesInCommit ==
  [][kf' \/ (Content(meta'.segs) # Content(meta.segs) => (lastRet'.kind = "commit" /\ commd' = pend))]_vars
\* C04: merged segments hold the live documents of their sources, in source order
MergeOrderKept ==
  \A m \in merges : m.st = "done" =>
     \A i, j \in 1..Len(m.res.docs) : i < j =>
        LET a == m.res.docs[i]  b == m.res.docs[j]
            sa == CHOOSE e \in m.ents : a.id \in Ids(e.docs)
            sb == CHOOSE e \in m.ents : b.id \in Ids(e.docs)
        IN sa.sid < sb.sid \/ (sa.sid = sb.sid /\
             (CHOOSE k \in 1..Len(sa.docs) : sa.docs[k].id = a.id) < (CHOOSE k \in 1..Len(sa.docs) : sa.docs[k].id = b.id))

\* hide the oracle-only / observation variables from the fingerprint where they do not add behaviour
View == <<stamp, wCommitted, dq, dqFlushed, chan, wbuf, wcur, wfresh, unc, com, meta, merges,
          prepared, wopen, nextId, nextSid, nOps, pend, commd, lastRet, kf>>
=============================================================================
