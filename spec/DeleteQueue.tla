----------------------------- MODULE DeleteQueue -----------------------------
(***************************************************************************)
(* The delete queue as its users see it (src/indexer/delete_queue.rs): a   *)
(* broadcast log of delete operations; every cursor is a position in it.   *)
(*   push(op)      appends                                                 *)
(*   cursor()      a new cursor at the end of the FLUSHED part: it will    *)
(*                 see every later operation and those still in the writer *)
(*                 buffer ("some or none of the past operations")          *)
(*   clone         same position, independent afterwards                   *)
(*   get / advance / skip_to(opstamp)                                      *)
(* `flushed` is the only implementation detail that shows through: the     *)
(* buffer is turned into a block when a cursor standing at the end of the  *)
(* flushed part looks for more.  DeleteQueueImpl.tla is the code-shaped    *)
(* model (blocks, weak reference, double-checked locking) and checks that  *)
(* every interleaving keeps this view (NoLostDelete).                      *)
(***************************************************************************)
EXTENDS Naturals, Sequences, FiniteSets

CONSTANTS CursorIds
VARIABLES log, flushed, idx, live
qvars == <<log, flushed, idx, live>>

QInit == log = <<>> /\ flushed = 0 /\ idx = [c \in CursorIds |-> 0] /\ live = {}

Touch(i) == IF i = flushed THEN Len(log) ELSE flushed
GetValue(c) == IF idx[c] < Len(log) THEN log[idx[c] + 1] ELSE 0       \* 0 = None
\* first position j >= i with nothing left or an operation >= t behind it
SkipTarget(i, t) == CHOOSE j \in i..Len(log) :
                      /\ (j = Len(log) \/ log[j + 1] >= t)
                      /\ \A k \in i..(j - 1) : log[k + 1] < t

Push(op) == log' = Append(log, op) /\ UNCHANGED <<flushed, idx, live>>
NewCursor(c) == c \notin live /\ live' = live \cup {c} /\ idx' = [idx EXCEPT ![c] = flushed] /\ UNCHANGED <<log, flushed>>
Clone(c, d) == c \in live /\ d \notin live /\ live' = live \cup {d} /\ idx' = [idx EXCEPT ![d] = idx[c]] /\ UNCHANGED <<log, flushed>>
Drop(c) == c \in live /\ live' = live \ {c} /\ UNCHANGED <<log, flushed, idx>>
Get(c) == c \in live /\ flushed' = Touch(idx[c]) /\ UNCHANGED <<log, idx, live>>
Advance(c) == /\ c \in live /\ flushed' = Touch(idx[c])
              /\ idx' = [idx EXCEPT ![c] = IF idx[c] < Len(log) THEN idx[c] + 1 ELSE idx[c]]
              /\ UNCHANGED <<log, live>>
AdvanceValue(c) == idx[c] < Len(log)
SkipTo(c, t) == /\ c \in live
                /\ LET j == SkipTarget(idx[c], t) IN
                   /\ idx' = [idx EXCEPT ![c] = j]
                   /\ flushed' = IF j >= flushed THEN Len(log) ELSE flushed
                /\ UNCHANGED <<log, live>>

\* no cursor is ever ahead of the flushed part, nor behind the operations it has consumed
TypeOK == /\ flushed \in 0..Len(log)
          /\ \A c \in live : idx[c] \in 0..flushed
=============================================================================
