----------------------------- MODULE DictBuild -----------------------------
(* C15 - building a dictionary, as a state machine over Dict.                                 *)
EXTENDS Dict

(* the builder as a state machine: keys are inserted one by one; an insertion that is not     *)
(* strictly above the previous key is rejected (error or panic), never silently accepted.     *)
CONSTANTS KeyUniverse,   \* keys that may be inserted
          MaxKeys,
          CheckOrder     \* FALSE = a builder that accepts anything (negative configuration)
VARIABLES ins, st        \* inserted keys; "building" | "built" | "rejected"
bvars == <<ins, st>>

BInit == ins = <<>> /\ st = "building"
BInsert(k) ==
  /\ st = "building" /\ Len(ins) < MaxKeys
  /\ IF CheckOrder /\ ins # <<>> /\ ~LexLess(ins[Len(ins)], k)
     THEN st' = "rejected" /\ UNCHANGED ins
     ELSE ins' = Append(ins, k) /\ UNCHANGED st
BFinish == st = "building" /\ st' = "built" /\ UNCHANGED ins
BNext == (\E k \in KeyUniverse : BInsert(k)) \/ BFinish
BSpec == BInit /\ [][BNext]_bvars

Built == [keys |-> ins, vals |-> [i \in 1..Len(ins) |-> 3 + 7 * i]]
BuiltIsSorted == st = "built" => WellFormed(Built)
=============================================================================
