SPECIFICATION GSpec
CONSTANTS
  MaxSegs = 6
  MaxSize = 9
CHECK_DEADLOCK FALSE
