SPECIFICATION GSpec
CONSTANTS
  Mode = "long"
  MaxLen = 4
  NTexts = 3
  NestedDepths = {10, 100, 500}
CHECK_DEADLOCK FALSE
