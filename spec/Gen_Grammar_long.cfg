SPECIFICATION GSpec
CONSTANTS
  Mode = "long"
  MaxLen = 4
  NTexts = 3
CHECK_DEADLOCK FALSE
