SPECIFICATION TSpec
INVARIANT InvCrashSafe
INVARIANT InvDurable
INVARIANT InvNoOrphan
POSTCONDITION Accepted
CHECK_DEADLOCK FALSE
