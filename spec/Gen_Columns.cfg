SPECIFICATION GSpec
CONSTANTS
  Vals = {}
  MaxRows = 0
  MaxPerRow = 0
  TightBounds = FALSE
CHECK_DEADLOCK FALSE
