------------------------------- MODULE Tokens -------------------------------
(* C19 - tokens and snippets point inside the text, on character boundaries.                  *)
(* A text is a sequence of code points; offsets are byte offsets of its UTF-8 encoding.        *)
(* A token is <<from, to, position, text>> (text as code points).                              *)
(*  - exact token sequences of the raw, white-space, simple, n-gram and facet tokenizers and    *)
(*    of the filters lower-caser, ASCII folding, remove-long, alphanumeric-only, stop words;     *)
(*  - the invariants every analyzer chain owes (also stemmer, compound splitter, regex          *)
(*    tokenizer, whose token texts are not specified);                                           *)
(*  - what a snippet owes.                                                                       *)
EXTENDS Naturals, Integers, Sequences, FiniteSets

SeqSet(s) == {s[i] : i \in 1..Len(s)}
Min2(a, b) == IF a <= b THEN a ELSE b
Max2(a, b) == IF a >= b THEN a ELSE b
RECURSIVE Flat(_)
Flat(ss) == IF ss = <<>> THEN <<>> ELSE Head(ss) \o Flat(Tail(ss))

---------------------------------------------------------------------------
(* code points: UTF-8 width and classes.  The classes are given for the code points of the     *)
(* check's alphabet (ClassAlphabet) and for everything the filters can turn them into.         *)
Width(c) == IF c < 128 THEN 1 ELSE IF c < 2048 THEN 2 ELSE IF c < 65536 THEN 3 ELSE 4
\*  a   B   7   e-acute  I-dot(U+0130)  A-stroke(U+023A)  CJK U+4E2D  emoji U+1F600  combining acute
\*  space  U+3000  -  NUL  &  <
ClassAlphabet == <<97, 66, 55, 233, 304, 570, 20013, 128512, 769, 32, 12288, 45, 0, 38, 60>>
AsciiAlnum(c) == (c >= 48 /\ c <= 57) \/ (c >= 65 /\ c <= 90) \/ (c >= 97 /\ c <= 122)
\* char::is_alphanumeric (alphabetic or numeric) on the code points that occur here
Alnum(c) == AsciiAlnum(c) \/ c \in {233, 201, 304, 570, 11365, 20013, 223}
AsciiWs(c) == c \in {9, 10, 12, 13, 32}
\* char::to_lowercase: U+0130 becomes two code points (3 bytes instead of 2), U+023A one of 3 bytes
Lower(c) == CASE c >= 65 /\ c <= 90 -> <<c + 32>> [] c = 201 -> <<233>> [] c = 304 -> <<105, 775>> [] c = 570 -> <<11365>> [] OTHER -> <<c>>
\* AsciiFoldingFilter
Fold(c) == CASE c = 233 -> <<101>> [] c = 201 -> <<69>> [] c = 304 -> <<73>> [] c = 570 -> <<65>> [] c = 11365 -> <<97>> [] c = 223 -> <<115, 115>> [] OTHER -> <<c>>
MapText(t, F(_)) == Flat([i \in 1..Len(t) |-> F(t[i])])

\* boundaries: Offs(text)[i] = byte offset in front of code point i; Offs(text)[Len+1] = byte length
RECURSIVE OffsAcc(_, _, _)
OffsAcc(text, i, acc) == IF i > Len(text) THEN acc ELSE OffsAcc(text, i + 1, Append(acc, acc[Len(acc)] + Width(text[i])))
Offs(text) == OffsAcc(text, 1, <<0>>)
ByteLen(t) == Offs(t)[Len(t) + 1]

---------------------------------------------------------------------------
(* tokenizers.  Runs(text, In(_)) = the maximal runs of code points satisfying In, as pairs      *)
(* <<first, last>> of indices, in order.                                                         *)
RECURSIVE SortInts(_)
SortInts(S) == IF S = {} THEN <<>> ELSE LET m == CHOOSE x \in S : \A y \in S : x <= y IN <<m>> \o SortInts(S \ {m})
Runs(text, In(_)) ==
  LET n == Len(text)
      at(i) == i >= 1 /\ i <= n /\ In(text[i])
      starts == SortInts({i \in 1..n : at(i) /\ ~at(i - 1)})
      ends == SortInts({i \in 1..n : at(i) /\ ~at(i + 1)})
  IN  [k \in 1..Len(starts) |-> <<starts[k], ends[k]>>]
TokensOfRuns(text, runs) ==
  LET o == Offs(text) IN [k \in 1..Len(runs) |-> <<o[runs[k][1]], o[runs[k][2] + 1], k - 1, SubSeq(text, runs[k][1], runs[k][2])>>]

Raw(text) == << <<0, ByteLen(text), 0, text>> >>
Simple(text) == TokensOfRuns(text, Runs(text, Alnum))
NotAsciiWs(c) == ~AsciiWs(c)
Whitespace(text) == TokensOfRuns(text, Runs(text, NotAsciiWs))
\* n-grams of min..max code points, by start then by length; position always 0
Ngram(text, min, max, prefixOnly) ==
  LET n == Len(text)  o == Offs(text)
      grams(i) == [g \in 1..Max2(0, Min2(max, n - i + 1) - min + 1) |-> <<o[i], o[i + min + g - 1], 0, SubSeq(text, i, i + min + g - 2)>>]
  IN  IF n < min THEN <<>> ELSE Flat([i \in 1..(IF prefixOnly THEN 1 ELSE n) |-> grams(i)])
\* the facet tokenizer: the root, then every prefix ending in front of a separator (code point 0,
\* not in first place), then the whole text; offsets are not set (0, 0), position 0
Facet(text) ==
  LET seps == SortInts({i \in 2..Len(text) : text[i] = 0})
  IN  << <<0, 0, 0, <<>>>> >> \o
      (IF text = <<>> THEN <<>> ELSE [k \in 1..Len(seps) |-> <<0, 0, 0, SubSeq(text, 1, seps[k] - 1)>>] \o << <<0, 0, 0, text>> >>)

\* filters
MapTokens(ts, F(_)) == [k \in 1..Len(ts) |-> <<ts[k][1], ts[k][2], ts[k][3], MapText(ts[k][4], F)>>]
Keep(ts, P(_)) == SelectSeq(ts, P)
ApplyFilter(ts, f) ==
  CASE f[1] = "lower"      -> MapTokens(ts, Lower)
    [] f[1] = "asciifold"  -> MapTokens(ts, Fold)
    [] f[1] = "removelong" -> Keep(ts, LAMBDA t : ByteLen(t[4]) < f[2])
    [] f[1] = "alphanum"   -> Keep(ts, LAMBDA t : \A i \in 1..Len(t[4]) : AsciiAlnum(t[4][i]))
    [] f[1] = "stop"       -> Keep(ts, LAMBDA t : t[4] \notin SeqSet(f[2]))
RECURSIVE ApplyFilters(_, _, _)
ApplyFilters(ts, fs, k) == IF k > Len(fs) THEN ts ELSE ApplyFilters(ApplyFilter(ts, fs[k]), fs, k + 1)

\* the regex tokenizer with a NULLABLE pattern `C*` (or `C+|`) over a character class C.  What the
\* code does (established on the unchanged tree, and what its documentation says: "empty tokens are
\* not emitted"): the stream searches the leftmost match in the rest of the text; a nullable pattern
\* always matches at the very start of the rest, greedily; an empty match ENDS the stream.  So the
\* stream is the maximal run of C at the start of the text if there is one (a single token), and
\* nothing otherwise - whatever follows, multi-byte or not, is never looked at again.
\* Classes (on the code points of ClassAlphabet): "w" = \w (alphabetic, marks, digits, connector
\* punctuation: the combining acute is a word character), "az" = [a-z], "09" = [0-9], "x" = the letter x.
InRegexClass(cls, c) ==
  CASE cls = "w"  -> Alnum(c) \/ c \in {769, 775, 95}
    [] cls = "az" -> c >= 97 /\ c <= 122
    [] cls = "09" -> c >= 48 /\ c <= 57
    [] cls = "x"  -> c = 120
RegexNullable(text, cls) ==
  LET stops == {i \in 1..Len(text) : ~InRegexClass(cls, text[i])}
      n == IF stops = {} THEN Len(text) ELSE (CHOOSE i \in stops : \A j \in stops : i <= j) - 1
  IN  IF n = 0 THEN <<>> ELSE << <<0, Offs(text)[n + 1], 0, SubSeq(text, 1, n)>> >>

\* a chain: [tok |-> <<kind, params...>>, filters |-> <<...>>, exact |-> the token texts are specified]
\* (<<"regex", pattern>>: token texts not specified; <<"regex", pattern, class>>: nullable pattern over class)
Tokenize(text, tok) ==
  CASE tok[1] = "raw" -> Raw(text) [] tok[1] = "whitespace" -> Whitespace(text) [] tok[1] = "simple" -> Simple(text)
    [] tok[1] = "ngram" -> Ngram(text, tok[2], tok[3], tok[4]) [] tok[1] = "facet" -> Facet(text)
    [] tok[1] = "regex" -> RegexNullable(text, tok[3])
Analyze(text, chain) == ApplyFilters(Tokenize(text, chain.tok), chain.filters, 1)

\* what every chain owes: offsets inside the text, on character boundaries, from <= to, positions
\* never decrease; a token that no filter rewrote (and that a tokenizer cut out of the text) is the
\* slice it points to
OnBoundary(text, b) == b \in SeqSet(Offs(text))
Normalising(chain) == chain.tok[1] = "facet" \/ \E k \in 1..Len(chain.filters) : chain.filters[k][1] \in {"lower", "asciifold", "stemmer", "splitcompound"}
\* the code points between two byte offsets (both on boundaries), given o = Offs(text)
SliceWith(text, o, from, to) ==
  LET i == CHOOSE x \in 1..Len(o) : o[x] = from   j == CHOOSE x \in 1..Len(o) : o[x] = to
  IN  SubSeq(text, i, j - 1)
SliceBytes(text, from, to) == SliceWith(text, Offs(text), from, to)
TokenInv(text, chain, ts) ==
  LET o == Offs(text)   B == SeqSet(o)   total == o[Len(o)]   norm == Normalising(chain) IN
  /\ \A k \in 1..Len(ts) :
       /\ ts[k][1] <= ts[k][2] /\ ts[k][2] <= total
       /\ ts[k][1] \in B /\ ts[k][2] \in B
       /\ ~norm => ts[k][4] = SliceWith(text, o, ts[k][1], ts[k][2])
  /\ \A k \in 1..(Len(ts) - 1) : ts[k][3] <= ts[k + 1][3]

---------------------------------------------------------------------------
(* snippets.  fragment: code points; highlighted: byte ranges <<from, to>> into the fragment.    *)
IsSubstring(frag, text) == \E s \in 0..(Len(text) - Len(frag)) : SubSeq(text, s + 1, s + Len(frag)) = frag
\* sort by (start, end), drop duplicates, merge true overlaps (adjacent ranges stay apart)
RangeLeq(a, b) == a[1] < b[1] \/ (a[1] = b[1] /\ a[2] <= b[2])
RECURSIVE SortRanges(_)
SortRanges(S) == IF S = {} THEN <<>> ELSE LET m == CHOOSE x \in S : \A y \in S : RangeLeq(x, y) IN <<m>> \o SortRanges(S \ {m})
RECURSIVE MergeRanges(_, _, _)
MergeRanges(rs, k, acc) ==
  IF k > Len(rs) THEN acc
  ELSE IF acc # <<>> /\ acc[Len(acc)][2] > rs[k][1]
       THEN MergeRanges(rs, k + 1, [acc EXCEPT ![Len(acc)] = <<@[1], Max2(@[2], rs[k][2])>>])
       ELSE MergeRanges(rs, k + 1, Append(acc, rs[k]))
Collapse(ranges) == MergeRanges(SortRanges(SeqSet(ranges)), 1, <<>>)
\* HTML: everything outside the tags escaped (htmlescape::encode_minimal)
Esc(c) == CASE c = 38 -> <<38, 97, 109, 112, 59>> [] c = 60 -> <<38, 108, 116, 59>> [] c = 62 -> <<38, 103, 116, 59>>
            [] c = 34 -> <<38, 113, 117, 111, 116, 59>> [] c = 39 -> <<38, 35, 120, 50, 55, 59>> [] OTHER -> <<c>>
EscText(t) == MapText(t, Esc)
TagOpen == <<60, 98, 62>>   TagClose == <<60, 47, 98, 62>>
RECURSIVE Render(_, _, _, _)
Render(frag, rs, k, from) ==    \* rs collapsed, from = byte offset already rendered
  IF k > Len(rs) THEN EscText(SliceBytes(frag, from, ByteLen(frag)))
  ELSE EscText(SliceBytes(frag, from, rs[k][1])) \o TagOpen \o EscText(SliceBytes(frag, rs[k][1], rs[k][2])) \o TagClose \o Render(frag, rs, k + 1, rs[k][2])
Html(frag, highlighted) == Render(frag, Collapse(highlighted), 1, 0)

\* sn = [fragment, highlighted, html, hl_tokens]; hl_tokens[k] = texts of the tokens the chain yields on
\* the text under the k-th highlighted range
SnippetInv(text, terms, max, sn, checkLen) ==
  LET c == Collapse(sn.highlighted) IN
  /\ IsSubstring(sn.fragment, text)
  /\ checkLen => Len(sn.fragment) <= max
  /\ \A k \in 1..Len(sn.highlighted) :
       LET r == sn.highlighted[k] IN
       /\ r[1] <= r[2] /\ r[2] <= ByteLen(sn.fragment)
       /\ OnBoundary(sn.fragment, r[1]) /\ OnBoundary(sn.fragment, r[2])
       /\ \E t \in SeqSet(sn.hl_tokens[k]) : MapText(t, Lower) \in SeqSet(terms)    \* (the generator looks up token.text.to_lowercase())
  /\ \A k \in 1..(Len(sn.highlighted) - 1) : sn.highlighted[k][1] <= sn.highlighted[k + 1][1]
  /\ \A k \in 1..(Len(c) - 1) : c[k][2] <= c[k + 1][1]
  /\ sn.html = Html(sn.fragment, sn.highlighted)
\* F12 (recorded): a single token longer than max_num_chars is returned as a fragment longer than the limit
LongestToken(text, chain) == LET ts == Analyze(text, chain) IN IF ts = <<>> THEN 0 ELSE CHOOSE m \in {Len(SliceBytes(text, ts[k][1], ts[k][2])) : k \in 1..Len(ts)} : \A k \in 1..Len(ts) : Len(SliceBytes(text, ts[k][1], ts[k][2])) <= m
=============================================================================
