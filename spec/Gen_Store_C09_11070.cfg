SPECIFICATION GSpec
CONSTANTS
  SizeClasses = {}
  BlockSize = 400
  MaxDocs = 0
  CacheCap = 100
  KeyByLength = FALSE
CHECK_DEADLOCK FALSE
