SPECIFICATION TSpec
POSTCONDITION Accepted
CHECK_DEADLOCK FALSE
CONSTANTS
  Vals = {}
  MaxRows = 0
  MaxPerRow = 0
  TightBounds = FALSE
