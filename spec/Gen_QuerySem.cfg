SPECIFICATION Spec
CONSTANTS
  MaxClauses = 2
  UseNested = TRUE
  SingleShouldIgnoresMsm = FALSE
INVARIANT Emit
CHECK_DEADLOCK FALSE
