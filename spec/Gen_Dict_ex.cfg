SPECIFICATION GSpec
CONSTANTS
  Exhaustive = TRUE
  Bytes = {0, 255}
  MaxLen = 2
  MaxKeys = 3
  MaxOps = 0
  BlockLens = {0, 4000}
  ValueKinds = {"u64"}
CHECK_DEADLOCK FALSE
