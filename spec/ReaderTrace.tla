------------------------------ MODULE ReaderTrace ------------------------------
(* Trace specification for C05: reader threads reload, search and re-read held searchers while *)
(* the writer runs (harness/src/bin/reader_driver.rs).  Extends the API-level oracle of         *)
(* CoreTrace with the history of commit contents.                                               *)
(*   ReloadSeesWholeCommit : the content a reload exposes is exactly the content of ONE commit  *)
(*                           between the last one completed when the reload started and the one *)
(*                           in progress when it returned - never a mixture, never uncommitted  *)
(*   ReloadMonotone        : successive reloads of one reader never move back: what a reader     *)
(*                           publishes is never older than what one of its completed reloads    *)
(*                           (by any thread sharing the IndexReader) has already exposed         *)
(*   SearcherImmutable     : a held searcher gives the same answers whenever it is re-read      *)
(*   OpenNeverFails        : a reload never fails (no event accepts `ok = false`)               *)
EXTENDS CoreTrace

VARIABLES
  commits,   \* Seq of the contents of all commits of this run (commits[1] = the empty index)
  rlo,       \* <<reader, thread>> -> number of completed commits when that thread's current reload started
  rlast,     \* reader -> index of the commit its last reload exposed
  heldObs,   \* <<reader, generation>> -> the observation made when that searcher was loaded
  rfloor     \* <<reader, thread>> -> what the reader had exposed when that thread announced its read (threads
             \* sharing a reader log `read_start` before they read: a result event may be logged late, the
             \* read itself happened after everything logged before its read_start)

rvars == <<commits, rlo, rlast, heldObs, rfloor>>
allvars == <<vars, rvars>>

Min(S) == CHOOSE x \in S : \A y \in S : x <= y
ContentAt(k) == IF k <= Len(commits) THEN commits[k] ELSE pend
Shape(obs) == [segs |-> obs.segs, byterm |-> obs.byterm, n |-> obs.n, count_all |-> obs.count_all]
\* threads sharing one IndexReader log their name in `t`; a reader used by one thread only does not
RK == <<Ev.r, IF "t" \in DOMAIN Ev THEN Ev.t ELSE "-">>

RReaderNew ==
  /\ Ev.ev = "reader_new" /\ Ev.ok
  /\ rlo' = (RK :> Len(commits)) @@ rlo
  /\ rlast' = (Ev.r :> 1) @@ rlast
  /\ UNCHANGED <<commits, heldObs, rfloor>>

RReloadStart ==
  /\ Ev.ev = "reload_start"
  /\ rlo' = (RK :> Len(commits)) @@ rlo
  /\ UNCHANGED <<commits, rlast, heldObs, rfloor>>

RReadStart ==
  /\ Ev.ev = "read_start"
  /\ rfloor' = (RK :> rlast[Ev.r]) @@ rfloor
  /\ UNCHANGED <<commits, rlo, rlast, heldObs>>

RReload ==
  /\ Ev.ev = "reload" /\ Ev.ok            \* OpenNeverFails: a failed reload is not accepted
  /\ ObsConsistent(Ev.obs)
  /\ LET hi == Len(commits) + (IF calling THEN 1 ELSE 0)
         floor == IF RK \in DOMAIN rfloor THEN rfloor[RK] ELSE rlast[Ev.r]
         lower == IF floor > rlo[RK] THEN floor ELSE rlo[RK]
         K == {k \in lower..hi : ObsDocs(Ev.obs) = ContentAt(k)}
     IN IF kf THEN UNCHANGED rlast
        ELSE K # {} /\ rlast' = (Ev.r :> (IF Min(K) > rlast[Ev.r] THEN Min(K) ELSE rlast[Ev.r])) @@ rlast
  /\ heldObs' = IF "kept" \in DOMAIN Ev THEN (<<Ev.r, Ev.gen>> :> Shape(Ev.obs)) @@ heldObs ELSE heldObs
  /\ UNCHANGED <<commits, rlo, rfloor>>

RHeld ==
  /\ Ev.ev = "held"
  /\ Ev.obs.ok
  /\ <<Ev.r, Ev.gen>> \in DOMAIN heldObs
  /\ Shape(Ev.obs) = heldObs[<<Ev.r, Ev.gen>>]        \* SearcherImmutable
  /\ UNCHANGED rvars

\* what the reader publishes, read without a reload of one's own
RPeek ==
  /\ Ev.ev = "peek"
  /\ ObsConsistent(Ev.obs)
  /\ LET hi == Len(commits) + (IF calling THEN 1 ELSE 0)
         K == {k \in rlast[Ev.r]..hi : ObsDocs(Ev.obs) = ContentAt(k)}
     IN kf \/ K # {}
  /\ UNCHANGED rvars

RSchedule == Ev.ev = "schedule" /\ UNCHANGED rvars

ReaderStep ==
  /\ l <= Len(Rec) /\ l' = l + 1
  /\ (RReaderNew \/ RReloadStart \/ RReadStart \/ RReload \/ RHeld \/ RPeek \/ RSchedule)
  /\ UNCHANGED <<pend, commd, lo, metaop, payload, wopen, wCreated, dirty, sorted, kf, calling>>

WriterStep ==
  /\ TNext
  /\ commits' = IF Ev.ev = "reset" THEN <<{}>>
                ELSE IF Ev.ev = "commit" /\ Ev.ok THEN Append(commits, pend) ELSE commits
  /\ IF Ev.ev = "reset" THEN rlo' = <<>> /\ rlast' = <<>> /\ heldObs' = <<>> /\ rfloor' = <<>>
     ELSE UNCHANGED <<rlo, rlast, heldObs, rfloor>>

RNext == WriterStep \/ ReaderStep
RInit == TInit /\ commits = <<{}>> /\ rlo = <<>> /\ rlast = <<>> /\ heldObs = <<>> /\ rfloor = <<>>
RSpec == RInit /\ [][RNext]_allvars
=============================================================================
