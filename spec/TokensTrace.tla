---------------------------- MODULE TokensTrace ----------------------------
(* Trace specification of C19: judges what harness/src/bin/tokens_driver.rs recorded on the real *)
(* analyzers and the real SnippetGenerator.  A `panic` event has no action.                      *)
EXTENDS Tokens, Json, IOUtils, TLC

Rec == ndJsonDeserialize(IOEnv.TRACE)
VARIABLES l, chains
vars == <<l, chains>>
Ev == Rec[l]

TReset == Ev.ev = "reset" /\ chains' = (IF "chains" \in DOMAIN Ev THEN Ev.chains ELSE chains)

\* every chain on one text: the invariants always, the exact token sequence where it is specified
\* (guards are expressions `(...) = TRUE`: inside an action TLC would branch on every \/ and \E)
ObsOk(text, o) ==
  /\ Len(o) = 2                          \* [chain, tokens]; a third member = the chain panicked
  /\ TokenInv(text, chains[o[1]], o[2])
  /\ chains[o[1]].exact => o[2] = Analyze(text, chains[o[1]])
TTok == Ev.ev = "tok" /\ (\A k \in 1..Len(Ev.obs) : ObsOk(Ev.text, Ev.obs[k])) = TRUE /\ UNCHANGED chains

\* one chain given with the event (its compound-splitter dictionary was cut out of this very text): the
\* invariants every chain owes; the token texts behind a splitter / stemmer are not specified
TTok1 ==
  /\ Ev.ev = "tok1"
  /\ (/\ TokenInv(Ev.text, Ev.chain, Ev.tokens)
      /\ Ev.chain.exact => Ev.tokens = Analyze(Ev.text, Ev.chain)) = TRUE
  /\ UNCHANGED chains

\* a snippet; max_num_chars binds unless the event says it is the recorded shape F12 ("f12": true)
TSnip ==
  /\ Ev.ev = "snip"
  /\ SnippetInv(Ev.text, Ev.terms, Ev.max, [fragment |-> Ev.fragment, highlighted |-> Ev.highlighted, html |-> Ev.html, hl_tokens |-> Ev.hl_tokens], TRUE) = TRUE
  /\ UNCHANGED chains

\* a huge run-length text: offsets only
RECURSIVE RunStarts(_, _, _)
RunStarts(runs, k, acc) == IF k > Len(runs) THEN acc ELSE RunStarts(runs, k + 1, Append(acc, acc[Len(acc)] + runs[k][2] * Width(runs[k][1])))
OnBoundaryRle(runs, st, b) == \E r \in 1..Len(runs) : st[r] <= b /\ b <= st[r + 1] /\ (b - st[r]) % Width(runs[r][1]) = 0
CpAt(runs, st, b) == LET r == CHOOSE x \in 1..Len(runs) : st[x] <= b /\ b < st[x + 1] IN runs[r][1]     \* code point starting at byte b
CpBefore(runs, st, b) == LET r == CHOOSE x \in 1..Len(runs) : st[x] < b /\ b <= st[x + 1] IN runs[r][1]
TBig ==
  /\ Ev.ev = "big"
  /\ (LET st == RunStarts(Ev.runs, 1, <<0>>)  ts == Ev.tokens  ch == chains[Ev.chain] IN
      /\ Ev.bytes = st[Len(st)] /\ Ev.ntokens >= Len(ts)
      /\ \A k \in 1..Len(ts) :
           /\ ts[k][1] <= ts[k][2] /\ ts[k][2] <= Ev.bytes
           /\ OnBoundaryRle(Ev.runs, st, ts[k][1]) /\ OnBoundaryRle(Ev.runs, st, ts[k][2])
           /\ (~Normalising(ch) /\ ts[k][1] < ts[k][2]) =>
                 ts[k][4] = ts[k][2] - ts[k][1] /\ ts[k][5] = CpAt(Ev.runs, st, ts[k][1]) /\ ts[k][6] = CpBefore(Ev.runs, st, ts[k][2])
      /\ \A k \in 1..(Len(ts) - 1) : ts[k][3] <= ts[k + 1][3]) = TRUE
  /\ UNCHANGED chains

TNext == l <= Len(Rec) /\ l' = l + 1 /\ (TReset \/ TTok \/ TTok1 \/ TSnip \/ TBig)
TInit == l = 1 /\ chains = <<>>
TSpec == TInit /\ [][TNext]_vars

Accepted ==
  IF TLCGet("stats").diameter - 1 = Len(Rec) THEN TRUE
  ELSE Print(<<"REJECTED", TLCGet("stats").diameter, Rec[TLCGet("stats").diameter]>>, FALSE)
=============================================================================
