----------------------------- MODULE Gen_Columns -----------------------------
(* Generator for C08 (R direction): TLC enumerates column shapes (value type x content        *)
(* pattern aimed at one codec x cardinality x where the values sit relative to the 64 / 512 /  *)
(* 65,536-row blocks of the optional index) and merge shapes (number and sizes of the inputs,  *)
(* stack or shuffle, alive fraction, permutation).  For numerical columns the type that        *)
(* Columns!CoercedType prescribes is printed with the case.                                     *)
EXTENDS Columns, Json

Kinds == {"u64", "i64", "f64", "bool", "date", "ip", "str", "bytes", "mixed", "tok"}   \* tok: token occurrences of a tokenized text fast field
PatternsOf(k) ==
  CASE k \in {"u64", "i64"} -> {"const", "linear", "linear_noise", "blockwise", "small", "gcd", "bits", "clusters", "sorted", "extremes", "full",
                                 "above32", "gcd32", "wide31"}      \* values just above 2^32, with a gcd, 31 bits wide
    [] k = "f64" -> {"const", "linear", "small", "extremes", "full"}
    [] k = "bool" -> {"const", "small"}
    [] k = "date" -> {"linear", "small", "extremes", "full"}
    [] k = "ip" -> {"small", "clusters", "extremes", "full"}
    [] k = "str" -> {"const", "small", "prefix", "full"}
    [] k = "bytes" -> {"const", "small", "full"}
    [] k = "tok" -> {"rep", "rep2", "small"}        \* tiny vocabularies: the same token twice in a row, also across two values
    [] k = "mixed" -> {"iu", "i_neg_u", "u_big", "neg_big", "if", "all3"}
ClassesOfPattern(k, p) ==
  CASE k = "u64" -> IF p \in {"extremes", "full", "bits", "clusters"} THEN {"small", "big"} ELSE {"small"}
    [] k = "i64" -> {"neg", "small"}
    [] k = "f64" -> {"float"}
    [] p = "iu" -> {"small"}
    [] p = "i_neg_u" -> {"neg", "small"}
    [] p = "u_big" -> {"small", "big"}
    [] p = "neg_big" -> {"neg", "big"}
    [] p \in {"if", "all3"} -> {"neg", "small", "float"}
    [] OTHER -> {}
Presents == {"rand", "all", "first", "last", "prefix", "suffix", "stride"}
BigPresents == {"dense_sparse", "sparse_dense", "edges"}
Densities == {1, 64, 500, 999}

Sizes == {<<1>>, <<5>>, <<DenseMiniBlockRows>>, <<DenseMiniBlockRows + 1, DenseMiniBlockRows - 1>>, <<BlockwiseLinearRows + 1, 1>>,
          <<BlockwiseLinearRows, BlockwiseLinearRows>>, <<BlockwiseLinearRows - 1>>, <<1000, 30, 7>>, <<300, 300, 300>>}
BigSizes == {<<70000>>, <<66000, 5000>>}
Merges ==
  {[order |-> "none", keep |-> 1000, perm |-> "identity"], [order |-> "stack", keep |-> 1000, perm |-> "identity"]}
  \cup {[order |-> "shuffle", keep |-> k, perm |-> p] : k \in {1000, 700, 30}, p \in {"identity", "reverse", "interleave", "random"}}

VARIABLE done
GInit ==
  /\ Init /\ done = FALSE
  /\ \A k \in Kinds : \A p \in PatternsOf(k) : \A c \in {"full", "optional", "multi"} :
       \A pr \in (IF c = "full" THEN {"all"} ELSE Presents) : \A d \in (IF pr \in {"rand", "prefix", "suffix", "stride"} THEN Densities ELSE {0}) :
         PrintT(<<"CASE", ToJson([what |-> "col", kind |-> k, pattern |-> p, card |-> c, present |-> pr, density |-> d,
                                  expect_type |-> IF k \in {"u64", "i64", "f64", "mixed"} THEN CoercedType(ClassesOfPattern(k, p)) ELSE k])>>)
  /\ \A k \in {"u64", "i64", "ip", "str", "bool"} : \A c \in {"optional", "multi"} : \A pr \in BigPresents :
       PrintT(<<"CASE", ToJson([what |-> "bigcol", kind |-> k, pattern |-> "small", card |-> c, present |-> pr, density |-> 0, expect_type |-> k])>>)
  /\ \A s \in Sizes : \A m \in Merges : (Len(s) = 1 /\ m.order = "stack") \/ PrintT(<<"CASE", ToJson([what |-> "merge", sizes |-> s, merge |-> m])>>)
  /\ \A s \in BigSizes : \A m \in {x \in Merges : x.perm \in {"identity", "random"} /\ x.keep # 30} :
       PrintT(<<"CASE", ToJson([what |-> "bigmerge", sizes |-> s, merge |-> m])>>)
  \* boundary values of the sparse / dense switch of the optional index: exactly n rows with a value inside
  \* one block (the first, or the second of a longer table), for n around the threshold; and merges whose
  \* inputs hold a and n - a such rows, so that the merged block holds exactly n
  /\ \A n \in Around(DenseBlockThreshold) : \A blk \in {0, 1} :
       PrintT(<<"CASE", ToJson([what |-> "thr", count |-> n, block |-> blk,
                                 nrows |-> IF blk = 0 THEN 20000 ELSE OptionalBlockRows + 8000,
                                 variant |-> OptionalBlockVariant(n)])>>)
  /\ \A n \in Around(DenseBlockThreshold) : \A m \in {x \in Merges : x.keep = 1000 /\ x.order # "none" /\ x.perm \in {"identity", "random"}} :
       PrintT(<<"CASE", ToJson([what |-> "thrmerge", counts |-> <<2000, n - 2000>>, sizes |-> <<20000, 20000>>, merge |-> m,
                                 variants |-> <<OptionalBlockVariant(2000), OptionalBlockVariant(n - 2000), OptionalBlockVariant(n)>>])>>)
  \* a block in which every row (or every row but one) has a value, as block 0 or block 1 of a table of more
  \* than two blocks whose other rows have gaps; read directly and after a stacked merge with a small table
  /\ \A n \in {FullBlockRows - 1, FullBlockRows} : \A blk \in {0, 1} :
       PrintT(<<"CASE", ToJson([what |-> "fullblock", count |-> n, block |-> blk, nrows |-> 2 * OptionalBlockRows + 500,
                                 merge_with |-> 100, merge |-> [order |-> "stack", keep |-> 1000, perm |-> "identity"]])>>)
  \* a tokenized text fast field is a multi-valued str column holding every token occurrence of the document,
  \* in order (adjacent repeats included): dedicated index-path cases
  /\ \A p \in PatternsOf("tok") : \A c \in {"multi", "optional", "full"} : \A m \in {x \in Merges : x.perm = "identity" /\ x.keep # 30} :
       PrintT(<<"CASE", ToJson([what |-> "tokcol", pattern |-> p, card |-> c, merge |-> m])>>)
  \* huge sparse tables: more than FindBlockLinearMax blocks of rows, a handful of values placed so that whole blocks are
  \* empty before / between / after them, values on block boundaries; two such tables are stack-merged
  /\ LET R == OptionalBlockRows
         Placements == [edges |-> {R - 1, R, (FindBlockLinearMax * R) - 1, FindBlockLinearMax * R, 18 * R + 5},
                        late |-> {17 * R, 17 * R + 1, 19 * R - 1},
                        spread |-> {7, 3 * R + 7, 9 * R, 17 * R + 7, 19 * R + 7},
                        first_last |-> {0, 20 * R - 1 - 70000},
                        one |-> {18 * R + 123}]
     IN \A pa \in DOMAIN Placements : \A pb \in DOMAIN Placements : \A n \in {17 * R + 5, 20 * R - 70000} :
          PrintT(<<"CASE", ToJson([what |-> "huge", nrows |-> n, a |-> pa, b |-> pb,
                                    rows_a |-> {r \in Placements[pa] : r < n}, rows_b |-> {r \in Placements[pb] : r < n}])>>)
GNext == done' = TRUE /\ UNCHANGED cvars
GSpec == GInit /\ [][GNext]_<<done, cvars>>
=============================================================================
