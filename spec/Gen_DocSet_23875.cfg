SPECIFICATION Spec
CONSTANTS
  U = 5
  TERM = 100
  B = 2
  W = 2
  Depth = 4
  AllLowerBounds = FALSE
  CountLeavesStale = FALSE
INVARIANT Emit
CHECK_DEADLOCK FALSE
