------------------------------ MODULE Storage ------------------------------
(***************************************************************************)
(* The durability model behind C01 / C10 / C11: what a Directory holds     *)
(* *visibly* and what is already *durable*.  One action per Directory      *)
(* operation (src/directory/directory.rs, managed_directory.rs,            *)
(* mmap_directory/mod.rs).                                                 *)
(*   regular files : created by open_write, appended, made durable by      *)
(*                   terminate (flush + fsync); their directory entry and  *)
(*                   their unlink become durable at the next sync_directory*)
(*   atomic files  : meta.json and .managed.json: every atomic_write adds  *)
(*                   a version (temp file + rename); the rename is durable *)
(*                   at the next sync_directory                            *)
(* A crash leaves any image in which every un-synced directory operation   *)
(* (creation, unlink, rename) was applied or not, independently.           *)
(***************************************************************************)
EXTENDS Naturals, Sequences, FiniteSets

VARIABLES
  exists,    \* paths of the visible regular files
  entDur,    \* subset of exists \cup ghosts whose directory entry is durable
  termd,     \* paths (visible or ghost) whose content was terminated (= complete and fsynced)
  ghosts,    \* unlinked paths whose entry was durable and whose unlink is not yet synced
  live,      \* paths with a writer object still alive
  metaV,     \* versions of meta.json: Seq of [files, op]
  metaDur,   \* index of the newest durable version
  manV,      \* versions of .managed.json: Seq of sets of paths
  manDur

svars == <<exists, entDur, termd, ghosts, live, metaV, metaDur, manV, manDur>>

SInit ==
  /\ exists = {} /\ entDur = {} /\ termd = {} /\ ghosts = {} /\ live = {}
  /\ metaV = <<[files |-> {}, op |-> 0]>> /\ metaDur = 0
  /\ manV = <<{}>> /\ manDur = 0

Create(p) ==
  /\ p \notin exists
  /\ exists' = exists \cup {p} /\ live' = live \cup {p}
  /\ ghosts' = ghosts \ {p} /\ entDur' = entDur \ {p} /\ termd' = termd \ {p}
  /\ UNCHANGED <<metaV, metaDur, manV, manDur>>
Terminate(p) ==
  /\ termd' = IF p \in exists THEN termd \cup {p} ELSE termd
  /\ UNCHANGED <<exists, entDur, ghosts, live, metaV, metaDur, manV, manDur>>
DropWriter(p) ==
  /\ live' = live \ {p}
  /\ UNCHANGED <<exists, entDur, termd, ghosts, metaV, metaDur, manV, manDur>>
Delete(p) ==
  /\ p \in exists
  /\ exists' = exists \ {p}
  /\ ghosts' = IF p \in entDur THEN ghosts \cup {p} ELSE ghosts
  /\ entDur' = IF p \in entDur THEN entDur ELSE entDur \ {p}
  /\ UNCHANGED <<termd, live, metaV, metaDur, manV, manDur>>
SyncDir ==
  /\ entDur' = exists /\ ghosts' = {}
  /\ metaDur' = Len(metaV) /\ manDur' = Len(manV)
  /\ UNCHANGED <<exists, termd, live, metaV, manV>>
AWriteMeta(files, op) ==
  /\ metaV' = Append(metaV, [files |-> files, op |-> op])
  /\ UNCHANGED <<exists, entDur, termd, ghosts, live, metaDur, manV, manDur>>
AWriteMan(files) ==
  /\ manV' = Append(manV, files)
  /\ UNCHANGED <<exists, entDur, termd, ghosts, live, metaV, metaDur, manDur>>

(* ------------------------- what a crash may leave ------------------------- *)
Lo(d) == IF d = 0 THEN 1 ELSE d       \* version 1 is the file written at index creation
PresenceChoices == {P \in SUBSET (exists \cup ghosts) : (exists \cap entDur) \subseteq P}
Images == {[present |-> P, mv |-> i, wv |-> j] :
             P \in PresenceChoices, i \in Lo(metaDur)..Len(metaV), j \in Lo(manDur)..Len(manV)}
Recoverable(img) == \A p \in metaV[img.mv].files : p \in img.present /\ p \in termd
NoUnmanagedOrphan(img) == \A p \in img.present : p \in metaV[img.mv].files \/ p \in manV[img.wv]

\* C01 (3)(4): whatever the crash leaves, every file the surviving meta.json references is there,
\* complete.  Quantifies over the power set: model checking only.
CrashSafeAll == \A img \in Images : Recoverable(img)
CrashNoOrphanAll == \A img \in Images : NoUnmanagedOrphan(img)

\* linear characterisations, used on long traces (MC_Storage checks they coincide)
DefinitelyThere(p) == p \in exists /\ p \in entDur /\ p \in termd
CrashSafe == \A i \in Lo(metaDur)..Len(metaV) : \A p \in metaV[i].files : DefinitelyThere(p)
MayBePresent == exists \cup ghosts
InAllMeta(p) == \A i \in Lo(metaDur)..Len(metaV) : p \in metaV[i].files
InAllMan(p) == \A j \in Lo(manDur)..Len(manV) : p \in manV[j]
CrashNoOrphan == \A p \in MayBePresent : InAllMeta(p) \/ InAllMan(p)
\* the recorded class F4: the file IS registered in the visible managed list, the registration is
\* just not durable yet (register-before-create without a directory sync)
OrphanIsF4Class == \A p \in MayBePresent : InAllMeta(p) \/ InAllMan(p) \/ p \in manV[Len(manV)]
LemmaSafe == CrashSafeAll <=> CrashSafe
LemmaOrphan == CrashNoOrphanAll <=> CrashNoOrphan
=============================================================================
