SPECIFICATION Spec
CONSTANTS
  MaxGen = 4
  GcWhenKilled = TRUE
INVARIANT DiskReadable
INVARIANT RegistersMatchDisk
CHECK_DEADLOCK FALSE
