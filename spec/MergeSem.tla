------------------------------ MODULE MergeSem ------------------------------
(* The merge as a function from source segments to the merged segment (C04).               *)
(* A segment dump is a record [docs, terms_t, terms_body, max_doc, ndel]; docs is the list   *)
(* of [alive, v, rec] in document-id order, where rec gathers everything attached to the     *)
(* document: id, stored fields, fast-field values, field-norm ids and its token lists with   *)
(* frequencies and positions (recovered by inverting the segment's postings).                *)
EXTENDS Naturals, Integers, Sequences, FiniteSets

RECURSIVE ConcatSeqs(_)
ConcatSeqs(ss) == IF ss = <<>> THEN <<>> ELSE Head(ss) \o ConcatSeqs(Tail(ss))

LiveDocs(seg) == SelectSeq(seg.docs, LAMBDA d : d.alive)
\* stacked merge: the live documents of the sources, in source order
Stacked(sources) == ConcatSeqs([i \in 1..Len(sources) |-> LiveDocs(sources[i])])
Recs(docs) == [i \in 1..Len(docs) |-> docs[i].rec]
RecSet(docs) == {docs[i].rec : i \in 1..Len(docs)}

SortedBy(docs, dir) ==
  \A i \in 1..(Len(docs) - 1) :
     IF dir = "v_asc" THEN docs[i].v <= docs[i+1].v ELSE docs[i].v >= docs[i+1].v

\* the merged documents: exactly the live documents of the sources with everything attached,
\* in source order (or in sort order for a sorted index)
DocsOk(sources, merged, sorted) ==
  LET exp == Stacked(sources) IN
  /\ Len(merged.docs) = Len(exp)
  /\ \A i \in 1..Len(merged.docs) : merged.docs[i].alive
  /\ IF sorted = "" THEN Recs(merged.docs) = Recs(exp)
     ELSE /\ RecSet(merged.docs) = RecSet(exp)
          /\ Cardinality(RecSet(merged.docs)) = Len(merged.docs)
          /\ SortedBy(merged.docs, sorted)

\* byte-wise order of terms (sent as lists of byte values)
RECURSIVE LexLess(_, _)
LexLess(a, b) ==
  IF a = <<>> THEN b # <<>>
  ELSE IF b = <<>> THEN FALSE
  ELSE IF Head(a) # Head(b) THEN Head(a) < Head(b)
  ELSE LexLess(Tail(a), Tail(b))

\* the term dictionary of a field of the merged segment: exactly the terms of its documents, in
\* byte order, each with the number of documents that contain it
TermsOf(docs, toks(_)) == UNION {{toks(docs[i].rec)[j][1] : j \in 1..Len(toks(docs[i].rec))} : i \in 1..Len(docs)}
DocFreq(docs, toks(_), term) == Cardinality({i \in 1..Len(docs) : \E j \in 1..Len(toks(docs[i].rec)) : toks(docs[i].rec)[j][1] = term})
TermsOk(tlist, docs, toks(_)) ==
  /\ {tlist[k][1] : k \in 1..Len(tlist)} = TermsOf(docs, toks)
  /\ {k \in 1..Len(tlist) : tlist[k][3] # DocFreq(docs, toks, tlist[k][1]) \/ tlist[k][4] # tlist[k][3]} = {}
  /\ {k \in 1..(Len(tlist) - 1) : ~LexLess(tlist[k][2], tlist[k+1][2])} = {}

MergedOk(sources, merged, sorted) ==
  /\ DocsOk(sources, merged, sorted)
  /\ merged.max_doc = Len(merged.docs) /\ merged.ndel = 0
  /\ TermsOk(merged.terms_t, merged.docs, LAMBDA r : r.toks_t)
  /\ TermsOk(merged.terms_body, merged.docs, LAMBDA r : r.toks_body)
=============================================================================
