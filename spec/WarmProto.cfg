SPECIFICATION FairSpec
CONSTANTS
  MaxGen = 4
  Users = {u1, u2}
  GcUnderMutex = TRUE
INVARIANT PublishedIsWarmed
INVARIANT NeverDiscardHeld
INVARIANT InventoryExact
PROPERTY EventuallyCollected
CHECK_DEADLOCK FALSE
