------------------------------ MODULE Bm25Struct ------------------------------
(* C12 - relevance scores are BM25 over the SEARCHER's statistics; explain agrees.             *)
(*                                                                                             *)
(* TLA+ has no floating point, and the f32 arithmetic is not what this module decides.  It     *)
(* decides the STRUCTURE of a score: which integers (statistics, term frequency, field-norm    *)
(* id) and which clauses enter the score of (query, document), as a symbolic term              *)
(*    bm25(N, T, <<n(t1), ..>>, tf, normId, boosts) | const(c, boosts) | sum(..) | dismax(..)  *)
(* The harness evaluates that term with a small trusted f32 kernel; the trace specification    *)
(* (Bm25StructTrace) checks that the term the harness evaluated IS the one defined here, that  *)
(* every integer in it is what the logged corpus implies, and that all observation paths       *)
(* (TopDocs for several K, a scoring collector, explain, one segment vs many) agree with it -  *)
(* bit for bit when a single scoring clause matched, within a rounding bound (on the integer   *)
(* bit patterns) when several did.                                                             *)
(*                                                                                             *)
(* Statistics (src/query/bm25.rs, impl Bm25StatisticsProvider for Searcher):                   *)
(*    N    = sum over the searcher's segments of max_doc   (deleted documents still count)     *)
(*    n(t) = sum over the segments of doc_freq(t)          (deleted documents still count)     *)
(*    T    = sum over the segments of total_num_tokens     (un-quantised lengths)              *)
(* average field length = T / N.  A phrase is ONE scoring clause: its tf is the phrase         *)
(* frequency, its idf the sum of the idf of its terms (Bm25Weight::for_terms).                 *)
(* The state machine (commit / delete / merge of tiny corpora) is model checked for the        *)
(* segmentation independence of the statistics and of the symbolic score (MC_Bm25Struct).      *)
EXTENDS Naturals, Integers, Sequences, FiniteSets

CONSTANTS
  Words,            \* vocabulary of the model
  MaxLen,           \* documents of the model: sequences over Words of length 0..MaxLen
  Pads,             \* .. followed by p filler tokens, p \in Pads
  MaxDocs,          \* documents added in one behaviour
  AllowDeletes,     \* deletes (and merges that purge them) are part of the model
  PerSegmentStats,  \* NEGATIVE switch: score with the statistics of the document's own segment
  Queries,          \* query trees the invariants quantify over
  Table             \* field-norm table of the model (strictly increasing, Table[1] = 0)

Filler == "z"   \* the text of a document is its toks followed by `pad` copies of Filler

SeqToSet(s) == {s[i] : i \in DOMAIN s}
RECURSIVE SumSeq(_)
SumSeq(s) == IF s = <<>> THEN 0 ELSE Head(s) + SumSeq(Tail(s))
Min(a, b) == IF a <= b THEN a ELSE b
Max(a, b) == IF a >= b THEN a ELSE b

-----------------------------------------------------------------------------
(* documents *)
DocLen(d) == Len(d.toks) + d.pad
Tf(d, w) == Cardinality({i \in DOMAIN d.toks : d.toks[i] = w}) + (IF w = Filler THEN d.pad ELSE 0)
\* number of positions at which the words ws occur consecutively (ws without Filler)
PhraseTf(d, ws) ==
  Cardinality({i \in 1..(Len(d.toks) - Len(ws) + 1) : \A j \in DOMAIN ws : d.toks[i + j - 1] = ws[j]})

(* quantised length: id = the largest i (0-based) with tab[i] <= len *)
RECURSIVE NormIdIn(_, _, _, _)
NormIdIn(tab, len, lo, hi) ==     \* tab[lo] <= len, (hi = Len(tab)+1 or tab[hi] > len)
  IF hi - lo <= 1 THEN lo - 1
  ELSE LET mid == (lo + hi) \div 2 IN
       IF tab[mid] <= len THEN NormIdIn(tab, len, mid, hi) ELSE NormIdIn(tab, len, lo, mid)
NormId(tab, len) == NormIdIn(tab, len, 1, Len(tab) + 1)
NormIdSpec(tab, len) ==
  CHOOSE i \in 0..(Len(tab) - 1) : tab[i + 1] <= len /\ (i = Len(tab) - 1 \/ tab[i + 2] > len)

-----------------------------------------------------------------------------
(* statistics: a segment is a sequence of documents (deleted ones included) *)
SegN(seg) == Len(seg)
SegT(seg) == SumSeq([i \in DOMAIN seg |-> DocLen(seg[i])])
SegDf(seg, w) == Cardinality({i \in DOMAIN seg : Tf(seg[i], w) > 0})
Stats(sgs, words) ==
  [N |-> SumSeq([s \in DOMAIN sgs |-> SegN(sgs[s])]),
   T |-> SumSeq([s \in DOMAIN sgs |-> SegT(sgs[s])]),
   n |-> [w \in words |-> SumSeq([s \in DOMAIN sgs |-> SegDf(sgs[s], w)])]]

(* total_num_tokens of a segment produced by a MERGE (src/indexer/merger.rs,                    *)
(* estimate_total_num_tokens): a source segment without deleted documents contributes its      *)
(* stored value - the exact count when it was never merged; a source segment WITH deleted       *)
(* documents contributes "an approximation by using the fieldnorm": the quantised lengths of    *)
(* its living documents.  So without deletes the merged value is exact; with deletes it lies    *)
(* between the quantised and the exact number of living tokens.  src = sequence of              *)
(* [doc, alive] entries as in the state machine below.                                          *)
QuantLen(tab, d) == tab[NormId(tab, DocLen(d)) + 1]
LivingTokens(src) == SumSeq([i \in DOMAIN src |-> IF src[i].alive THEN DocLen(src[i].doc) ELSE 0])
LivingQuantTokens(tab, src) == SumSeq([i \in DOMAIN src |-> IF src[i].alive THEN QuantLen(tab, src[i].doc) ELSE 0])
HasDeletes(src) == \E i \in DOMAIN src : ~src[i].alive
MergedTLower(tab, srcs) ==
  SumSeq([k \in DOMAIN srcs |-> IF HasDeletes(srcs[k]) THEN LivingQuantTokens(tab, srcs[k]) ELSE LivingTokens(srcs[k])])
MergedTUpper(srcs) == SumSeq([k \in DOMAIN srcs |-> LivingTokens(srcs[k])])

-----------------------------------------------------------------------------
(* queries:  [k |-> "term", w] | [k |-> "phrase", ws] | [k |-> "bool", cl |-> <<[o, q]..>>]     *)
(*           [k |-> "boost", b, q] | [k |-> "const", c, q] | [k |-> "dismax", tie, qs]          *)
(* floats (b, c, tie) are opaque here: pairs of 16-bit words of their f32 bit pattern.          *)
(* A term / phrase leaf names its field (f; "body" when absent).  The general operators are     *)
(* over MULTI-FIELD documents - a record field |-> [toks, pad] - with per-field statistics       *)
(*    st = [N, T |-> [f |-> tokens of field f], n |-> [f |-> [w |-> doc_freq of w in field f]]]   *)
(* and per-field field-norm ids fn = [f |-> id]: N is per searcher; T, n(t), tf and the          *)
(* quantised length are those of the leaf's OWN field.  The single-field operators below are     *)
(* the instance with the one field "body".                                                       *)
Fld(q) == IF "f" \in DOMAIN q THEN q.f ELSE "body"

RECURSIVE MatchesF(_, _)
MatchesF(q, d) ==
  CASE q.k = "term" -> Tf(d[Fld(q)], q.w) > 0
    [] q.k = "phrase" -> PhraseTf(d[Fld(q)], q.ws) > 0
    [] q.k = "boost" -> MatchesF(q.q, d)
    [] q.k = "const" -> MatchesF(q.q, d)
    [] q.k = "dismax" -> \E i \in DOMAIN q.qs : MatchesF(q.qs[i], d)
    [] q.k = "bool" ->
         LET m == [i \in DOMAIN q.cl |-> MatchesF(q.cl[i].q, d)] IN
         /\ \A i \in DOMAIN q.cl : q.cl[i].o = "must" => m[i]
         /\ \A i \in DOMAIN q.cl : q.cl[i].o = "mustnot" => ~m[i]
         /\ \/ \E i \in DOMAIN q.cl : q.cl[i].o = "must"
            \/ \E i \in DOMAIN q.cl : q.cl[i].o = "should" /\ m[i]

None == [k |-> "none"]
IsSome(t) == t.k # "none"

(* The symbolic score of document d (field-norm ids fn) for query q under statistics st;        *)
(* bs = the boosts on the path from the root, outermost first (BoostWeight hands boost*b down   *)
(* to the leaves; a boolean hands its boost to every clause).  One matching clause: the clause  *)
(* itself (0.0 + s = s, and max + (s - s) * tie = s exactly).                                   *)
RECURSIVE ScoreTermF(_, _, _, _, _)
ScoreTermF(q, d, st, bs, fn) ==
  CASE q.k = "term" ->
         LET f == Fld(q) IN
         IF Tf(d[f], q.w) = 0 THEN None
         ELSE [k |-> "bm25", N |-> st.N, T |-> st.T[f], ns |-> <<st.n[f][q.w]>>, tf |-> Tf(d[f], q.w),
               fn |-> fn[f], boosts |-> bs]
    [] q.k = "phrase" ->
         LET f == Fld(q) IN
         IF PhraseTf(d[f], q.ws) = 0 THEN None
         ELSE [k |-> "bm25", N |-> st.N, T |-> st.T[f], ns |-> [i \in DOMAIN q.ws |-> st.n[f][q.ws[i]]],
               tf |-> PhraseTf(d[f], q.ws), fn |-> fn[f], boosts |-> bs]
    [] q.k = "boost" -> ScoreTermF(q.q, d, st, Append(bs, q.b), fn)
    [] q.k = "const" ->
         IF MatchesF(q.q, d) THEN [k |-> "const", c |-> q.c, boosts |-> bs] ELSE None
    [] q.k = "dismax" ->
         LET sub == [i \in DOMAIN q.qs |-> ScoreTermF(q.qs[i], d, st, bs, fn)]
             args == SelectSeq(sub, IsSome)
         IN  IF args = <<>> THEN None
             ELSE IF Len(args) = 1 THEN args[1]
             ELSE [k |-> "dismax", tie |-> q.tie, args |-> args]
    [] q.k = "bool" ->
         LET sub == [i \in DOMAIN q.cl |-> ScoreTermF(q.cl[i].q, d, st, bs, fn)]
             inc == [i \in DOMAIN q.cl |-> IF q.cl[i].o = "mustnot" THEN None ELSE sub[i]]
             args == SelectSeq(inc, IsSome)    \* the matching scoring clauses, in clause order
             ok == /\ \A i \in DOMAIN q.cl : q.cl[i].o = "must" => IsSome(sub[i])
                   /\ \A i \in DOMAIN q.cl : q.cl[i].o = "mustnot" => ~IsSome(sub[i])
                   /\ \/ \E i \in DOMAIN q.cl : q.cl[i].o = "must"
                      \/ \E i \in DOMAIN q.cl : q.cl[i].o = "should" /\ IsSome(sub[i])
         IN  IF ~ok THEN None
             ELSE IF Len(args) = 1 THEN args[1]
             ELSE [k |-> "sum", args |-> args]

\* per-field statistics of segments of multi-field documents
FieldView(seg, f) == [i \in DOMAIN seg |-> seg[i][f]]
StatsF(sgs, fields, words) ==
  [N |-> SumSeq([s \in DOMAIN sgs |-> SegN(sgs[s])]),
   T |-> [f \in fields |-> SumSeq([s \in DOMAIN sgs |-> SegT(FieldView(sgs[s], f))])],
   n |-> [f \in fields |-> [w \in words |-> SumSeq([s \in DOMAIN sgs |-> SegDf(FieldView(sgs[s], f), w)])]]]

\* the single-field instance (field "body"): d = [toks, pad], st = [N, T, n |-> [w |-> ..]], one field-norm id
Matches(q, d) == MatchesF(q, [body |-> d])
ScoreTerm(q, d, st, bs, fnid) ==
  ScoreTermF(q, [body |-> d], [N |-> st.N, T |-> [body |-> st.T], n |-> [body |-> st.n]], bs, [body |-> fnid])

RECURSIVE Leaves(_)
Leaves(t) == IF t.k \in {"bm25", "const"} THEN 1 ELSE SumSeq([i \in DOMAIN t.args |-> Leaves(t.args[i])])
RECURSIVE NumBoosts(_)
NumBoosts(t) == IF t.k \in {"bm25", "const"} THEN Len(t.boosts)
                ELSE SumSeq([i \in DOMAIN t.args |-> NumBoosts(t.args[i])])
RECURSIVE HasDismax(_)
HasDismax(t) == IF t.k \in {"bm25", "const"} THEN FALSE
                ELSE t.k = "dismax" \/ \E i \in DOMAIN t.args : HasDismax(t.args[i])
Boosted(t) == NumBoosts(t) > 0
(* f32 addition and max are commutative, not associative: a sum / dis-max node over at most two *)
(* matching clauses has one value whatever the order in which the scorers are visited; with    *)
(* three or more the order decides the rounding, and the order depends on the content of the   *)
(* segment (BufferedUnionScorer swap-removes exhausted scorers, Intersection sorts by cost,    *)
(* block-WAND sorts by current document).                                                      *)
RECURSIVE OrderFree(_)
OrderFree(t) == IF t.k \in {"bm25", "const"} THEN TRUE
                ELSE Len(t.args) <= 2 /\ \A i \in DOMAIN t.args : OrderFree(t.args[i])

(* Rounding bound, in units in the last place of the result, between two f32 evaluations of the *)
(* same term that differ in the order of the additions and in the place where a boost is        *)
(* multiplied in (each operation is off by at most half an ulp of a partial result that is not  *)
(* larger than the total; `sum - max` of a dis-max cancels, so its absolute error counts in     *)
(* ulps of a result that may be a few binades smaller).  Not a numeric claim of this module -   *)
(* just the tolerance the property statement allows ("up to floating-point rounding of the      *)
(* sum"); a wrong statistic or clause is off by millions of ulps.                               *)
Tol(t) == 4 * (Leaves(t) + NumBoosts(t)) * (IF HasDismax(t) THEN 4 ELSE 1)

(* positive finite f32 bit patterns are order preserving integers; s = [hi, lo] 16-bit words *)
IsPosFinite(s) == s.hi \in 0..32639 /\ s.lo \in 0..65535
SameBits(a, b) == a.hi = b.hi /\ a.lo = b.lo
Within(a, b, tol) ==
  /\ a.hi - b.hi \in {-1, 0, 1}
  /\ LET d == (a.hi - b.hi) * 65536 + (a.lo - b.lo) IN d <= tol /\ -d <= tol

-----------------------------------------------------------------------------
(* State machine: an index as a sequence of segments of (document, alive) entries.             *)
VARIABLES segs, added, deleted
vars == <<segs, added, deleted>>

DocUniverse ==
  {[toks |-> t, pad |-> p] : t \in UNION {[1..n -> Words] : n \in 0..MaxLen}, p \in Pads}

SeqsUpTo(S, n) == UNION {[1..k -> S] : k \in 0..n}

Init == segs = <<>> /\ added = <<>> /\ deleted = FALSE

\* add the documents ds and commit: one new segment
Commit(ds) ==
  /\ ds # <<>> /\ Len(added) + Len(ds) <= MaxDocs
  /\ segs' = Append(segs, [i \in DOMAIN ds |-> [doc |-> ds[i], alive |-> TRUE]])
  /\ added' = added \o ds
  /\ UNCHANGED deleted

RemoveAt(s, i) == [j \in 1..(Len(s) - 1) |-> IF j < i THEN s[j] ELSE s[j + 1]]
AllDead(seg) == \A i \in DOMAIN seg : ~seg[i].alive

\* delete one document and commit; a segment without a living document is dropped
Delete(s, i) ==
  /\ AllowDeletes /\ s \in DOMAIN segs /\ i \in DOMAIN segs[s] /\ segs[s][i].alive
  /\ LET seg == [segs[s] EXCEPT ![i].alive = FALSE] IN
     segs' = IF AllDead(seg) THEN RemoveAt(segs, s) ELSE [segs EXCEPT ![s] = seg]
  /\ deleted' = TRUE
  /\ UNCHANGED added

\* merge two segments: the living documents of both, in order; deleted ones are purged
Alive(seg) == SelectSeq(seg, LAMBDA e : e.alive)
Merge(s1, s2) ==
  /\ s1 \in DOMAIN segs /\ s2 \in DOMAIN segs /\ s1 < s2
  /\ segs' = Append(RemoveAt(RemoveAt(segs, s2), s1), Alive(segs[s1]) \o Alive(segs[s2]))
  /\ UNCHANGED <<added, deleted>>

Next ==
  \/ \E ds \in SeqsUpTo(DocUniverse, MaxDocs) : Commit(ds)
  \/ \E s \in DOMAIN segs : \E i \in DOMAIN segs[s] : Delete(s, i)
  \/ \E s1, s2 \in DOMAIN segs : Merge(s1, s2)

Spec == Init /\ [][Next]_vars

DocsOf(seg) == [i \in DOMAIN seg |-> seg[i].doc]
SearcherStats == Stats([s \in DOMAIN segs |-> DocsOf(segs[s])], Words)
OneSegmentStats == Stats(<<added>>, Words)       \* the same documents indexed as one segment
\* the statistics a document of segment s is scored with
ScoringStats(s) == IF PerSegmentStats THEN Stats(<<DocsOf(segs[s])>>, Words) ELSE SearcherStats
Fn(d) == NormId(Table, DocLen(d))

(* --- invariants ---------------------------------------------------------------------------- *)
\* N, n(t), T summed per segment are those of the whole corpus (no deletes)
StatsSegmentationIndependent == ~deleted => SearcherStats = OneSegmentStats
\* .. and so is the symbolic score of every (query, document)
ScoreSegmentationIndependent ==
  ~deleted =>
    \A q \in Queries : \A s \in DOMAIN segs : \A i \in DOMAIN segs[s] :
      LET d == segs[s][i].doc IN
      ScoreTerm(q, d, ScoringStats(s), <<>>, Fn(d)) = ScoreTerm(q, d, OneSegmentStats, <<>>, Fn(d))
\* NEGATIVE: the same claim without the "no deletes" guard fails once a merge has purged a delete
ScoreSegmentationIndependentEvenWithDeletes ==
  \A q \in Queries : \A s \in DOMAIN segs : \A i \in DOMAIN segs[s] :
    LET d == segs[s][i].doc IN
    ScoreTerm(q, d, ScoringStats(s), <<>>, Fn(d)) = ScoreTerm(q, d, OneSegmentStats, <<>>, Fn(d))
\* deleted documents still count until a merge purges them
DeletedStillCounted ==
  SearcherStats.N = SumSeq([s \in DOMAIN segs |-> Len(segs[s])])
  /\ SearcherStats.N >= SumSeq([s \in DOMAIN segs |-> Len(Alive(segs[s]))])
\* a document has a score exactly if it matches; one matching clause = that clause, no sum node
TermIffMatches ==
  \A q \in Queries : \A s \in DOMAIN segs : \A i \in DOMAIN segs[s] :
    LET d == segs[s][i].doc
        t == ScoreTerm(q, d, SearcherStats, <<>>, Fn(d))
    IN  /\ IsSome(t) <=> Matches(q, d)
        /\ IsSome(t) => /\ Leaves(t) >= 1
                        /\ (t.k \in {"sum", "dismax"} => Len(t.args) >= 2)
\* every statistic inside a score term is a statistic of the searcher, never of one segment
RECURSIVE TermStatsAre(_, _)
TermStatsAre(t, st) ==
  CASE t.k = "bm25" -> t.N = st.N /\ t.T = st.T /\ \A j \in DOMAIN t.ns : \E w \in Words : t.ns[j] = st.n[w]
    [] t.k = "const" -> TRUE
    [] OTHER -> \A j \in DOMAIN t.args : TermStatsAre(t.args[j], st)
ScoresUseSearcherStats ==
  \A q \in Queries : \A s \in DOMAIN segs : \A i \in DOMAIN segs[s] :
    LET d == segs[s][i].doc
        t == ScoreTerm(q, d, ScoringStats(s), <<>>, Fn(d))
    IN  IsSome(t) => TermStatsAre(t, SearcherStats)
\* the documented estimate of a merge never exceeds the exact count, and is exact without deletes
MergeEstimateBounds ==
  \A s \in DOMAIN segs :
    /\ MergedTLower(Table, <<segs[s]>>) <= MergedTUpper(<<segs[s]>>)
    /\ (~HasDeletes(segs[s]) => MergedTLower(Table, <<segs[s]>>) = SegT([i \in DOMAIN segs[s] |-> segs[s][i].doc]))
\* the binary search is the definition
NormIdIsLargestNotAbove == \A len \in 0..(Table[Len(Table)] + 2) : NormId(Table, len) = NormIdSpec(Table, len)
=============================================================================
