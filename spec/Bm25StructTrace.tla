------------------------------ MODULE Bm25StructTrace ------------------------------
(* Trace specification of C12: the judge of what harness/src/bin/bm25_driver.rs recorded.     *)
(* Events: table (the 256-entry field-norm table, once), reset (a case: documents, cuts,      *)
(* deletes), index (what the segment readers of one index say), query (one query on the       *)
(* many-segment and on the one-segment index: statistics handed out by the searcher, and per   *)
(* matching document tf / field-norm id / symbolic term fed to the kernel / score bits from    *)
(* the kernel, a scoring collector, explain, TopDocs for several K).                           *)
(* Everything is recomputed from the logged documents with the operators of Bm25Struct.        *)
EXTENDS Bm25Struct, Json, IOUtils, TLC

CONSTANT StrictBoostedExplain   \* TRUE: explain of a boosted single clause must be bit-exact (F17)

Rec == ndJsonDeserialize(IOEnv.TRACE)
TraceTable == <<0>>   \* the model's table is not used here: the real one arrives in the trace

VARIABLES
  l,     \* next line of the trace
  tab,   \* the quantisation table (certificate, checked when it is logged)
  cs,    \* the case: [docs, cuts, dels, vocab, fn (expected field-norm id per document)]
  ix     \* per index ("multi", "single"): [ok, st (searcher statistics), alive (living doc ids)]

tvars == <<l, tab, cs, ix>>
Ev == Rec[l]

\* a failed check says why (the text classifies the rejection for lib/props/c12.py)
\* (IF, not \/: inside an action TLC would explore both disjuncts)
Chk(cond, why) == IF cond THEN TRUE ELSE ~PrintT(<<"WHY", l, why>>)

NoIndex == [ok |-> FALSE, st |-> [N |-> 0, T |-> 0, n |-> <<>>], alive |-> {}, segs |-> {}]
NoCase == [docs |-> <<>>, cuts |-> <<>>, dels |-> {}, vocab |-> {}, fields |-> {}, fn |-> <<>>]

TTable ==
  /\ Ev.ev = "table"
  /\ Chk(Len(Ev.tab) = 256 /\ Ev.tab[1] = 0, "table: 256 entries starting at 0")
  /\ Chk(\A i \in 1..255 : Ev.tab[i] < Ev.tab[i + 1], "table: strictly increasing")
  /\ Chk(\A i \in 1..41 : Ev.tab[i] = i - 1, "table: lengths 0..40 are exact")
  /\ tab' = Ev.tab
  /\ UNCHANGED <<cs, ix>>

TReset ==
  /\ Ev.ev = "reset"
  /\ Len(tab) = 256
  /\ Ev.filler = Filler /\ Filler \notin SeqToSet(Ev.vocab)
  \* a document is a record field |-> [toks, pad] over the scored text fields of the case
  /\ Ev.fields # <<>>
  /\ {i \in DOMAIN Ev.docs : {f \in SeqToSet(Ev.fields) : ~(SeqToSet(Ev.docs[i][f].toks) \subseteq SeqToSet(Ev.vocab) /\ Ev.docs[i][f].pad >= 0)} # {}} = {}
  /\ SumSeq(Ev.cuts) = Len(Ev.docs) /\ \A i \in DOMAIN Ev.cuts : Ev.cuts[i] >= 1
  /\ SeqToSet(Ev.dels) \subseteq DOMAIN Ev.docs
  /\ cs' = [docs |-> Ev.docs, cuts |-> Ev.cuts, dels |-> SeqToSet(Ev.dels), vocab |-> SeqToSet(Ev.vocab), fields |-> SeqToSet(Ev.fields),
            fn |-> [i \in DOMAIN Ev.docs |-> [f \in SeqToSet(Ev.fields) |-> NormId(tab, DocLen(Ev.docs[i][f]))]]]
  /\ ix' = [multi |-> NoIndex, single |-> NoIndex, merged |-> NoIndex]
  /\ UNCHANGED tab

SegDocs(s) == [i \in DOMAIN s.docs |-> cs.docs[s.docs[i]]]

SegCommonOk(s, sd) ==
  /\ Chk(s.max_doc = Len(s.docs), "segment: max_doc")
  /\ Chk(\A f \in cs.fields : \A w \in cs.vocab : s.df[f][w] = SegDf(FieldView(sd, f), w), "segment: doc_freq")
  /\ Chk(\A f \in cs.fields : \A i \in DOMAIN s.docs : s.fnids[f][i] = cs.fn[s.docs[i]][f], "segment: fieldnorm id is the largest table entry <= length")
  /\ Chk(\A f \in cs.fields : \A i \in DOMAIN s.docs : s.fns[f][i] = tab[s.fnids[f][i] + 1], "segment: fieldnorm = table[id]")

\* a segment written by the indexer
SegOk(s) ==
  LET sd == SegDocs(s) IN
  /\ SegCommonOk(s, sd)
  /\ Chk(SeqToSet(s.dead) = SeqToSet(s.docs) \cap cs.dels /\ Len(s.dead) = Cardinality(SeqToSet(s.dead)), "segment: deleted documents")
  /\ Chk(s.num_docs = s.max_doc - Len(s.dead), "segment: num_docs")
  /\ Chk(\A f \in cs.fields : s.T[f] = SegT(FieldView(sd, f)), "segment: total_num_tokens")

\* a segment produced by merging the segments srcs (sequences of document ids, deleted ones included):
\* the living documents of the sources in order, deletes purged, doc_freq exact, total_num_tokens
\* exact when no source had deletes and within the documented estimate otherwise (Bm25Struct)
AliveIds(src) == SelectSeq(src, LAMBDA d : d \notin cs.dels)
RECURSIVE Concat(_)
Concat(ss) == IF ss = <<>> THEN <<>> ELSE Head(ss) \o Concat(Tail(ss))
SrcEntries(src, f) == [i \in DOMAIN src |-> [doc |-> cs.docs[src[i]][f], alive |-> src[i] \notin cs.dels]]
MergedSegOk(s, srcs) ==
  LET sd == SegDocs(s)
      entries(f) == [k \in DOMAIN srcs |-> SrcEntries(srcs[k], f)]
  IN  /\ Chk(s.docs = Concat([k \in DOMAIN srcs |-> AliveIds(srcs[k])]), "merge: the merged segment is not the living documents of its sources")
      /\ SegCommonOk(s, sd)
      /\ Chk(s.dead = <<>> /\ s.num_docs = s.max_doc, "merge: deleted documents were not purged")
      /\ IF \A k \in DOMAIN srcs : SeqToSet(srcs[k]) \cap cs.dels = {}
            THEN Chk(\A f \in cs.fields : s.T[f] = SegT(FieldView(sd, f)), "merge: total_num_tokens of the merged segment is not the exact token count (no deletes)")
          ELSE Chk(\A f \in cs.fields : MergedTLower(tab, entries(f)) <= s.T[f] /\ s.T[f] <= MergedTUpper(entries(f)),
                   "merge: total_num_tokens outside the documented estimate (deletes)")

\* The segments of an index partition the corpus into runs of consecutive documents (the cuts of
\* the case say where the harness committed; the writer may flush more often, which the property
\* does not care about).  A document is missing only if it was deleted (a segment without a
\* living document is dropped).
TIndex ==
  /\ Ev.ev = "index" /\ Ev.ix \in {"multi", "single"}
  /\ LET present == UNION {SeqToSet(Ev.segs[k].docs) : k \in DOMAIN Ev.segs}
     IN  /\ Chk(\A k \in DOMAIN Ev.segs : /\ Ev.segs[k].docs # <<>>
                                          /\ SeqToSet(Ev.segs[k].docs) \subseteq DOMAIN cs.docs
                                          /\ \A i \in 1..(Len(Ev.segs[k].docs) - 1) : Ev.segs[k].docs[i + 1] = Ev.segs[k].docs[i] + 1,
                "index: a segment is not a run of consecutive documents of the corpus")
         /\ Chk(Cardinality(present) = SumSeq([k \in DOMAIN Ev.segs |-> Len(Ev.segs[k].docs)]), "index: a document is in two segments")
         /\ Chk((DOMAIN cs.docs) \ present \subseteq cs.dels, "index: a living document is missing")
         /\ \A k \in DOMAIN Ev.segs : SegOk(Ev.segs[k])
         /\ ix' = [ix EXCEPT ![Ev.ix] =
                     [ok |-> TRUE,
                      st |-> StatsF([k \in DOMAIN Ev.segs |-> SegDocs(Ev.segs[k])], cs.fields, cs.vocab),
                      alive |-> present \ cs.dels,
                      segs |-> {Ev.segs[k].docs : k \in DOMAIN Ev.segs}]]
  /\ UNCHANGED <<tab, cs>>

\* the many-segment index after IndexWriter::merge of the segments Ev.srcs: one new segment, the
\* other segments untouched; the searcher statistics are the sums over what is there now
TMerged ==
  /\ Ev.ev = "index" /\ Ev.ix = "merged" /\ ix.multi.ok
  /\ LET srcset == SeqToSet(Ev.srcs)
         mk == {k \in DOMAIN Ev.segs : "merged" \in DOMAIN Ev.segs[k]}
         rest == {Ev.segs[k].docs : k \in (DOMAIN Ev.segs) \ mk}
         present == UNION {SeqToSet(Ev.segs[k].docs) : k \in DOMAIN Ev.segs}
     IN  /\ Chk(Ev.srcs # <<>> /\ srcset \subseteq ix.multi.segs /\ Cardinality(srcset) = Len(Ev.srcs), "merge: the sources are not segments of the many-segment index")
         /\ Chk(Cardinality(mk) = 1, "merge: not exactly one merged segment")
         /\ Chk(rest = ix.multi.segs \ srcset /\ Cardinality(rest) = Len(Ev.segs) - 1, "merge: the segments that were not merged changed")
         /\ \A k \in DOMAIN Ev.segs : IF k \in mk THEN MergedSegOk(Ev.segs[k], Ev.srcs) ELSE SegOk(Ev.segs[k])
         /\ Chk(present \ cs.dels = ix.multi.alive, "merge: the living documents changed")
         /\ ix' = [ix EXCEPT !.merged =
                     [ok |-> TRUE,
                      st |-> [StatsF([k \in DOMAIN Ev.segs |-> SegDocs(Ev.segs[k])], cs.fields, cs.vocab)
                                EXCEPT !.T = [f \in cs.fields |-> SumSeq([k \in DOMAIN Ev.segs |-> Ev.segs[k].T[f]])]],
                      alive |-> present \ cs.dels,
                      segs |-> {}]]
  /\ UNCHANGED <<tab, cs>>

RECURSIVE QueryOk(_)
QueryOk(q) ==
  CASE q.k = "term" -> q.w \in cs.vocab /\ Fld(q) \in cs.fields
    [] q.k = "phrase" -> Len(q.ws) >= 2 /\ SeqToSet(q.ws) \subseteq cs.vocab /\ Fld(q) \in cs.fields
    [] q.k = "boost" -> IsPosFinite([hi |-> q.b[1], lo |-> q.b[2]]) /\ QueryOk(q.q)
    [] q.k = "const" -> IsPosFinite([hi |-> q.c[1], lo |-> q.c[2]]) /\ QueryOk(q.q)
    [] q.k = "dismax" -> /\ q.tie[1] \in 0..16256 /\ (q.tie[1] = 16256 => q.tie[2] = 0)   \* 0 <= tie <= 1
                         /\ \A i \in DOMAIN q.qs : QueryOk(q.qs[i])
    [] q.k = "bool" -> \A i \in DOMAIN q.cl : q.cl[i].o \in {"must", "should", "mustnot"} /\ QueryOk(q.cl[i].q)
    [] OTHER -> FALSE

\* two observations of the score of one document whose symbolic term is t
Agree(a, b, t) == IF Leaves(t) = 1 THEN SameBits(a, b) ELSE Within(a, b, Tol(t))

\* what every observed hit must satisfy once its symbolic term t is known
ScoresOk(h, t) ==
      /\ Chk(IsSome(t) /\ h.term = t, "hit: the kernel was not evaluated on the symbolic term of the specification")
      /\ Chk("kernel" \in DOMAIN h /\ IsPosFinite(h.kernel) /\ IsPosFinite(h.coll), "hit: scores are positive finite")
      /\ Chk(Agree(h.kernel, h.coll, t), "score: collector differs from BM25 over the searcher statistics")
      /\ Chk("expl_err" \notin DOMAIN h, "explain: error for a matching document")
      /\ IF "expl" \notin DOMAIN h THEN TRUE ELSE
            /\ Chk(IsPosFinite(h.expl), "explain: value is positive finite")
            /\ IF Leaves(t) = 1 /\ ~Boosted(t)
                 THEN Chk(SameBits(h.expl, h.coll), "explain: differs from score (single un-boosted clause)")
               ELSE IF Leaves(t) = 1 /\ StrictBoostedExplain
                 THEN Chk(SameBits(h.expl, h.coll), "explain: boosted explain differs from score (single boosted clause)")
               ELSE Chk(Within(h.expl, h.coll, Tol(t)), "explain: differs from score beyond rounding")

\* the single-field hit of the big cases
HitOkD(q, h, st, d, fnid) ==
  /\ Chk(\A w \in cs.vocab : h.tfs[w] = Tf(d, w), "hit: term frequencies")
  /\ Chk(h.fnid = fnid, "hit: fieldnorm id")
  /\ ScoresOk(h, ScoreTerm(q, d, st, <<>>, fnid))

\* the multi-field hit of the small cases: tf and field-norm id per field, the term over per-field statistics
HitOk(q, h, st) ==
  LET d == cs.docs[h.doc]
      fn == cs.fn[h.doc]
      t == ScoreTermF(q, d, st, <<>>, fn)
  IN  /\ Chk(\A f \in cs.fields : \A w \in cs.vocab : h.tfs[f][w] = Tf(d[f], w), "hit: term frequencies")
      /\ Chk(\A f \in cs.fields : h.fnid[f] = fn[f], "hit: fieldnorm id")
      /\ ScoresOk(h, t)

TopOk(q, t, hits) ==
  /\ Chk(Len(t.res) = Min(t.k, Len(hits)), "topdocs: number of results")
  /\ Chk(Cardinality({t.res[j].i : j \in DOMAIN t.res}) = Len(t.res), "topdocs: a document twice")
  /\ \A j \in DOMAIN t.res :
       LET x == t.res[j] IN
       /\ Chk(x.i \in DOMAIN hits /\ hits[x.i].doc = x.doc, "topdocs: document the collector did not see")
       /\ Chk(IsPosFinite(x.s) /\ Agree(x.s, hits[x.i].coll, hits[x.i].term),
              IF q.k = "dismax" THEN "topdocs: score differs from the collector's (top-level dismax)"
              ELSE "topdocs: score differs from the collector's")

RunOk(q, r) ==
  LET st == ix[r.ix].st IN
  /\ ix[r.ix].ok
  /\ Chk(r.N = st.N, "stats: total_num_docs is not the sum of max_doc over the segments")
  /\ Chk(\A f \in cs.fields : r.T[f] = st.T[f], "stats: total_num_tokens is not the sum over the segments")
  /\ Chk(\A f \in cs.fields : \A w \in cs.vocab : r.df[f][w] = st.n[f][w], "stats: doc_freq is not the sum over the segments")
  /\ Chk(\A i \in 1..(Len(r.hits) - 1) : r.hits[i].doc < r.hits[i + 1].doc, "hits: not sorted / duplicate")
  /\ Chk({r.hits[i].doc : i \in DOMAIN r.hits} = {d \in ix[r.ix].alive : MatchesF(q, cs.docs[d])},
         "hits: the matching documents are not those the query means")
  /\ \A i \in DOMAIN r.hits : HitOk(q, r.hits[i], st)
  /\ \A j \in DOMAIN r.tops : TopOk(q, r.tops[j], r.hits)

\* No deletes: the score of a document does not depend on the segmentation - many segments, one
\* segment, or some segments merged.  Same statistics and same per-document integers, so every
\* path must report the same bits, except that a sum / dis-max over >= 3 matching clauses may be
\* added up in a segment-dependent order (OrderFree, Bm25Struct).
Same(a, b, t) == IF OrderFree(t) THEN SameBits(a, b) ELSE Within(a, b, Tol(t))
CrossOk(a, b, what) ==
  IF cs.dels # {} THEN TRUE ELSE
    /\ Chk(Len(a.hits) = Len(b.hits), what \o ": different matching sets")
    /\ \A i \in DOMAIN a.hits :
         /\ Chk(a.hits[i].doc = b.hits[i].doc, what \o ": different matching sets")
         /\ Chk(Same(a.hits[i].coll, b.hits[i].coll, a.hits[i].term), what \o ": collector score depends on the segmentation")
         /\ Chk(IF "expl" \in DOMAIN a.hits[i] /\ "expl" \in DOMAIN b.hits[i]
                  THEN Same(a.hits[i].expl, b.hits[i].expl, a.hits[i].term) ELSE TRUE,
                what \o ": explain value depends on the segmentation")
    \* TopDocs with K >= number of matches lists every document in both
    /\ IF a.tops = <<>> \/ b.tops = <<>> THEN TRUE ELSE
         LET ta == a.tops[Len(a.tops)]
             tb == b.tops[Len(b.tops)]
         IN  Chk(\A x \in SeqToSet(ta.res) : \A y \in SeqToSet(tb.res) :
                   x.doc = y.doc => Same(x.s, y.s, a.hits[x.i].term),
                 what \o ": TopDocs score depends on the segmentation")

TQuery ==
  /\ Ev.ev = "query"
  /\ Chk(QueryOk(Ev.q), "query: malformed")
  /\ Len(Ev.runs) \in {2, 3} /\ Ev.runs[1].ix = "multi" /\ Ev.runs[2].ix = "single"
  /\ RunOk(Ev.q, Ev.runs[1])
  /\ RunOk(Ev.q, Ev.runs[2])
  /\ CrossOk(Ev.runs[1], Ev.runs[2], "segmentation")
  /\ IF Len(Ev.runs) = 2 THEN TRUE ELSE
       /\ Ev.runs[3].ix = "merged"
       /\ RunOk(Ev.q, Ev.runs[3])
       /\ CrossOk(Ev.runs[1], Ev.runs[3], "merge")
  /\ UNCHANGED <<tab, cs, ix>>

-----------------------------------------------------------------------------
(* Big cases: segments of several thousand small documents.  Document i has the shape          *)
(* shapes[pattern[(i-1) mod p + 1]], so N, n(t), T and the number of matches are sums of         *)
(* count * per-shape values - nothing here walks over the documents.  Per query the harness     *)
(* logs, per (segment, shape), the histogram of score bit patterns the collector and            *)
(* TopDocs(K >= all) produced, and the full observation for a sample of matching documents      *)
(* (first / last, around every 4096-document boundary of the segment, the TopDocs(10) results). *)
(* Rule added here: documents with identical field contents in one segment get one score        *)
(* (bit-identical; within the rounding bound when >= 3 clauses are summed, see OrderFree).       *)
BP == Len(cs.pattern)
BShapeIx(i) == cs.pattern[((i - 1) % BP) + 1]
\* number of documents of shape s among the ids 1..n, and among lo..hi
BCountUpTo(s, n) == (n \div BP) * Cardinality({j \in 1..BP : cs.pattern[j] = s})
                    + Cardinality({j \in 1..(n % BP) : cs.pattern[j] = s})
BCount(s, lo, hi) == BCountUpTo(s, hi) - BCountUpTo(s, lo - 1)
BShapes == DOMAIN cs.shapes

TBReset ==
  /\ Ev.ev = "breset"
  /\ UNCHANGED tab
  /\ Len(tab) = 256
  /\ Ev.filler = Filler /\ Filler \notin SeqToSet(Ev.vocab)
  /\ {i \in DOMAIN Ev.shapes : ~(SeqToSet(Ev.shapes[i].toks) \subseteq SeqToSet(Ev.vocab) /\ Ev.shapes[i].pad >= 0)} = {}
  /\ Ev.pattern # <<>> /\ SeqToSet(Ev.pattern) \subseteq DOMAIN Ev.shapes
  /\ Ev.nd >= 1
  /\ cs' = [big |-> TRUE, fields |-> {"body"}, shapes |-> Ev.shapes, pattern |-> Ev.pattern, nd |-> Ev.nd, vocab |-> SeqToSet(Ev.vocab),
            dels |-> {}, fn |-> [i \in DOMAIN Ev.shapes |-> NormId(tab, DocLen(Ev.shapes[i]))]]
  /\ ix' = [multi |-> NoIndex, single |-> NoIndex, merged |-> NoIndex]

\* c = the number of documents of every shape in the segment (computed once per segment: the pattern
\* may be as long as the corpus)
BSegCounts(sg) == [s \in BShapes |-> BCount(s, sg.first, sg.last)]
BSegT(c) == SumSeq([s \in BShapes |-> c[s] * DocLen(cs.shapes[s])])
BSegDf(c, w) == SumSeq([s \in BShapes |-> IF Tf(cs.shapes[s], w) > 0 THEN c[s] ELSE 0])

BSegOk(sg, c) ==
  /\ Chk(sg.consecutive /\ sg.first >= 1 /\ sg.last <= cs.nd /\ sg.max_doc = sg.last - sg.first + 1 /\ sg.num_docs = sg.max_doc,
         "big segment: not a run of consecutive documents")
  /\ Chk(sg.T = BSegT(c), "big segment: total_num_tokens")
  /\ Chk({w \in cs.vocab : sg.df[w] # BSegDf(c, w)} = {}, "big segment: doc_freq")
  /\ Chk({j \in DOMAIN sg.fnids : ~(sg.fnids[j].shape \in BShapes /\ sg.fnids[j].ids = <<cs.fn[sg.fnids[j].shape]>>)} = {},
         "big segment: fieldnorm id of a shape is not the largest table entry <= its length")
  /\ Chk({sg.fnids[j].shape : j \in DOMAIN sg.fnids} = {s \in BShapes : c[s] > 0},
         "big segment: shapes present")

BIndexOk(sgs, counts) ==
  /\ Chk(SumSeq([k \in DOMAIN sgs |-> sgs[k].max_doc]) = cs.nd
         /\ Cardinality({sgs[k].first : k \in DOMAIN sgs}) = Len(sgs)
         /\ {k \in DOMAIN sgs : sgs[k].first # 1 /\ {j \in DOMAIN sgs : sgs[j].last = sgs[k].first - 1} = {}} = {},
         "big index: the segments do not partition the corpus")
  /\ {k \in DOMAIN sgs : ~BSegOk(sgs[k], counts[k])} = {}

BIndexState(sgs, counts) ==
  [ok |-> TRUE,
   st |-> [N |-> SumSeq([k \in DOMAIN sgs |-> sgs[k].max_doc]),
           T |-> SumSeq([k \in DOMAIN sgs |-> BSegT(counts[k])]),
           n |-> [w \in cs.vocab |-> SumSeq([k \in DOMAIN sgs |-> BSegDf(counts[k], w)])]],
   alive |-> {},
   segs |-> [k \in DOMAIN sgs |-> [first |-> sgs[k].first, last |-> sgs[k].last, cnt |-> counts[k]]]]

TBIndex ==
  /\ Ev.ev = "bindex" /\ "big" \in DOMAIN cs
  /\ UNCHANGED <<tab, cs>>
  /\ ix' = [ix EXCEPT !.multi = BIndexState(Ev.segs, [k \in DOMAIN Ev.segs |-> BSegCounts(Ev.segs[k])])]
  /\ BIndexOk(Ev.segs, [k \in DOMAIN ix'.multi.segs |-> ix'.multi.segs[k].cnt])

\* all scores of one histogram are one value (or, for order-dependent sums, within the bound of the first)
OneScore(hist, t) ==
  IF OrderFree(t) THEN Len(hist) = 1
  ELSE {j \in DOMAIN hist : ~Within(hist[j], hist[1], Tol(t))} = {}

BGroupOk(q, g, st) ==
  LET sg == ix.multi.segs[g.seg]
      d == cs.shapes[g.shape]
      t == ScoreTerm(q, d, st, <<>>, cs.fn[g.shape])
      cnt == sg.cnt[g.shape]
  IN  /\ Chk(IsSome(t) /\ cnt > 0, "big: scores reported for documents that do not match")
      /\ Chk(g.coll # <<>> /\ SumSeq([j \in DOMAIN g.coll |-> g.coll[j].n]) = cnt, "big: the collector did not see every matching document of the shape")
      /\ Chk(g.top # <<>> /\ SumSeq([j \in DOMAIN g.top |-> g.top[j].n]) = cnt, "big: TopDocs(K >= all) did not return every matching document of the shape")
      /\ Chk({j \in DOMAIN g.coll : ~IsPosFinite(g.coll[j])} = {} /\ {j \in DOMAIN g.top : ~IsPosFinite(g.top[j])} = {}, "big: scores are positive finite")
      /\ Chk(OneScore(g.coll, t), "big: identical documents of one segment get different scores (collector)")
      /\ Chk(OneScore(g.top, t), "big: identical documents of one segment get different scores (TopDocs)")
      /\ Chk(Agree(g.top[1], g.coll[1], t), "big: TopDocs score differs from the collector's")

BHitOk(q, h, st, groups) ==
  LET s == BShapeIx(h.doc)
      sg == ix.multi.segs[h.seg]
  IN  /\ Chk(h.doc \in sg.first..sg.last /\ h.local = h.doc - sg.first, "big hit: document address")
      /\ HitOkD(q, h, st, cs.shapes[s], cs.fn[s])
      /\ Chk("top" \in DOMAIN h /\ IsPosFinite(h.top) /\ Agree(h.top, h.coll, h.term), "big hit: TopDocs score differs from the collector's")
      \* the sampled document is one of the documents counted in its group's histograms
      /\ Chk({j \in DOMAIN groups : groups[j].seg = h.seg /\ groups[j].shape = s
                                    /\ {i \in DOMAIN groups[j].coll : SameBits(groups[j].coll[i], h.coll)} # {}
                                    /\ {i \in DOMAIN groups[j].top : SameBits(groups[j].top[i], h.top)} # {}} # {},
             "big hit: its score is not in the histogram of its (segment, shape)")

TBQuery ==
  /\ Ev.ev = "bquery" /\ "big" \in DOMAIN cs /\ ix.multi.ok
  /\ UNCHANGED <<tab, cs, ix>>
  /\ Chk(QueryOk(Ev.q), "query: malformed")
  /\ LET st == ix.multi.st
         matching == {s \in BShapes : Matches(Ev.q, cs.shapes[s])}
         expected == {<<k, s>> \in (DOMAIN ix.multi.segs) \X matching : ix.multi.segs[k].cnt[s] > 0}
     IN  /\ Chk(Ev.N = st.N, "stats: total_num_docs is not the sum of max_doc over the segments")
         /\ Chk(Ev.T = st.T, "stats: total_num_tokens is not the sum over the segments")
         /\ Chk({w \in cs.vocab : Ev.df[w] # st.n[w]} = {}, "stats: doc_freq is not the sum over the segments")
         /\ Chk(Ev.nhits = SumSeq([s \in BShapes |-> IF s \in matching THEN SumSeq([k \in DOMAIN ix.multi.segs |-> ix.multi.segs[k].cnt[s]]) ELSE 0]) /\ Ev.ntop = Ev.nhits,
                "big: the number of matching documents is not what the query means")
         /\ Chk({<<Ev.groups[j].seg, Ev.groups[j].shape>> : j \in DOMAIN Ev.groups} = expected /\ Len(Ev.groups) = Cardinality(expected),
                "big: the (segment, shape) groups with matches are not those the query means")
         /\ {j \in DOMAIN Ev.groups : ~BGroupOk(Ev.q, Ev.groups[j], st)} = {}
         /\ Chk({i \in 1..(Len(Ev.hits) - 1) : Ev.hits[i].doc >= Ev.hits[i + 1].doc} = {}, "hits: not sorted / duplicate")
         /\ Chk({i \in DOMAIN Ev.hits : ~(Ev.hits[i].doc \in 1..cs.nd /\ Ev.hits[i].seg \in DOMAIN ix.multi.segs /\ BShapeIx(Ev.hits[i].doc) \in matching)} = {},
                "big: a sampled hit does not match the query")
         /\ {i \in DOMAIN Ev.hits : ~BHitOk(Ev.q, Ev.hits[i], st, Ev.groups)} = {}
         /\ Chk(Len(Ev.top10) = Min(10, Ev.nhits), "topdocs: number of results")
         /\ Chk({j \in DOMAIN Ev.top10 : {i \in DOMAIN Ev.hits : Ev.hits[i].doc = Ev.top10[j].doc /\ IsPosFinite(Ev.top10[j].s)
                                                              /\ Agree(Ev.top10[j].s, Ev.hits[i].coll, Ev.hits[i].term)} = {}} = {},
                "topdocs: score differs from the collector's")

\* "panic" / "error" events have no action: a panic of the code under test is never accepted
TNext ==
  /\ l <= Len(Rec) /\ l' = l + 1
  /\ \/ TTable \/ TReset \/ TIndex \/ TMerged \/ TQuery \/ TBReset \/ TBIndex \/ TBQuery
  /\ UNCHANGED vars

TInit == /\ l = 1 /\ tab = <<>> /\ cs = NoCase /\ ix = [multi |-> NoIndex, single |-> NoIndex, merged |-> NoIndex]
         /\ segs = <<>> /\ added = <<>> /\ deleted = FALSE
TSpec == TInit /\ [][TNext]_<<tvars, vars>>

Accepted ==
  IF TLCGet("stats").diameter - 1 = Len(Rec) THEN TRUE
  ELSE Print(<<"REJECTED", TLCGet("stats").diameter, Rec[TLCGet("stats").diameter]>>, FALSE)
=============================================================================
