SPECIFICATION Spec
CONSTANTS
  SizeClasses = {1, 6, 25}
  BlockSize = 30
  MaxDocs = 6
  CacheCap = 0
  KeyByLength = FALSE
INVARIANT GetReturnsDoc
INVARIANT CacheBounded
INVARIANT StoreIsDocs
INVARIANT SeekIsBlockOf
INVARIANT MergeRefinesConcat
CHECK_DEADLOCK FALSE
