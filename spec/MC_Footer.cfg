SPECIFICATION Spec
CONSTANTS
  Cap = 4
  MaxW = 3
  MaxLen = 10
  Chunks = {1, 2, 3, 4, 5, 6}
  HashOffered = FALSE
INVARIANT HashedIsAccepted
INVARIANT AcceptedIsPrefix
INVARIANT FlushComplete
INVARIANT ClosedFile
INVARIANT BitFlipsDetected
INVARIANT SubstitutionsDetected
INVARIANT TruncationsDetected
INVARIANT ExtensionsDetected
INVARIANT DeletionsDetected
INVARIANT FooterDamageHarmless
INVARIANT VersionGate
CHECK_DEADLOCK FALSE
