SPECIFICATION Spec
CONSTANTS
  MaxClauses = 2
  UseNested = TRUE
  SingleShouldIgnoresMsm = FALSE
INVARIANT NoPositiveClauseMatchesNothing
INVARIANT MsmAboveShouldCountMatchesNothing
INVARIANT WithinMustOutsideMustNot
INVARIANT MsmCounts
INVARIANT OptionalShouldDoesNotFilter
INVARIANT AllShouldRequiredIsConjunction
CHECK_DEADLOCK FALSE
