SPECIFICATION Spec
CONSTANTS
  MaxSegs = 4
  SizeSet = {1, 2, 4, 7}
  Policy <- PolC
CONSTRAINT Bound
INVARIANTS CandidatesDisjoint CandidatesEligible CandidatesJustified CandidatesNonEmpty LevelsPartition LevelsTight
PROPERTIES MergeConserves MergeProgress
CHECK_DEADLOCK FALSE
