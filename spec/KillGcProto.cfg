SPECIFICATION Spec
CONSTANTS
  MaxGen = 4
  GcWhenKilled = FALSE
INVARIANT DiskReadable
INVARIANT RegistersMatchDisk
CHECK_DEADLOCK FALSE
