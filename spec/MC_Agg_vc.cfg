SPECIFICATION Spec
CONSTANTS
  BrokenMerge = FALSE
  ValueCounts = TRUE
  DocDomain <- MCDocDomainSmall
  Reqs <- MCReqsV
  Queries = {"all", "g1"}
  MaxDocs = 3
  MaxParts = 3
INVARIANTS AlgebraSound Disjoint EmptyNeutral
CHECK_DEADLOCK FALSE
