SPECIFICATION Spec
CONSTANTS
  Words = {"a", "b"}
  MaxLen = 1
  Pads = {0}
  MaxDocs = 3
  AllowDeletes = FALSE
  PerSegmentStats = TRUE
  Queries <- MCQueries
  Table <- MCTable
INVARIANT ScoreSegmentationIndependent
CHECK_DEADLOCK FALSE
