SPECIFICATION Spec
CONSTANTS
  Words = {"a", "b"}
  MaxLen = 1
  Pads = {0}
  MaxDocs = 3
  AllowDeletes = FALSE
  PerSegmentStats = TRUE
  Queries <- MCQueries
  Table <- MCTable
  MCLeaderFieldNorm = FALSE
INVARIANT ScoreSegmentationIndependent
CHECK_DEADLOCK FALSE
