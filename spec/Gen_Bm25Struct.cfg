SPECIFICATION GSpec
CONSTANTS
  Words = {"a", "b"}
  MaxLen = 2
  Pads = {0}
  MaxDocs = 3
  AllowDeletes = FALSE
  PerSegmentStats = FALSE
  Queries = {}
  Table <- GenTable
INVARIANT Emit
CHECK_DEADLOCK FALSE
