SPECIFICATION GSpec
CONSTANTS
  Lists = {}
  MaxDoc = 0
  SkipCurrent = FALSE
CHECK_DEADLOCK FALSE
