SPECIFICATION Spec
CONSTANTS
  SizeClasses = {1, 6, 25}
  BlockSize = 30
  MaxDocs = 4
  CacheCap = 2
  KeyByLength = FALSE
INVARIANT GetReturnsDoc
INVARIANT CacheBounded
INVARIANT StoreIsDocs
INVARIANT SeekIsBlockOf
INVARIANT MergeRefinesConcat
CHECK_DEADLOCK FALSE
