-------------------------------- MODULE TopN --------------------------------
(* C06 - top-K collection returns exactly the best K, with deterministic ties.               *)
(*                                                                                           *)
(* Part 1 (definition): the order of results - sort key by the chosen comparator, ties by    *)
(* ascending document address - and `Page`, entries O+1..O+K of the complete ordered list.   *)
(* A sort key is a sequence of components [has, v] (has = 0: the document has no value);     *)
(* a comparator is a sequence of component orders:                                           *)
(*   "natural"             greater first, missing last     (Order::Desc, scores)             *)
(*   "reverse"             smaller first, missing first    (ReverseComparator)               *)
(*   "reverse_none_lower"  smaller first, missing last     (Order::Asc)                      *)
(*   "natural_none_higher" greater first, missing first                                      *)
(* Part 2 (machine): TopNComputer of src/collector/top_score_collector.rs - a buffer of      *)
(* capacity 2*max(K,1), truncated to the best K when full; the key of the element of rank K  *)
(* becomes the threshold; a push whose key is not strictly better than the threshold is      *)
(* dropped.  Documents are pushed in ascending order.  `Retains`: the buffer always contains *)
(* the true top K of everything pushed.                                                      *)
EXTENDS Integers, Sequences, FiniteSets

-----------------------------------------------------------------------------
(* Part 1 *)

\* -1: a is better (comes first), 0: tie, 1: b is better - one component
CmpComp(ord, a, b) ==
  LET missingFirst == ord \in {"reverse", "natural_none_higher"}
      greaterFirst == ord \in {"natural", "natural_none_higher"} IN
  IF a[1] = 0 /\ b[1] = 0 THEN 0
  ELSE IF a[1] = 0 THEN (IF missingFirst THEN -1 ELSE 1)
  ELSE IF b[1] = 0 THEN (IF missingFirst THEN 1 ELSE -1)
  ELSE IF a[2] = b[2] THEN 0
  ELSE IF (a[2] > b[2]) = greaterFirst THEN -1 ELSE 1

RECURSIVE CmpKey(_, _, _, _)
CmpKey(cmp, ka, kb, i) ==
  IF i > Len(cmp) THEN 0
  ELSE LET c == CmpComp(cmp[i], ka[i], kb[i]) IN IF c # 0 THEN c ELSE CmpKey(cmp, ka, kb, i + 1)

\* an entry is <<segment, doc, key>>
AddrLess(a, b) == a[1] < b[1] \/ (a[1] = b[1] /\ a[2] < b[2])
Before(cmp, a, b) == LET c == CmpKey(cmp, a[3], b[3], 1) IN c = -1 \/ (c = 0 /\ AddrLess(a, b))

SeqSet(s) == {s[i] : i \in 1..Len(s)}
\* `sorted` is the complete result list of `all`: a permutation, strictly ordered (linear time)
CertOK(cmp, all, sorted) ==
  /\ Len(all) = Len(sorted)
  /\ \A i \in 1..(Len(sorted) - 1) : Before(cmp, sorted[i], sorted[i + 1])
  /\ SeqSet(all) = SeqSet(sorted)
MinI(a, b) == IF a < b THEN a ELSE b
Page(sorted, k, off) == SubSeq(sorted, off + 1, MinI(Len(sorted), off + k))

-----------------------------------------------------------------------------
(* Part 2 *)
CONSTANTS MaxK,            \* K ranges over 0..MaxK
          Keys,            \* keys pushed (integers)
          MaxPush,         \* number of pushes explored
          StrictThreshold, \* TRUE: drop a push unless strictly better than the threshold (the code)
          AscendingDocs,   \* TRUE: documents are pushed in ascending order (the documented precondition)
          ThresholdRankOff \* 0: threshold = key of the element of rank K (the code); 2: of rank K-2 (wrong: too strict)

VARIABLES K, ord, buf, thr, pushed, nPushed
vars == <<K, ord, buf, thr, pushed, nPushed>>

None == -1000
Cap(k) == 2 * (IF k > 1 THEN k ELSE 1)
\* element order inside the computer: one-component keys, always present
EBeforeDef(o, a, b) == Before(<<o>>, <<0, a.doc, <<<<1, a.key>>>>>>, <<0, b.doc, <<<<1, b.key>>>>>>)
\* the same, unfolded (the trace specification evaluates it a few million times); EBeforeIsBefore checks it
EBefore(o, a, b) == IF a.key = b.key THEN a.doc < b.doc ELSE (a.key > b.key) = (o = "natural")
Rank(o, X, e) == Cardinality({x \in X : EBefore(o, x, e)})
Top(o, X, n) == {e \in X : Rank(o, X, e) < n}
Better(o, k1, k2) == CmpComp(o, <<1, k1>>, <<1, k2>>) = -1

\* one push, as an operator (also used by the trace specification): returns [buf, thr]
PushOp(o, k, st, key, doc, strict) ==
  LET e == [key |-> key, doc |-> doc]
      skip == st.thr # None /\ (IF strict THEN ~Better(o, key, st.thr) ELSE Better(o, st.thr, key)) IN
  IF skip THEN st
  ELSE IF Cardinality(st.buf) = Cap(k)
       THEN LET r == IF k - ThresholdRankOff < 0 THEN 0 ELSE k - ThresholdRankOff
                med == CHOOSE x \in st.buf : Rank(o, st.buf, x) = r IN
            [buf |-> Top(o, st.buf, k) \cup {e}, thr |-> med.key]
       ELSE [buf |-> st.buf \cup {e}, thr |-> st.thr]

RECURSIVE SortedSeqOf(_, _)
SortedSeqOf(o, X) == IF X = {} THEN <<>>
                     ELSE LET b == CHOOSE x \in X : Rank(o, X, x) = 0 IN <<b>> \o SortedSeqOf(o, X \ {b})
\* into_sorted_vec
Result(o, k, b) == SortedSeqOf(o, Top(o, b, k))

Init == /\ K \in 0..MaxK /\ ord \in {"natural", "reverse"}
        /\ buf = {} /\ thr = None /\ pushed = {} /\ nPushed = 0

Push(key) ==
  /\ nPushed < MaxPush
  /\ LET doc == IF AscendingDocs THEN nPushed + 1 ELSE MaxPush - nPushed
         n == PushOp(ord, K, [buf |-> buf, thr |-> thr], key, doc, StrictThreshold) IN
     /\ buf' = n.buf /\ thr' = n.thr
     /\ pushed' = pushed \cup {[key |-> key, doc |-> doc]}
  /\ nPushed' = nPushed + 1
  /\ UNCHANGED <<K, ord>>

Next == \E key \in Keys : Push(key)
Spec == Init /\ [][Next]_vars

TypeOK == Cardinality(buf) <= Cap(K) /\ buf \subseteq pushed
EBeforeIsBefore == \A a, b \in pushed : \A o \in {"natural", "reverse"} : EBefore(o, a, b) = EBeforeDef(o, a, b)
\* the answer is the true top K of everything pushed
Retains == Top(ord, buf, K) = Top(ord, pushed, K)
\* the threshold is the key of an element that K pushed elements are at least as good as
ThresholdSound == thr # None => Cardinality({e \in pushed : ~Better(ord, thr, e.key)}) >= K
\* NOT a property of the implementation (TLC refutes it in 5 steps): the element that triggers a
\* truncation is appended without being compared with the new threshold, so a later truncation
\* can pick a worse threshold.  Harmless (a weaker threshold prunes less); kept as documentation.
ThresholdMonotone == [][thr # None => ~Better(ord, thr, thr')]_vars
=============================================================================
