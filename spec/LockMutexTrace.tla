--------------------------- MODULE LockMutexTrace ---------------------------
(* Trace specification: threads, each with its own Directory object on the same directory,     *)
(* acquire a lock (Directory::acquire_lock), log `enter` while they hold it and `exit` before    *)
(* they drop the guard (harness/src/bin/flock_driver.rs).  The lock is a lock iff no `enter`     *)
(* comes while another thread is inside (LockProto!Mutex).                                       *)
EXTENDS Naturals, Sequences, FiniteSets, Json, IOUtils, TLC

Rec == ndJsonDeserialize(IOEnv.TRACE)
VARIABLES l, inside
Ev == Rec[l]
TReset == Ev.ev = "reset" /\ inside' = {}
TEnter == Ev.ev = "enter" /\ inside = {} /\ inside' = {Ev.t}
TExit == Ev.ev = "exit" /\ inside = {Ev.t} /\ inside' = {}
TBusy == Ev.ev = "busy" /\ UNCHANGED inside       \* a refused non-blocking attempt
TNext == l <= Len(Rec) /\ l' = l + 1 /\ (TReset \/ TEnter \/ TExit \/ TBusy)
TInit == l = 1 /\ inside = {}
TSpec == TInit /\ [][TNext]_<<l, inside>>
Accepted == IF TLCGet("stats").diameter - 1 = Len(Rec) THEN TRUE
            ELSE Print(<<"REJECTED", TLCGet("stats").diameter, Rec[TLCGet("stats").diameter]>>, FALSE)
=============================================================================
