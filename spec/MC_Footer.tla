------------------------------ MODULE MC_Footer ------------------------------
(* Bounded model checking of Footer: the pipeline machine with every acceptance pattern of   *)
(* the sink, and - on every finished file the machine can produce - the damage lemmas with   *)
(* the real CRC-32.                                                                          *)
EXTENDS Footer

\* the written-out tables are the computed ones; CRC-32 check value of "123456789" is CBF43926
ASSUME TablesAgree /\ XorAgree
ASSUME Crc32(<<49, 50, 51, 52, 53, 54, 55, 56, 57>>) = <<203, 244, 57, 38>>
ASSUME Crc32(<<>>) = <<0, 0, 0, 0>>

BodyLenOf(file) == Len(file) - 13      \* abstract footer: 5 bytes of payload + 8

\* every single-bit flip and every byte substitution of the body is detected
BitFlipsDetected ==
  phase = "closed" =>
    \A p \in 1..BodyLenOf(sink) : \A k \in 0..7 : Detected(Validate(FlipBit(sink, p, k)))
SubstitutionsDetected ==
  phase = "closed" =>
    \A p \in 1..BodyLenOf(sink) : \A v \in {0, 1, 57, 128, 255} : v # sink[p] => Detected(Validate(SetByte(sink, p, v)))
\* every truncation of the file, every extension of the file or of the body is detected
TruncationsDetected ==
  phase = "closed" => \A n \in 0..(Len(sink) - 1) : Detected(Validate(Truncate(sink, n)))
ExtensionsDetected ==
  phase = "closed" =>
    \A s \in {<<0>>, <<255>>, <<57, 5>>, <<0, 0, 0, 0>>} :
      /\ Detected(Validate(AppendBytes(sink, s)))
      /\ Detected(Validate(InsertBytes(sink, BodyLenOf(sink) + 1, s)))
      /\ \A p \in 1..BodyLenOf(sink) : Detected(Validate(InsertBytes(sink, p, s)))
DeletionsDetected ==
  phase = "closed" => \A p \in 1..BodyLenOf(sink) : Detected(Validate(DeleteAt(sink, p, 1)))
\* the intact file validates, and damage confined to the footer never makes the *body* wrong:
\* whatever Validate says, OpenRead gives the body, an error, or an incompatibility
FooterDamageHarmless ==
  phase = "closed" =>
    \A p \in (BodyLenOf(sink) + 1)..Len(sink) : \A k \in 0..7 :
      OpenRead(FlipBit(sink, p, k)) \in {[st |-> "ok", body |-> user], [st |-> "Err"], [st |-> "Incompatible"]}
\* a file whose footer announces an unsupported version is refused, a supported one is read
VersionGate ==
  phase = "closed" =>
    \A v \in 0..12 : OpenRead(AbsFile(v, user)) = (IF Supported(v) THEN [st |-> "ok", body |-> user] ELSE [st |-> "Incompatible"])
                     /\ Validate(AbsFile(v, user)) = "ok"
=============================================================================
