SPECIFICATION Spec
CONSTANTS
  Threads = {t1, t2, t3}
  MaxInodes = 3
  Blocking = TRUE
  UnlinkOnRelease = TRUE
  UnlinkOnRefusal = FALSE
INVARIANT Mutex
CHECK_DEADLOCK FALSE
