---------------------------- MODULE Gen_Grammar ----------------------------
(* Generator of C16 cases.                                                                    *)
(*  Mode = "strings" (model checking): every token string of length <= MaxLen over             *)
(*     Grammar!Alphabet, except the shapes of the recorded defects (Grammar!Steered) and their extensions;        *)
(*  Mode = "queries" (-simulate): random abstract queries of depth <= 3, each printed in NTexts  *)
(*     ways (blanks, redundant parentheses, quoting, escapes, elastic / bracket ranges).         *)
(*  Mode = "chains"  (model checking): every chain of 2..3 words joined by AND / OR / juxtaposition, *)
(*     each operand bare or marked + / - / NOT;                                                    *)
(* The corpus and the alphabet are printed once so that the harness knows nothing by itself.    *)
EXTENDS Grammar, TLC, Json

CONSTANTS Mode, MaxLen, NTexts,
          NestedDepths    \* (a set) repetition counts of the nesting forms (small while C16-e stands)

\* ---- strings ------------------------------------------------------------------------------
VARIABLES s, done
gvars == <<s, done>>

\* ---- corpus as the harness needs it: per document and field the literal texts ---------------
One(present, text) == IF present THEN <<text>> ELSE <<>>
WordsText(ws) == IF ws = <<>> THEN <<>> ELSE <<JoinWith([x \in 1..Len(ws) |-> Words[ws[x]]], <<SP>>)>>
JsText(d) == <<123, 34, 107, 34, 58, 34>> \o Words[d.jk] \o <<34, 44, 34, 118, 34, 58>> \o IntText(d.jv) \o <<125>>
DocTexts(d) == [title |-> WordsText(d.title), body |-> WordsText(d.body), tag |-> One(d.tag # 0, IF d.tag # 0 THEN Tags[d.tag] ELSE <<>>),
                n |-> One(Present(d.n), IntText(d.n)), i |-> One(Present(d.i), IntText(d.i)), flag |-> One(Present(d.flag), BoolText(d.flag)),
                d |-> One(Present(d.d), DateText(d.d)), ip |-> One(Present(d.ip), IpText(d.ip)), bin |-> One(Present(d.b), BytesRaw(d.b)),
                fc |-> One(Present(d.fc), FacetText(d.fc)), js |-> One(d.jk # 0, IF d.jk # 0 THEN JsText(d) ELSE <<>>)]
Corpus == [fields |-> << [name |-> F_title, type |-> "text"], [name |-> F_body, type |-> "text"], [name |-> F_tag, type |-> "raw"],
                         [name |-> F_n, type |-> "u64"], [name |-> F_i, type |-> "i64"], [name |-> F_flag, type |-> "bool"],
                         [name |-> F_d, type |-> "date"], [name |-> F_ip, type |-> "ip"], [name |-> F_b, type |-> "bytes"],
                         [name |-> F_fc, type |-> "facet"], [name |-> F_js, type |-> "json"] >>,
           default_fields |-> <<F_title, F_body>>,
           docs_per_segment |-> 3,
           docs |-> [k \in 1..ND |-> DocTexts(Docs[k])]]

\* ---- random abstract queries: a deterministic function of a vector r of random numbers ------
R(r, k) == r[((k - 1) % Len(r)) + 1]
Fld3(x) == (<<"", "title", "body">>)[(x % 3) + 1]
BoundOf(x, v) == <<(<<"incl", "excl", "unb">>)[(x % 3) + 1], v>>
Leaf(r, k) ==
  LET c == R(r, k) % 16   a == R(r, k + 1)   b == R(r, k + 2)   e == R(r, k + 3)
      w1 == 1 + (a % NW)   w2 == 1 + ((w1 + (b % (NW - 1))) % NW)   w3 == 1 + (e % NW)
  IN CASE c \in {0, 1, 2, 14, 15} -> <<"w", Fld3(b), w1>>
       [] c = 3  -> IF e % 3 = 0 THEN <<"ph", Fld3(e \div 3), <<w1, w2, w3>>, 0, FALSE>>
                    ELSE <<"ph", Fld3(e \div 3), <<w1, w2>>, IF e % 3 = 1 THEN 0 ELSE (e \div 7) % 3, (e % 3 = 1) /\ (e % 2 = 0)>>
       [] c = 4  -> <<"tag", 1 + (a % Len(Tags))>>
       [] c = 5  -> <<"num", "n", a % 10>>
       [] c = 6  -> <<"num", "i", (a % 11) - 5>>
       [] c = 7  -> IF a % 2 = 0 THEN <<"flag", b % 2>> ELSE <<"date", 1 + (b % 4)>>
       [] c = 8  -> (CASE a % 5 = 0 -> <<"rng", "n", BoundOf(b, e % 10), BoundOf(b \div 3, (e \div 10) % 10)>>
                       [] a % 5 = 1 -> <<"rng", "i", BoundOf(b, (e % 11) - 5), BoundOf(b \div 3, ((e \div 11) % 11) - 5)>>
                       [] a % 5 = 2 -> <<"rng", "d", BoundOf(b, 1 + (e % 4)), BoundOf(b \div 3, 1 + ((e \div 4) % 4))>>
                       [] a % 5 = 3 -> <<"rng", "title", BoundOf(b, w1), BoundOf(b \div 3, w3)>>
                       [] OTHER     -> <<"rng", "ip", BoundOf(b, 1 + (e % 3)), BoundOf(b \div 3, 1 + ((e \div 3) % 3))>>)
       [] c = 9  -> (CASE a % 3 = 0 -> <<"in", "title", <<w1, w2>>>>
                       [] a % 3 = 1 -> <<"in", "n", <<b % 10, e % 10, (b + e) % 10>>>>
                       [] OTHER     -> <<"in", "tag", <<1 + (b % Len(Tags)), 1 + (e % Len(Tags))>>>>)
       [] c = 10 -> \* a phrase with the over-long word (dropped by the analyzer) in the middle, in front, at the end, twice
                    <<"ph", Fld3(e \div 4), (CASE e % 4 = 0 -> <<w1, LW, w2>> [] e % 4 = 1 -> <<LW, w1, w2>> [] e % 4 = 2 -> <<w1, w2, LW>> [] OTHER -> <<w1, LW, LW, w2>>), 0, FALSE>>
       [] c = 11 -> <<"all">>
       [] c = 12 -> (CASE a % 3 = 0 -> <<"ip", 1 + (b % 3)>> [] a % 3 = 1 -> <<"bytes", 1 + (b % 2)>> [] OTHER -> <<"facet", 1 + (b % 3)>>)
       [] c = 13 -> IF a % 2 = 0 THEN <<"jsw", w1>> ELSE <<"jsn", (<<5, 7, 9>>)[(b % 3) + 1]>>
\* a range needs one bound
FixLeaf(q) == IF q[1] = "rng" /\ q[3][1] = "unb" /\ q[4][1] = "unb" THEN <<"rng", q[2], <<"incl", q[3][2]>>, q[4]>> ELSE q
Occ(x) == (<<"", "", "+", "+", "-">>)[(x % 5) + 1]

\* steering: `n:>=1^2` takes `1^2` as the bound (boosted ranges are printed in parentheses)
\* inside a field group: `*` would become an exists query (unsupported); words of the body lose their own
\* field (more words for the group to scope), words of the title keep theirs
RECURSIVE GrpSafe(_)
GrpSafe(q) == CASE q[1] = "all" -> <<"w", "", 1>>
                [] q[1] = "w" -> <<"w", IF q[2] = "body" THEN "" ELSE q[2], q[3]>>
                [] q[1] = "ph" -> <<"ph", IF q[2] = "body" THEN "" ELSE q[2], q[3], q[4], q[5]>>
                [] q[1] = "bool" -> <<"bool", [x \in 1..Len(q[2]) |-> <<q[2][x][1], GrpSafe(q[2][x][2])>>]>>
                [] q[1] = "grp" -> <<"grp", q[2], [x \in 1..Len(q[3]) |-> <<q[3][x][1], GrpSafe(q[3][x][2])>>]>>
                [] q[1] = "bin" -> <<"bin", [x \in 1..Len(q[2]) |-> GrpSafe(q[2][x])], q[3]>>
                [] q[1] = "chain" -> <<"chain", [x \in 1..Len(q[2]) |-> <<q[2][x][1], GrpSafe(q[2][x][2])>>], q[3]>>
                [] q[1] = "paren" -> <<"paren", GrpSafe(q[2])>>
                [] q[1] = "boost" -> <<"boost", GrpSafe(q[2]), q[3]>>
                [] OTHER -> q
RECURSIVE Composite(_, _, _), Operand(_, _, _)
Operand(r, k, depth) ==
  IF depth = 0 \/ R(r, k) % 3 # 0 THEN
     (IF R(r, k) % 7 = 6 THEN <<"paren", FixLeaf(Leaf(r, k + 1))>> ELSE FixLeaf(Leaf(r, k + 1)))
  ELSE <<"paren", Composite(r, k + 1, depth - 1)>>
Composite(r, k, depth) ==
  LET c == R(r, k) % 8   n == 2 + (R(r, k + 1) % 2) IN
  CASE c \in {0, 1} ->
         LET cl == [x \in 1..n |-> <<Occ(R(r, k + 1 + x)), Operand(r, k + 7 * x, depth)>>]
         IN  <<"bool", IF \A x \in 1..n : cl[x][1] = "-" THEN [cl EXCEPT ![1] = <<"+", cl[1][2]>>] ELSE cl>>
    [] c \in {2, 3} -> <<"bin", [x \in 1..n |-> Operand(r, k + 7 * x, depth)], [x \in 1..(n - 1) |-> IF R(r, k + 2 + x) % 2 = 0 THEN "AND" ELSE "OR"]>>
    [] c = 4 \/ (c = 7 /\ R(r, k + 6) % 2 = 0) ->    \* a field group whose members carry every decoration (markers, boosts, parentheses, chains)
         LET f == IF R(r, k + 2) % 2 = 0 THEN "title" ELSE "body"
             mem(x) == LET o == GrpSafe(Operand(r, k + 7 * x, depth)) IN
                       IF R(r, k + 3 + x) % 3 = 0 THEN <<"boost", IF o[1] = "rng" THEN <<"paren", o>> ELSE o, (<<0, 2, 3>>)[1 + (R(r, k + 4 + x) % 3)]>> ELSE o
             cl == [x \in 1..n |-> <<(<<"", "+", "", "-">>)[(R(r, k + 2 + x) % 4) + 1], mem(x)>>]
         IN  <<"grp", f, IF \A x \in 1..n : cl[x][1] = "-" THEN [cl EXCEPT ![1] = <<"+", cl[1][2]>>] ELSE cl>>
    [] c = 6 -> <<"chain", [x \in 1..n |-> <<(<<"", "", "-", "+", "-", "NOT">>)[(R(r, k + 1 + x) % 6) + 1], Operand(r, k + 7 * x, depth)>>],
                           [x \in 1..(n - 1) |-> (<<"AND", "OR", "OR", "">>)[(R(r, k + 4 + x) % 4) + 1]]>>
    [] c = 5 -> LET o == Operand(r, k + 2, depth) IN <<"boost", IF o[1] = "rng" THEN <<"paren", o>> ELSE o, 2 + (R(r, k + 1) % 3)>>
    [] OTHER -> FixLeaf(Leaf(r, k + 1))
\* steering: the parser drops a clause that repeats an earlier one of the same list, and an unmarked
\* parenthesised list left with ONE clause dissolves into its parent together with that clause's marker
\* (`x (a AND a)` becomes `x +a`).  Whether two clauses repeat each other depends on how they are written
\* (quotes), so no list gets two operands that are the same once fields are filled in: a repeated operand
\* is replaced by n:1x (matches nothing)
RECURSIVE NormQ(_, _), Distinct(_, _)
NormQ(q, sc) ==
  CASE q[1] = "w" -> <<"w", IF q[2] = "" THEN sc ELSE q[2], q[3]>>
    [] q[1] = "ph" -> <<"ph", IF q[2] = "" THEN sc ELSE q[2], q[3], q[4], q[5]>>
    [] q[1] = "paren" -> NormQ(q[2], sc)
    [] q[1] = "boost" -> <<"boost", NormQ(q[2], sc), q[3]>>
    [] q[1] = "bool" -> <<"bool", [x \in 1..Len(q[2]) |-> <<q[2][x][1], NormQ(q[2][x][2], sc)>>]>>
    [] q[1] = "grp" -> <<"bool", [x \in 1..Len(q[3]) |-> <<q[3][x][1], NormQ(q[3][x][2], q[2])>>]>>
    [] q[1] = "bin" -> <<"bin", [x \in 1..Len(q[2]) |-> NormQ(q[2][x], sc)], q[3]>>
    [] q[1] = "chain" -> <<"chain", [x \in 1..Len(q[2]) |-> <<q[2][x][1], NormQ(q[2][x][2], sc)>>], q[3]>>
    [] OTHER -> q
\* (the parser compares clauses WITH their markers: `+a a` keeps both - only a repetition under the same
\*  marker is replaced in a clause list; in AND / OR chains the markers are implied, every repetition is)
NoRepeat(ops, occ, sc) ==     \* a sequence of operands and their markers
  [x \in 1..Len(ops) |-> IF \E y \in 1..(x - 1) : occ[y] = occ[x] /\ NormQ(ops[y], sc) = NormQ(ops[x], sc) THEN <<"num", "n", 10 + x>> ELSE ops[x]]
Same(n) == [x \in 1..n |-> ""]
Distinct(q, sc) ==
  CASE q[1] = "bool" -> LET ops == NoRepeat([x \in 1..Len(q[2]) |-> Distinct(q[2][x][2], sc)], [x \in 1..Len(q[2]) |-> q[2][x][1]], sc) IN <<"bool", [x \in 1..Len(q[2]) |-> <<q[2][x][1], ops[x]>>]>>
    [] q[1] = "grp" -> LET ops == NoRepeat([x \in 1..Len(q[3]) |-> Distinct(q[3][x][2], q[2])], [x \in 1..Len(q[3]) |-> q[3][x][1]], q[2]) IN <<"grp", q[2], [x \in 1..Len(q[3]) |-> <<q[3][x][1], ops[x]>>]>>
    [] q[1] = "bin" -> <<"bin", NoRepeat([x \in 1..Len(q[2]) |-> Distinct(q[2][x], sc)], Same(Len(q[2])), sc), q[3]>>
    [] q[1] = "chain" -> LET ops == NoRepeat([x \in 1..Len(q[2]) |-> Distinct(q[2][x][2], sc)], Same(Len(q[2])), sc) IN <<"chain", [x \in 1..Len(q[2]) |-> <<q[2][x][1], ops[x]>>], q[3]>>
    [] q[1] = "paren" -> <<"paren", Distinct(q[2], sc)>>
    [] q[1] = "boost" -> <<"boost", Distinct(q[2], sc), q[3]>>
    [] OTHER -> q

\* queries made only of exclusions (refused by the parser; the lenient parser answers the rest)
OnlyNegative(r, k) == <<"bool", [x \in 1..(1 + (R(r, k) % 2)) |-> <<"-", <<"w", Fld3(R(r, k + x)), 1 + (R(r, k + 2 + x) % NW)>>>>]>>

Pick(S) == RandomElement(S)
Rnd == 0..10079        \* divisible by 2..10: every `% m` above is uniform

GInit == s = <<>> /\ done = FALSE
        /\ (Mode \in {"strings", "long"} => PrintT(<<"ALPHABET", ToJson(Alphabet)>>))
        /\ (Mode \in {"queries", "chains"} => PrintT(<<"CORPUS", ToJson(Corpus)>>))

Extend ==
  /\ Mode = "strings" /\ Len(s) < MaxLen
  /\ \E t \in 1..Len(Alphabet) : s' = Append(s, t) /\ ~Steered(s') /\ PrintT(<<"S", s'>>)
  /\ UNCHANGED done

NewQuery ==
  /\ Mode = "queries" /\ ~done
  /\ \E r \in {<<Pick(Rnd), Pick(Rnd), Pick(Rnd), Pick(Rnd), Pick(Rnd), Pick(Rnd), Pick(Rnd), Pick(Rnd), Pick(Rnd), Pick(Rnd),
                 Pick(Rnd), Pick(Rnd), Pick(Rnd), Pick(Rnd), Pick(Rnd), Pick(Rnd), Pick(Rnd), Pick(Rnd), Pick(Rnd), Pick(Rnd),
                 Pick(Rnd), Pick(Rnd), Pick(Rnd), Pick(Rnd), Pick(Rnd), Pick(Rnd), Pick(Rnd), Pick(Rnd), Pick(Rnd), Pick(Rnd),
                 Pick(Rnd), Pick(Rnd), Pick(Rnd), Pick(Rnd), Pick(Rnd), Pick(Rnd), Pick(Rnd)>>} :
       LET q == CASE r[1] % 12 = 0 -> OnlyNegative(r, 2)
                  [] r[1] % 36 = 1 -> <<"ex", (<<"n", "i", "d", "ip">>)[(r[2] % 4) + 1]>>
                  [] OTHER -> Distinct(Composite(r, 2, 2), "")
           texts == [x \in 1..NTexts |-> PrintQ(q, [y \in 1..11 |-> R(r, 3 * x + 5 * y)])]
       IN  PrintT(<<"CASE", ToJson([q |-> q, texts |-> texts])>>)
  /\ done' = TRUE /\ UNCHANGED s

\* Mode = "chains" (model checking): every chain of 2..3 fixed words joined by AND / OR / juxtaposition,
\* each operand bare or marked with + / - / NOT (marker x operator interaction), printed in three styles
ChainWords == << <<"w", "title", 3>>, <<"w", "", 1>>, <<"w", "", 4>> >>     \* ba in 3,7; ab in 1-5,7; c in all but 6
ChainMarks == {"", "+", "-", "NOT"}
ChainOps == {"AND", "OR", ""}
ChainShapes == UNION {{<<"chain", [x \in 1..n |-> <<ms[x], ChainWords[x]>>], os>> : ms \in [1..n -> ChainMarks], os \in [1..(n - 1) -> ChainOps]} : n \in 2..3}
ChainStyles == << <<0, 1, 1, 0, 0, 0, 0, 0, 0, 0, 0>>, <<1, 0, 2, 1, 1, 0, 1, 1, 0, 1, 1>>, <<2, 1, 4, 0, 1, 1, 0, 2, 1, 0, 1>> >>
AllChains ==
  /\ Mode = "chains" /\ ~done
  /\ \A q \in ChainShapes : PrintT(<<"CASE", ToJson([q |-> q, texts |-> [x \in 1..3 |-> PrintQ(q, ChainStyles[x])]])>>)
  /\ done' = TRUE /\ UNCHANGED s

\* Mode = "long" (-simulate): a random token string of 6..30 tokens, or a repetition pre^n mid post^n
\* (nested forms NestedDepths deep, flat forms up to 20,000 repetitions)
RepForms == << [pre |-> <<10>>, mid |-> <<1>>, post |-> <<11>>, nested |-> TRUE],           \* ((( a )))
               [pre |-> <<12, 10>>, mid |-> <<1>>, post |-> <<11>>, nested |-> TRUE],       \* +(+( a ))
               [pre |-> <<2, 10>>, mid |-> <<1>>, post |-> <<11>>, nested |-> TRUE],        \* a:(a:( a ))
               [pre |-> <<19, 24>>, mid |-> <<1>>, post |-> <<>>, nested |-> TRUE],         \* NOT NOT a
               [pre |-> <<10>>, mid |-> <<>>, post |-> <<>>, nested |-> TRUE],              \* open parentheses only
               [pre |-> <<1, 24>>, mid |-> <<>>, post |-> <<>>, nested |-> FALSE],          \* a a a
               [pre |-> <<1, 24, 17, 24>>, mid |-> <<1>>, post |-> <<>>, nested |-> FALSE], \* a AND a AND a
               [pre |-> <<1, 24, 18, 24>>, mid |-> <<1>>, post |-> <<>>, nested |-> FALSE], \* a OR a OR a
               [pre |-> <<3>>, mid |-> <<>>, post |-> <<>>, nested |-> FALSE],              \* double quotes
               [pre |-> <<2>>, mid |-> <<>>, post |-> <<>>, nested |-> FALSE],              \* a:a:a:
               [pre |-> <<6>>, mid |-> <<>>, post |-> <<>>, nested |-> FALSE],              \* open brackets
               [pre |-> <<1, 16>>, mid |-> <<>>, post |-> <<>>, nested |-> FALSE],          \* a^a^a^
               [pre |-> <<13>>, mid |-> <<1>>, post |-> <<>>, nested |-> FALSE],            \* ----a
               [pre |-> <<5>>, mid |-> <<>>, post |-> <<>>, nested |-> FALSE],              \* backslashes
               [pre |-> <<26>>, mid |-> <<25>>, post |-> <<26>>, nested |-> FALSE],         \* multi-byte run
               [pre |-> <<1>>, mid |-> <<>>, post |-> <<>>, nested |-> FALSE] >>            \* one very long word
RECURSIVE NthDepth(_, _)
NthDepth(S, k) == LET m == CHOOSE x \in S : \A y \in S : x <= y IN IF k = 1 THEN m ELSE NthDepth(S \ {m}, k - 1)
NewLong ==
  /\ Mode = "long" /\ ~done
  /\ \E r \in {<<Pick(Rnd), Pick(Rnd), Pick(Rnd), Pick(Rnd), Pick(Rnd), Pick(Rnd), Pick(Rnd), Pick(Rnd), Pick(Rnd), Pick(Rnd),
                 Pick(Rnd), Pick(Rnd), Pick(Rnd), Pick(Rnd), Pick(Rnd), Pick(Rnd), Pick(Rnd), Pick(Rnd), Pick(Rnd), Pick(Rnd),
                 Pick(Rnd), Pick(Rnd), Pick(Rnd), Pick(Rnd), Pick(Rnd), Pick(Rnd), Pick(Rnd), Pick(Rnd), Pick(Rnd), Pick(Rnd), Pick(Rnd)>>} :
       IF r[1] % 4 = 0
       THEN LET f == RepForms[1 + (r[2] % Len(RepForms))]
                n == IF f.nested THEN NthDepth(NestedDepths, 1 + (r[3] % Cardinality(NestedDepths))) ELSE (<<10, 1000, 20000>>)[1 + (r[3] % 3)]
            IN  PrintT(<<"REP", ToJson([pre |-> f.pre, n |-> n, mid |-> f.mid, post |-> f.post])>>)
       ELSE LET ts == [x \in 1..(6 + (r[2] % 25)) |-> 1 + ((R(r, x + 2) + (x * R(r, x + 13))) % Len(Alphabet))]
            IN  IF Steered(ts) THEN TRUE ELSE PrintT(<<"S", ts>>)
  /\ done' = TRUE /\ UNCHANGED s

GNext == Extend \/ NewQuery \/ AllChains \/ NewLong
GSpec == GInit /\ [][GNext]_gvars
=============================================================================
