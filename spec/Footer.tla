------------------------------- MODULE Footer -------------------------------
(* C20 - every file written through the index directory ends with a footer carrying the     *)
(* format version and a CRC-32 of its content.                                               *)
(*                                                                                           *)
(* Part 1: executable definitions (bytes are integers 0..255, files are sequences of bytes): *)
(*   Crc32, the file layout File(body, payload), ExtractFooter / OpenRead / Validate, the    *)
(*   damage operators.  They are used by the bounded lemmas of MC_Footer and - as the        *)
(*   oracle - by FooterTrace.                                                                *)
(* Part 2: the write pipeline BufWriter -> FooterProxy -> underlying writer as a state      *)
(*   machine with partial acceptance.                                                        *)
EXTENDS Integers, Sequences, FiniteSets, SequencesExt, TLC

-----------------------------------------------------------------------------
(* 32-bit words are kept as 4 bytes <<b3, b2, b1, b0>> (b3 most significant): TLC integers   *)
(* are 32-bit signed.                                                                        *)

RECURSIVE XorN(_, _, _)
XorN(x, y, n) == IF n = 0 THEN 0 ELSE ((x + y) % 2) + 2 * XorN(x \div 2, y \div 2, n - 1)

XorTab == TLCEval([a \in 0..255 |-> TLCEval([b \in 0..255 |-> XorN(a, b, 8)])])
Xor8(a, b) == XorTab[a][b]

\* one step of the bitwise CRC-32 (reflected polynomial EDB88320) on <<hi16, lo16>>
CrcShift(c) ==
  LET hi == c[1] \div 2
      lo == (c[2] \div 2) + (c[1] % 2) * 32768
  IN IF c[2] % 2 = 1 THEN <<XorN(hi, 60856, 16), XorN(lo, 33568, 16)>>   \* EDB8 8320
     ELSE <<hi, lo>>
RECURSIVE CrcIter(_, _)
CrcIter(c, k) == IF k = 0 THEN c ELSE CrcIter(CrcShift(c), k - 1)
CrcTab16 == TLCEval([n \in 0..255 |-> CrcIter(<<0, n>>, 8)])
\* the table as four byte planes
T3 == TLCEval([n \in 0..255 |-> CrcTab16[n][1] \div 256])
T2 == TLCEval([n \in 0..255 |-> CrcTab16[n][1] % 256])
T1 == TLCEval([n \in 0..255 |-> CrcTab16[n][2] \div 256])
T0 == TLCEval([n \in 0..255 |-> CrcTab16[n][2] % 256])

CrcByte(c, b) ==
  LET i == XorTab[c[4]][b]
  IN <<T3[i], XorTab[c[1]][T2[i]], XorTab[c[2]][T1[i]], XorTab[c[3]][T0[i]]>>


\* CRC-32 (IEEE 802.3, as computed by crc32fast) of a byte sequence, as <<b3,b2,b1,b0>>
Crc32(s) ==
  LET c == FoldLeft(CrcByte, <<255, 255, 255, 255>>, s)   \* (Java-evaluated fold: strict, linear)
  IN <<255 - c[1], 255 - c[2], 255 - c[3], 255 - c[4]>>

\* the same value as two 16-bit words <<hi, lo>> (what the harness logs for a footer's crc)
Crc16(s) == LET c == Crc32(s) IN <<c[1] * 256 + c[2], c[3] * 256 + c[4]>>

-----------------------------------------------------------------------------
(* File layout: body ++ payload ++ LE32(Len(payload)) ++ LE32(1337).                         *)

Magic == 1337
FooterMaxLen == 50000
OldestSupported == 4          \* INDEX_FORMAT_OLDEST_SUPPORTED_VERSION
CurrentVersion == 7           \* INDEX_FORMAT_VERSION
Supported(v) == v >= OldestSupported /\ v <= CurrentVersion

LE32(n) == <<n % 256, (n \div 256) % 256, (n \div 65536) % 256, n \div 16777216>>
\* decoding of 4 little-endian bytes; -1 when the value does not fit 31 bits
UnLE32(b) == IF b[4] >= 128 THEN -1 ELSE b[1] + 256 * b[2] + 65536 * b[3] + 16777216 * b[4]

FTail(plen) == LE32(plen) \o LE32(Magic)
File(body, payload) == body \o payload \o FTail(Len(payload))

Sub(s, a, b) == SubSeq(s, a, b)

\* [ok |-> FALSE] or [ok |-> TRUE, body, payload]
ExtractFooter(file) ==
  LET n == Len(file) IN
  IF n < 8 THEN [ok |-> FALSE, why |-> "short"]
  ELSE LET plen == UnLE32(Sub(file, n - 7, n - 4))
           mg == UnLE32(Sub(file, n - 3, n))
       IN IF mg # Magic THEN [ok |-> FALSE, why |-> "magic"]
          ELSE IF plen < 0 \/ plen > FooterMaxLen THEN [ok |-> FALSE, why |-> "len"]
          ELSE IF n < plen + 8 THEN [ok |-> FALSE, why |-> "short"]
          ELSE [ok |-> TRUE, body |-> Sub(file, 1, n - 8 - plen), payload |-> Sub(file, n - 7 - plen, n - 8)]

\* length of the body of a well-formed file given its length and its last 8 bytes
BodyLen(len, tail8) == len - 8 - UnLE32(Sub(tail8, 1, 4))

(* The abstract payload used by the bounded model: <<version, c3, c2, c1, c0>>.  The real    *)
(* payload is JSON text {"version":{...,"index_format_version":v},"crc":c}; the harness logs *)
(* what serde_json reads in it, the trace specification compares that with Crc16(body).      *)
AbsPayload(v, body) == <<v>> \o Crc32(body)
AbsFile(v, body) == File(body, AbsPayload(v, body))

\* abstract payloads are 5 "bytes": version and crc
WellFormedAbs(e) == e.ok /\ Len(e.payload) = 5

OpenRead(file) ==
  LET e == ExtractFooter(file) IN
  IF ~WellFormedAbs(e) THEN "Err"
  ELSE IF ~Supported(e.payload[1]) THEN "Incompatible"
  ELSE e.body

\* TRUE / FALSE / "Err"
Validate(file) ==
  LET e == ExtractFooter(file) IN
  IF ~WellFormedAbs(e) THEN "Err"
  ELSE Crc32(e.body) = Sub(e.payload, 2, 5)

\* damage
FlipByte(b, k) == IF (b \div (2 ^ k)) % 2 = 1 THEN b - 2 ^ k ELSE b + 2 ^ k
FlipBit(file, pos, k) == [file EXCEPT ![pos] = FlipByte(@, k)]          \* pos 1-based
SetByte(file, pos, v) == [file EXCEPT ![pos] = v]
Truncate(file, len) == Sub(file, 1, len)
AppendBytes(file, s) == file \o s
InsertBytes(file, pos, s) == Sub(file, 1, pos - 1) \o s \o Sub(file, pos, Len(file))   \* before pos
DeleteAt(file, pos, k) == Sub(file, 1, pos - 1) \o Sub(file, pos + k, Len(file))

\* what the property demands of a checker on a damaged copy of a file with body length bl:
\* damage that changes the body must be detected
Detected(res) == res # TRUE

-----------------------------------------------------------------------------
(* Part 2 - the write pipeline.                                                              *)
(* user --write_all(chunk)--> BufWriter(Cap) --write--> FooterProxy(hasher) --write--> sink   *)
(* The sink accepts between 1 and MaxW bytes of what it is offered (a short write).          *)
(* Byte i (0-based) of the user's data is ByteAt(i): contents are a function of the offset,  *)
(* the state only holds lengths and the sequences themselves.                                 *)

CONSTANTS Cap,          \* capacity of the BufWriter
          MaxW,         \* most bytes the sink accepts per call (0 = everything)
          MaxLen,       \* bound on the number of user bytes
          Chunks,       \* sizes of user writes
          HashOffered   \* negative configuration: the proxy hashes what it offered, not what was accepted

ByteAt(i) == (i * 131 + (i \div 256) + 7) % 256
Bytes(from, n) == [k \in 1..n |-> ByteAt(from + k - 1)]

VARIABLES
  user,     \* bytes handed to write_all so far (a sequence)
  pend,     \* rest of the current write_all call not yet taken by the BufWriter
  buf,      \* content of the BufWriter
  hashed,   \* bytes the hasher has seen
  sink,     \* bytes the underlying writer has accepted (the file)
  phase,    \* "open" | "flush" | "tflush" | "footer" | "closed"
  fpend,    \* footer bytes not yet written
  clean     \* a flush completed and nothing was written since

pvars == <<user, pend, buf, hashed, sink, phase, fpend, clean>>

Accept(n) == IF MaxW = 0 THEN {n} ELSE 1..(IF n < MaxW THEN n ELSE MaxW)

Init ==
  /\ user = <<>> /\ pend = <<>> /\ buf = <<>> /\ hashed = <<>> /\ sink = <<>>
  /\ phase = "open" /\ fpend = <<>> /\ clean = TRUE

\* the proxy: offered `s`, the sink takes k bytes, the hasher sees them
ProxyWrite(s, k) ==
  /\ sink' = sink \o Sub(s, 1, k)
  /\ hashed' = hashed \o (IF HashOffered THEN s ELSE Sub(s, 1, k))

UserWrite(n) ==
  /\ phase = "open" /\ pend = <<>> /\ Len(user) + n <= MaxLen
  /\ pend' = Bytes(Len(user), n) /\ user' = user \o Bytes(Len(user), n)
  /\ clean' = FALSE
  /\ UNCHANGED <<buf, hashed, sink, phase, fpend>>

\* BufWriter::write: drain when the chunk does not fit, bypass the buffer for large chunks
BufDrain ==
  /\ buf # <<>>
  /\ \/ phase \in {"flush", "tflush"}
     \/ phase = "open" /\ pend # <<>> /\ Len(buf) + Len(pend) > Cap
  /\ \E k \in Accept(Len(buf)) : ProxyWrite(buf, k) /\ buf' = Sub(buf, k + 1, Len(buf))
  /\ UNCHANGED <<user, pend, phase, fpend, clean>>

BufDirect ==
  /\ phase = "open" /\ pend # <<>> /\ buf = <<>> /\ Len(pend) >= Cap
  /\ \E k \in Accept(Len(pend)) : ProxyWrite(pend, k) /\ pend' = Sub(pend, k + 1, Len(pend))
  /\ UNCHANGED <<user, buf, phase, fpend, clean>>

BufStore ==
  /\ phase = "open" /\ pend # <<>> /\ Len(pend) < Cap /\ Len(buf) + Len(pend) <= Cap
  /\ buf' = buf \o pend /\ pend' = <<>>
  /\ UNCHANGED <<user, hashed, sink, phase, fpend, clean>>

Flush ==
  /\ phase = "open" /\ pend = <<>>
  /\ phase' = "flush"
  /\ UNCHANGED <<user, pend, buf, hashed, sink, fpend, clean>>

FlushDone ==
  /\ phase = "flush" /\ buf = <<>>
  /\ phase' = "open" /\ clean' = TRUE
  /\ UNCHANGED <<user, pend, buf, hashed, sink, fpend>>

Terminate ==
  /\ phase = "open" /\ pend = <<>>
  /\ phase' = "tflush"
  /\ UNCHANGED <<user, pend, buf, hashed, sink, fpend, clean>>

\* FooterProxy::terminate_ref: the footer is computed from the hasher and written to the
\* underlying writer directly (write_all over short writes), not through the hasher
StartFooter ==
  /\ phase = "tflush" /\ buf = <<>>
  /\ phase' = "footer"
  /\ fpend' = AbsPayload(CurrentVersion, hashed) \o FTail(5)
  /\ UNCHANGED <<user, pend, buf, hashed, sink, clean>>

WriteFooter ==
  /\ phase = "footer" /\ fpend # <<>>
  /\ \E k \in Accept(Len(fpend)) : sink' = sink \o Sub(fpend, 1, k) /\ fpend' = Sub(fpend, k + 1, Len(fpend))
  /\ UNCHANGED <<user, pend, buf, hashed, phase, clean>>

Close ==
  /\ phase = "footer" /\ fpend = <<>>
  /\ phase' = "closed"
  /\ UNCHANGED <<user, pend, buf, hashed, sink, fpend, clean>>

Next ==
  \/ \E n \in Chunks : UserWrite(n)
  \/ BufDrain \/ BufDirect \/ BufStore \/ Flush \/ FlushDone \/ Terminate \/ StartFooter \/ WriteFooter \/ Close

Spec == Init /\ [][Next]_pvars



\* the hasher has seen exactly the bytes the underlying writer accepted
HashedIsAccepted == phase \in {"open", "flush", "tflush"} => hashed = sink
\* nothing is reordered or invented: the file so far is a prefix of what the user wrote
AcceptedIsPrefix == phase \in {"open", "flush", "tflush"} => IsPrefix(sink, user) /\ sink \o buf \o pend = user
\* after a flush everything written is in the file
FlushComplete == (phase = "open" /\ clean) => sink = user
\* the finished file is body ++ footer(version, crc(body)); it reads back as the body and validates
ClosedFile ==
  phase = "closed" =>
    /\ sink = AbsFile(CurrentVersion, user)
    /\ OpenRead(sink) = user
    /\ Validate(sink) = TRUE
=============================================================================
