------------------------------- MODULE Footer -------------------------------
(* C20 - every file written through the index directory ends with a footer carrying the     *)
(* format version and a CRC-32 of its content.                                               *)
(*                                                                                           *)
(* Part 1: executable definitions (bytes are integers 0..255, files are sequences of bytes): *)
(*   Crc32, the file layout File(body, payload), ExtractFooter / OpenRead / Validate, the    *)
(*   damage operators.  They are used by the bounded lemmas of MC_Footer and - as the        *)
(*   oracle - by FooterTrace.                                                                *)
(* Part 2: the write pipeline BufWriter -> FooterProxy -> underlying writer as a state      *)
(*   machine with partial acceptance.                                                        *)
EXTENDS Integers, Sequences, FiniteSets, SequencesExt, TLC

-----------------------------------------------------------------------------
(* 32-bit words are kept as 4 bytes <<b3, b2, b1, b0>> (b3 most significant): TLC integers   *)
(* are 32-bit signed.                                                                        *)

\* exclusive or of two bytes, without recursion (so that TLC pre-computes the tables below once)
XB(x, y, k) == ((x \div k) + (y \div k)) % 2
Xor8A(x, y) == XB(x, y, 1) + 2 * XB(x, y, 2) + 4 * XB(x, y, 4) + 8 * XB(x, y, 8) + 16 * XB(x, y, 16)
               + 32 * XB(x, y, 32) + 64 * XB(x, y, 64) + 128 * XB(x, y, 128)
\* exclusive or of two nibbles x, y at index 16x + y + 1, written out; Xor8 is what the fold uses
X4 == <<
  0, 1, 2, 3, 4, 5, 6, 7, 8, 9, 10, 11, 12, 13, 14, 15, 1, 0, 3, 2, 5, 4, 7, 6, 9, 8, 11, 10, 13, 12, 15, 14,
  2, 3, 0, 1, 6, 7, 4, 5, 10, 11, 8, 9, 14, 15, 12, 13, 3, 2, 1, 0, 7, 6, 5, 4, 11, 10, 9, 8, 15, 14, 13, 12,
  4, 5, 6, 7, 0, 1, 2, 3, 12, 13, 14, 15, 8, 9, 10, 11, 5, 4, 7, 6, 1, 0, 3, 2, 13, 12, 15, 14, 9, 8, 11, 10,
  6, 7, 4, 5, 2, 3, 0, 1, 14, 15, 12, 13, 10, 11, 8, 9, 7, 6, 5, 4, 3, 2, 1, 0, 15, 14, 13, 12, 11, 10, 9, 8,
  8, 9, 10, 11, 12, 13, 14, 15, 0, 1, 2, 3, 4, 5, 6, 7, 9, 8, 11, 10, 13, 12, 15, 14, 1, 0, 3, 2, 5, 4, 7, 6,
  10, 11, 8, 9, 14, 15, 12, 13, 2, 3, 0, 1, 6, 7, 4, 5, 11, 10, 9, 8, 15, 14, 13, 12, 3, 2, 1, 0, 7, 6, 5, 4,
  12, 13, 14, 15, 8, 9, 10, 11, 4, 5, 6, 7, 0, 1, 2, 3, 13, 12, 15, 14, 9, 8, 11, 10, 5, 4, 7, 6, 1, 0, 3, 2,
  14, 15, 12, 13, 10, 11, 8, 9, 6, 7, 4, 5, 2, 3, 0, 1, 15, 14, 13, 12, 11, 10, 9, 8, 7, 6, 5, 4, 3, 2, 1, 0>>
Xor8(a, b) == 16 * X4[(a \div 16) * 16 + (b \div 16) + 1] + X4[(a % 16) * 16 + (b % 16) + 1]
XorAgree == \A a, b \in 0..255 : Xor8(a, b) = Xor8A(a, b)

\* one step of the bitwise CRC-32 (reflected polynomial EDB88320) on <<b3, b2, b1, b0>>
CrcShift(c) ==
  LET s3 == c[1] \div 2
      s2 == (c[2] \div 2) + (c[1] % 2) * 128
      s1 == (c[3] \div 2) + (c[2] % 2) * 128
      s0 == (c[4] \div 2) + (c[3] % 2) * 128
  IN IF c[4] % 2 = 1 THEN <<Xor8A(s3, 237), Xor8A(s2, 184), Xor8A(s1, 131), Xor8A(s0, 32)>>   \* ED B8 83 20
     ELSE <<s3, s2, s1, s0>>
CrcTab == [n \in 0..255 |-> CrcShift(CrcShift(CrcShift(CrcShift(CrcShift(CrcShift(CrcShift(CrcShift(<<0, 0, 0, n>>))))))))]
\* The table as four byte planes, written out (TLC would re-evaluate CrcTab[n] on every use);
\* index n+1 holds the entry of n.  TablesAgree (checked by MC_Footer) ties them to CrcTab.
T3 == <<
  0, 119, 238, 153, 7, 112, 233, 158, 14, 121, 224, 151, 9, 126, 231, 144, 29, 106, 243, 132, 26, 109, 244, 131, 19, 100, 253, 138, 20, 99, 250, 141,
  59, 76, 213, 162, 60, 75, 210, 165, 53, 66, 219, 172, 50, 69, 220, 171, 38, 81, 200, 191, 33, 86, 207, 184, 40, 95, 198, 177, 47, 88, 193, 182,
  118, 1, 152, 239, 113, 6, 159, 232, 120, 15, 150, 225, 127, 8, 145, 230, 107, 28, 133, 242, 108, 27, 130, 245, 101, 18, 139, 252, 98, 21, 140, 251,
  77, 58, 163, 212, 74, 61, 164, 211, 67, 52, 173, 218, 68, 51, 170, 221, 80, 39, 190, 201, 87, 32, 185, 206, 94, 41, 176, 199, 89, 46, 183, 192,
  237, 154, 3, 116, 234, 157, 4, 115, 227, 148, 13, 122, 228, 147, 10, 125, 240, 135, 30, 105, 247, 128, 25, 110, 254, 137, 16, 103, 249, 142, 23, 96,
  214, 161, 56, 79, 209, 166, 63, 72, 216, 175, 54, 65, 223, 168, 49, 70, 203, 188, 37, 82, 204, 187, 34, 85, 197, 178, 43, 92, 194, 181, 44, 91,
  155, 236, 117, 2, 156, 235, 114, 5, 149, 226, 123, 12, 146, 229, 124, 11, 134, 241, 104, 31, 129, 246, 111, 24, 136, 255, 102, 17, 143, 248, 97, 22,
  160, 215, 78, 57, 167, 208, 73, 62, 174, 217, 64, 55, 169, 222, 71, 48, 189, 202, 83, 36, 186, 205, 84, 35, 179, 196, 93, 42, 180, 195, 90, 45>>
T2 == <<
  0, 7, 14, 9, 109, 106, 99, 100, 219, 220, 213, 210, 182, 177, 184, 191, 183, 176, 185, 190, 218, 221, 212, 211, 108, 107, 98, 101, 1, 6, 15, 8,
  110, 105, 96, 103, 3, 4, 13, 10, 181, 178, 187, 188, 216, 223, 214, 209, 217, 222, 215, 208, 180, 179, 186, 189, 2, 5, 12, 11, 111, 104, 97, 102,
  220, 219, 210, 213, 177, 182, 191, 184, 7, 0, 9, 14, 106, 109, 100, 99, 107, 108, 101, 98, 6, 1, 8, 15, 176, 183, 190, 185, 221, 218, 211, 212,
  178, 181, 188, 187, 223, 216, 209, 214, 105, 110, 103, 96, 4, 3, 10, 13, 5, 2, 11, 12, 104, 111, 102, 97, 222, 217, 208, 215, 179, 180, 189, 186,
  184, 191, 182, 177, 213, 210, 219, 220, 99, 100, 109, 106, 14, 9, 0, 7, 15, 8, 1, 6, 98, 101, 108, 107, 212, 211, 218, 221, 185, 190, 183, 176,
  214, 209, 216, 223, 187, 188, 181, 178, 13, 10, 3, 4, 96, 103, 110, 105, 97, 102, 111, 104, 12, 11, 2, 5, 186, 189, 180, 179, 215, 208, 217, 222,
  100, 99, 106, 109, 9, 14, 7, 0, 191, 184, 177, 182, 210, 213, 220, 219, 211, 212, 221, 218, 190, 185, 176, 183, 8, 15, 6, 1, 101, 98, 107, 108,
  10, 13, 4, 3, 103, 96, 105, 110, 209, 214, 223, 216, 188, 187, 178, 181, 189, 186, 179, 180, 208, 215, 222, 217, 102, 97, 104, 111, 11, 12, 5, 2>>
T1 == <<
  0, 48, 97, 81, 196, 244, 165, 149, 136, 184, 233, 217, 76, 124, 45, 29, 16, 32, 113, 65, 212, 228, 181, 133, 152, 168, 249, 201, 92, 108, 61, 13,
  32, 16, 65, 113, 228, 212, 133, 181, 168, 152, 201, 249, 108, 92, 13, 61, 48, 0, 81, 97, 244, 196, 149, 165, 184, 136, 217, 233, 124, 76, 29, 45,
  65, 113, 32, 16, 133, 181, 228, 212, 201, 249, 168, 152, 13, 61, 108, 92, 81, 97, 48, 0, 149, 165, 244, 196, 217, 233, 184, 136, 29, 45, 124, 76,
  97, 81, 0, 48, 165, 149, 196, 244, 233, 217, 136, 184, 45, 29, 76, 124, 113, 65, 16, 32, 181, 133, 212, 228, 249, 201, 152, 168, 61, 13, 92, 108,
  131, 179, 226, 210, 71, 119, 38, 22, 11, 59, 106, 90, 207, 255, 174, 158, 147, 163, 242, 194, 87, 103, 54, 6, 27, 43, 122, 74, 223, 239, 190, 142,
  163, 147, 194, 242, 103, 87, 6, 54, 43, 27, 74, 122, 239, 223, 142, 190, 179, 131, 210, 226, 119, 71, 22, 38, 59, 11, 90, 106, 255, 207, 158, 174,
  194, 242, 163, 147, 6, 54, 103, 87, 74, 122, 43, 27, 142, 190, 239, 223, 210, 226, 179, 131, 22, 38, 119, 71, 90, 106, 59, 11, 158, 174, 255, 207,
  226, 210, 131, 179, 38, 22, 71, 119, 106, 90, 11, 59, 174, 158, 207, 255, 242, 194, 147, 163, 54, 6, 87, 103, 122, 74, 27, 43, 190, 142, 223, 239>>
T0 == <<
  0, 150, 44, 186, 25, 143, 53, 163, 50, 164, 30, 136, 43, 189, 7, 145, 100, 242, 72, 222, 125, 235, 81, 199, 86, 192, 122, 236, 79, 217, 99, 245,
  200, 94, 228, 114, 209, 71, 253, 107, 250, 108, 214, 64, 227, 117, 207, 89, 172, 58, 128, 22, 181, 35, 153, 15, 158, 8, 178, 36, 135, 17, 171, 61,
  144, 6, 188, 42, 137, 31, 165, 51, 162, 52, 142, 24, 187, 45, 151, 1, 244, 98, 216, 78, 237, 123, 193, 87, 198, 80, 234, 124, 223, 73, 243, 101,
  88, 206, 116, 226, 65, 215, 109, 251, 106, 252, 70, 208, 115, 229, 95, 201, 60, 170, 16, 134, 37, 179, 9, 159, 14, 152, 34, 180, 23, 129, 59, 173,
  32, 182, 12, 154, 57, 175, 21, 131, 18, 132, 62, 168, 11, 157, 39, 177, 68, 210, 104, 254, 93, 203, 113, 231, 118, 224, 90, 204, 111, 249, 67, 213,
  232, 126, 196, 82, 241, 103, 221, 75, 218, 76, 246, 96, 195, 85, 239, 121, 140, 26, 160, 54, 149, 3, 185, 47, 190, 40, 146, 4, 167, 49, 139, 29,
  176, 38, 156, 10, 169, 63, 133, 19, 130, 20, 174, 56, 155, 13, 183, 33, 212, 66, 248, 110, 205, 91, 225, 119, 230, 112, 202, 92, 255, 105, 211, 69,
  120, 238, 84, 194, 97, 247, 77, 219, 74, 220, 102, 240, 83, 197, 127, 233, 28, 138, 48, 166, 5, 147, 41, 191, 46, 184, 2, 148, 55, 161, 27, 141>>
TablesAgree == \A n \in 0..255 : CrcTab[n] = <<T3[n + 1], T2[n + 1], T1[n + 1], T0[n + 1]>>


CrcByte(c, b) ==
  LET i == Xor8(c[4], b) + 1
  IN <<T3[i], Xor8(c[1], T2[i]), Xor8(c[2], T1[i]), Xor8(c[3], T0[i])>>


\* CRC-32 (IEEE 802.3, as computed by crc32fast) of a byte sequence, as <<b3,b2,b1,b0>>
Crc32(s) ==
  LET c == FoldLeft(CrcByte, <<255, 255, 255, 255>>, s)   \* (Java-evaluated fold: strict, linear)
  IN <<255 - c[1], 255 - c[2], 255 - c[3], 255 - c[4]>>

\* the same value as two 16-bit words <<hi, lo>> (what the harness logs for a footer's crc)
Crc16(s) == LET c == Crc32(s) IN <<c[1] * 256 + c[2], c[3] * 256 + c[4]>>

-----------------------------------------------------------------------------
(* File layout: body ++ payload ++ LE32(Len(payload)) ++ LE32(1337).                         *)

Magic == 1337
FooterMaxLen == 50000
OldestSupported == 4          \* INDEX_FORMAT_OLDEST_SUPPORTED_VERSION
CurrentVersion == 7           \* INDEX_FORMAT_VERSION
Supported(v) == v >= OldestSupported /\ v <= CurrentVersion

LE32(n) == <<n % 256, (n \div 256) % 256, (n \div 65536) % 256, n \div 16777216>>
\* decoding of 4 little-endian bytes; -1 when the value does not fit 31 bits
UnLE32(b) == IF b[4] >= 128 THEN -1 ELSE b[1] + 256 * b[2] + 65536 * b[3] + 16777216 * b[4]

FTail(plen) == LE32(plen) \o LE32(Magic)
File(body, payload) == body \o payload \o FTail(Len(payload))

Sub(s, a, b) == SubSeq(s, a, b)

\* [ok |-> FALSE] or [ok |-> TRUE, body, payload]
ExtractFooter(file) ==
  LET n == Len(file) IN
  IF n < 8 THEN [ok |-> FALSE, why |-> "short"]
  ELSE LET plen == UnLE32(Sub(file, n - 7, n - 4))
           mg == UnLE32(Sub(file, n - 3, n))
       IN IF mg # Magic THEN [ok |-> FALSE, why |-> "magic"]
          ELSE IF plen < 0 \/ plen > FooterMaxLen THEN [ok |-> FALSE, why |-> "len"]
          ELSE IF n < plen + 8 THEN [ok |-> FALSE, why |-> "short"]
          ELSE [ok |-> TRUE, body |-> Sub(file, 1, n - 8 - plen), payload |-> Sub(file, n - 7 - plen, n - 8)]

\* length of the body of a well-formed file given its length and its last 8 bytes
BodyLen(len, tail8) == len - 8 - UnLE32(Sub(tail8, 1, 4))

(* The abstract payload used by the bounded model: <<version, c3, c2, c1, c0>>.  The real    *)
(* payload is JSON text {"version":{...,"index_format_version":v},"crc":c}; the harness logs *)
(* what serde_json reads in it, the trace specification compares that with Crc16(body).      *)
AbsPayload(v, body) == <<v>> \o Crc32(body)
AbsFile(v, body) == File(body, AbsPayload(v, body))

\* abstract payloads are 5 "bytes": version and crc
WellFormedAbs(e) == e.ok /\ Len(e.payload) = 5

OpenRead(file) ==
  LET e == ExtractFooter(file) IN
  IF ~WellFormedAbs(e) THEN [st |-> "Err"]
  ELSE IF ~Supported(e.payload[1]) THEN [st |-> "Incompatible"]
  ELSE [st |-> "ok", body |-> e.body]

\* "ok" / "bad" / "Err"
Validate(file) ==
  LET e == ExtractFooter(file) IN
  IF ~WellFormedAbs(e) THEN "Err"
  ELSE IF Crc32(e.body) = Sub(e.payload, 2, 5) THEN "ok" ELSE "bad"

\* damage
FlipByte(b, k) == IF (b \div (2 ^ k)) % 2 = 1 THEN b - 2 ^ k ELSE b + 2 ^ k
FlipBit(file, pos, k) == [file EXCEPT ![pos] = FlipByte(@, k)]          \* pos 1-based
SetByte(file, pos, v) == [file EXCEPT ![pos] = v]
Truncate(file, len) == Sub(file, 1, len)
AppendBytes(file, s) == file \o s
InsertBytes(file, pos, s) == Sub(file, 1, pos - 1) \o s \o Sub(file, pos, Len(file))   \* before pos
DeleteAt(file, pos, k) == Sub(file, 1, pos - 1) \o Sub(file, pos + k, Len(file))

\* what the property demands of a checker on a damaged copy of a file with body length bl:
\* damage that changes the body must be detected
Detected(res) == res # "ok"

-----------------------------------------------------------------------------
(* Part 2 - the write pipeline.                                                              *)
(* user --write_all(chunk)--> BufWriter(Cap) --write--> FooterProxy(hasher) --write--> sink   *)
(* The sink accepts between 1 and MaxW bytes of what it is offered (a short write).          *)
(* Byte i (0-based) of the user's data is ByteAt(i): contents are a function of the offset,  *)
(* the state only holds lengths and the sequences themselves.                                 *)

CONSTANTS Cap,          \* capacity of the BufWriter
          MaxW,         \* most bytes the sink accepts per call (0 = everything)
          MaxLen,       \* bound on the number of user bytes
          Chunks,       \* sizes of user writes
          HashOffered   \* negative configuration: the proxy hashes what it offered, not what was accepted

ByteAt(i) == (i * 131 + (i \div 256) + 7) % 256
Bytes(from, n) == [k \in 1..n |-> ByteAt(from + k - 1)]

VARIABLES
  user,     \* bytes handed to write_all so far (a sequence)
  pend,     \* rest of the current write_all call not yet taken by the BufWriter
  buf,      \* content of the BufWriter
  hashed,   \* bytes the hasher has seen
  sink,     \* bytes the underlying writer has accepted (the file)
  phase,    \* "open" | "flush" | "tflush" | "footer" | "closed"
  fpend,    \* footer bytes not yet written
  clean     \* a flush completed and nothing was written since

pvars == <<user, pend, buf, hashed, sink, phase, fpend, clean>>

Accept(n) == IF MaxW = 0 THEN {n} ELSE 1..(IF n < MaxW THEN n ELSE MaxW)

Init ==
  /\ user = <<>> /\ pend = <<>> /\ buf = <<>> /\ hashed = <<>> /\ sink = <<>>
  /\ phase = "open" /\ fpend = <<>> /\ clean = TRUE

\* the proxy: offered `s`, the sink takes k bytes, the hasher sees them
ProxyWrite(s, k) ==
  /\ sink' = sink \o Sub(s, 1, k)
  /\ hashed' = hashed \o (IF HashOffered THEN s ELSE Sub(s, 1, k))

UserWrite(n) ==
  /\ phase = "open" /\ pend = <<>> /\ Len(user) + n <= MaxLen
  /\ pend' = Bytes(Len(user), n) /\ user' = user \o Bytes(Len(user), n)
  /\ clean' = FALSE
  /\ UNCHANGED <<buf, hashed, sink, phase, fpend>>

\* BufWriter::write: drain when the chunk does not fit, bypass the buffer for large chunks
BufDrain ==
  /\ buf # <<>>
  /\ \/ phase \in {"flush", "tflush"}
     \/ phase = "open" /\ pend # <<>> /\ Len(buf) + Len(pend) > Cap
  /\ \E k \in Accept(Len(buf)) : ProxyWrite(buf, k) /\ buf' = Sub(buf, k + 1, Len(buf))
  /\ UNCHANGED <<user, pend, phase, fpend, clean>>

BufDirect ==
  /\ phase = "open" /\ pend # <<>> /\ buf = <<>> /\ Len(pend) >= Cap
  /\ \E k \in Accept(Len(pend)) : ProxyWrite(pend, k) /\ pend' = Sub(pend, k + 1, Len(pend))
  /\ UNCHANGED <<user, buf, phase, fpend, clean>>

BufStore ==
  /\ phase = "open" /\ pend # <<>> /\ Len(pend) < Cap /\ Len(buf) + Len(pend) <= Cap
  /\ buf' = buf \o pend /\ pend' = <<>>
  /\ UNCHANGED <<user, hashed, sink, phase, fpend, clean>>

Flush ==
  /\ phase = "open" /\ pend = <<>>
  /\ phase' = "flush"
  /\ UNCHANGED <<user, pend, buf, hashed, sink, fpend, clean>>

FlushDone ==
  /\ phase = "flush" /\ buf = <<>>
  /\ phase' = "open" /\ clean' = TRUE
  /\ UNCHANGED <<user, pend, buf, hashed, sink, fpend>>

Terminate ==
  /\ phase = "open" /\ pend = <<>>
  /\ phase' = "tflush"
  /\ UNCHANGED <<user, pend, buf, hashed, sink, fpend, clean>>

\* FooterProxy::terminate_ref: the footer is computed from the hasher and written to the
\* underlying writer directly (write_all over short writes), not through the hasher
StartFooter ==
  /\ phase = "tflush" /\ buf = <<>>
  /\ phase' = "footer"
  /\ fpend' = AbsPayload(CurrentVersion, hashed) \o FTail(5)
  /\ UNCHANGED <<user, pend, buf, hashed, sink, clean>>

WriteFooter ==
  /\ phase = "footer" /\ fpend # <<>>
  /\ \E k \in Accept(Len(fpend)) : sink' = sink \o Sub(fpend, 1, k) /\ fpend' = Sub(fpend, k + 1, Len(fpend))
  /\ UNCHANGED <<user, pend, buf, hashed, phase, clean>>

Close ==
  /\ phase = "footer" /\ fpend = <<>>
  /\ phase' = "closed"
  /\ UNCHANGED <<user, pend, buf, hashed, sink, fpend, clean>>

Next ==
  \/ \E n \in Chunks : UserWrite(n)
  \/ BufDrain \/ BufDirect \/ BufStore \/ Flush \/ FlushDone \/ Terminate \/ StartFooter \/ WriteFooter \/ Close

Spec == Init /\ [][Next]_pvars



\* the hasher has seen exactly the bytes the underlying writer accepted
HashedIsAccepted == phase \in {"open", "flush", "tflush"} => hashed = sink
\* nothing is reordered or invented: the file so far is a prefix of what the user wrote
AcceptedIsPrefix == phase \in {"open", "flush", "tflush"} => IsPrefix(sink, user) /\ sink \o buf \o pend = user
\* after a flush everything written is in the file
FlushComplete == (phase = "open" /\ clean) => sink = user
\* the finished file is body ++ footer(version, crc(body)); it reads back as the body and validates
ClosedFile ==
  phase = "closed" =>
    /\ sink = AbsFile(CurrentVersion, user)
    /\ OpenRead(sink) = [st |-> "ok", body |-> user]
    /\ Validate(sink) = "ok"
=============================================================================
