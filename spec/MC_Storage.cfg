SPECIFICATION Spec
CONSTANTS
  SyncAfterMeta = TRUE
  SyncAfterRegister = FALSE
  SyncBeforeMeta = TRUE
  GcBeforeMeta = FALSE
INVARIANT CrashSafe
INVARIANT CrashDurable
INVARIANT LemmaSafe
INVARIANT LemmaOrphan
INVARIANT OrphanIsF4Class
CHECK_DEADLOCK FALSE
