---------------------------- MODULE MergePolicy ----------------------------
(* The log merge policy (src/indexer/log_merge_policy.rs) and the merge loop it drives.       *)
(* Not anchored in one of the listed properties: part of the specification of the system's     *)
(* behaviour (which segments get merged, and that merging by policy comes to rest).            *)
(*                                                                                             *)
(* A segment is [maxdoc, ndel]; a policy is                                                    *)
(*   [minseg   |-> min_num_segments,                                                           *)
(*    maxdocs  |-> max_docs_before_merge,                                                      *)
(*    minlayer |-> min_layer_size,                                                             *)
(*    q        |-> level_log_size in quarters (level_log_size = q / 4),                        *)
(*    r        |-> del_docs_ratio_before_merge in eighths (ratio = r / 8)].                    *)
(* The code compares base-2 logarithms of sizes (f64); here the same comparison is written     *)
(* on integers:  log2(a) < log2(b) - q/4   <=>   a^4 * 2^q < b^4.                               *)
(* With q not a multiple of 4 the two sides are never equal, so floating-point rounding cannot *)
(* change the outcome (sizes are kept <= 40: 40^4 * 2^7 < 2^31).                                *)
EXTENDS Naturals, Sequences, FiniteSets, SequencesExt, FiniteSetsExt, TLC

NumDocs(s) == s.maxdoc - s.ndel
Clip(p, n) == IF n < p.minlayer THEN p.minlayer ELSE n
Pow4(x) == x * x * x * x
Below(a, b, q) == Pow4(a) * (2 ^ q) < Pow4(b)

Eligible(p, s) == NumDocs(s) <= p.maxdocs
DelAbove(p, s) == s.maxdoc > 0 /\ s.ndel * 8 > p.r * s.maxdoc

\* indices of the eligible segments, stable sort by maxdoc, largest first
Order(p, segs) ==
  LET idx == {i \in 1..Len(segs) : Eligible(p, segs[i])}
  IN SetToSortSeq(idx, LAMBDA i, j : segs[i].maxdoc > segs[j].maxdoc \/ (segs[i].maxdoc = segs[j].maxdoc /\ i < j))

RECURSIVE Group(_, _, _, _, _, _)
Group(p, segs, order, i, cur, levels) ==
  IF i > Len(order) THEN levels
  ELSE LET sz == Clip(p, NumDocs(segs[order[i]])) IN
       IF levels = <<>> \/ Below(sz, cur, p.q)
       THEN Group(p, segs, order, i + 1, sz, Append(levels, <<order[i]>>))
       ELSE Group(p, segs, order, i + 1, cur, [levels EXCEPT ![Len(levels)] = Append(@, order[i])])

Levels(p, segs) == Group(p, segs, Order(p, segs), 1, 0, <<>>)

LevelMerges(p, segs, level) ==
  Len(level) >= p.minseg \/ \E k \in 1..Len(level) : DelAbove(p, segs[level[k]])

\* the merge candidates: sets of indices into segs
Candidates(p, segs) ==
  LET lv == Levels(p, segs)
  IN {ToSet(lv[k]) : k \in {k \in 1..Len(lv) : LevelMerges(p, segs, lv[k])}}

\* The result depends on the ORDER of the input when segments have the same max_doc: the sort key
\* is max_doc, the levels are built from num_docs (live documents).  The segment updater passes the
\* segments in the iteration order of a hash map, i.e. in any order.
Permute(ss, f) == [i \in 1..Len(ss) |-> ss[f[i]]]
Orders(ss) == {Permute(ss, f) : f \in Permutations(1..Len(ss))}

\* ------------------------------------------------------------------ the merge loop
CONSTANTS MaxSegs, SizeSet, Policy

VARIABLES segs
vars == <<segs>>

SumDocs(ss) == FoldSeq(LAMBDA s, acc : acc + NumDocs(s), 0, ss)
Init == segs = <<>>

\* the state is the BAG of segments, kept as a sorted sequence; the order in which the updater
\* lists them is arbitrary: every action that looks at the policy does so for some order
Canon(ss) ==
  SetToSortSeq(1..Len(ss), LAMBDA i, j : \/ ss[i].maxdoc < ss[j].maxdoc
                                         \/ (ss[i].maxdoc = ss[j].maxdoc /\ ss[i].ndel < ss[j].ndel)
                                         \/ (ss[i].maxdoc = ss[j].maxdoc /\ ss[i].ndel = ss[j].ndel /\ i < j))
Sorted(ss) == LET o == Canon(ss) IN [k \in 1..Len(ss) |-> ss[o[k]]]

AddSegment ==
  /\ Len(segs) < MaxSegs
  /\ \E m \in SizeSet : segs' = Sorted(Append(segs, [maxdoc |-> m, ndel |-> 0]))

DeleteDocs ==
  \E i \in 1..Len(segs) : \E d \in 1..(segs[i].maxdoc - 1) :
     /\ d > segs[i].ndel
     /\ segs' = Sorted([segs EXCEPT ![i].ndel = d])

Merged(ss, c) == [maxdoc |-> FoldSet(LAMBDA k, acc : acc + NumDocs(ss[k]), 0, c), ndel |-> 0]
Without(ss, c) ==
  LET keep == SetToSortSeq({k \in 1..Len(ss) : k \notin c}, <) IN [k \in 1..Len(keep) |-> ss[keep[k]]]
AfterMerge(ss, c) == Append(Without(ss, c), Merged(ss, c))

Merge == \E o \in Orders(segs) : \E c \in Candidates(Policy, o) : segs' = Sorted(AfterMerge(o, c))

Next == AddSegment \/ DeleteDocs \/ Merge
Spec == Init /\ [][Next]_vars
CONSTANT MaxDocs
Bound == SumDocs(segs) <= MaxDocs

\* ------------------------------------------------------------------ properties
CandsOf(o) == Candidates(Policy, o)
CandidatesDisjoint == \A o \in Orders(segs) : \A a, b \in CandsOf(o) : a = b \/ a \cap b = {}
CandidatesEligible == \A o \in Orders(segs) : \A c \in CandsOf(o) : \A i \in c : Eligible(Policy, o[i])
CandidatesJustified ==
  \A o \in Orders(segs) : \A c \in CandsOf(o) : Cardinality(c) >= Policy.minseg \/ \E i \in c : DelAbove(Policy, o[i])
CandidatesNonEmpty == \A o \in Orders(segs) : \A c \in CandsOf(o) : c # {}
\* every eligible segment is in exactly one level
LevelsPartition ==
  \A o \in Orders(segs) :
    LET lv == Levels(Policy, o)
        all == {i \in 1..Len(o) : Eligible(Policy, o[i])}
    IN /\ UNION {ToSet(lv[k]) : k \in 1..Len(lv)} = all
       /\ \A k1, k2 \in 1..Len(lv) : k1 # k2 => ToSet(lv[k1]) \cap ToSet(lv[k2]) = {}
\* no member of a level is a level-step below the level's first member
LevelsTight ==
  \A o \in Orders(segs) :
    LET lv == Levels(Policy, o)
    IN \A k \in 1..Len(lv) : \A j \in 1..Len(lv[k]) :
         ~Below(Clip(Policy, NumDocs(o[lv[k][j]])), Clip(Policy, NumDocs(o[lv[k][1]])), Policy.q)
\* the answer depends on the order only through segments with the same max_doc
OrderMattersOnlyForTies ==
  (\A i, j \in 1..Len(segs) : i # j => segs[i].maxdoc # segs[j].maxdoc)
     => \A o1, o2 \in Orders(segs) :
          {{o1[i] : i \in c} : c \in CandsOf(o1)} = {{o2[i] : i \in c} : c \in CandsOf(o2)}

\* merging conserves the documents and comes to rest (for minseg >= 2): a merge of several
\* segments lowers their number, a merge of one lowers the number of segments with deletes
MeasureOf(ss) == Len(ss) * (MaxSegs + 1) + Cardinality({i \in 1..Len(ss) : ss[i].ndel > 0})
MergeConserves == \A o \in Orders(segs) : \A c \in CandsOf(o) : SumDocs(AfterMerge(o, c)) = SumDocs(segs)
MergeProgress == \A o \in Orders(segs) : \A c \in CandsOf(o) : MeasureOf(AfterMerge(o, c)) < MeasureOf(segs)
=============================================================================
