---------------------------- MODULE MergePolicy ----------------------------
(* The log merge policy (src/indexer/log_merge_policy.rs) and the merge loop it drives.       *)
(* Not anchored in one of the listed properties: part of the specification of the system's     *)
(* behaviour (which segments get merged, and that merging by policy comes to rest).            *)
(*                                                                                             *)
(* A segment is [maxdoc, ndel]; a policy is                                                    *)
(*   [minseg   |-> min_num_segments,                                                           *)
(*    maxdocs  |-> max_docs_before_merge,                                                      *)
(*    minlayer |-> min_layer_size,                                                             *)
(*    q        |-> level_log_size in quarters (level_log_size = q / 4),                        *)
(*    r        |-> del_docs_ratio_before_merge in eighths (ratio = r / 8)].                    *)
(* The code compares base-2 logarithms of sizes (f64); here the same comparison is written     *)
(* on integers:  log2(a) < log2(b) - q/4   <=>   a^4 * 2^q < b^4.                               *)
(* With q not a multiple of 4 the two sides are never equal, so floating-point rounding cannot *)
(* change the outcome (sizes are kept <= 40: 40^4 * 2^7 < 2^31).                                *)
EXTENDS Naturals, Sequences, FiniteSets, SequencesExt, FiniteSetsExt

NumDocs(s) == s.maxdoc - s.ndel
Clip(p, n) == IF n < p.minlayer THEN p.minlayer ELSE n
Pow4(x) == x * x * x * x
Below(a, b, q) == Pow4(a) * (2 ^ q) < Pow4(b)

Eligible(p, s) == NumDocs(s) <= p.maxdocs
DelAbove(p, s) == s.maxdoc > 0 /\ s.ndel * 8 > p.r * s.maxdoc

\* indices of the eligible segments, stable sort by maxdoc, largest first
Order(p, segs) ==
  LET idx == {i \in 1..Len(segs) : Eligible(p, segs[i])}
  IN SetToSortSeq(idx, LAMBDA i, j : segs[i].maxdoc > segs[j].maxdoc \/ (segs[i].maxdoc = segs[j].maxdoc /\ i < j))

RECURSIVE Group(_, _, _, _, _, _)
Group(p, segs, order, i, cur, levels) ==
  IF i > Len(order) THEN levels
  ELSE LET sz == Clip(p, NumDocs(segs[order[i]])) IN
       IF levels = <<>> \/ Below(sz, cur, p.q)
       THEN Group(p, segs, order, i + 1, sz, Append(levels, <<order[i]>>))
       ELSE Group(p, segs, order, i + 1, cur, [levels EXCEPT ![Len(levels)] = Append(@, order[i])])

Levels(p, segs) == Group(p, segs, Order(p, segs), 1, 0, <<>>)

LevelMerges(p, segs, level) ==
  Len(level) >= p.minseg \/ \E k \in 1..Len(level) : DelAbove(p, segs[level[k]])

\* the merge candidates: sets of indices into segs
Candidates(p, segs) ==
  LET lv == Levels(p, segs)
  IN {ToSet(lv[k]) : k \in {k \in 1..Len(lv) : LevelMerges(p, segs, lv[k])}}

\* ------------------------------------------------------------------ the merge loop
CONSTANTS MaxSegs, SizeSet, Policy

VARIABLES segs
vars == <<segs>>

SumDocs(ss) == FoldSeq(LAMBDA s, acc : acc + NumDocs(s), 0, ss)
Init == segs = <<>>

AddSegment ==
  /\ Len(segs) < MaxSegs
  /\ \E m \in SizeSet : segs' = Append(segs, [maxdoc |-> m, ndel |-> 0])

DeleteDocs ==
  \E i \in 1..Len(segs) : \E d \in 1..(segs[i].maxdoc - 1) :
     /\ d > segs[i].ndel
     /\ segs' = [segs EXCEPT ![i].ndel = d]

Merged(ss, c) == [maxdoc |-> FoldSet(LAMBDA k, acc : acc + NumDocs(ss[k]), 0, c), ndel |-> 0]
Without(ss, c) ==
  LET keep == SetToSortSeq({k \in 1..Len(ss) : k \notin c}, <) IN [k \in 1..Len(keep) |-> ss[keep[k]]]
AfterMerge(ss, c) == Append(Without(ss, c), Merged(ss, c))

Merge == \E c \in Candidates(Policy, segs) : segs' = AfterMerge(segs, c)

Next == AddSegment \/ DeleteDocs \/ Merge
Spec == Init /\ [][Next]_vars
Bound == SumDocs(segs) <= 24

\* ------------------------------------------------------------------ properties
Cands == Candidates(Policy, segs)
CandidatesDisjoint == \A a, b \in Cands : a = b \/ a \cap b = {}
CandidatesEligible == \A c \in Cands : \A i \in c : Eligible(Policy, segs[i])
CandidatesJustified ==
  \A c \in Cands : Cardinality(c) >= Policy.minseg \/ \E i \in c : DelAbove(Policy, segs[i])
CandidatesNonEmpty == \A c \in Cands : c # {}
\* every eligible segment is in exactly one level
LevelsPartition ==
  LET lv == Levels(Policy, segs)
      all == {i \in 1..Len(segs) : Eligible(Policy, segs[i])}
  IN /\ UNION {ToSet(lv[k]) : k \in 1..Len(lv)} = all
     /\ \A k1, k2 \in 1..Len(lv) : k1 # k2 => ToSet(lv[k1]) \cap ToSet(lv[k2]) = {}
\* no member of a level is a level-step below the level's first member
LevelsTight ==
  LET lv == Levels(Policy, segs)
  IN \A k \in 1..Len(lv) : \A j \in 1..Len(lv[k]) :
       ~Below(Clip(Policy, NumDocs(segs[lv[k][j]])), Clip(Policy, NumDocs(segs[lv[k][1]])), Policy.q)

\* merging conserves the documents and comes to rest (for minseg >= 2): a merge of several
\* segments lowers their number, a merge of one lowers the number of segments with deletes
NumWithDeletes == Cardinality({i \in 1..Len(segs) : segs[i].ndel > 0})
Measure == Len(segs) * (MaxSegs + 1) + NumWithDeletes
MergeConserves == [][Merge => SumDocs(segs') = SumDocs(segs)]_vars
MergeProgress == [][Merge => Measure' < Measure]_vars
=============================================================================
