------------------------------- MODULE Dict -------------------------------
(* C15 - a term dictionary is an ordered map from byte strings to values.                  *)
(* A dictionary is a record [keys |-> <<k1, ..., kn>>, vals |-> <<v1, ..., vn>>]; a key is a  *)
(* sequence of bytes (0..255), values are opaque.  Ordinals are 0-based as in tantivy.       *)
(* Every operator below is written so that it can be evaluated by TLC on recorded data       *)
(* (linear or logarithmic in the dictionary); the naive, obviously-right definitions          *)
(* (suffix "Def") are related to them by the lemmas model-checked in MC_Dict.                *)
EXTENDS Naturals, Integers, Sequences, FiniteSets

Min2(a, b) == IF a <= b THEN a ELSE b
Max2(a, b) == IF a >= b THEN a ELSE b
SeqSet(s) == {s[i] : i \in 1..Len(s)}

---------------------------------------------------------------------------
(* order on keys *)
\* first position where a and b differ, 0 if one is a prefix of the other.  (Not written as a
\* recursion: TLC re-evaluates lazy arguments of RECURSIVE operators, which is quadratic on
\* keys of tens of kilobytes; a set of integers is enumerated in increasing order.)
FirstDiff(a, b) ==
  LET n == Min2(Len(a), Len(b))
      D == {i \in 1..n : a[i] # b[i]}
  IN  IF D = {} THEN 0 ELSE CHOOSE x \in D : \A y \in D : x <= y

LexLess(a, b) ==
  LET i == FirstDiff(a, b)
  IN  IF i = 0 THEN Len(a) < Len(b) ELSE a[i] < b[i]
LexLeq(a, b) == a = b \/ LexLess(a, b)

\* the textbook definition (for the lemmas)
LexLessDef(a, b) ==
  \E i \in 1..(Min2(Len(a), Len(b)) + 1) :
     /\ \A j \in 1..(i - 1) : a[j] = b[j]
     /\ \/ (i > Len(a) /\ i <= Len(b))
        \/ (i <= Len(a) /\ i <= Len(b) /\ a[i] < b[i])

IsPrefix(p, k) == Len(p) <= Len(k) /\ \A i \in 1..Len(p) : k[i] = p[i]

StrictlySorted(keys) == \A i \in 1..(Len(keys) - 1) : LexLess(keys[i], keys[i + 1])
WellFormed(d) == Len(d.keys) = Len(d.vals) /\ StrictlySorted(d.keys)
N(d) == Len(d.keys)

---------------------------------------------------------------------------
(* number of keys strictly below k: binary search; the definition is CountLessDef *)
RECURSIVE LB(_, _, _, _)
LB(keys, k, lo, hi) ==      \* keys[1..lo] < k, keys[hi+1..] >= k
  IF lo >= hi THEN lo
  ELSE LET m == (lo + hi + 1) \div 2 IN
       IF LexLess(keys[m], k) THEN LB(keys, k, m, hi) ELSE LB(keys, k, lo, m - 1)
CountLess(d, k) == LB(d.keys, k, 0, N(d))
CountLessDef(d, k) == Cardinality({i \in 1..N(d) : LexLess(d.keys[i], k)})

Has(d, k) == LET c == CountLess(d, k) IN c < N(d) /\ d.keys[c + 1] = k
CountLeq(d, k) == CountLess(d, k) + (IF Has(d, k) THEN 1 ELSE 0)

\* exact lookup, key -> ordinal, ordinal -> key
Get(d, k) == IF Has(d, k) THEN [found |-> TRUE, v |-> d.vals[CountLess(d, k) + 1]] ELSE [found |-> FALSE]
Ord(d, k) == IF Has(d, k) THEN [found |-> TRUE, ord |-> CountLess(d, k)] ELSE [found |-> FALSE]
KeyOfOrd(d, o) == IF o < N(d) THEN [found |-> TRUE, k |-> d.keys[o + 1]] ELSE [found |-> FALSE]
ValOfOrd(d, o) == IF o < N(d) THEN [found |-> TRUE, v |-> d.vals[o + 1]] ELSE [found |-> FALSE]

\* ordinal-or-successor.  Past the last key the API only promises "some ordinal that is not a
\* term" (Next(n), n >= number of terms; u64::MAX occurs - a documented TODO of the code).
OrdOrNextOk(d, k, exact, ord) ==
  LET c == CountLess(d, k) IN
  IF Has(d, k) THEN exact /\ ord = c
  ELSE ~exact /\ (IF c < N(d) THEN ord = c ELSE ord >= N(d))

---------------------------------------------------------------------------
(* streams: an entry is <<key, ordinal, value>> *)
Entry(d, o) == <<d.keys[o + 1], o, d.vals[o + 1]>>
Slice(d, from, to) == IF to <= from THEN <<>> ELSE [i \in 1..(to - from) |-> Entry(d, from + i - 1)]

\* a bound is <<kind, key>>: lower kinds "unb" "ge" "gt", upper kinds "unb" "le" "lt"
LowerOrd(d, lo) == CASE lo[1] = "ge" -> CountLess(d, lo[2]) [] lo[1] = "gt" -> CountLeq(d, lo[2]) [] OTHER -> 0
UpperOrd(d, hi) == CASE hi[1] = "lt" -> CountLess(d, hi[2]) [] hi[1] = "le" -> CountLeq(d, hi[2]) [] OTHER -> N(d)
Range(d, lo, hi) == Slice(d, LowerOrd(d, lo), UpperOrd(d, hi))      \* inverted bounds: empty

InBounds(k, lo, hi) ==
  /\ CASE lo[1] = "ge" -> LexLeq(lo[2], k) [] lo[1] = "gt" -> LexLess(lo[2], k) [] OTHER -> TRUE
  /\ CASE hi[1] = "le" -> LexLeq(k, hi[2]) [] hi[1] = "lt" -> LexLess(k, hi[2]) [] OTHER -> TRUE

\* all entries whose key satisfies P, in order
Filter(d, P(_)) ==
  LET idx == SelectSeq([i \in 1..N(d) |-> i], LAMBDA i : P(d.keys[i]))
  IN  [j \in 1..Len(idx) |-> Entry(d, idx[j] - 1)]
RangeDef(d, lo, hi) == Filter(d, LAMBDA k : InBounds(k, lo, hi))

Prefix(d, p) == Filter(d, LAMBDA k : IsPrefix(p, k))
\* the smallest key greater than every key with prefix p (<<>> if there is none)
RECURSIVE PrefixSucc(_)
PrefixSucc(p) == IF p = <<>> THEN <<>>
                 ELSE IF p[Len(p)] = 255 THEN PrefixSucc(SubSeq(p, 1, Len(p) - 1))
                 ELSE [p EXCEPT ![Len(p)] = @ + 1]
PrefixAsRange(d, p) == Range(d, <<"ge", p>>, IF PrefixSucc(p) = <<>> THEN <<"unb", <<>>>> ELSE <<"lt", PrefixSucc(p)>>)

\* `limit(n)` is a loading hint: the stream is a prefix of the answer, at least min(n, |answer|) long
LimitOk(got, answer, limit) ==
  /\ Len(got) <= Len(answer) /\ Len(got) >= Min2(limit, Len(answer))
  /\ got = SubSeq(answer, 1, Len(got))

---------------------------------------------------------------------------
(* automata.  aut.t \in {"all", "prefix", "lev", "re"}                                      *)
(* Levenshtein: rows of the dynamic programme; a row is a sequence of Len(q)+1 numbers.     *)
Min3(a, b, c) == Min2(a, Min2(b, c))
LevRow0(q) == [j \in 1..(Len(q) + 1) |-> j - 1]
\* next row after reading symbol c; pp/pc = row and symbol before the previous one (transpositions)
RECURSIVE LevFill(_, _, _, _, _, _, _, _)
LevFill(q, prev, pp, pc, c, tr, j, acc) ==     \* acc = new row cells 1..j (cell index j+1 is next)
  IF j > Len(q) THEN acc
  ELSE LET sub == prev[j] + (IF q[j] = c THEN 0 ELSE 1)
           base == Min3(prev[j + 1] + 1, acc[j] + 1, sub)
           cell == IF tr /\ pp # <<>> /\ j >= 2 /\ q[j] = pc /\ q[j - 1] = c THEN Min2(base, pp[j - 1] + 1) ELSE base
       IN  LevFill(q, prev, pp, pc, c, tr, j + 1, Append(acc, cell))
LevNext(q, prev, pp, pc, c, tr) == LevFill(q, prev, pp, pc, c, tr, 1, <<prev[1] + 1>>)

\* does k match: distance(q, k) <= dist; with `pre` some prefix of k is within the distance
RECURSIVE LevRun(_, _, _, _, _, _, _, _, _)
LevRun(q, k, i, prev, pp, pc, tr, dist, pre) ==
  IF pre /\ prev[Len(q) + 1] <= dist THEN TRUE
  ELSE IF i > Len(k) THEN prev[Len(q) + 1] <= dist
  ELSE LevRun(q, k, i + 1, LevNext(q, prev, pp, pc, k[i], tr), prev, k[i], tr, dist, pre)
LevMatch(q, k, dist, tr, pre) == LevRun(q, k, 1, LevRow0(q), <<>>, 0, tr, dist, pre)

\* textbook definitions: edit distance by recursion on the last symbols (optimal string alignment
\* when tr: an adjacent transposition costs one and the transposed pair is not edited again)
RECURSIVE DistDef(_, _, _)
DistDef(a, b, tr) ==
  IF a = <<>> THEN Len(b) ELSE IF b = <<>> THEN Len(a)
  ELSE LET a1 == SubSeq(a, 1, Len(a) - 1)  b1 == SubSeq(b, 1, Len(b) - 1)
           d0 == Min3(DistDef(a1, b, tr) + 1, DistDef(a, b1, tr) + 1,
                      DistDef(a1, b1, tr) + (IF a[Len(a)] = b[Len(b)] THEN 0 ELSE 1))
       IN IF tr /\ Len(a) >= 2 /\ Len(b) >= 2 /\ a[Len(a)] = b[Len(b) - 1] /\ a[Len(a) - 1] = b[Len(b)]
          THEN Min2(d0, DistDef(SubSeq(a, 1, Len(a) - 2), SubSeq(b, 1, Len(b) - 2), tr) + 1)
          ELSE d0
LevMatchDef(q, k, dist, tr, pre) ==
  IF pre THEN \E n \in 0..Len(k) : DistDef(q, SubSeq(k, 1, n), tr) <= dist
  ELSE DistDef(q, k, tr) <= dist

(* regular expressions over bytes: <<"eps">> <<"lit", b>> <<"dot">> <<"cat", r, s>>           *)
(* <<"alt", r, s>> <<"opt", r>> <<"star", r>> <<"plus", r>>; anchored at both ends.            *)
(* "dot" is one character of valid UTF-8 text other than line feed; over the key alphabets of  *)
(* this check (no byte in 0x80..0xFE) that is one byte below 0x80 other than 0x0A.              *)
RECURSIVE Ends(_, _, _), StarEnds(_, _, _)
Ends(r, k, S) ==
  CASE r[1] = "eps"  -> S
    [] r[1] = "lit"  -> {i + 1 : i \in {j \in S : j < Len(k) /\ k[j + 1] = r[2]}}
    [] r[1] = "dot"  -> {i + 1 : i \in {j \in S : j < Len(k) /\ k[j + 1] < 128 /\ k[j + 1] # 10}}
    [] r[1] = "cat"  -> Ends(r[3], k, Ends(r[2], k, S))
    [] r[1] = "alt"  -> Ends(r[2], k, S) \cup Ends(r[3], k, S)
    [] r[1] = "opt"  -> S \cup Ends(r[2], k, S)
    [] r[1] = "star" -> StarEnds(r[2], k, S)
    [] r[1] = "plus" -> StarEnds(r[2], k, Ends(r[2], k, S))
StarEnds(r, k, S) == LET T == S \cup Ends(r, k, S) IN IF T = S THEN S ELSE StarEnds(r, k, T)
ReMatch(r, k) == Len(k) \in Ends(r, k, {0})

Matches(aut, k) ==
  CASE aut.t = "all"    -> TRUE
    [] aut.t = "prefix" -> IsPrefix(aut.p, k)
    [] aut.t = "lev"    -> LevMatch(aut.q, k, aut.d, aut.tr, aut.pre)
    [] aut.t = "re"     -> ReMatch(aut.ast, k)
Search(d, aut, lo, hi) == Filter(d, LAMBDA k : InBounds(k, lo, hi) /\ Matches(aut, k))

---------------------------------------------------------------------------
(* merge = sorted union.  maps[s][i] = new ordinal of the i-th key of source s (0-based).    *)
AllKeys(srcs) == UNION {SeqSet(srcs[s].keys) : s \in 1..Len(srcs)}
IsMergeOf(out, srcs) == StrictlySorted(out.keys) /\ SeqSet(out.keys) = AllKeys(srcs)
MapsOk(out, srcs, maps) ==
  /\ Len(maps) = Len(srcs)
  /\ \A s \in 1..Len(srcs) :
       /\ Len(maps[s]) = N(srcs[s])
       /\ \A i \in 1..N(srcs[s]) : maps[s][i] < N(out) /\ out.keys[maps[s][i] + 1] = srcs[s].keys[i]
  /\ UNION {SeqSet(maps[s]) : s \in 1..Len(srcs)} = 0..(N(out) - 1)
\* value of a merged key: "sum" of the sources' values, or the "first" source's value
RECURSIVE SumOver(_, _, _)
SumOver(srcs, k, s) == IF s > Len(srcs) THEN 0
                       ELSE (IF Has(srcs[s], k) THEN Get(srcs[s], k).v ELSE 0) + SumOver(srcs, k, s + 1)
FirstOver(srcs, k) == LET s == CHOOSE x \in 1..Len(srcs) : Has(srcs[x], k) /\ \A y \in 1..(x - 1) : ~Has(srcs[y], k)
                      IN  Get(srcs[s], k).v
MergedValsOk(out, srcs, how) ==
  Len(out.vals) = N(out) /\
  \A o \in 1..N(out) : out.vals[o] = (CASE how = "sum" -> SumOver(srcs, out.keys[o], 1)
                                       [] how = "first" -> FirstOver(srcs, out.keys[o])
                                       [] OTHER -> out.vals[o])

\* the definition: sort the union
RECURSIVE SortKeys(_)
SortKeys(S) == IF S = {} THEN <<>>
               ELSE LET m == CHOOSE x \in S : \A y \in S : LexLeq(x, y) IN <<m>> \o SortKeys(S \ {m})
MergeKeysDef(srcs) == SortKeys(AllKeys(srcs))

=============================================================================
