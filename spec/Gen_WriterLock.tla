--------------------------- MODULE Gen_WriterLock ---------------------------
(* Generator of C18: lifecycles of writer objects as sequences of user-level operations,      *)
(* printed as JSON for harness/src/bin/lock_driver.rs (R direction).  The operations are the   *)
(* atomic readings of the WriterLock actions; a creation round picks one of the outcomes that  *)
(* RaceOutcomeOK allows (the real run may pick another one: the driver then answers `skip` to  *)
(* operations on writers it does not hold).                                                    *)
EXTENDS WriterLock, Json

CONSTANTS MaxSteps, MaxRace
VARIABLES hist, fin
gvars == <<vars, hist, fin>>

BadKinds == {"budget", "threads0", "threads0n", "toobig"}
H(rec) == hist' = Append(hist, rec) /\ UNCHANGED fin
Go == ~fin /\ steps < MaxSteps /\ Quiet

\* handle patterns of a round: everybody on A, everybody on B, alternating
HandlesOf(n, p) == [i \in 1..n |-> CASE p = 1 -> "A" [] p = 2 -> "B" [] OTHER -> (IF i % 2 = 1 THEN "A" ELSE "B")]

\* n attempts, those in B with invalid options of kind bk; `won` = one of the valid attempts
\* gets the writer (forced when nobody can hold the lock in its way, impossible on a held lock)
GRace ==
  /\ Go
  /\ \E n \in 1..MaxRace : \E p \in 1..3 : \E bk \in BadKinds : \E B \in SUBSET (1..n) : \E won, sp \in BOOLEAN :
     LET hs == HandlesOf(n, p)
         bads == [i \in 1..n |-> IF i \in B THEN bk ELSE "none"]
         good == (1..n) \ B IN
     /\ (B = {} => bk = "budget")                         \* no duplicates
     /\ won = (IF Held \/ good = {} THEN FALSE ELSE IF B = {} THEN TRUE ELSE won)
     /\ IF won
        THEN /\ ws' = ws \cup {NewWriter(nextW, hs[CHOOSE i \in good : TRUE])}
             /\ guard' = [k |-> "w", id |-> nextW] /\ nextW' = nextW + 1
        ELSE UNCHANGED <<guard, ws, nextW>>
     /\ steps' = steps + 1 /\ UNCHANGED <<pc, round>>
     /\ H([op |-> "race", hs |-> hs, bad |-> bads, spawn |-> (sp \/ n > 1)])

GNext ==
  \/ GRace
  \/ \E w \in ws : \E c \in BOOLEAN : Go /\ Rollback(w) /\ H([op |-> "rollback", w |-> w.id, contend |-> c])
  \/ \E w \in ws : Go /\ RollbackFail(w) /\ H([op |-> "failroll", w |-> w.id])
  \/ \E w \in ws : Go /\ Drop(w) /\ H([op |-> "drop", w |-> w.id])
  \/ \E w \in ws : Go /\ Wait(w) /\ H([op |-> "wait", w |-> w.id])
  \/ \E w \in ws : \E how \in {"schema", "fault"} : Go /\ Kill(w) /\ H([op |-> "kill", w |-> w.id, how |-> how])
  \/ /\ ~fin /\ steps >= MaxSteps
     /\ PrintT(<<"CASE", ToJson(hist)>>)
     /\ fin' = TRUE /\ UNCHANGED <<vars, hist>>

GInit == Init /\ hist = <<>> /\ fin = FALSE
GSpec == GInit /\ [][GNext]_gvars
=============================================================================
