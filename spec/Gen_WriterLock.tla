--------------------------- MODULE Gen_WriterLock ---------------------------
(* Generator of C18: lifecycles of writer objects as sequences of user-level operations,      *)
(* printed as JSON for harness/src/bin/lock_driver.rs (R direction).  The operations are the   *)
(* atomic readings of the WriterLock actions; a creation round picks one of the outcomes that  *)
(* RaceOutcomeOK allows (the real run may pick another one: the driver then answers `skip` to  *)
(* operations on writers it does not hold).                                                    *)
EXTENDS WriterLock, Json

CONSTANTS MaxSteps, MaxRace
VARIABLES hist, fin
gvars == <<vars, hist, fin>>

Kinds == <<"none", "none", "none", "budget", "threads0", "toobig">>
H(rec) == hist' = Append(hist, rec) /\ UNCHANGED fin
Go == ~fin /\ steps < MaxSteps /\ Quiet

GRace ==
  /\ Go
  /\ \E n \in 1..MaxRace : \E hs \in [1..n -> Handles] : \E ks \in [1..n -> 1..Len(Kinds)] : \E sp \in BOOLEAN :
     LET bads == [i \in 1..n |-> Kinds[ks[i]]]
         badf == [i \in 1..n |-> bads[i] # "none"] IN
     \E res \in [1..n -> {"ok", "LockBusy", "InvalidArgument"}] :
       /\ RaceOutcomeOK(res, badf, Held)
       /\ LET oks == {i \in 1..n : res[i] = "ok"} IN
          IF oks = {} THEN UNCHANGED <<guard, ws, nextW>>
          ELSE LET i == CHOOSE i \in oks : TRUE IN
               /\ ws' = ws \cup {NewWriter(nextW, hs[i])}
               /\ guard' = [k |-> "w", id |-> nextW] /\ nextW' = nextW + 1
       /\ steps' = steps + 1 /\ UNCHANGED <<pc, round>>
       /\ H([op |-> "race", hs |-> hs, bad |-> bads, spawn |-> (sp \/ n > 1)])

GNext ==
  \/ GRace
  \/ \E w \in ws : \E c \in BOOLEAN : Go /\ Rollback(w) /\ H([op |-> "rollback", w |-> w.id, contend |-> c])
  \/ \E w \in ws : Go /\ RollbackFail(w) /\ H([op |-> "failroll", w |-> w.id])
  \/ \E w \in ws : Go /\ Drop(w) /\ H([op |-> "drop", w |-> w.id])
  \/ \E w \in ws : Go /\ Wait(w) /\ H([op |-> "wait", w |-> w.id])
  \/ \E w \in ws : \E how \in {"schema", "fault"} : Go /\ Kill(w) /\ H([op |-> "kill", w |-> w.id, how |-> how])
  \/ /\ ~fin /\ steps >= MaxSteps
     /\ PrintT(<<"CASE", ToJson(hist)>>)
     /\ fin' = TRUE /\ UNCHANGED <<vars, hist>>

GInit == Init /\ hist = <<>> /\ fin = FALSE
GSpec == GInit /\ [][GNext]_gvars
=============================================================================
