SPECIFICATION TSpec
POSTCONDITION Accepted
CHECK_DEADLOCK FALSE
CONSTANTS
  SizeClasses = {}
  BlockSize = 16384
  MaxDocs = 0
  CacheCap = 100
  KeyByLength = FALSE
