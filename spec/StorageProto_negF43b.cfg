SPECIFICATION Spec
CONSTANTS
  NSeg = 4
  MaxCommits = 2
  SyncBeforeMeta = "always"
  SyncAfterMeta = TRUE
  RegisterFirst = TRUE
  OldDelDeletedEarly = FALSE
  GcProtectsBuilding = TRUE
  MaxFaults = 1
  StoreMetaFirst = FALSE
  KillWaits = FALSE
  GcProtectsMergeSources = TRUE
  ReplaceStaleDel = TRUE
INVARIANT NeverDeletesNeeded
CHECK_DEADLOCK FALSE
