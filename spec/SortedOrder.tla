------------------------------ MODULE SortedOrder ------------------------------
(* C17, the order: Sorted(seg) for a sort direction.  Sort values are integers (in traces:    *)
(* order-preserving ranks of the raw values), Missing = the document has no value.  Documents  *)
(* without a value come first in ascending and last in descending order                        *)
(* (columnar/src/columnar/writer/mod.rs sort_order: None < Some, reversed for Desc;            *)
(*  src/indexer/merger.rs: Column::first() compared as Option).                                *)
EXTENDS Integers, Sequences

Missing == -1

\* a may stand before b
LeqO(o, a, b) ==
  IF o = "asc" THEN (IF a = Missing THEN TRUE ELSE IF b = Missing THEN FALSE ELSE a <= b)
  ELSE (IF b = Missing THEN TRUE ELSE IF a = Missing THEN FALSE ELSE a >= b)

\* Sorted(seg): the sequence of sort values in doc-id order (written without disjunctions:
\* it is evaluated inside trace actions)
SortedKeys(o, ks) == {j \in 1..(Len(ks) - 1) : ~LeqO(o, ks[j], ks[j + 1])} = {}
=============================================================================
