------------------------------ MODULE MC_Storage ------------------------------
(* The commit / merge / garbage-collection protocol, one step per Directory operation, exactly *)
(* in the order the real code issues them (recorded with SimDirectory), with a crash possible  *)
(* at every boundary.  Checked: CrashSafe, CrashDurable (C01), CrashNoOrphan (C10, finding F4), *)
(* and that the linear characterisations equal the power-set definitions.                      *)
EXTENDS Storage, TLC
CONSTANTS SyncAfterMeta, SyncAfterRegister, SyncBeforeMeta, GcBeforeMeta

VARIABLES pc, acked, ackedIdx, callIdx
vars == <<svars, pc, acked, ackedIdx, callIdx>>

Comp(s) == {s \o ".idx", s \o ".store"}
Reg(p)   == <<[op |-> "man_add", p |-> p]>> \o (IF SyncAfterRegister THEN <<[op |-> "sync"]>> ELSE <<>>)
Build1(p) == Reg(p) \o <<[op |-> "create", p |-> p]>>
Fin1(p) == <<[op |-> "terminate", p |-> p], [op |-> "drop", p |-> p]>>
Build(s) == Build1(s \o ".idx") \o Build1(s \o ".store") \o Fin1(s \o ".idx") \o Fin1(s \o ".store")
Save(files, op) == (IF SyncBeforeMeta THEN <<[op |-> "sync"]>> ELSE <<>>)
                   \o <<[op |-> "meta", files |-> files, o |-> op]>>
                   \o (IF SyncAfterMeta THEN <<[op |-> "sync"]>> ELSE <<>>)
Gc(dead) == [i \in 1..Len(dead) |-> [op |-> "delete", p |-> dead[i]]]
            \o (IF dead # <<>> THEN <<[op |-> "sync"], [op |-> "man_remove", rm |-> dead]>> ELSE <<>>)
Dead12 == <<"s1.idx", "s1.store", "s2.idx", "s2.store", "s1.5.del">>
Script ==
     Build("s1") \o <<[op |-> "call"]>> \o Save(Comp("s1"), 1) \o Gc(<<>>) \o <<[op |-> "ret", o |-> 1]>>
  \o Build("s2") \o <<[op |-> "call"]>> \o Build1("s1.5.del") \o Fin1("s1.5.del")
  \o Save(Comp("s1") \cup Comp("s2") \cup {"s1.5.del"}, 5) \o Gc(<<>>) \o <<[op |-> "ret", o |-> 5]>>
  \o Build("m")
  \o (IF GcBeforeMeta THEN Gc(Dead12) \o Save(Comp("m"), 5) ELSE Save(Comp("m"), 5) \o Gc(Dead12))

Init == SInit /\ pc = 1 /\ acked = 0 /\ ackedIdx = 1 /\ callIdx = 1

Step ==
  /\ pc <= Len(Script) /\ pc' = pc + 1
  /\ LET s == Script[pc] IN
     CASE s.op = "man_add" -> AWriteMan(manV[Len(manV)] \cup {s.p}) /\ UNCHANGED <<acked, ackedIdx, callIdx>>
       [] s.op = "man_remove" -> AWriteMan(manV[Len(manV)] \ {s.rm[i] : i \in 1..Len(s.rm)}) /\ UNCHANGED <<acked, ackedIdx, callIdx>>
       [] s.op = "create" -> Create(s.p) /\ UNCHANGED <<acked, ackedIdx, callIdx>>
       [] s.op = "terminate" -> Terminate(s.p) /\ UNCHANGED <<acked, ackedIdx, callIdx>>
       [] s.op = "drop" -> DropWriter(s.p) /\ UNCHANGED <<acked, ackedIdx, callIdx>>
       [] s.op = "delete" -> Delete(s.p) /\ UNCHANGED <<acked, ackedIdx, callIdx>>
       [] s.op = "sync" -> SyncDir /\ UNCHANGED <<acked, ackedIdx, callIdx>>
       [] s.op = "meta" -> AWriteMeta(s.files, s.o) /\ UNCHANGED <<acked, ackedIdx, callIdx>>
       [] s.op = "call" -> callIdx' = Len(metaV) /\ UNCHANGED <<svars, acked, ackedIdx>>
       [] s.op = "ret" -> /\ acked' = s.o
                          /\ ackedIdx' = CHOOSE i \in (callIdx+1)..Len(metaV) : metaV[i].op = s.o
                          /\ UNCHANGED <<svars, callIdx>>
Spec == Init /\ [][Step]_vars

\* C01 (2): the surviving meta.json is the last acknowledged commit or a later one
CrashDurable == Lo(metaDur) >= ackedIdx
=============================================================================
