---------------------------- MODULE WarmProtoInd ----------------------------
(* Apalache instance of WarmProto: IndInv (with the three invariants of the property) is      *)
(* inductive for the code as it is (collection under the warming mutex), up to 16 generations. *)
(* Not used by TLC.                                                                            *)
EXTENDS Integers, FiniteSets
CONSTANTS
  \* @type: Int;
  MaxGen,
  \* @type: Set(Str);
  Users,
  \* @type: Bool;
  GcUnderMutex
VARIABLES
  \* @type: Int;
  nextGen,
  \* @type: Set(Int);
  tracked,
  \* @type: Int;
  published,
  \* @type: {st: Str, g: Int};
  reload,
  \* @type: Str -> Set(Int);
  held,
  \* @type: Set(Int);
  warmedIds,
  \* @type: Set(Int);
  wstate,
  \* @type: {st: Str, live: Set(Int)};
  gc
INSTANCE WarmProto
ConstInit ==
  /\ MaxGen = 16
  /\ Users = {"u1", "u2", "u3"}
  /\ GcUnderMutex = TRUE
IndInit == IndInv
IndAll == IndInv /\ PublishedIsWarmed /\ NeverDiscardHeld /\ InventoryExact
=============================================================================
