SPECIFICATION Spec
CONSTANTS
  Inst = {a, b}
  MaxFiles = 4
  ReloadOnAcquire = TRUE
INVARIANTS TypeOK NoUnmanagedFile NoOrphanAtRest NeverDeletesLiving
CHECK_DEADLOCK FALSE
