SPECIFICATION Spec
CONSTANTS
  MaxClauses = 4
  UseNested = FALSE
  SingleShouldIgnoresMsm = FALSE
INVARIANT NoPositiveClauseMatchesNothing
INVARIANT MsmAboveShouldCountMatchesNothing
INVARIANT WithinMustOutsideMustNot
INVARIANT MsmCounts
INVARIANT OptionalShouldDoesNotFilter
INVARIANT AllShouldRequiredIsConjunction
CHECK_DEADLOCK FALSE
