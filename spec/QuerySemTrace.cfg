SPECIFICATION TSpec
CONSTANTS
  MaxClauses = 0
  UseNested = FALSE
  SingleShouldIgnoresMsm = FALSE
POSTCONDITION Accepted
CHECK_DEADLOCK FALSE
