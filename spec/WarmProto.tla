------------------------------ MODULE WarmProto ------------------------------
(***************************************************************************)
(* Searcher generations, warmers and their garbage collection               *)
(* (src/reader/warming.rs, src/reader/mod.rs create_searcher / reload).     *)
(* A reload tracks a new SearcherGeneration in the inventory, warms it with *)
(* every live warmer UNDER THE WARMING MUTEX, then publishes the searcher.  *)
(* A background thread, every second, under the same mutex: lists the       *)
(* generations still alive in the inventory and, if some warmed generation  *)
(* is gone, tells every warmer to discard the state of all others.          *)
(* Users hold searchers (C05: a held searcher keeps answering the same);    *)
(* a warmer's per-generation state (caches) is part of what a held searcher *)
(* answers with, so it must never be discarded under a held searcher.       *)
(***************************************************************************)
EXTENDS Naturals, FiniteSets, TLC

CONSTANTS
  \* @type: Int;
  MaxGen,
  \* @type: Set(Str);
  Users,
  \* @type: Bool;
  GcUnderMutex      \* TRUE = code: listing and discarding are one critical section with warming

VARIABLES
  \* @type: Int;
  nextGen,
  \* @type: Set(Int);
  tracked,    \* generation ids alive in the inventory (some Searcher / SearcherInner still references them)
  \* @type: Int;
  published,  \* generation of the searcher the reader hands out (0: the initial one is never warmed here)
  \* @type: {st: Str, g: Int};
  reload,     \* the reload in progress: [st: "idle" | "tracked" | "warmed", g]
  \* @type: Str -> Set(Int);
  held,       \* [Users -> set of generations a user holds a Searcher of]
  \* @type: Set(Int);
  warmedIds,  \* WarmingStateInner.warmed_generation_ids
  \* @type: Set(Int);
  wstate,     \* the warmer's own per-generation state (what Warmer::warm built, garbage_collect discards)
  \* @type: {st: Str, live: Set(Int)};
  gc          \* the GC thread: [st: "idle" | "listed", live]  ("listed" only without the mutex)

vars == <<nextGen, tracked, published, reload, held, warmedIds, wstate, gc>>

Init == /\ nextGen = 1 /\ tracked = {} /\ published = 0 /\ reload = [st |-> "idle", g |-> 0]
        /\ held = [u \in Users |-> {}] /\ warmedIds = {} /\ wstate = {} /\ gc = [st |-> "idle", live |-> {}]

Referenced(g) == g = published \/ (reload.st # "idle" /\ reload.g = g) \/ \E u \in Users : g \in held[u]

\* create_searcher: open the segment readers, track the generation
ReloadTrack ==
  /\ reload.st = "idle" /\ nextGen <= MaxGen
  /\ reload' = [st |-> "tracked", g |-> nextGen] /\ tracked' = tracked \cup {nextGen} /\ nextGen' = nextGen + 1
  /\ UNCHANGED <<published, held, warmedIds, wstate, gc>>
\* warm_new_searcher_generation: under the mutex
ReloadWarm ==
  /\ reload.st = "tracked" /\ (GcUnderMutex => gc.st = "idle")
  /\ warmedIds' = warmedIds \cup {reload.g} /\ wstate' = wstate \cup {reload.g}
  /\ reload' = [reload EXCEPT !.st = "warmed"]
  /\ UNCHANGED <<nextGen, tracked, published, held, gc>>
\* self.searcher.store(searcher): the previous searcher is dropped by the reader
ReloadPublish ==
  /\ reload.st = "warmed"
  /\ published' = reload.g /\ reload' = [st |-> "idle", g |-> 0]
  /\ tracked' = {g \in tracked : g = reload.g \/ \E u \in Users : g \in held[u]}
  /\ UNCHANGED <<nextGen, held, warmedIds, wstate, gc>>
Hold(u) ==
  /\ published # 0 /\ published \notin held[u]
  /\ held' = [held EXCEPT ![u] = @ \cup {published}]
  /\ UNCHANGED <<nextGen, tracked, published, reload, warmedIds, wstate, gc>>
Release(u, g) ==
  /\ g \in held[u]
  /\ held' = [held EXCEPT ![u] = @ \ {g}]
  /\ tracked' = {x \in tracked : x = published \/ (reload.st # "idle" /\ reload.g = x) \/ \E v \in Users : x \in held'[v]}
  /\ UNCHANGED <<nextGen, published, reload, warmedIds, wstate, gc>>

\* gc_maybe
Discard(live) == IF warmedIds \subseteq live THEN UNCHANGED <<warmedIds, wstate>>
                 ELSE wstate' = wstate \cap live /\ warmedIds' = live
GcAtomic ==
  /\ GcUnderMutex /\ gc.st = "idle"
  /\ Discard(tracked)
  /\ UNCHANGED <<nextGen, tracked, published, reload, held, gc>>
GcList ==
  /\ ~GcUnderMutex /\ gc.st = "idle"
  /\ gc' = [st |-> "listed", live |-> tracked]
  /\ UNCHANGED <<nextGen, tracked, published, reload, held, warmedIds, wstate>>
GcDiscard ==
  /\ ~GcUnderMutex /\ gc.st = "listed"
  /\ Discard(gc.live) /\ gc' = [st |-> "idle", live |-> {}]
  /\ UNCHANGED <<nextGen, tracked, published, reload, held>>

Next == ReloadTrack \/ ReloadWarm \/ ReloadPublish \/ GcAtomic \/ GcList \/ GcDiscard
        \/ \E u \in Users : Hold(u) \/ \E g \in held[u] : Release(u, g)
Spec == Init /\ [][Next]_vars
FairSpec == Spec /\ WF_vars(GcAtomic)

\* a searcher handed out was warmed
PublishedIsWarmed == published # 0 => published \in wstate
\* the warmer's state of a generation is never discarded while somebody holds a searcher of it
NeverDiscardHeld == \A u \in Users : held[u] \subseteq wstate
\* the inventory is exact: held and published generations are tracked
InventoryExact == \A u \in Users : held[u] \subseteq tracked
\* Inductive invariant of the code (GcUnderMutex = TRUE), for generations 1..16: checked with Apalache (WarmProtoInd.tla).
\* Everything somebody can still reach (the published searcher, the reload in progress, held searchers) is tracked, and
\* what was warmed among it still has its warmer state; the collection never sits between listing and discarding.
Gens == 1..16
IndInv ==
  /\ nextGen \in 1..17 /\ published \in 0..16
  /\ tracked \in SUBSET Gens /\ warmedIds \in SUBSET Gens /\ wstate \in SUBSET Gens
  /\ held \in [Users -> SUBSET Gens]
  /\ reload \in [st : {"idle", "tracked", "warmed"}, g : 0..16]
  /\ gc = [st |-> "idle", live |-> {}]
  /\ (reload.st = "idle") <=> (reload.g = 0)
  /\ \A g \in tracked : g < nextGen
  /\ published < nextGen /\ reload.g < nextGen
  /\ published # 0 => (published \in tracked /\ published \in wstate)
  /\ reload.st # "idle" => reload.g \in tracked
  /\ reload.st = "warmed" => reload.g \in wstate
  /\ \A u \in Users : held[u] \subseteq tracked /\ held[u] \subseteq wstate
\* the state of dropped generations does not pile up for ever
EventuallyCollected == []<>(wstate \subseteq tracked)
=============================================================================
