SPECIFICATION Spec
CONSTANTS
  NSeg = 4
  MaxCommits = 2
  SyncBeforeMeta = "always"
  SyncAfterMeta = FALSE
  RegisterFirst = TRUE
  OldDelDeletedEarly = FALSE
  GcProtectsBuilding = TRUE
  MaxFaults = 1
  StoreMetaFirst = FALSE
  KillWaits = TRUE
  GcProtectsMergeSources = TRUE
  ReplaceStaleDel = TRUE
INVARIANT CrashDurable
CHECK_DEADLOCK FALSE
