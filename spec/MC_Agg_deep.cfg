SPECIFICATION Spec
CONSTANTS
  BrokenMerge = FALSE
  ValueCounts = FALSE
  DocDomain <- MCDocDomainSmall
  Reqs <- MCReqs
  Queries = {"all", "g1"}
  MaxDocs = 4
  MaxParts = 4
INVARIANTS AlgebraSound Disjoint EmptyNeutral
CHECK_DEADLOCK FALSE
