------------------------------ MODULE MergeTrace ------------------------------
(* Trace specification for C04: CoreTrace (merges never change the content, whatever they are *)
(* interleaved with) plus the translation validation of each merge against MergeSem.          *)
EXTENDS CoreTrace

M == INSTANCE MergeSem

Unch == UNCHANGED <<pend, commd, lo, metaop, payload, wopen, wCreated, dirty, sorted, kf>>

TMergeTV ==
  /\ Ev.ev = "merge_tv" /\ Ev.ok
  /\ LET exp == M!Stacked(Ev.sources) IN
     IF exp = <<>> THEN "merged" \notin DOMAIN Ev
     ELSE /\ "merged" \in DOMAIN Ev
          /\ M!MergedOk(Ev.sources, Ev.merged, Ev.sorted)
  \* segments that were not merged are still there, nothing else appeared
  /\ {Ev.untouched[i] : i \in 1..Len(Ev.untouched)}
       = {Ev.all_before[i] : i \in 1..Len(Ev.all_before)} \ {Ev.sources[i].sid : i \in 1..Len(Ev.sources)}
  /\ Unch

\* C18 inside a merge schedule: while the user thread is inside wait_merging_threads (the writer
\* still exists, its merge still runs) no other writer can be created
TIntruder == Ev.ev = "intruder_create" /\ (wopen => ~Ev.ok) /\ Unch

TMergeStarted == Ev.ev = "merge_started" /\ Unch
TSchedule == Ev.ev = "schedule" /\ Unch

MStep ==
  /\ l <= Len(Rec) /\ l' = l + 1 /\ UNCHANGED calling
  /\ (TMergeTV \/ TMergeStarted \/ TSchedule \/ TIntruder)

\* A merge that was started on valid sources ends well unless something cancels it: a rollback, a
\* writer dropped or replaced, delete_all_documents, an injected fault - or a commit that removed
\* one of its sources (all of a source's documents deleted: the segment is gone, end_merge has
\* nothing to replace).  `msrc`: the sources of the running merge, {} when none is watched.
VARIABLE msrc
Cancels == {"rollback", "delete_all", "drop_writer", "new_writer", "wait_merges", "fault", "intruder_create"}
Scenario == IF "tag" \in DOMAIN Ev /\ "scenario" \in DOMAIN Ev.tag THEN Ev.tag.scenario ELSE ""
SegsOf(obs) == {obs.segs[i].sid : i \in 1..Len(obs.segs)}
MergeWatch ==
  msrc' = CASE Ev.ev = "reset" -> (IF Scenario \in {"delete_commit_fault", "stale_end_merge"} THEN {0} ELSE {})
            [] Ev.ev = "merge_started" /\ msrc = {} /\ "sids" \in DOMAIN Ev -> SeqToSet(Ev.sids)
            [] Ev.ev \in Cancels /\ msrc # {0} -> {}
            [] Ev.ev = "commit" /\ msrc # {0} /\ Ev.ok /\ "obs" \in DOMAIN Ev /\ Ev.obs.ok /\ ~(msrc \subseteq SegsOf(Ev.obs)) -> {}
            [] Ev.ev = "merge" /\ msrc # {0} -> {}
            [] OTHER -> msrc
StartedMergeSucceeds == (Ev.ev = "merge" /\ msrc # {} /\ msrc # {0}) => Ev.ok

\* at the end of a run every file in the directory is in the persisted managed list (whatever a merge
\* thread that outlived its writer registered while the next writer was being created)
EndManaged == (Ev.ev = "end" /\ "managed" \in DOMAIN Ev) => SeqToSet(Ev.listing) \subseteq SeqToSet(Ev.managed)

MNext == (TNext \/ MStep) /\ MergeWatch /\ StartedMergeSucceeds /\ EndManaged
MSpec == TInit /\ msrc = {} /\ [][MNext]_<<vars, msrc>>
=============================================================================
