------------------------------ MODULE MergeTrace ------------------------------
(* Trace specification for C04: CoreTrace (merges never change the content, whatever they are *)
(* interleaved with) plus the translation validation of each merge against MergeSem.          *)
EXTENDS CoreTrace

M == INSTANCE MergeSem

Unch == UNCHANGED <<pend, commd, lo, metaop, payload, wopen, wCreated, dirty, sorted, kf>>

TMergeTV ==
  /\ Ev.ev = "merge_tv" /\ Ev.ok
  /\ LET exp == M!Stacked(Ev.sources) IN
     IF exp = <<>> THEN "merged" \notin DOMAIN Ev
     ELSE /\ "merged" \in DOMAIN Ev
          /\ M!MergedOk(Ev.sources, Ev.merged, Ev.sorted)
  \* segments that were not merged are still there, nothing else appeared
  /\ {Ev.untouched[i] : i \in 1..Len(Ev.untouched)}
       = {Ev.all_before[i] : i \in 1..Len(Ev.all_before)} \ {Ev.sources[i].sid : i \in 1..Len(Ev.sources)}
  /\ Unch

\* C18 inside a merge schedule: while the user thread is inside wait_merging_threads (the writer
\* still exists, its merge still runs) no other writer can be created
TIntruder == Ev.ev = "intruder_create" /\ (wopen => ~Ev.ok) /\ Unch

TMergeStarted == Ev.ev = "merge_started" /\ Unch
TSchedule == Ev.ev = "schedule" /\ Unch

MStep ==
  /\ l <= Len(Rec) /\ l' = l + 1 /\ UNCHANGED calling
  /\ (TMergeTV \/ TMergeStarted \/ TSchedule \/ TIntruder)

MNext == TNext \/ MStep
MSpec == TInit /\ [][MNext]_vars
=============================================================================
