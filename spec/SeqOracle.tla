------------------------------ MODULE SeqOracle ------------------------------
(* The sequential meaning of the writer API (property C02): the content of the index is  *)
(* obtained by replaying adds and deletes in call order.  Documents are records           *)
(* [id, t, v]; delete predicates are records with a kind k.                               *)
EXTENDS Integers, Sequences, FiniteSets

Matches(p, d) ==
  CASE p.k = "term"   -> d.t = p.t
    [] p.k = "vrange" -> p.lo <= d.v /\ d.v <= p.hi
    [] p.k = "id"     -> d.id = p.id
    [] p.k = "or"     -> d.t = p.t \/ (p.lo <= d.v /\ d.v <= p.hi)
    [] p.k = "andnot" -> d.t = p.t /\ ~(p.lo <= d.v /\ d.v <= p.hi)
    [] OTHER          -> FALSE

OAdd(S, d) == S \cup {d}
ODel(S, p) == {d \in S : ~Matches(p, d)}

\* a batch: operations applied in order
RECURSIVE ORun(_, _)
ORun(S, ops) ==
  IF ops = <<>> THEN S
  ELSE LET o == Head(ops) IN
       ORun(IF o.k = "add" THEN OAdd(S, [id |-> o.id, t |-> o.t, v |-> o.v])
            ELSE ODel(S, [k |-> "term", t |-> o.t]), Tail(ops))
=============================================================================
