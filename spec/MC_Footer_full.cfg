SPECIFICATION Spec
CONSTANTS
  Cap = 3
  MaxW = 0
  MaxLen = 9
  Chunks = {1, 2, 3, 5}
  HashOffered = FALSE
INVARIANT HashedIsAccepted
INVARIANT AcceptedIsPrefix
INVARIANT FlushComplete
INVARIANT ClosedFile
INVARIANT BitFlipsDetected
INVARIANT SubstitutionsDetected
INVARIANT TruncationsDetected
INVARIANT ExtensionsDetected
INVARIANT DeletionsDetected
INVARIANT FooterDamageHarmless
INVARIANT VersionGate
CHECK_DEADLOCK FALSE
