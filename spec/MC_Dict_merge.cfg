SPECIFICATION BSpec
CONSTANTS
  Bytes = {0, 255}
  MaxLen = 2
  MaxKeys = 3
  CheckOrder = TRUE
  KeyUniverse <- MCKeyUniverse
INVARIANT BuiltIsSorted
INVARIANT MergeLemma
CHECK_DEADLOCK FALSE
