------------------------------ MODULE Gen_Store ------------------------------
(* Generator for C09 (R direction): TLC enumerates store layouts - documents per block,      *)
(* number of blocks around the skip-index periods 8 and 64, a partial last block, a document  *)
(* larger than a block, cache sizes, merge shapes - and prints for each the serialised sizes  *)
(* the documents must have (computed with Store!Cut, so that the layout is the intended one)  *)
(* together with the expected number of blocks, layers and the merger's stack/recompress      *)
(* choice.  harness/src/bin/store_driver.rs builds them; StoreTrace judges what is read back. *)
EXTENDS Store, Json

B == BlockSize
PerBlock == {1, 2, 5}
NumBlocksSet == {1, 2, 5, 6, 7, 8, 9, 16, 63, 64, 65, 72}
Shapes == {"single", "stack", "recompress_del", "mixed", "del_only", "switch", "switch_del",
           "filt_one", "filt_edges", "filt_own", "filt_all"}   \* switch: merged under another compressor; filt_*: filtered merges
Caches == {0, 1, 2, 100}

\* size of a document such that exactly k of them fill a block
SizeFor(k) == CHOOSE s \in 1..(B + 1) : k * (s + IndexBytesPerDoc) > B /\ (k - 1) * (s + IndexBytesPerDoc) <= B
Big == 3 * B + 17

\* nb full blocks of k documents, `tail` more documents, optionally one big document
SizesOf(k, nb, tail, big) ==
  LET base == [i \in 1..(k * nb + tail) |-> SizeFor(k)]
  IN CASE big = "none" -> base
       [] big = "first" -> <<Big>> \o base
       [] big = "mid" -> SubSeq(base, 1, k * (nb \div 2)) \o <<Big>> \o SubSeq(base, k * (nb \div 2) + 1, Len(base))

ShiftIds(blocks, n) == [b \in 1..Len(blocks) |-> [ids |-> [j \in 1..Len(blocks[b].ids) |-> blocks[b].ids[j] + n], bytes |-> blocks[b].bytes]]
BlocksOf(sz) == Cut([i \in 1..Len(sz) |-> i], sz, B)
SegRec(sz, blocks) == [sizes |-> sz, blocks |-> Len(blocks), layers |-> NumLayers(blocks)]

\* s1/b1/r1: sizes, blocks, record of the main segment; s2/b2/r2 of the small one (2 blocks)
Case(k, nb, tail, big, shape, c, s1, b1, r1, s2, b2, r2) ==
  LET n1 == Len(s1)
      same == shape \notin {"switch", "switch_del"}
      \* filtered merge (merge_filtered_segments): doc ids (0-based) the caller's alive bitset removes from source 1 / 2
      filtered == shape \in {"filt_one", "filt_edges", "filt_own", "filt_all"}
      filt1 == IF shape = "filt_one" THEN {n1 \div 2} ELSE {}
      filt2 == IF shape = "filt_edges" THEN {b1[i].ids[1] - 1 : i \in {j \in 1..Len(b1) : j % 2 = 1}}
               ELSE IF shape = "filt_own" THEN AllAlive(b1) \ {n1 \div 2} ELSE {}
      dels == IF shape \in {"recompress_del", "del_only", "switch_del", "filt_own"} THEN {1, (n1 + 1) \div 2, n1} ELSE {}
      st1 == Stacks(b1, EffectiveAlive(AllAlive(b1) \ {d - 1 : d \in dels}, AllAlive(b1) \ filt1), same)
      srcB == IF shape \in {"single", "del_only"} THEN <<b1>> ELSE IF shape = "mixed" THEN <<b1, ShiftIds(b2, n1)>> ELSE <<b1, ShiftIds(b1, n1)>>
      al1 == EffectiveAlive(AllAlive(b1) \ {d - 1 : d \in dels}, AllAlive(b1) \ filt1)
      alv == IF Len(srcB) = 1 THEN <<al1>> ELSE <<al1, AllAlive(srcB[2]) \ filt2>>
      szs == IF shape = "mixed" THEN s1 \o s2 ELSE s1 \o s1
      rev(q) == IF Len(q) = 1 THEN q ELSE <<q[2], q[1]>>
  IN [k |-> k, nb |-> nb, tail |-> tail, big |-> big, shape |-> shape, cache |-> c, blocksize |-> B,
      merged_blocks |-> IF shape = "single" THEN <<>>
                        ELSE <<Len(MergeC(srcB, alv, szs, B, same)), Len(MergeC(rev(srcB), rev(alv), szs, B, same))>>,
      switch_codec |-> ~same,
      filtered |-> filtered, filter_none |-> shape # "filt_all",
      filter_ids |-> {d + 1 : d \in filt1} \cup {d + 1 + n1 : d \in filt2},
      segs |-> IF shape \in {"single", "del_only"} THEN <<r1>> ELSE IF shape = "mixed" THEN <<r1, r2>> ELSE <<r1, r1>>,
      deletes |-> dels, merge |-> shape # "single",
      expect_stack |-> IF shape \in {"single", "del_only"} THEN <<st1>>
                       ELSE IF shape = "mixed" THEN <<st1, Stacks(b2, AllAlive(b2), TRUE)>>
                       ELSE <<st1, Stacks(b1, AllAlive(b1) \ filt2, same)>>]

VARIABLE done
GInit ==
  /\ Init /\ done = FALSE
  /\ LET s2 == SizesOf(2, 2, 0, "none")
         b2 == BlocksOf(s2)
         r2 == SegRec(s2, b2)
     IN \A k \in PerBlock : \A nb \in NumBlocksSet : \A tail \in {0, 1} : \A big \in {"none", "first", "mid"} :
          (tail = 1 /\ k = 1) \/
          LET s1 == SizesOf(k, nb, tail, big)
              b1 == BlocksOf(s1)
              r1 == SegRec(s1, b1)
          IN \* every order of current-codec / former-codec sources in 2- and 3-source merges (no deletes)
             /\ \A cs \in {q \in UNION {[1..m -> {"cur", "old"}] : m \in {2, 3}} : {q[i] : i \in DOMAIN q} = {"cur", "old"}} :
                  LET m == Len(cs)
                      srcs == [i \in 1..m |-> ShiftIds(b1, (i - 1) * Len(s1))]
                      alv == [i \in 1..m |-> AllAlive(b1)]
                      szs == IF m = 2 THEN s1 \o s1 ELSE s1 \o s1 \o s1
                      sames == [i \in 1..m |-> cs[i] = "cur"]
                  IN PrintT(<<"CASE", ToJson([k |-> k, nb |-> nb, tail |-> tail, big |-> big, shape |-> "codec_orders", cache |-> 2, blocksize |-> B,
                                               sources |-> cs, segs |-> [i \in 1..m |-> r1], deletes |-> {}, merge |-> TRUE,
                                               merged_blocks |-> <<Len(MergeS(srcs, alv, szs, B, sames))>>,
                                               expect_stack |-> [i \in 1..m |-> Stacks(b1, AllAlive(b1), sames[i])]])>>)
             /\ \A shape \in Shapes :
               LET base == Case(k, nb, tail, big, shape, 0, s1, b1, r1, s2, b2, r2)
               IN \A c \in Caches : PrintT(<<"CASE", ToJson([base EXCEPT !.cache = c])>>)
  \* stored values whose length is around a switch of the length prefix, for a text, a bytes and a JSON string leaf
  /\ \A t \in VintSwitches : \A len \in {t - 1, t, t + 1} : \A kind \in {"text", "bytes", "json"} :
       PrintT(<<"CASE", ToJson([what |-> "vint", kind |-> kind, len |-> len, prefix_bytes |-> VintLen(len)])>>)
  \* documents with many values, 2 / 3 / 5 multi-valued fields interleaved
  /\ \A n \in {ManyValuesSmallSort, ManyValuesSmallSort + 1, ManyValuesSmallSort + 2, 40, 60} : \A nf \in {2, 3, 5} :
       PrintT(<<"CASE", ToJson([what |-> "manyvals", n |-> n, nfields |-> nf])>>)
GNext == done' = TRUE /\ UNCHANGED svars
GSpec == GInit /\ [][GNext]_<<done, svars>>
=============================================================================
