------------------------------ MODULE Gen_Store ------------------------------
(* Generator for C09 (R direction): TLC enumerates store layouts - documents per block,      *)
(* number of blocks around the skip-index periods 8 and 64, a partial last block, a document  *)
(* larger than a block, cache sizes, merge shapes - and prints for each the serialised sizes  *)
(* the documents must have (computed with Store!Cut, so that the layout is the intended one)  *)
(* together with the expected number of blocks, layers and the merger's stack/recompress      *)
(* choice.  harness/src/bin/store_driver.rs builds them; StoreTrace judges what is read back. *)
EXTENDS Store, Json

B == BlockSize
PerBlock == {1, 2, 5}
NumBlocksSet == {1, 2, 5, 6, 7, 8, 9, 16, 63, 64, 65, 72}
Shapes == {"single", "stack", "recompress_del", "mixed", "del_only"}
Caches == {0, 1, 2, 100}

\* size of a document such that exactly k of them fill a block
SizeFor(k) == CHOOSE s \in 1..(B + 1) : k * (s + IndexBytesPerDoc) > B /\ (k - 1) * (s + IndexBytesPerDoc) <= B
Big == 3 * B + 17

\* nb full blocks of k documents, `tail` more documents, optionally one big document
SizesOf(k, nb, tail, big) ==
  LET base == [i \in 1..(k * nb + tail) |-> SizeFor(k)]
  IN CASE big = "none" -> base
       [] big = "first" -> <<Big>> \o base
       [] big = "mid" -> SubSeq(base, 1, k * (nb \div 2)) \o <<Big>> \o SubSeq(base, k * (nb \div 2) + 1, Len(base))

Seg(sz) == LET blocks == Cut([i \in 1..Len(sz) |-> i], sz, B)
           IN [sizes |-> sz, blocks |-> Len(blocks), layers |-> NumLayers(blocks)]

Case(k, nb, tail, big, shape, c) ==
  LET s1 == SizesOf(k, nb, tail, big)
      s2 == IF shape = "mixed" THEN SizesOf(k, 2, 0, "none") ELSE s1
      segs == IF shape \in {"single", "del_only"} THEN <<Seg(s1)>> ELSE <<Seg(s1), Seg(s2)>>
      n1 == Len(s1)
      dels == IF shape \in {"recompress_del", "del_only"} THEN {1, (n1 + 1) \div 2, n1} ELSE {}
      b1 == Cut([i \in 1..n1 |-> i], s1, B)
  IN [k |-> k, nb |-> nb, tail |-> tail, big |-> big, shape |-> shape, cache |-> c, blocksize |-> B,
      segs |-> segs, deletes |-> dels, merge |-> shape # "single",
      expect_stack |-> [i \in 1..Len(segs) |->
          IF i = 1 THEN Stacks(b1, AllAlive(b1) \ {d - 1 : d \in dels}, TRUE)
          ELSE Stacks(Cut([j \in 1..Len(s2) |-> j], s2, B), 0..(Len(s2) - 1), TRUE)]]

VARIABLE done
GInit ==
  /\ Init /\ done = FALSE
  /\ \A k \in PerBlock : \A nb \in NumBlocksSet : \A tail \in {0, 1} : \A big \in {"none", "first", "mid"} :
       \A shape \in Shapes : \A c \in Caches :
         (tail = 1 /\ k = 1) \/ PrintT(<<"CASE", ToJson(Case(k, nb, tail, big, shape, c))>>)
GNext == done' = TRUE /\ UNCHANGED svars
GSpec == GInit /\ [][GNext]_<<done, svars>>
=============================================================================
