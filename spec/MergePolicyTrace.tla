-------------------------- MODULE MergePolicyTrace --------------------------
(* Judge of the runs recorded by harness/src/bin/policy_driver.rs.                             *)
(*  policy  : the candidates the real LogMergePolicy::compute_merge_candidates returned for    *)
(*            the segment metas of a real index are exactly MergePolicy!Candidates             *)
(*  settled : a real writer with that policy, left alone until no merge runs any more, ends    *)
(*            in a state where the policy has no candidate (it came to rest), with the same    *)
(*            number of live documents; if there was no candidate nothing was merged.  The     *)
(*            policy's answer depends on the order of segments with equal max_doc and the      *)
(*            updater lists them in hash-map order: "for some order" / "for every order"       *)
EXTENDS Naturals, Sequences, FiniteSets, SequencesExt, FiniteSetsExt, Json, IOUtils, TLC

MaxSegs == 0
MaxDocs == 0
SizeSet == {}
Policy == [minseg |-> 2, maxdocs |-> 0, minlayer |-> 0, q |-> 1, r |-> 8]
VARIABLE segs
INSTANCE MergePolicy

Rec == ndJsonDeserialize(IOEnv.TRACE)
VARIABLE l
tvars == <<l, segs>>
Ev == Rec[l]

Bag(ss) == [s \in ToSet(ss) |-> Cardinality({i \in 1..Len(ss) : ss[i] = s})]

TPolicy ==
  /\ Ev.ev = "policy"
  /\ LET want == Candidates(Ev.p, Ev.segs)
         got == {ToSet(Ev.cands[k]) : k \in 1..Len(Ev.cands)}
     IN /\ got = want
        /\ Len(Ev.cands) = Cardinality(want)
        /\ \A k \in 1..Len(Ev.cands) : Len(Ev.cands[k]) = Cardinality(ToSet(Ev.cands[k]))

\* the updater lists its segments in an order this trace does not see (hash map): "some order"
TSettled ==
  /\ Ev.ev = "settled"
  /\ \E o \in Orders(Ev.after) : Candidates(Ev.p, o) = {}
  /\ SumDocs(Ev.after) = SumDocs(Ev.before)
  /\ (\A o \in Orders(Ev.before) : Candidates(Ev.p, o) = {}) => Bag(Ev.after) = Bag(Ev.before)
  /\ (\A o \in Orders(Ev.before) : Candidates(Ev.p, o) # {}) => Bag(Ev.after) # Bag(Ev.before)

TReset == Ev.ev = "reset"

TInit == l = 1 /\ segs = <<>>
TNext == l <= Len(Rec) /\ l' = l + 1 /\ (TPolicy \/ TSettled \/ TReset) /\ UNCHANGED segs
TSpec == TInit /\ [][TNext]_tvars

Accepted ==
  LET d == TLCGet("stats").diameter IN
  IF d - 1 = Len(Rec) THEN TRUE ELSE Print(<<"REJECTED", d, Rec[d]>>, FALSE)
=============================================================================
