SPECIFICATION MSpec
CONSTANTS
  MaxClauses = 4
  UseNested = FALSE
  SingleShouldIgnoresMsm = FALSE
INVARIANT Emit
INVARIANT MsmAboveShouldCountMatchesNothing
INVARIANT WithinMustOutsideMustNot
INVARIANT MsmCounts
INVARIANT AllShouldRequiredIsConjunction
CHECK_DEADLOCK FALSE
