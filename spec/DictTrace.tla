----------------------------- MODULE DictTrace -----------------------------
(* Trace specification of C15: consumes what harness/src/bin/dict_driver.rs recorded on real  *)
(* dictionaries (tantivy_sstable::Dictionary, tantivy::termdict, columnar byte columns) and   *)
(* recomputes every answer with the operators of Dict.  A `panic` event has no action.        *)
EXTENDS Dict, Json, IOUtils, TLC

Rec == ndJsonDeserialize(IOEnv.TRACE)

VARIABLES l,      \* next line of the trace
          d,      \* the dictionary the ordered-map model holds
          built   \* a dictionary was built (and accepted) in this run
vars == <<l, d, built>>
Ev == Rec[l]
Empty == [keys |-> <<>>, vals |-> <<>>]

Opt(found, field, val) == IF found THEN [found |-> TRUE] @@ (field :> val) ELSE [found |-> FALSE]
StreamOf(got) == [keys |-> [i \in 1..Len(got) |-> got[i][1]], vals |-> [i \in 1..Len(got) |-> got[i][3]]]
OrdsInOrder(got) == \A i \in 1..Len(got) : got[i][2] = i - 1
KeysVals(s) == [i \in 1..Len(s) |-> <<s[i][1], s[i][3]>>]

TReset == Ev.ev = "reset" /\ d' = Empty /\ built' = FALSE

\* building: accepted iff the keys are strictly increasing (a rejection is an error or a panic)
TBuild ==
  /\ Ev.ev = "build"
  /\ Ev.ok = StrictlySorted(Ev.keys)
  /\ built' = Ev.ok
  /\ d' = IF Ev.ok THEN [keys |-> Ev.keys, vals |-> Ev.vals] ELSE Empty

\* (guards are written as expressions `(...) = TRUE`: inside an action TLC would branch on every \/ and \E)
Q(p) == built /\ (p = TRUE) /\ UNCHANGED <<d, built>>

TNum       == Ev.ev = "num_terms"   /\ Q(Ev.n = N(d))
TGet       == Ev.ev = "get"         /\ Q(Get(d, Ev.k) = (IF Ev.found THEN [found |-> TRUE, v |-> Ev.v] ELSE [found |-> FALSE]))
TOrd       == Ev.ev = "ord"         /\ Q(Ord(d, Ev.k) = (IF Ev.found THEN [found |-> TRUE, ord |-> Ev.ord] ELSE [found |-> FALSE]))
TOrdOrNext == Ev.ev = "ord_or_next" /\ Q(OrdOrNextOk(d, Ev.k, Ev.exact, Ev.ord))
TKeyOfOrd  == Ev.ev = "key_of_ord"  /\ Q(KeyOfOrd(d, Ev.ord) = (IF Ev.found THEN [found |-> TRUE, k |-> Ev.k] ELSE [found |-> FALSE]))
TValOfOrd  == Ev.ev = "val_of_ord"  /\ Q(ValOfOrd(d, Ev.ord) = (IF Ev.found THEN [found |-> TRUE, v |-> Ev.v] ELSE [found |-> FALSE]))

\* sorted ordinals -> terms: the keys of the ordinals that exist, in order; TRUE iff all exist
TOrdsToTerms ==
  /\ Ev.ev = "ords_to_terms"
  /\ Q(LET ok == SelectSeq(Ev.ords, LAMBDA o : o < N(d)) IN
       /\ Ev.got = [i \in 1..Len(ok) |-> d.keys[ok[i] + 1]]
       /\ Ev.all = (Len(ok) = Len(Ev.ords)))

\* key bounds -> ordinal bounds: the two denote the same set of entries
SatLo(b, o) == CASE b[1] = "incl" -> o >= b[2] [] b[1] = "excl" -> o > b[2] [] OTHER -> TRUE
SatHi(b, o) == CASE b[1] = "incl" -> o <= b[2] [] b[1] = "excl" -> o < b[2] [] OTHER -> TRUE
TBoundsToOrd ==
  /\ Ev.ev = "bounds_to_ord"
  /\ Q(\A o \in 0..(N(d) - 1) : (SatLo(Ev.olo, o) /\ SatHi(Ev.ohi, o)) <=> (LowerOrd(d, Ev.lo) <= o /\ o < UpperOrd(d, Ev.hi)))

TRange ==
  /\ Ev.ev = "range"
  /\ Q(LET ans == Range(d, Ev.lo, Ev.hi) IN IF Ev.limit < 0 THEN Ev.got = ans ELSE LimitOk(Ev.got, ans, Ev.limit))
TPrefix == Ev.ev = "prefix" /\ Q(Ev.got = Prefix(d, Ev.p))
\* automaton search: keys and values always; the ordinals the stream reports when the event says so
TSearch ==
  /\ Ev.ev = "search"
  /\ Q(LET ans == Search(d, Ev.aut, Ev.lo, Ev.hi) IN
       IF Ev.ords THEN Ev.got = ans ELSE KeysVals(Ev.got) = KeysVals(ans))

\* merge of dictionaries: the sorted union, merged values, old -> new ordinal maps
TMerge ==
  /\ Ev.ev = "merge"
  /\ (LET out == StreamOf(Ev.out) IN
      /\ \A s \in 1..Len(Ev.srcs) : WellFormed(Ev.srcs[s])
      /\ OrdsInOrder(Ev.out)
      /\ IsMergeOf(out, Ev.srcs)
      /\ Ev.how \in {"sum", "first"} => MergedValsOk(out, Ev.srcs, Ev.how)
      /\ Ev.how = "maps" => MapsOk(out, Ev.srcs, Ev.maps) /\ Ev.extra = <<>>) = TRUE
  /\ UNCHANGED <<d, built>>

\* columnar: a byte column per source (one key per row, any order), stacked merge
ColOk(c) ==  \* the column's dictionary is the sorted set of its rows, every row points at its key
  LET D == StreamOf(c.dict) IN
  /\ StrictlySorted(D.keys) /\ OrdsInOrder(c.dict) /\ SeqSet(D.keys) = SeqSet(c.rows)
  /\ Len(c.ords) = Len(c.rows)
  /\ \A r \in 1..Len(c.rows) : Len(c.ords[r]) = 1 /\ c.ords[r][1] < Len(D.keys) /\ D.keys[c.ords[r][1] + 1] = c.rows[r]
RECURSIVE Offset(_, _)
Offset(srcs, s) == IF s = 1 THEN 0 ELSE Offset(srcs, s - 1) + Len(srcs[s - 1].rows)
TCMerge ==
  /\ Ev.ev = "cmerge"
  /\ (\A s \in 1..Len(Ev.srcs) : ColOk(Ev.srcs[s])) = TRUE
  /\ (LET out == StreamOf(Ev.out.dict)
          srcd == [s \in 1..Len(Ev.srcs) |-> StreamOf(Ev.srcs[s].dict)] IN
      /\ OrdsInOrder(Ev.out.dict) /\ IsMergeOf(out, srcd)
      /\ Len(Ev.out.ords) = Offset(Ev.srcs, Len(Ev.srcs) + 1)
      /\ \A s \in 1..Len(Ev.srcs) : \A r \in 1..Len(Ev.srcs[s].rows) :
           LET o == Ev.out.ords[Offset(Ev.srcs, s) + r] IN
           Len(o) = 1 /\ o[1] < N(out) /\ out.keys[o[1] + 1] = Ev.srcs[s].rows[r]) = TRUE
  /\ UNCHANGED <<d, built>>

TSkipped == Ev.ev = "skipped" /\ UNCHANGED <<d, built>>

TNext ==
  /\ l <= Len(Rec) /\ l' = l + 1
  /\ \/ TReset \/ TBuild \/ TNum \/ TGet \/ TOrd \/ TOrdOrNext \/ TKeyOfOrd \/ TValOfOrd \/ TOrdsToTerms
     \/ TBoundsToOrd \/ TRange \/ TPrefix \/ TSearch \/ TMerge \/ TCMerge \/ TSkipped

TInit == l = 1 /\ d = Empty /\ built = FALSE
TSpec == TInit /\ [][TNext]_vars

Accepted ==
  IF TLCGet("stats").diameter - 1 = Len(Rec) THEN TRUE
  ELSE Print(<<"REJECTED", TLCGet("stats").diameter, Rec[TLCGet("stats").diameter]>>, FALSE)
=============================================================================
