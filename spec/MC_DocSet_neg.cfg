SPECIFICATION Spec
CONSTANTS
  U = 4
  TERM = 100
  B = 2
  W = 2
  Depth = 3
  AllLowerBounds = TRUE
  CountLeavesStale = TRUE
INVARIANT TypeOK
INVARIANT JudgeAcceptsContract
INVARIANT JudgeRejectsOthers
INVARIANT OneSortedSequence
INVARIANT SeekIsFirstGE
INVARIANT BulkCallsObserveTheSequence
INVARIANT StickyEnd
INVARIANT Continuity
CHECK_DEADLOCK FALSE
