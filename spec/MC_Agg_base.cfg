SPECIFICATION Spec
CONSTANTS
  BrokenMerge = FALSE
  ValueCounts = FALSE
  DocDomain <- MCDocDomain
  Reqs <- MCReqs
  Queries = {"all", "g1"}
  MaxDocs = 3
  MaxParts = 3
INVARIANTS AlgebraSound Disjoint EmptyNeutral
CHECK_DEADLOCK FALSE
