--------------------------- MODULE LockProtoIndNeg ---------------------------
(* As LockProtoInd with UnlinkOnRelease = TRUE (seeded C05-s13): the inductive step must be    *)
(* refuted.  Not used by TLC.                                                                  *)
EXTENDS Integers, FiniteSets
CONSTANTS
  \* @type: Set(Str);
  Threads,
  \* @type: Int;
  MaxInodes,
  \* @type: Bool;
  Blocking,
  \* @type: Bool;
  UnlinkOnRelease,
  \* @type: Bool;
  UnlinkOnRefusal
VARIABLES
  \* @type: Int;
  pathIno,
  \* @type: Int;
  nextIno,
  \* @type: Int -> Str;
  lockedBy,
  \* @type: Str -> {st: Str, ino: Int};
  pc
INSTANCE LockProto
ConstInit ==
  /\ Threads = {"t1", "t2", "t3", "t4"}
  /\ MaxInodes \in 1..6
  /\ Blocking \in BOOLEAN
  /\ UnlinkOnRelease = TRUE
  /\ UnlinkOnRefusal = FALSE
IndInit == IndInv
IndAndMutex == IndInv /\ Mutex
=============================================================================
