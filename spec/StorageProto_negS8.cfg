SPECIFICATION Spec
CONSTANTS
  NSeg = 4
  MaxCommits = 2
  SyncBeforeMeta = "always"
  SyncAfterMeta = TRUE
  RegisterFirst = FALSE
  OldDelDeletedEarly = FALSE
  GcProtectsBuilding = TRUE
  MaxFaults = 1
  StoreMetaFirst = FALSE
  KillWaits = TRUE
  GcProtectsMergeSources = TRUE
  ReplaceStaleDel = TRUE
INVARIANT OrphanIsF4Class
CHECK_DEADLOCK FALSE
