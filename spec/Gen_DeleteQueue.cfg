SPECIFICATION GSpec
CONSTANTS
  CursorIds = {1, 2, 3}
  MaxSteps = 24
  MaxOp = 40
INVARIANT TypeOK
CHECK_DEADLOCK FALSE
