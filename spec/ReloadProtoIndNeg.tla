-------------------------- MODULE ReloadProtoIndNeg --------------------------
(* as ReloadProtoInd with Serialize = FALSE: the inductive step of IndInv must be refuted *)
EXTENDS Integers
CONSTANTS
  \* @type: Set(Str);
  Threads,
  \* @type: Int;
  MaxCommits,
  \* @type: Bool;
  Serialize,
  \* @type: Bool;
  Callbacks
VARIABLES
  \* @type: Int;
  commit,
  \* @type: Int;
  published,
  \* @type: Int;
  exposed,
  \* @type: Str -> Str;
  pc,
  \* @type: Str -> Int;
  loaded,
  \* @type: Str;
  lock,
  \* @type: Int;
  todo
INSTANCE ReloadProto
ConstInit ==
  /\ Threads = {"t1", "t2", "t3", "t4"}
  /\ MaxCommits \in Nat
  /\ Serialize = FALSE
  /\ Callbacks \in BOOLEAN
IndInit == IndInv
=============================================================================
