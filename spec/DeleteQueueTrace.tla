--------------------------- MODULE DeleteQueueTrace ---------------------------
(* Trace specification: the results the real DeleteQueue / DeleteCursor returned     *)
(* (delq_driver) against DeleteQueue.tla.  Sequential cases: every get / advance     *)
(* result must be the model's.  Concurrent runs ("drain" events): what a consumer     *)
(* thread read while a pusher thread was pushing must be a gap-free run of the log    *)
(* that ends with its last operation.                                                *)
EXTENDS DeleteQueue, Json, IOUtils, TLC

Rec == ndJsonDeserialize(IOEnv.TRACE)
VARIABLE l
tvars == <<qvars, l>>
Ev == Rec[l]

TReset == Ev.ev = "reset" /\ log' = <<>> /\ flushed' = 0 /\ idx' = [c \in CursorIds |-> 0] /\ live' = {}
TPush == Ev.ev = "push" /\ Push(Ev.o)
TCursor == Ev.ev = "cursor" /\ NewCursor(Ev.c)
TClone == Ev.ev = "clone" /\ Clone(Ev.c, Ev.d)
TDrop == Ev.ev = "drop" /\ Drop(Ev.c)
TGet == Ev.ev = "get" /\ Ev.r = GetValue(Ev.c) /\ Get(Ev.c)
TAdvance == Ev.ev = "advance" /\ Ev.r = AdvanceValue(Ev.c) /\ Advance(Ev.c)
TSkip == Ev.ev = "skip_to" /\ SkipTo(Ev.c, Ev.t)
\* concurrent run: `pushed` is what the pusher thread pushed (in order), `seen` what one consumer
\* read with get/advance until it saw the last operation
IsRun(seen, pushed) == /\ Len(seen) > 0 /\ Len(seen) <= Len(pushed)
                       /\ seen = SubSeq(pushed, Len(pushed) - Len(seen) + 1, Len(pushed))
TDrain == Ev.ev = "drain" /\ IsRun(Ev.seen, Ev.pushed) /\ UNCHANGED qvars

TNext == l <= Len(Rec) /\ l' = l + 1 /\ (TReset \/ TPush \/ TCursor \/ TClone \/ TDrop \/ TGet \/ TAdvance \/ TSkip \/ TDrain)
TInit == QInit /\ l = 1
TSpec == TInit /\ [][TNext]_tvars
Accepted == IF TLCGet("stats").diameter - 1 = Len(Rec) THEN TRUE
            ELSE Print(<<"REJECTED", TLCGet("stats").diameter, Rec[TLCGet("stats").diameter]>>, FALSE)
=============================================================================
