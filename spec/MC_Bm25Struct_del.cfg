SPECIFICATION Spec
CONSTANTS
  Words = {"a", "b"}
  MaxLen = 2
  Pads = {0}
  MaxDocs = 3
  AllowDeletes = TRUE
  PerSegmentStats = FALSE
  Queries <- MCQueries
  Table <- MCTable
  MCLeaderFieldNorm = FALSE
INVARIANT StatsSegmentationIndependent
INVARIANT ScoreSegmentationIndependent
INVARIANT DeletedStillCounted
INVARIANT TermIffMatches
INVARIANT MergeEstimateBounds
INVARIANT ScoresUseSearcherStats
CHECK_DEADLOCK FALSE
