------------------------------ MODULE ImplTrace ------------------------------
(***************************************************************************)
(* Hook-level trace specification: binds the IndexCore model itself (its   *)
(* delete queue, cursors, registers and merge operations, with the very    *)
(* operators TLC model-checks: AdvanceCreate, Purge, SkipTo) to the real   *)
(* IndexWriter.  Events come from the cfg(tantivy_verif) hooks emitted     *)
(* inside the critical sections (segment_finalized, registers after        *)
(* add_segment / commit / remove_empty_segments / end_merge, merge_start,  *)
(* end_merge_reconcile, commit_task_begin) and from the API calls.         *)
(* After every register change the model's registers must agree with the  *)
(* observed ones segment by segment: max_doc, number of deleted documents, *)
(* delete opstamp; after every commit the alive document ids of every      *)
(* segment read back from the index must be the model's.                   *)
(* A divergence is caught at the step where it happens, not at the next    *)
(* commit.  (Delete-by-term only; unsorted indexes; no delete_all.)        *)
(***************************************************************************)
EXTENDS IndexCore, Json, IOUtils

Rec == ndJsonDeserialize(IOEnv.TRACE)

VARIABLES
  l,
  fin,        \* sid -> entry of a finalised segment that is not yet in the registers
  commitOp,   \* opstamp of the commit task in progress
  reconcile,  \* 0 or the committed opstamp announced by the end_merge_reconcile hook
  metaCom     \* the committed register as of the last save of meta.json (what a rollback restores)

ivars == <<vars, l, fin, commitOp, reconcile, metaCom>>
Ev == Rec[l]
SeqToSet(s) == {s[i] : i \in 1..Len(s)}

Frame == UNCHANGED <<stamp, wCommitted, dqFlushed, chan, wbuf, wcur, wfresh, prepared, wopen, nextId, nextSid, nOps, pend, commd, lastRet, kf>>

DocsOf(ev) == [i \in 1..Len(ev.docs) |-> [id |-> ev.docs[i][1], term |-> ev.docs[i][2], op |-> ev.docs[i][3]]]
DelOp(x) == IF x < 0 THEN 0 ELSE x      \* "no delete file" is -1 in the trace and 0 in the model

\* the observed register agrees with the model register
RegAgrees(obs, model) ==
  /\ {o.seg : o \in SeqToSet(obs)} = {e.sid : e \in model}
  /\ {o \in SeqToSet(obs) :
        LET e == CHOOSE x \in model : x.sid = o.seg IN
        ~(o.max_doc = Len(e.docs) /\ o.num_deleted = e.fdel
          /\ (o.num_deleted > 0 => DelOp(o.delete_opstamp) = e.delop))} = {}

IReset ==
  /\ Ev.e = "reset"
  /\ dq' = <<>> /\ unc' = {} /\ com' = {} /\ merges' = {} /\ meta' = [segs |-> {}, opstamp |-> 0, payload |-> "none"]
  /\ fin' = <<>> /\ commitOp' = 0 /\ reconcile' = 0 /\ metaCom' = {}
  /\ Frame

\* rollback / new writer: empty delete queue, registers rebuilt from the last saved metas
IFresh ==
  /\ Ev.e = "fresh"
  /\ dq' = <<>> /\ unc' = {} /\ merges' = {} /\ fin' = <<>> /\ reconcile' = 0
  /\ com' = {[e EXCEPT !.cur = 0] : e \in metaCom}
  /\ UNCHANGED <<meta, commitOp, metaCom>> /\ Frame

IDel ==
  /\ Ev.e = "del"
  /\ dq' = Append(dq, [op |-> Ev.op, term |-> Ev.t])
  /\ UNCHANGED <<unc, com, merges, meta, fin, commitOp, reconcile, metaCom>> /\ Frame

\* segment cut by a worker: apply_deletes with per-document opstamps (IndexCore!WFlush)
ISegFinal ==
  /\ Ev.e = "seg_final"
  /\ LET docs == DocsOf(Ev)
         c0 == SkipTo(0, docs[1].op)
         res == AdvanceCreate(docs, Ids(docs), c0, MaxOp(docs))
         e == [sid |-> Ev.sid, docs |-> docs, alive |-> res.alive, cur |-> res.cur, delop |-> 0, fdel |-> 0]
     IN fin' = (Ev.sid :> e) @@ fin
  /\ UNCHANGED <<dq, unc, com, merges, meta, commitOp, reconcile, metaCom>> /\ Frame

IRegsAdd ==
  /\ Ev.e = "regs" /\ Ev.after = "add_segment"
  /\ LET new == {o.seg : o \in SeqToSet(Ev.unc)} \ {e.sid : e \in unc} IN
     /\ new \subseteq DOMAIN fin
     /\ unc' = unc \cup {fin[s] : s \in new}
  /\ RegAgrees(Ev.unc, unc') /\ RegAgrees(Ev.com, com)
  /\ UNCHANGED <<dq, com, merges, meta, fin, commitOp, reconcile, metaCom>> /\ Frame

ICommitBegin ==
  /\ Ev.e = "commit_begin"
  /\ commitOp' = Ev.op
  /\ UNCHANGED <<dq, unc, com, merges, meta, fin, reconcile, metaCom>> /\ Frame

\* the commit task: purge every entry up to the commit opstamp, all entries become committed
IRegsCommit ==
  /\ Ev.e = "regs" /\ Ev.after = "commit"
  /\ com' = {Purge(e, commitOp) : e \in unc \cup com} /\ unc' = {}
  /\ RegAgrees(Ev.com, com') /\ Ev.unc = <<>>
  /\ UNCHANGED <<dq, merges, meta, fin, commitOp, reconcile, metaCom>> /\ Frame

IRegsRemoveEmpty ==
  /\ Ev.e = "regs" /\ Ev.after = "remove_empty_segments"
  /\ com' = {e \in com : e.alive # {}}
  /\ RegAgrees(Ev.com, com') /\ RegAgrees(Ev.unc, unc)
  /\ metaCom' = com'                      \* save_metas follows: this is what a rollback restores
  /\ meta' = [meta EXCEPT !.opstamp = commitOp]
  /\ UNCHANGED <<dq, unc, merges, fin, commitOp, reconcile>> /\ Frame

\* a merge of COMMITTED segments must use the opstamp of the last commit as its target (IndexCore!
\* PolicyMergeCommitted): with a later target it would apply deletes that are not committed yet
IMergeStart ==
  /\ Ev.e = "merge_start"
  /\ LET S == {e \in unc \cup com : e.sid \in SeqToSet(Ev.segs)} IN
     /\ Cardinality(S) = Len(Ev.segs)
     /\ (S \subseteq com => Ev.target = meta.opstamp)
     /\ merges' = merges \cup {[order |-> Ev.segs, ents |-> S, target |-> Ev.target]}
  /\ UNCHANGED <<dq, unc, com, meta, fin, commitOp, reconcile, metaCom>> /\ Frame

IReconcile ==
  /\ Ev.e = "reconcile"
  /\ reconcile' = Ev.op
  /\ UNCHANGED <<dq, unc, com, merges, meta, fin, commitOp, metaCom>> /\ Frame

\* the merged entry: every source advanced to the target, live documents concatenated in the
\* order of the merge operation, the cursor of the FIRST source; reconciliation if announced
MergedEntry(m, newsid) ==
  LET adv(s) == Purge(CHOOSE e \in m.ents : e.sid = s, m.target)
      liveDocs(e) == SelectSeq(e.docs, LAMBDA d : d.id \in e.alive)
      docs == Concat([i \in 1..Len(m.order) |-> liveDocs(adv(m.order[i]))])
      e0 == [sid |-> newsid, docs |-> docs, alive |-> Ids(docs), cur |-> adv(m.order[1]).cur, delop |-> 0, fdel |-> 0]
  IN IF reconcile # 0 THEN Purge(e0, reconcile) ELSE e0

IRegsEndMerge ==
  /\ Ev.e = "regs" /\ Ev.after = "end_merge"
  /\ LET obsIds == {o.seg : o \in SeqToSet(Ev.unc) \cup SeqToSet(Ev.com)}
         gone == {e.sid : e \in unc \cup com} \ obsIds
         new == obsIds \ {e.sid : e \in unc \cup com}
     IN \E m \in merges :
          /\ SeqToSet(m.order) = gone
          /\ Cardinality(new) <= 1
          /\ LET inUnc == gone \subseteq {e.sid : e \in unc}
                 add == IF new = {} THEN {} ELSE {MergedEntry(m, CHOOSE s \in new : TRUE)}
             IN /\ unc' = IF inUnc THEN {e \in unc : e.sid \notin gone} \cup add ELSE unc
                /\ com' = IF inUnc THEN com ELSE {e \in com : e.sid \notin gone} \cup add
          /\ merges' = merges \ {m}
  /\ RegAgrees(Ev.unc, unc') /\ RegAgrees(Ev.com, com')
  /\ reconcile' = 0
  /\ UNCHANGED <<dq, meta, fin, commitOp, metaCom>> /\ Frame

\* after a commit returned: segment by segment, the alive ids read back are the model's
ICommitRet ==
  /\ Ev.e = "commit"
  \* content: merges in flight may swap segments between the commit and the read-back, never content
  /\ UNION {SeqToSet(s.ids) : s \in SeqToSet(Ev.segs)} = Content(com)
  \* same segments => segment by segment
  /\ ({s.sid : s \in SeqToSet(Ev.segs)} = {e.sid : e \in com}
        => {s \in SeqToSet(Ev.segs) : (CHOOSE e \in com : e.sid = s.sid).alive # SeqToSet(s.ids)} = {})
  /\ UNCHANGED <<dq, unc, com, merges, meta, fin, commitOp, reconcile, metaCom>> /\ Frame

\* Events of a killed updater can still arrive after a rollback (its queued tasks run to the end):
\* they talk about segments the rebuilt registers do not know.  Such an event is skipped; it can
\* only be one that mentions a segment id the model has never been told about (neither in a
\* register, nor finalised, nor the result of a running merge).
ModelSids == {e.sid : e \in unc \cup com}
ObsSids == {o.seg : o \in SeqToSet(Ev.unc) \cup SeqToSet(Ev.com)}
IStale ==
  /\ \/ /\ Ev.e = "merge_start" /\ ~(SeqToSet(Ev.segs) \subseteq ModelSids)
     \/ /\ Ev.e = "regs" /\ Ev.after \in {"add_segment", "remove_empty_segments", "commit"}
        /\ ~(ObsSids \subseteq ModelSids \cup DOMAIN fin)
     \/ /\ Ev.e = "regs" /\ Ev.after = "end_merge"
        /\ ~(\E m \in merges : SeqToSet(m.order) = ModelSids \ ObsSids)
  /\ UNCHANGED <<dq, unc, com, merges, meta, fin, commitOp, reconcile, metaCom>> /\ Frame

IStep ==
  /\ l <= Len(Rec) /\ l' = l + 1
  /\ (IReset \/ IFresh \/ IDel \/ ISegFinal \/ IRegsAdd \/ ICommitBegin \/ IRegsCommit \/ IRegsRemoveEmpty
      \/ IMergeStart \/ IReconcile \/ IRegsEndMerge \/ ICommitRet \/ IStale)

IInit == Init /\ l = 1 /\ fin = <<>> /\ commitOp = 0 /\ reconcile = 0 /\ metaCom = {}
\* C02 / C04 on the model state reached through the real run: no document twice
INoDup == \A e1, e2 \in unc \cup com : e1.sid # e2.sid => e1.alive \cap e2.alive = {}
\* (evaluated on the successor state inside the step: as an INVARIANT, TLC would print an error trace
\* as long as the validated trace)
INext == IStep /\ (IF INoDup' THEN TRUE ELSE Print(<<"INVFAIL", "INoDup", l>>, FALSE))
ISpec == IInit /\ [][INext]_ivars

Accepted ==
  IF TLCGet("stats").diameter - 1 = Len(Rec) THEN TRUE
  ELSE Print(<<"REJECTED", TLCGet("stats").diameter, Rec[TLCGet("stats").diameter]>>, FALSE)
=============================================================================
