SPECIFICATION GSpec
CONSTANTS
  Handles = {"A", "B"}
  NT = 4
  MaxSteps = 7
  MaxRace = 4
  ReleaseOnFailedCtor = TRUE
  RollbackKeepsLock = TRUE
  FailedRollbackKeepsLock = TRUE
  AtomicAcquire = TRUE
INVARIANT AtMostOneWriter
INVARIANT LockFreeIffNoWriter
CHECK_DEADLOCK FALSE
