------------------------------ MODULE MC_Agg ------------------------------
(* Bounded model checking of the merge algebra of Agg: every way of splitting a tiny corpus *)
(* into parts, collecting the parts and merging the intermediate results in any order and   *)
(* grouping finalises to the direct denotation.                                              *)
EXTENDS Agg

Doc(c, v, w, g) == [id |-> <<0>>, cat |-> c, v |-> v, w |-> w, f |-> w, d |-> <<>>, g |-> <<g>>, q |-> <<4 * Len(v) + 2 * g + 1>>]
MCDocDomain == {
  Doc(<<0>>, <<1, 3>>, <<1>>, 1),
  Doc(<<1>>, <<-2>>, <<4>>, 1),
  Doc(<<0, 1>>, <<>>, <<>>, 0),
  Doc(<<>>, <<3>>, <<1>>, 1),
  Doc(<<1>>, <<3, 3>>, <<7>>, 0),
  Doc(<<2>>, <<5>>, <<-3>>, 1) }
MCDocDomainSmall == {
  Doc(<<0>>, <<1, 3>>, <<1>>, 1),
  Doc(<<1>>, <<-2>>, <<4>>, 1),
  Doc(<<0, 1>>, <<>>, <<>>, 0),
  Doc(<<>>, <<3, 3>>, <<-3>>, 1) }

M(k, f) == [k |-> k, field |-> f]
MM(k, f, miss) == [k |-> k, field |-> f, missing |-> miss]
Ord(t, asc, name, prop) == [t |-> t, asc |-> asc, name |-> name, prop |-> prop]
Terms(f, size, mdc, ord, sub) == [k |-> "terms", field |-> f, size |-> size, mdc |-> mdc, ord |-> ord, segsize |-> 100, sub |-> sub]
TermsMiss(f, size, mdc, ord, miss, sub) == [k |-> "terms", field |-> f, size |-> size, mdc |-> mdc, ord |-> ord, segsize |-> 100, missing |-> miss, sub |-> sub]
Range(f, ranges, sub) == [k |-> "range", field |-> f, ranges |-> ranges, sub |-> sub]
Hist(f, i, off, mdc, sub) == [k |-> "histogram", field |-> f, interval |-> i, offset |-> off, mdc |-> mdc, sub |-> sub]
HistExt(f, i, off, lo, hi, sub) == [k |-> "histogram", field |-> f, interval |-> i, offset |-> off, mdc |-> 0, ext |-> [min |-> lo, max |-> hi], sub |-> sub]
HistHard(f, i, off, mdc, lo, hi, sub) == [k |-> "histogram", field |-> f, interval |-> i, offset |-> off, mdc |-> mdc, hard |-> [min |-> lo, max |-> hi], sub |-> sub]
Filter(qf, qv, sub) == [k |-> "filter", qf |-> qf, qv |-> qv, sub |-> sub]
CountDesc == Ord("count", FALSE, "", "")
Pct(f, ps) == [k |-> "percentiles", field |-> f, percents |-> ps]
TopHits(size, sort, dv) == [k |-> "top_hits", size |-> size, sort |-> sort, dv |-> dv]
Composite(size, sources, sub) == [k |-> "composite", size |-> size, sources |-> sources, sub |-> sub]

MCReqs == {
  << <<"s", M("stats", "v")>>, <<"a", MM("avg", "w", 2)>>, <<"m", M("min", "v")>>, <<"c", M("cardinality", "v")>> >>,
  << <<"t", Terms("cat", 2, 1, CountDesc, << <<"s", M("sum", "v")>>, <<"m", M("min", "w")>> >>)>> >>,
  << <<"t", TermsMiss("cat", 10, 0, Ord("sub", TRUE, "a", ""), -1, << <<"a", M("avg", "v")>> >>)>> >>,
  << <<"r", Range("w", << [to |-> 1], [from |-> 1, to |-> 5] >>, << <<"t", Terms("cat", 10, 1, Ord("key", TRUE, "", ""), <<>>)>> >>)>> >>,
  << <<"h", HistExt("w", 3, 1, -4, 9, << <<"x", M("max", "v")>> >>)>> >>,
  << <<"f", Filter("g", 1, << <<"h", Hist("w", 2, 0, 1, << <<"c", M("value_count", "v")>> >>)>> >>)>> >>,
  << <<"t", Terms("v", 10, 1, Ord("key", FALSE, "", ""), << <<"e", M("extended_stats", "w")>> >>)>>,
     <<"h", HistHard("w", 2, 0, 0, 0, 5, <<>>)>> >>,
  << <<"p", Pct("v", <<0, 50, 90, 100>>)>>,
     <<"t", Terms("cat", 10, 1, CountDesc, << <<"th", TopHits(2, << <<"g", FALSE>>, <<"id", TRUE>> >>, <<"id", "w">>)>> >>)>> >>,
  << <<"co", Composite(2, << <<"a", "cat", TRUE>>, <<"b", "w", FALSE>> >>, << <<"s", M("sum", "v")>> >>)>> >>,
  \* fractional field q (units of 0.05): terms on a full column > one histogram with interval 0.1
  << <<"t", Terms("g", 10, 1, CountDesc, << <<"h", Hist("q", 2, 0, 0, <<>>)>> >>)>> >> }
(* value-counting variant (finding F14 mirrored): bucket aggregations on the multi-valued field *)
MCReqsV == {
  << <<"r", Range("v", << [to |-> 1], [from |-> 1, to |-> 4] >>, << <<"t", Terms("cat", 10, 1, CountDesc, <<>>)>> >>)>> >>,
  << <<"h", Hist("v", 2, 0, 0, << <<"s", M("sum", "w")>> >>)>> >>,
  << <<"co", Composite(3, << <<"a", "cat", TRUE>>, <<"b", "v", TRUE>> >>, <<>>)>> >> }
MCReqsSmall == {
  << <<"m", M("min", "v")>>, <<"t", Terms("cat", 2, 1, CountDesc, << <<"s", M("sum", "v")>> >>)>> >>,
  << <<"h", HistExt("w", 3, 1, -4, 9, << <<"x", M("max", "v")>> >>)>> >> }
=============================================================================
