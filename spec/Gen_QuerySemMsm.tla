--------------------------- MODULE Gen_QuerySemMsm ---------------------------
(* Generator (and bounded check) of the family "minimum_number_should_match below the number of  *)
(* Should clauses, next to a Must / MustNot clause at the same level": every query of four       *)
(* clauses over the term leaves with at least three Should clauses and msm in {2, 3} - the        *)
(* Disjunction scorer as a member of an intersection / under an exclusion.  The laws of the       *)
(* boolean query are checked on the way.                                                          *)
EXTENDS QuerySem, Json
SmallLeaves == {LeafA, LeafB, LeafC}
MInit == cl = <<>> /\ msm \in {2, 3}
MNext == /\ Len(cl) < 4
         /\ \E o \in Occurs, q \in SmallLeaves : cl' = Append(cl, Cl(o, q))
         /\ UNCHANGED msm
MSpec == MInit /\ [][MNext]_vars
InFamily == Len(cl) = 4 /\ Cardinality(ShouldIdx) >= 3
Emit == InFamily => PrintT(<<"CASE", ToJson([k |-> "bool", cl |-> cl, msm |-> msm, explicit |-> TRUE])>>)
=============================================================================
