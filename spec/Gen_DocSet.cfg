SPECIFICATION Spec
CONSTANTS
  U = 4
  TERM = 100
  B = 2
  W = 2
  Depth = 3
  AllLowerBounds = FALSE
  CountLeavesStale = FALSE
INVARIANT Emit
CHECK_DEADLOCK FALSE
