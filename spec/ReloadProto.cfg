SPECIFICATION Spec
CONSTANTS
  Threads = {a, b, c}
  MaxCommits = 4
  Serialize = TRUE
  Callbacks = FALSE
INVARIANTS TypeOK NeverMovesBack ReloadIsFresh
PROPERTIES PublishedMonotone
CHECK_DEADLOCK FALSE
