SPECIFICATION Spec
CONSTANTS
  NSeg = 4
  ReaderLocks = FALSE
  GcLocks = TRUE
  TrackOnNew = TRUE
  RemoteReader = FALSE
INVARIANT GcNeverDeletesNeeded
INVARIANT OpenNeverFails
INVARIANT DiskIsManaged
INVARIANT QuiescentNoOrphan
CHECK_DEADLOCK FALSE
