SPECIFICATION GSpec
CONSTANTS
  Exhaustive = FALSE
  Bytes = {0, 1, 127, 255}
  MaxLen = 3
  MaxKeys = 4
  MaxOps = 40
  BlockLens = {0, 1, 2, 5, 9, 16, 4000}
  ValueKinds = {"u64", "void", "range", "vec"}
CHECK_DEADLOCK FALSE
