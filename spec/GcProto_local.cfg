SPECIFICATION Spec
CONSTANTS
  NSeg = 4
  ReaderLocks = TRUE
  GcLocks = TRUE
  TrackOnNew = TRUE
  RemoteReader = FALSE
INVARIANT GcNeverDeletesNeeded
INVARIANT OpenNeverFails
INVARIANT DiskIsManaged
INVARIANT QuiescentNoOrphan
CHECK_DEADLOCK FALSE
