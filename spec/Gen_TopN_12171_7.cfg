SPECIFICATION Spec
CONSTANTS
  MaxK = 3
  Keys = {1, 2, 3}
  MaxPush = 7
  StrictThreshold = TRUE
  AscendingDocs = TRUE
  ThresholdRankOff = 0
INVARIANT Emit
CHECK_DEADLOCK FALSE
