--------------------------- MODULE MC_MergePolicy ---------------------------
EXTENDS MergePolicy
PolA == [minseg |-> 2, maxdocs |-> 12, minlayer |-> 2, q |-> 3, r |-> 4]
PolB == [minseg |-> 3, maxdocs |-> 40, minlayer |-> 0, q |-> 2, r |-> 8]
PolC == [minseg |-> 2, maxdocs |-> 9, minlayer |-> 4, q |-> 6, r |-> 2]
\* min_num_segments = 1: a level of one segment without deletes is a candidate for ever (the
\* merge loop does not come to rest): the negative configuration
PolOne == [minseg |-> 1, maxdocs |-> 12, minlayer |-> 2, q |-> 3, r |-> 4]
=============================================================================
