SPECIFICATION Spec
CONSTANTS
  Cap = 3
  MaxW = 2
  MaxLen = 7
  Chunks = {1, 2, 3, 4}
  HashOffered = TRUE
INVARIANT HashedIsAccepted
INVARIANT AcceptedIsPrefix
INVARIANT FlushComplete
INVARIANT ClosedFile
INVARIANT BitFlipsDetected
INVARIANT SubstitutionsDetected
INVARIANT TruncationsDetected
INVARIANT ExtensionsDetected
INVARIANT DeletionsDetected
INVARIANT FooterDamageHarmless
INVARIANT VersionGate
CHECK_DEADLOCK FALSE
