SPECIFICATION GSpec
CONSTANTS
  BrokenMerge = FALSE
  ValueCounts = FALSE
  DocDomain <- GenDocDomain
  Reqs <- GenReqs
  Queries = {"all", "g1"}
  MaxDocs = 6
  MaxParts = 3
INVARIANTS AlgebraSound Disjoint EmptyNeutral
CHECK_DEADLOCK FALSE
