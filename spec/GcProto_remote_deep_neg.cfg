SPECIFICATION Spec
CONSTANTS
  NSeg = 5
  ReaderLocks = FALSE
  GcLocks = TRUE
  TrackOnNew = TRUE
  RemoteReader = TRUE
INVARIANT GcNeverDeletesNeeded
INVARIANT OpenNeverFails
INVARIANT DiskIsManaged
INVARIANT QuiescentNoOrphan
CHECK_DEADLOCK FALSE
