SPECIFICATION Spec
CONSTANTS
  Vals = {0, 1, 2}
  MaxRows = 2
  MaxPerRow = 1
  TightBounds = FALSE
INVARIANT FlatRoundTrip
INVARIANT CardRule
INVARIANT StackIsShuffle
INVARIANT RangeOnStack
INVARIANT MergedBounds
INVARIANT DictExact
CHECK_DEADLOCK FALSE
