SPECIFICATION TSpec
CONSTANTS
  MaxK = 0
  Keys = {}
  MaxPush = 0
  StrictThreshold = TRUE
  AscendingDocs = TRUE
  ThresholdRankOff = 0
POSTCONDITION Accepted
CHECK_DEADLOCK FALSE
