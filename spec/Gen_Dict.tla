------------------------------ MODULE Gen_Dict ------------------------------
(* Generator of C15 cases: TLC chooses key sets, block lengths, value kinds, probes, ranges,   *)
(* limits, automata and merges; the harness runs them on the real dictionaries (R direction)   *)
(* and DictTrace judges what was observed.                                                     *)
(*   Exhaustive = TRUE  (model checking mode): every key set of at most MaxKeys keys over      *)
(*        Strings(Bytes, MaxLen) with *every* probe / range / prefix / ordinal over that        *)
(*        universe, and every merge of two such key sets of at most two keys;                   *)
(*   Exhaustive = FALSE (-simulate): random key sets over the larger universe with MaxOps       *)
(*        random operations each (inverted and empty ranges included), or a random merge.       *)
EXTENDS Dict, TLC, Json, Randomization

CONSTANTS Exhaustive, Bytes, MaxLen, MaxKeys, MaxOps, BlockLens, ValueKinds

Strings(B, n) == UNION {[1..m -> B] : m \in 0..n}
KeyU == Strings(Bytes, MaxLen)
RECURSIVE SortKeySet(_)
SortKeySet(S) == IF S = {} THEN <<>>
                 ELSE LET m == CHOOSE x \in S : \A y \in S : LexLeq(x, y) IN <<m>> \o SortKeySet(S \ {m})
RECURSIVE SeqOfSet(_)
SeqOfSet(S) == IF S = {} THEN <<>> ELSE LET x == CHOOSE y \in S : TRUE IN <<x>> \o SeqOfSet(S \ {x})

\* (operators with a parameter: TLC evaluates constant definitions without one at start-up)
SortedSets(U, n) == {SortKeySet(S) : S \in {T \in SUBSET U : Cardinality(T) <= n}}

Unb == <<"unb", <<>>>>
LowerBounds == {Unb} \cup {<<x, k>> : x \in {"ge", "gt"}, k \in KeyU}
UpperBounds == {Unb} \cup {<<x, k>> : x \in {"le", "lt"}, k \in KeyU}

\* ---- exhaustive operation list of a key universe --------------------------------------
AllOps(n) ==
     {[op |-> "probe", k |-> k] : k \in KeyU}
  \cup {[op |-> "key_of_ord", ord |-> o] : o \in 0..(n + 1)}
  \cup {[op |-> "range", lo |-> lo, hi |-> hi, limit |-> lim] : lo \in LowerBounds, hi \in UpperBounds, lim \in {-1, 0, 1, 2}}
  \cup {[op |-> "bounds_to_ord", lo |-> lo, hi |-> hi] : lo \in LowerBounds, hi \in UpperBounds}
  \cup {[op |-> "prefix", p |-> p] : p \in KeyU}
  \cup {[op |-> "ords_to_terms", ords |-> p] : p \in {q \in (0..(n + 1)) \X (0..(n + 1)) : q[1] <= q[2]}}
  \cup {[op |-> "search", aut |-> [t |-> "prefix", p |-> p], lo |-> lo, hi |-> Unb] : p \in KeyU, lo \in {Unb} \cup {<<"ge", k>> : k \in KeyU}}
  \cup {[op |-> "search", aut |-> [t |-> "lev", q |-> q, d |-> dd, tr |-> tr, pre |-> pre], lo |-> Unb, hi |-> Unb] :
           q \in KeyU, dd \in 0..1, tr \in BOOLEAN, pre \in BOOLEAN}
  \* automata that accept the EMPTY key without accepting everything (the blocks are pruned for them: with
  \* block length 0 the empty key has a block of its own), their other matches further on or nowhere
  \cup {[op |-> "search", aut |-> [t |-> "re", ast |-> re], lo |-> Unb, hi |-> Unb] :
           re \in {<<"eps">>, <<"opt", <<"lit", 0>>>>, <<"star", <<"lit", 0>>>>, <<"opt", <<"cat", <<"lit", 0>>, <<"lit", 0>>>>>>, <<"opt", <<"lit", 1>>>>,
                    <<"star", <<"dot">>>>, <<"opt", <<"cat", <<"dot">>, <<"dot">>>>>>, <<"alt", <<"eps">>, <<"cat", <<"lit", 0>>, <<"dot">>>>>>}}

\* ---- random operations ------------------------------------------------------------------
Atoms == {<<"lit", 1>>, <<"lit", 127>>, <<"lit", 0>>, <<"dot">>, <<"eps">>}
Re1 == Atoms \cup {<<u, a>> : u \in {"star", "opt", "plus"}, a \in Atoms} \cup {<<b, x, y>> : b \in {"cat", "alt"}, x \in Atoms, y \in Atoms}
Re2 == {<<b, x, y>> : b \in {"cat", "alt"}, x \in Re1, y \in Re1} \cup {<<"star", x>> : x \in Re1}

VARIABLES keys, bl, vk, ops, phase
gvars == <<keys, bl, vk, ops, phase>>

Pick(S) == RandomElement(S)
\* a key of the dictionary, a neighbour of one, or any key of the universe
PickKey == \* evaluated once per use through a bounded quantifier (see RandomOp)
  IF keys # <<>> /\ Pick(1..3) <= 2 THEN keys[Pick(1..Len(keys))] ELSE Pick(KeyU)

RandomOp(c, k1, k2, x, y, z, re) ==   \* c \in 1..14, k1 k2 keys, x y \in 1..3, z \in -3..3
  LET lo == <<(<<"unb", "ge", "gt">>)[x], IF x = 1 THEN <<>> ELSE k1>>
      hi == <<(<<"unb", "le", "lt">>)[y], IF y = 1 THEN <<>> ELSE k2>>
      lim == IF z < 0 THEN -1 ELSE z
      n == Len(keys)
  IN CASE c \in 1..2  -> [op |-> "probe", k |-> k1]
       [] c = 3       -> [op |-> "key_of_ord", ord |-> (x + y + z + 3) % (n + 2)]
       [] c \in 4..7  -> [op |-> "range", lo |-> lo, hi |-> hi, limit |-> lim]
       [] c = 8       -> [op |-> "bounds_to_ord", lo |-> lo, hi |-> hi]
       [] c = 9       -> [op |-> "prefix", p |-> SubSeq(k1, 1, Min2(Len(k1), x - 1))]
       [] c = 10      -> [op |-> "ords_to_terms", ords |-> <<(x + 1) % (n + 1), ((x + 1) % (n + 1)) + y - 1, ((x + 1) % (n + 1)) + y - 1 + (IF z < 0 THEN 0 ELSE z)>>]
       [] c = 11      -> [op |-> "search", aut |-> [t |-> "prefix", p |-> SubSeq(k1, 1, Min2(Len(k1), x - 1))], lo |-> lo, hi |-> hi]
       [] c \in 12..13 -> [op |-> "search", aut |-> [t |-> "lev", q |-> k1, d |-> x - 1, tr |-> (y = 1), pre |-> (z > 1)], lo |-> Unb, hi |-> IF z = 0 THEN hi ELSE Unb]
       [] c = 14      -> [op |-> "search", aut |-> [t |-> "re", ast |-> re], lo |-> IF z = 0 THEN lo ELSE Unb, hi |-> Unb]

Case == [keys |-> keys, block_len |-> bl, vk |-> vk, ops |-> ops]

GInit ==
  /\ ops = <<>> /\ phase = "keys"
  /\ bl \in BlockLens /\ vk \in ValueKinds
  /\ IF Exhaustive THEN keys \in SortedSets(KeyU, MaxKeys)
     ELSE keys = <<>>

\* sample mode: the key set, then the operations one at a time
\* (one case in eight is spoiled: two neighbours swapped or a key repeated, the empty key included
\*  (repaired finding C15-a) - building must refuse.)
Spoil(ks, i, dup) ==
  IF dup \/ i = Len(ks)
  THEN SubSeq(ks, 1, i) \o <<ks[i]>> \o SubSeq(ks, i + 1, Len(ks))
  ELSE [ks EXCEPT ![i] = ks[i + 1], ![i + 1] = ks[i]]
ChooseKeys ==
  /\ ~Exhaustive /\ phase = "keys"
  /\ \E n \in {Pick(0..MaxKeys)}, bad \in {Pick(1..8)}, i \in {Pick(1..MaxKeys)}, dup \in {Pick(BOOLEAN)} :
       \* (one key set in four holds the empty key: it is the only key an automaton can accept at its start state)
       LET ks == SortKeySet(RandomSubset(n, KeyU) \cup (IF i % 4 = 0 /\ n >= 1 THEN {<<>>} ELSE {})) IN
       keys' = IF bad = 1 /\ n >= 1 THEN Spoil(ks, ((i - 1) % Len(ks)) + 1, dup) ELSE ks
  /\ phase' = "ops" /\ UNCHANGED <<bl, vk, ops>>
AddOp ==
  /\ ~Exhaustive /\ phase = "ops" /\ Len(ops) < MaxOps
  /\ \E c \in {Pick(1..14)}, k1 \in {PickKey}, k2 \in {PickKey}, x \in {Pick(1..3)}, y \in {Pick(1..3)}, z \in {Pick(-3..3)}, re \in {Pick(Re2)} :
        ops' = Append(ops, RandomOp(c, k1, k2, x, y, z, re))
  /\ UNCHANGED <<keys, bl, vk, phase>>
Finish ==
  /\ ~Exhaustive /\ phase = "ops" /\ Len(ops) = MaxOps
  /\ PrintT(<<"CASE", ToJson(Case)>>)
  /\ phase' = "done" /\ UNCHANGED <<keys, bl, vk, ops>>
\* a merge of 1..3 random key sets
Merge ==
  /\ ~Exhaustive /\ phase = "keys" /\ Pick(1..3) = 1
  /\ \E a \in {Pick(0..MaxKeys)}, b \in {Pick(0..MaxKeys)}, c \in {Pick(-2..MaxKeys)} :
       PrintT(<<"MERGE", ToJson([block_len |-> bl,
               srcs |-> <<SortKeySet(RandomSubset(a, KeyU)), SortKeySet(RandomSubset(b, KeyU))>>
                         \o (IF c < 0 THEN <<>> ELSE <<SortKeySet(RandomSubset(c, KeyU))>>)])>>)
  /\ phase' = "done" /\ UNCHANGED <<keys, bl, vk, ops>>

\* exhaustive mode: one step per key set; and one per pair of small key sets (merges)
ExCase ==
  /\ Exhaustive /\ phase = "keys"
  /\ PrintT(<<"CASE", ToJson([Case EXCEPT !.ops = SeqOfSet(AllOps(Len(keys)))])>>)
  /\ (Len(keys) <= 2 /\ vk = CHOOSE v \in ValueKinds : TRUE) =>
        \A other \in SortedSets(KeyU, 2) : PrintT(<<"MERGE", ToJson([block_len |-> bl, srcs |-> <<keys, other>>])>>)
  /\ phase' = "done" /\ UNCHANGED <<keys, bl, vk, ops>>

GNext == ChooseKeys \/ AddOp \/ Finish \/ Merge \/ ExCase
GSpec == GInit /\ [][GNext]_gvars
=============================================================================
