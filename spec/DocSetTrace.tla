------------------------------ MODULE DocSetTrace ------------------------------
(* Trace specification of C13: judges call programs recorded on real tantivy scorers          *)
(* (harness/src/bin/docset_driver.rs).  One line = one scorer (query, segment): the sequence  *)
(* S a fresh scorer yields by plain advance() (the property's own oracle), the score at each  *)
(* document, and the recorded programs run on further fresh scorers of the same weight.       *)
(* Every call record must be explained by DocSet!Explains from the state reached so far, and  *)
(* the score read at a document must be the one of S (exactly for <= 2 scoring clauses,       *)
(* within 4n ulp for a sum of n > 2 clauses whose order of summation is not fixed).           *)
EXTENDS DocSet, Json, IOUtils, TLC, Integers

Rec == ndJsonDeserialize(IOEnv.TRACE)

AbsD(a, b) == IF a > b THEN a - b ELSE b - a
ScoreOK(sc, n, p, c) ==
  /\ ~Has(c, "score_panic")     \* doc() named a document and reading its score panicked
  /\ (\/ ~Has(c, "score")
      \/ p > Len(sc)
      \/ IF n <= 2 THEN c.score = sc[p] ELSE AbsD(c.score, sc[p]) <= 4 * n)

\* 0 if every call of the program is explained, else the index of the first call that is not
RECURSIVE FirstBad(_, _, _, _, _, _)
FirstBad(Sq, sc, n, prog, k, s) ==
  IF k > Len(prog) THEN 0
  ELSE LET c == prog[k] IN
       IF Explains(Sq, s, c) /\ ScoreOK(sc, n, After(Sq, s, c).i, c)
       THEN FirstBad(Sq, sc, n, prog, k + 1, After(Sq, s, c))
       ELSE k

\* state before call k of a program (all earlier calls were explained)
RECURSIVE StateAt(_, _, _, _, _)
StateAt(Sq, prog, k, j, s) == IF j >= k THEN s ELSE StateAt(Sq, prog, k, j + 1, After(Sq, s, prog[j]))

RECURSIVE FirstBadProg(_, _)
FirstBadProg(e, j) ==
  IF j > Len(e.progs) THEN <<0, 0>>
  ELSE LET b == FirstBad(e.S, e.sc, e.n, e.progs[j], 1, St0) IN
       IF b = 0 THEN FirstBadProg(e, j + 1) ELSE <<j, b>>

\* R direction: the scorer was built for the abstract set e.abs.s on a stripe index with
\* e.abs.r real documents per abstract one: the sequence must be exactly the stripes
StripesOK(e) ==
  IF ~Has(e, "abs") THEN TRUE
  ELSE /\ Len(e.S) = Len(e.abs.s) * e.abs.r
       /\ \A k \in 1..Len(e.S) : e.S[k] = e.abs.s[((k - 1) \div e.abs.r) + 1] * e.abs.r + ((k - 1) % e.abs.r)

SeqOK(e) == /\ StrictlyIncreasing(e.S)
            /\ (e.S # <<>> => e.S[Len(e.S)] < TERM)
            /\ (e.sc # <<>> => Len(e.sc) = Len(e.S))

EvOK(e) ==
  \/ e.ev \in {"reset", "end", "info"}
  \/ e.ev = "scorer" /\ SeqOK(e) /\ StripesOK(e) /\ FirstBadProg(e, 1) = <<0, 0>>

VARIABLE l
\* the machine variables of DocSet are not used by the judge (the judged sequences come from the trace)
TInit == l = 1 /\ S = <<>> /\ st = St0 /\ h = <<>>
\* (EvOK(..) = TRUE: a guard written as an expression - TLC would treat the disjunctions of a bare guard as action branches)
TNext == l <= Len(Rec) /\ EvOK(Rec[l]) = TRUE /\ l' = l + 1 /\ UNCHANGED vars
TSpec == TInit /\ [][TNext]_<<l, vars>>

Diag(e) ==
  IF e.ev # "scorer" THEN [why |-> "unknown event", ev |-> e.ev]
  ELSE IF ~SeqOK(e) THEN [why |-> "the plain-advance enumeration is not strictly increasing", q |-> e.q, seg |-> e.seg]
  ELSE IF ~StripesOK(e) THEN [why |-> "the scorer does not enumerate the documents of its query", q |-> e.q, abs |-> e.abs, lenS |-> Len(e.S)]
  ELSE LET b == FirstBadProg(e, 1) IN
       LET c == e.progs[b[1]][b[2]]
           s == StateAt(e.S, e.progs[b[1]], b[2], 1, St0) IN
       [why |-> "call not explained by the DocSet contract", q |-> e.q, seg |-> e.seg, lenS |-> Len(e.S),
        prog |-> b[1], step |-> b[2], call |-> c, program |-> e.progs[b[1]],
        valid |-> s.valid, pre |-> IF s.valid THEN At(e.S, s.i) ELSE -1,
        legal |-> Legal(e.S, s, c),
        expected_doc |-> IF Legal(e.S, s, c) THEN At(e.S, Pos(e.S, s, c)) ELSE -1,
        data_ok |-> Legal(e.S, s, c) /\ DataOK(e.S, s, c),
        ret_ok |-> Legal(e.S, s, c) /\ (After(e.S, s, c).valid => RetOK(e.S, s, c)),
        score_ok |-> Legal(e.S, s, c) /\ ScoreOK(e.sc, e.n, After(e.S, s, c).i, c)]

Accepted ==
  IF TLCGet("stats").diameter - 1 = Len(Rec) THEN TRUE
  ELSE Print(<<"REJECTED", TLCGet("stats").diameter, ToJson(Diag(Rec[TLCGet("stats").diameter]))>>, FALSE)
=============================================================================
