SPECIFICATION Spec
CONSTANTS
  SyncAfterMeta = FALSE
  SyncAfterRegister = FALSE
  SyncBeforeMeta = TRUE
  GcBeforeMeta = FALSE
INVARIANT CrashSafe
CHECK_DEADLOCK FALSE
