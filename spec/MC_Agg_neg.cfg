SPECIFICATION Spec
CONSTANTS
  BrokenMerge = TRUE
  ValueCounts = FALSE
  DocDomain <- MCDocDomainSmall
  Reqs <- MCReqsSmall
  Queries = {"all"}
  MaxDocs = 3
  MaxParts = 3
INVARIANTS AlgebraSound
CHECK_DEADLOCK FALSE
