SPECIFICATION GSpec
CONSTANTS
  Mode = "texts"
  MaxLen = 2
  SteerOverlapBytes = TRUE
  NA = 5
INVARIANT ByteGramsOk
CHECK_DEADLOCK FALSE
