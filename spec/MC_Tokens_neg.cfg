SPECIFICATION GSpec
CONSTANTS
  Mode = "texts"
  MaxLen = 2
  NA = 5
INVARIANT ByteGramsOk
CHECK_DEADLOCK FALSE
