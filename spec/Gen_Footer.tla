------------------------------ MODULE Gen_Footer ------------------------------
(* Generator for C20 (R direction): TLC enumerates                                           *)
(*  - write programs for the pipeline: sequences of write(n) / flush with sizes around the    *)
(*    capacity of the BufWriter, for every short-write limit of the underlying writer;        *)
(*  - footer version values with the outcome Footer!Supported prescribes, per kind of file.   *)
(* Every case is printed as one JSON line; harness/src/bin/footer_driver.rs executes them,    *)
(* FooterTrace judges the recorded runs.                                                      *)
EXTENDS Footer, Json

CONSTANTS MaxOps

Sizes == {0, 1, Cap \div 2, Cap - 1, Cap, Cap + 1, 2 * Cap + 3}
Ops == {[op |-> "write", n |-> s] : s \in Sizes} \cup {[op |-> "flush", n |-> 0]}
MaxWrites == {0, 1, 7, Cap - 1, Cap, Cap + 1}
Versions == {0, 1, 3, 4, 5, 6, 7, 8, 9, 12, 100, 65536, 2147483647}
Exts == {"idx", "pos", "term", "store", "fast", "fieldnorm", "del"}

BodyFor(v) == 11 + (v % 7)

VARIABLES prog, mw, fin
gvars == <<prog, mw, fin, pvars>>

RECURSIVE Total(_)
Total(p) == IF p = <<>> THEN 0 ELSE Head(p).n + Total(Tail(p))

GInit ==
  /\ Init /\ prog = <<>> /\ fin = FALSE /\ mw \in MaxWrites
  /\ (mw = 0) =>
       /\ \A v \in Versions : PrintT(<<"CASE", ToJson([kind |-> "ver_file", v |-> v, body |-> BodyFor(v),
                                                       expect |-> IF Supported(v) THEN "ok" ELSE "incompatible"])>>)
       /\ \A v \in Versions : \A x \in Exts :
            PrintT(<<"CASE", ToJson([kind |-> "ver_index", v |-> v, ext |-> x,
                                     expect |-> IF Supported(v) THEN "ok" ELSE "incompatible"])>>)

Extend ==
  /\ ~fin /\ Len(prog) < MaxOps
  /\ \E o \in Ops : prog' = Append(prog, o)
  /\ UNCHANGED <<mw, fin, pvars>>

Finish ==
  /\ ~fin /\ Len(prog) >= 1
  /\ PrintT(<<"CASE", ToJson([kind |-> "program", max_write |-> mw, ops |-> prog, total |-> Total(prog)])>>)
  /\ fin' = TRUE /\ UNCHANGED <<prog, mw, pvars>>

GNext == Extend \/ Finish
GSpec == GInit /\ [][GNext]_gvars
=============================================================================
