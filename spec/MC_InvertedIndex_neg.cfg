SPECIFICATION Spec
CONSTANTS
  Lists <- MCLists
  MaxDoc = 6
  SkipCurrent = TRUE
INVARIANT OnList
INVARIANT Forward
PROPERTY SeekSameStays
CHECK_DEADLOCK FALSE
