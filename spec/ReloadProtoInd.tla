--------------------------- MODULE ReloadProtoInd ---------------------------
(* Apalache instance of ReloadProto for the inductive check of IndInv (unbounded commits;    *)
(* the thread set is a constant of the check).  Not used by TLC.                              *)
EXTENDS Integers

CONSTANTS
  \* @type: Set(Str);
  Threads,
  \* @type: Int;
  MaxCommits,
  \* @type: Bool;
  Serialize,
  \* @type: Bool;
  Callbacks

VARIABLES
  \* @type: Int;
  commit,
  \* @type: Int;
  published,
  \* @type: Int;
  exposed,
  \* @type: Str -> Str;
  pc,
  \* @type: Str -> Int;
  loaded,
  \* @type: Str;
  lock,
  \* @type: Int;
  todo

INSTANCE ReloadProto

ConstInit ==
  /\ Threads = {"t1", "t2", "t3", "t4"}
  /\ MaxCommits \in Nat
  /\ Serialize = TRUE
  /\ Callbacks \in BOOLEAN
IndInit == IndInv
=============================================================================
