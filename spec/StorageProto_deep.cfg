SPECIFICATION Spec
CONSTANTS
  NSeg = 5
  MaxCommits = 3
  SyncBeforeMeta = "always"
  SyncAfterMeta = TRUE
  RegisterFirst = TRUE
  OldDelDeletedEarly = FALSE
  GcProtectsBuilding = TRUE
  MaxFaults = 1
  StoreMetaFirst = FALSE
INVARIANT CrashSafe
INVARIANT CrashDurable
INVARIANT OrphanIsF4Class
INVARIANT GcComplete
INVARIANT GcTight
INVARIANT NeverDeletesNeeded
INVARIANT NeverDeletesBuilding
INVARIANT LemmaSafe
INVARIANT LemmaOrphan
CHECK_DEADLOCK FALSE
