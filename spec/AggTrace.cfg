SPECIFICATION TSpec
CONSTANTS
  BrokenMerge = FALSE
  ValueCounts = FALSE
  DocDomain = {}
  Reqs = {}
  Queries = {}
  MaxDocs = 0
  MaxParts = 0
POSTCONDITION Accepted
CHECK_DEADLOCK FALSE
