--------------------------- MODULE Gen_MergePolicy ---------------------------
(* Generator of cases for the log merge policy: a policy and a list of segments               *)
(* (maxdoc, deleted documents).  Run with -simulate; every behaviour prints one case;         *)
(* harness/src/bin/policy_driver.rs builds the segments in a real index, asks the real        *)
(* LogMergePolicy for its candidates, lets a real writer merge until it comes to rest, and    *)
(* MergePolicyTrace judges what was recorded.                                                  *)
EXTENDS Naturals, Sequences, Json, TLC

CONSTANTS MaxSegs, MaxSize

VARIABLES pol, segs, fin
gvars == <<pol, segs, fin>>

Policies ==
  [minseg : {1, 2, 3}, maxdocs : {5, 12, 1000}, minlayer : {0, 2, 4}, q : {1, 2, 3, 6}, r : {2, 4, 8}]

GInit == pol \in Policies /\ segs = <<>> /\ fin = FALSE

Extend ==
  /\ ~fin /\ Len(segs) < MaxSegs
  /\ \E m \in 1..MaxSize : \E d \in 0..(m - 1) :
       segs' = Append(segs, [maxdoc |-> m, ndel |-> d])
  /\ UNCHANGED <<pol, fin>>

Finish ==
  /\ ~fin /\ Len(segs) >= 1
  /\ PrintT(<<"CASE", ToJson([policy |-> pol, segs |-> segs, settle |-> pol.minseg >= 2])>>)
  /\ fin' = TRUE /\ UNCHANGED <<pol, segs>>

GNext == Extend \/ Finish
GSpec == GInit /\ [][GNext]_gvars
=============================================================================
