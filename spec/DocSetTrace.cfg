SPECIFICATION TSpec
CONSTANTS
  U = 0
  TERM = 2147483647
  B = 64
  W = 1024
  Depth = 0
  AllLowerBounds = FALSE
  CountLeavesStale = FALSE
POSTCONDITION Accepted
CHECK_DEADLOCK FALSE
