#!/bin/bash
cd /verif
while pgrep -f "run_matrix2[7].sh" > /dev/null; do sleep 20; done
tools/detect_matrix.sh /tmp/dm31.tsv C06-s20:C06,C12 C07-s20:C07
tools/run_confirm12.sh C06 C07
