#!/bin/bash
cd /verif
tools/detect_matrix.sh /tmp/dm28.tsv C08-s20:C08 C09-s20:C09,C04
