#!/bin/bash
cd /verif
while pgrep -f "run_matrix2[6].sh" > /dev/null; do sleep 20; done
tools/detect_matrix.sh /tmp/dm30.tsv C12-s20:C12 C14-s20:C14
tools/run_confirm12.sh C12 C14
