#!/usr/bin/env python3
"""Regenerates /verif/MANIFEST.json from the table below (one entry per property)."""
import json, os, subprocess
ROOT = os.path.dirname(os.path.dirname(os.path.abspath(__file__)))
props = [json.loads(l) for l in open(os.path.join(ROOT, "properties.jsonl"))]
hook_commits = subprocess.run(["git", "-C", "/repo", "log", "--format=%h %s"], capture_output=True, text=True).stdout.splitlines()
hook_commits = [l.split()[0] for l in hook_commits if l.split(" ", 1)[1].startswith("verif hooks")]

CHECKS = {
 "C01": ("TLA+ Storage model: TLC model checking of the commit/merge/GC protocol with crash at every boundary + trace validation of every storage operation of real runs (all crash images symbolically) + materialised crash images recovered by the real code and judged by TLC",
         "TLC checks MC_Storage (protocol step by step, power set of un-synced items, linear-characterisation lemma, 4 negative configurations) and StorageProto (the same protocol as interleaved builder / updater / GC processes with delete files, merges, an I/O error in the meta.json replacement; must-fail configurations for seeded protocol changes). Every storage operation of real IndexWriter runs on SimDirectory drives Storage.tla; CrashSafe and CrashDurable are evaluated after every event. Crash images are materialised at the boundaries, recovered with Index::open / validate_checksum / read-back / writer+commit+gc, and judged against the sequential oracle.",
         "SimDirectory implements the storage model (terminate = fsync, sync_directory makes entries/renames/unlinks durable, un-synced directory ops independent); MmapDirectory's system calls are bound through strace for one fixed history (fsync / rename / directory fsync mapped to the same storage events); crash images are not materialised on a real file system"),
 "C02": ("TLA+ model checking (TLC) of IndexCore + trace validation of real IndexWriter histories (TLC-generated and random) against the TLA+ sequential oracle",
         "TLC checks the IndexCore specification (stamper, delete queue and cursors, workers, registers, commit task, merges, rollback, re-open, prepare/abort, batches) exhaustively for small bounds; TLC-generated histories and seeded random histories are executed on the real IndexWriter and every recorded run is judged by TLC against the sequential oracle; hook-level traces step the IndexCore model itself (ImplTrace); concurrent producers are checked for linearizability (ProducerTrace); the delete queue has its own code-shaped model (DeleteQueueImpl: weak last block, double-checked locking, every interleaving) and TLC-generated operation sequences replayed on the real DeleteQueue (DeleteQueueTrace).",
         "bounded: model MaxOps<=5, traces <=60 operations, 1..8 indexing threads; content read back through a fresh Index::open; TLC and the Json module trusted"),
 "C05": ("TLA+ model checking (GcProto, IndexCore, ReloadProto, WarmProto, LockProto; inductive invariants of ReloadProto, LockProto and WarmProto discharged by Apalache) + trace validation of concurrent reader threads against ReaderTrace.tla + gate-forced schedules from the models",
         "TLC checks reload against commit/merge/GC/rollback with and without the meta lock (same and second Index instance). Real reader threads reload, search and re-read held searchers while a real writer runs; TLC judges every reload (exactly one commit, monotone) and every re-read (unchanged). The dangerous schedule found by the model (reader parked after atomic_read(meta.json) while the writer commits, merges and collects) is forced with the SimDirectory gate.",
         "overlapping reloads of one IndexReader are exercised by the gated shared-reader schedule and the OnCommitWithDelay runs on RamDirectory; SimDirectory (delete really removes the entry); MmapDirectory two-process variant not built"),
 "C10": ("TLA+ model checking (GcProto, MC_Storage, StorageProto, ManagedProto) + trace validation of every delete / GC / quiescent end of real runs (also with two Index instances) against StorageTrace.tla + gate-forced schedules + crash images recovered then commit+GC",
         "TLC checks GC against workers creating files, commits, merges, rollback and reloading readers (3 negative configurations must fail). Every delete of real runs is checked against Needed (meta.json, registers); the quiescent end of every run must leave exactly the committed files and a matching managed list; recovered crash images followed by commit + GC are checked for orphans.",
         "files of a segment still under construction are decided by the model and indirectly by CrashSafe, not by the trace check (a live writer object does not prove the segment is still wanted); F4 is a recorded finding"),
}
TEXT_DEFAULT = ("TLA+ specification model-checked by TLC + conformance: TLC-generated cases replayed on the real code and recorded observations judged by a TLA+ trace specification",)

def entry(pid):
    tech, text, note = CHECKS[pid]
    return {"property_id": pid, "quick_cmd": f"./check {pid} --tier quick", "thorough_cmd": f"./check {pid} --tier thorough",
            "evidence_file": f"/verif/evidence/{pid}.json", "replay_cmd_template": f"./check {pid} --replay {{path}}", "engine": "check",
            "level_claimed": {"category": "model_checking", "text": text, "design_ref": f"DESIGN.md §6 {pid}"},
            "level_note": note, "technique": tech}

extra = os.path.join(ROOT, "tools", "manifest_extra.json")
if os.path.exists(extra):
    for k, v in json.load(open(extra)).items():
        CHECKS[k] = tuple(v)
na_reasons = json.load(open(os.path.join(ROOT, "tools", "not_applicable.json"))) if os.path.exists(os.path.join(ROOT, "tools", "not_applicable.json")) else {}
claimed = sorted(CHECKS)
m = {"version": 1, "setup_cmd": "./setup.sh",
     "hooks": {"guard": "tantivy_verif", "enable": "RUSTFLAGS --cfg tantivy_verif via /verif/harness/.cargo/config.toml (the harness crate has a path dependency on /repo)",
               "baseline_off_cmd": "cd /repo && cargo nextest run --workspace --no-fail-fast --offline --test-threads 8 || cargo test --workspace --no-fail-fast --offline",
               "source_commits": hook_commits, "add_only": True},
     "engines": [{"name": "check", "path": "/verif/check", "serves_properties": claimed,
                  "kind_free_text": "python driver: cargo-builds the Rust harness against /repo (hooks on), runs TLC (model checking, behaviour generation, trace validation), matches known findings, writes evidence"}],
     "checks": [entry(p) for p in claimed],
     "notes": "see DESIGN.md; known_findings.json lists recorded and fixed defects; seeded/ holds the mutations used to test the checks",
     "not_applicable": [{"property_id": p["id"], "reason": na_reasons.get(p["id"], "check not built yet in this round (work in progress, see DESIGN.md §11)")} for p in props if p["id"] not in CHECKS]}
json.dump(m, open(os.path.join(ROOT, "MANIFEST.json"), "w"), indent=1)
print("claimed:", claimed)
