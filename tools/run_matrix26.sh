#!/bin/bash
cd /verif
while pgrep -f "run_matrix2[5].sh" > /dev/null; do sleep 20; done
tools/detect_matrix.sh /tmp/dm29.tsv C03-s20:C03 C16-s20:C16,C03
while pgrep -f "run_confirm1[2].sh" > /dev/null; do sleep 20; done
tools/run_confirm12.sh C03 C16
