#!/bin/bash
# second scratch slot, so it can run next to run_matrix4.sh
cd /verif
export WP_WT=/tmp/wt_m5 WP_H=/tmp/h_m5 WP_OUT=/tmp/wp_m5
tools/detect_matrix.sh /tmp/dm7.tsv C11-s9:C11 C05-s8:C05 regress_F40:C11 regress_F41:C08 regress_F30:C13 regress_F31:C13 regress_F22:C14 regress_F23:C14 regress_F34:C03
