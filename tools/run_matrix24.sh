#!/bin/bash
cd /verif
while pgrep -f "run_matrix2[3].sh" > /dev/null; do sleep 20; done
tools/detect_matrix.sh /tmp/dm27.tsv C10-s19:C10,C04 regress_F48:C05 regress_F49:C17
while pgrep -f "run_confirm1[1].sh" > /dev/null; do sleep 20; done
tools/confirm_seed.sh C10-s19 seeded_C10.rs tests
