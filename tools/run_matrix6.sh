#!/bin/bash
cd /verif
tools/detect_matrix.sh /tmp/dm9.tsv C02-s12:C02,C04 C17-s12:C17 C12-s12:C12 C15-s12:C15 C16-s12:C16 C19-s12:C19 C18-s12:C18 C20-s12:C20
