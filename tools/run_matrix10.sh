#!/bin/bash
cd /verif
export WP_WT=/tmp/wt_m5 WP_H=/tmp/h_m5 WP_OUT=/tmp/wp_m5
tools/detect_matrix.sh /tmp/dm13.tsv regress_F1:C01 C10-s8:C10 C01-s2:C01 regress_F18:C11 own_mmap_no_dir_sync:C01
