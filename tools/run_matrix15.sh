#!/bin/bash
cd /verif
tools/detect_matrix.sh /tmp/dm18.tsv C15-s16:C15 C16-s16:C16 regress_F44:C14 regress_F45:C11
