#!/bin/bash
cd /verif
tools/detect_matrix.sh /tmp/dm12.tsv C02-s13:C02 C04-s13:C04,C02 C05-s13:C05,C18 C11-s13:C11,C09 C18-s13:C18 C13-s13:C13,C03 regress_F43:C04 C01-s13:C01
