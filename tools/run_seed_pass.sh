#!/bin/bash
# usage: tools/run_seed_pass.sh <seed>   -- every quick check once with that seed; evidence goes to /tmp (not /verif/evidence)
cd /verif
S=$1
mkdir -p /tmp/pass_$S
for p in C01 C02 C03 C04 C05 C06 C07 C08 C09 C10 C11 C12 C13 C14 C15 C16 C17 C18 C19 C20; do
  t0=$(date +%s)
  VERIF_EVIDENCE_DIR=/tmp/pass_$S VERIF_REPLAY_DIR=/tmp/pass_$S/replays ./check $p --tier quick --no-build --seed $S > /tmp/pass_$S/$p.log 2>&1
  echo -e "$p\tseed=$S\texit=$?\t$(( $(date +%s) - t0 ))s" >> /tmp/pass_$S/summary.tsv
done
