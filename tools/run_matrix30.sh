#!/bin/bash
cd /verif
while pgrep -f "run_matrix2[9].sh" > /dev/null; do sleep 20; done
tools/detect_matrix.sh /tmp/dm33.tsv C10-s21:C10,C05 C05-s21:C05 C02-s21:C02 C11-s21:C11
tools/run_confirm13.sh C10 C05 C02 C11
