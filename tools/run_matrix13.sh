#!/bin/bash
cd /verif
tools/detect_matrix.sh /tmp/dm16.tsv C07-s14:C07 C08-s14:C08,C04 C14-s14:C14
