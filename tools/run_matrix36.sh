#!/bin/bash
cd /verif
while pgrep -f "run_matrix3[5].sh" > /dev/null; do sleep 20; done
tools/detect_matrix.sh /tmp/dm39.tsv C06-s23:C06,C12 C08-s23:C08
tools/run_confirm15.sh C06 C08
