#!/bin/bash
cd /verif
export WP_WT=/tmp/wt_m5 WP_H=/tmp/h_m5 WP_OUT=/tmp/wp_m5
tools/detect_matrix.sh /tmp/dm19.tsv C12-s16:C12 C13-s16:C13,C03 regress_F6:C02 regress_C15a:C15
