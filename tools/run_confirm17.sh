#!/bin/bash
cd /verif
for id in "$@"; do tools/confirm_seed.sh $id-s25 seeded_$id.rs tests; done
