#!/bin/bash
# usage: tools/confirm_seed.sh <seeded dir name> <demo test file> <where to put it: tests|sstable/tests|...> [cargo test args for the demo...]
# Confirms in a scratch worktree: patch applies, builds, the full pinned suite passes, the demo
# fails with the patch and passes without it.  Appends a line to /tmp/confirm.tsv.
d=$1; demo=$2; where=$3; shift 3
WT=/tmp/confirm_wt
[ -d $WT ] || git -C /repo worktree add --detach $WT HEAD >/dev/null 2>&1
git -C $WT checkout -q --detach "$(git -C /repo rev-parse HEAD)"; git -C $WT reset -q --hard; git -C $WT clean -qfd
cd $WT
cp /verif/seeded/$d/$demo $where/
name=$(basename $demo .rs)
# demo on the unchanged tree
( cargo test --offline "$@" --test $name > /tmp/confirm_${d}_base.log 2>&1 ); base=$?
git apply /verif/seeded/$d/patch.diff || { echo -e "$d\tPATCH-DOES-NOT-APPLY" >> /tmp/confirm.tsv; exit 1; }
( cargo test --offline "$@" --test $name > /tmp/confirm_${d}_mut.log 2>&1 ); mut=$?
rm -f $where/$demo
( cargo nextest run --workspace --no-fail-fast --offline --test-threads 6 > /tmp/confirm_${d}_suite.log 2>&1 ); suite=$?
summary=$(grep -E "^\s+Summary" /tmp/confirm_${d}_suite.log | tail -1 | sed 's/^ *//')
echo -e "$d\tdemo_unchanged_exit=$base\tdemo_mutated_exit=$mut\tsuite_exit=$suite\t$summary" >> /tmp/confirm.tsv
git -C $WT reset -q --hard; git -C $WT clean -qfd
