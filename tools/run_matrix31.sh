#!/bin/bash
cd /verif
while pgrep -f "run_matrix3[0].sh" > /dev/null; do sleep 20; done
tools/detect_matrix.sh /tmp/dm34.tsv C01-s21:C01,C11 C17-s21:C17
tools/run_confirm13.sh C01 C17
