#!/bin/bash
cd /verif
tools/confirm_seed.sh C02-s8 seeded_c02.rs tests
tools/confirm_seed.sh C05-s8 seeded_c05.rs tests
tools/confirm_seed.sh C10-s8 seeded_c10.rs tests
tools/confirm_seed.sh C01-s9 seeded_c01.rs tests
tools/confirm_seed.sh C01-s9b seeded_c01b.rs tests
tools/confirm_seed.sh C04-s9 seeded_c04.rs tests
tools/confirm_seed.sh C11-s9 seeded_c11.rs tests
tools/confirm_seed.sh C06-s10 seeded_c06.rs tests
tools/confirm_seed.sh C13-s10 seeded_c13.rs tests
tools/confirm_seed.sh C03-s10 seeded_c03.rs tests
tools/confirm_seed.sh C14-s11 seeded_c14.rs tests
tools/confirm_seed.sh C08-s11 seeded_c08.rs tests
tools/confirm_seed.sh C09-s11 seeded_c09.rs tests
tools/confirm_seed.sh C07-s11 seeded_c07.rs tests
