#!/usr/bin/env python3
"""Rewrites section 12.5 of DESIGN.md (between <!-- FINDINGS-BEGIN --> and <!-- FINDINGS-END -->) from known_findings.json."""
import json
import os
import re

ROOT = os.path.dirname(os.path.dirname(os.path.abspath(__file__)))
d = json.load(open(os.path.join(ROOT, "known_findings.json")))
B, E = "<!-- FINDINGS-BEGIN -->", "<!-- FINDINGS-END -->"
L = [B, "",
     f"**Repaired by `fix:` commits in /repo ({len(d['fixed'])})** — each is detected again by the owning check when the commit is reverted",
     "(`seeded/regress_Fx/patch.diff`, results in 12.6):", ""]
for f in d["fixed"]:
    L.append("* " + f[len("fixed: "):] if f.startswith("fixed: ") else "* " + f)
L += ["", f"**Recorded, not repaired ({len(d['known'])})** — default generators steer around exactly these classes, a dedicated sub-run of the",
      "owning check reproduces each and prints its `KNOWN-FINDING:` line, any other violation of the same property still fails the check:", ""]
for k in d["known"]:
    L.append(f"* **{k['id']}** ({', '.join(k['properties'])}): {k['what']}")
ids = [k["id"] for k in d["known"]]
L += ["", "Why the recorded ones were not repaired: F-A, F-B/F-C, F52, F28 and F47 are encoded by pinned tests (the suite must pass unedited);",
      "F4 needs a directory sync per created file (a design decision, not a small patch); the others (" + ", ".join(i for i in ids if i not in ("F-A", "F-B/F-C", "F28", "F4", "F47", "F52")) + ")",
      "need more than a small, obviously safe change (per-document de-duplication in hot loops, threading block",
      "ordinals through the sstable reader, the levenshtein prefix DFA, slop accounting).", "",
      "Dropped: four candidates that only existed as `debug_assert!` / overflow-check panics (see 12.1).", "", E]
p = os.path.join(ROOT, "DESIGN.md")
s = open(p).read()
s = re.sub(re.escape(B) + r".*?" + re.escape(E), lambda m: "\n".join(L), s, flags=re.S)
open(p, "w").write(s)
print("12.5 regenerated:", len(d["fixed"]), "fixed,", len(d["known"]), "known")
