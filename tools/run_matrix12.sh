#!/bin/bash
cd /verif
export WP_WT=/tmp/wt_m5 WP_H=/tmp/h_m5 WP_OUT=/tmp/wp_m5
tools/detect_matrix.sh /tmp/dm15.tsv C09-s14:C09,C04
