#!/bin/bash
cd /verif
while pgrep -f "run_matrix3[3].sh" > /dev/null; do sleep 20; done
tools/detect_matrix.sh /tmp/dm37.tsv C01-s23:C01 C11-s23:C11,C01 C15-s23:C15 C16-s23:C16,C03
tools/run_confirm15.sh C01 C11 C15 C16
