#!/bin/bash
cd /verif
for id in "$@"; do
  where=tests
  [ "$id" = "C15" ] && grep -q "tantivy_sstable\|use tantivy::" seeded/$id-s22/seeded_$id.rs && where=tests
  tools/confirm_seed.sh $id-s22 seeded_$id.rs $where
done
