#!/bin/bash
cd /verif
while pgrep -f "run_matrix3[2].sh" > /dev/null; do sleep 20; done
tools/detect_matrix.sh /tmp/dm36.tsv C07-s22:C07,C12 C09-s22:C09
tools/run_confirm14.sh C07 C09
