#!/usr/bin/env python3
"""Writes seeded/<dir>/meta.json from the confirmation results (/tmp/confirm.tsv) and the detection
matrix (/tmp/dm*.tsv).  The `needs` texts summarise the independent agents' READMEs."""
import glob
import json
import os
import re

ROOT = os.path.dirname(os.path.dirname(os.path.abspath(__file__)))
NEEDS = {
    "C02-s1": ("C02", "index_documents checks the memory budget after every document and leaves the loop in the middle of a batch: the rest of a `run` batch is dropped silently", "adds submitted through IndexWriter::run in groups of >= 2 and a segment cut by the MEMORY BUDGET inside such a group (large documents)"),
    "C04-s1": ("C04", "consider_merge_options gives policy merges of COMMITTED segments the current opstamp instead of the commit opstamp: the merge applies pending uncommitted deletes and publishes them", "a delete still pending when the merge policy is consulted (worker flush / end of another merge) and an observation before that delete is committed, or a rollback / abort"),
    "C18-s1": ("C18", "wait_merging_threads drops the directory lock right after closing the pipeline, while its merge threads still run and still rewrite meta.json", "another thread creating a writer (second Index handle) while the first thread is inside wait_merging_threads with a merge still running"),
    "C01-s2": ("C01", "save_metas skips the sync_directory before atomic_write(meta.json) when the new meta lists no new segment id", "a delete-only commit (new .del file for an old segment) and a crash between the meta.json replace and the next directory sync, with the rename persisted but the .del creation not"),
    "C10-s2": ("C10", "open_segment_readers holds META_LOCK only while loading meta.json, not while opening the segment readers", "a reader on a second Index instance pre-empted between loading the metas and opening the files while the writer merges / commits and garbage-collects"),
    "C11-s2": ("C11", "prepare_commit no longer clears workers_join_handle in its worker-error branch: workers re-spawned before the failed join survive", ">= 2 indexing workers, an I/O fault in a worker that is not first in join order, and the caller retrying commit() on the same writer: commit #2 returns Ok without the dead worker's documents"),
    "C05-s3": ("C05", "open_segment_readers reads meta.json BEFORE taking META_LOCK", "a reader on a second Index instance pre-empted between the meta read and the lock, with a merge + GC in that window: reload() fails with FileDoesNotExist on a healthy index"),
    "C12-s3": ("C12", "the merger always estimates total_num_tokens from the quantised field norms, also when nothing was deleted", "a document with a field longer than 40 tokens (length not a field-norm table value) and any merge without deletes: average field length and every BM25 score change after the merge"),
    "C14-s3": ("C14", "HighCardSubAggBuffer::push de-duplicates on the last doc id only (not on (bucket, doc))", "a multi-valued bucketed field, a sub-aggregation on the high-cardinality path, >= 17 buckets in one segment with one document in two buckets whose ids are congruent mod 16"),
    "C15-s4": ("C15", "sstable v3 block index: bisect_for_ord no longer rebases the target ordinal on the first ordinal of its block-address store", "a dictionary with more than 128 sstable blocks (or a tiny block length) and an ordinal lookup beyond the first store"),
    "C16-s4": ("C16", "the duplicate-clause removal of rewrite_ast keys its `seen` set on the sub-query only, not on (occur, sub-query)", "a clause list containing the same sub-query twice with different markers (`+a -a`, `b a -a`): the second occurrence is dropped by the strict and the lenient parser alike"),
    "C19-s4": ("C19", "SplitCompoundWords gives each part its own offsets computed from byte positions in the (already normalised) token text", "the splitter behind a filter that changes byte length (AsciiFoldingFilter, LowerCaser on 'İ') and a compound containing such a character: offsets inside a character / past the end, SnippetGenerator panics"),
    "C03-s5": ("C03", "fast-field RangeQuery: the `all values in range -> AllScorer` shortcut is widened from Cardinality::Full to `num_vals == num_docs`", "a MULTI-valued fast field with #values == #docs in the segment while some documents have no value, and a range covering the whole [min, max]"),
    "C06-s5": ("C06", "block-WAND intersection: the suffix sum of block maxima is overwritten instead of accumulated", "an all-Must conjunction of >= 4 plain term queries through TopDocs by score with more matches than K"),
    "C13-s5": ("C13", "PhrasePrefix (single prefix) seek no longer clears the cached positions of the previous document", "a phrase-prefix query with exactly one term before the prefix moved by seek / seek_danger (nested in a conjunction or exclusion) between documents where the phrase term sits at different positions"),
    "C17-s6": ("C17", "merger: segment_has_live_nulls compares value count with num_docs instead of scanning the live documents", "a numeric sort field, disjoint ranges, a live document WITHOUT a sort value in a segment that is not stacked first (asc) / last (desc) and at least as many deleted documents with a value in that segment"),
    "C20-s6": ("C20", "FooterProxy::write hashes the whole buffer before the inner write instead of the accepted prefix afterwards", "a Directory whose writer does short writes or returns Interrupted (legal for io::Write; RamDirectory / MmapDirectory never do): every file of an intact index is reported as damaged"),
    "C09-s6": ("C09", "merger: store blocks are stacked verbatim also when they were written with another compressor than the merged store declares", "docstore_compression changed on an existing index (lz4 <-> none), then a merge of older segments without deletes and with >= 6 store blocks"),
    "C07-s7": ("C07", "SegmentPostings::append_positions_with_offset caches a running prefix sum of term frequencies that is not reset by a seek into another block", "a posting list with positions longer than one 128-document block; positions read at one document, then seek into a different block at an in-block index not smaller, different term frequencies; positions read again"),
    "C05-s8": ("C05", "consider_merge_options: committed candidates also get the current opstamp as merge target (same mechanism as C04-s1, observed through readers)", "deletes pending while the merge options are reconsidered; a reload of a second Index instance or a rollback before the next commit"),
    "C10-s8": ("C10", "ManagedDirectory::open_write creates the file before registering it in .managed.json", "a crash between the creation of a segment file and the replacement of .managed.json: the file is an orphan no managed list will ever contain"),
    "C01-s9": ("C01", "advance_deletes deletes the superseded <seg>.<old opstamp>.del file right after writing the new one (before meta.json is replaced)", "a second delete-commit on a segment that already has a .del file and a crash between purge_deletes and the meta.json replacement"),
    "C01-s9b": ("C01", "FooterProxy::terminate_ref calls writer.flush() instead of writer.terminate(): no managed file is ever fsynced", "a power loss right after commit() with un-terminated files coming back empty"),
    "C04-s9": ("C04", "merge(): delete cursor of the merged entry taken before advancing the sources (as C02-s8)", "flushed uncommitted segment A, delete-by-key and re-add of the key landing in segment B, a policy merge of A+B, then commit: the updated document disappears"),
    "C11-s9": ("C11", "SegmentUpdater::save_metas calls store_meta (in-memory active meta) BEFORE the durable write", "an I/O error on the meta.json replacement (reported by commit), the writer kept, and a GC before the commit is retried: the files of the last successful commit are deleted"),
    "C06-s10": ("C06", "block-WAND union align_scorers: a scorer exhausted by seek(pivot) is removed with swap_remove and the ordering is not restored", ">= 3 union terms on the block-WAND path, a threshold already above the first term's max score, that term's list ending before the pivot and a rarer term after it"),
    "C13-s10": ("C13", "BufferedUnionScorer::seek (in-window branch) moves bucket_idx before the combiner-clearing loop: stale score combiners", "a scoring union receiving a seek that skips a buffered document across a 64-doc bucket, then a refill into the next 4096 window with a slot collision: score depends on how the document was reached"),
    "C03-s10": ("C03", "BufferedUnionScorer::fill_buffer no longer resets a drained bucket: later windows inherit phantom documents", "a top-level disjunction collected WITHOUT scores in blocks (DocSetCollector, FilterCollector) with matches spanning more than one 4096-doc window; Count and TopDocs stay correct"),
    "C14-s11": ("C14", "fused terms x histogram collector computes bucket keys as base_key + b*interval: 1-ulp drift for fractional intervals", "top-level terms with a single histogram child over full columns, a FRACTIONAL interval, two segments with different minimum values (or min_doc_count = 0)"),
    "C08-s11": ("C08", "optional index: reader uses <= DENSE_BLOCK_THRESHOLD where the writer uses <: a block with exactly 5,120 values is written dense and read sparse", "an optional column with exactly 5,120 documents carrying a value in one 65,536-row block"),
    "C09-s11": ("C09", "serialize_vint_u32: the stop bit of the 4-byte branch is shifted by 16 instead of 24", "a stored text / bytes / JSON string value of 2 MiB or more: it comes back truncated"),
    "C07-s11": ("C07", "SegmentWriter::index_document groups (field, value) pairs with an UNSTABLE sort", "a document with more than ~20 (field, value) pairs whose fields are interleaved: values of one multi-valued text field are permuted, token positions are wrong"),
    "C02-s12": ("C02", "advance_deletes starts from the SegmentEntry's in-memory alive bitset (computed once at finalisation) and intersects with the on-disk delete file only when there is none", "a segment that got a delete during its first transaction followed by another add to the same segment, an unbroken writer session, and at least two later commits deleting from that segment: add 1,2,3; del 1; add 4; del 2; commit; del 3; commit yields {3,4} instead of {4}"),
    "C17-s12": ("C17", "merger k-way path for numeric sort fields: Option<u64> comparison replaced by a single u64 key (null -> 0, v -> v.saturating_add(1)): the two top values collide", "numeric / date sort field, a merge through the k-way path (overlapping ranges or a live null), MAX in one segment and MAX-1 in another"),
    "C12-s12": ("C12", "RequiredOptionalScorer::seek_danger no longer resets score_cache", "a conjunction containing a nested boolean with a Must and a Should clause (+(+a b) +c), scoring on, the nested clause not the cheapest conjunct, at least two matches per segment with different partial scores: TopDocs score differs from explain and from the clause sum"),
    "C15-s12": ("C15", "sstable Dictionary::file_slice_for_range counts the limit budget from the first ordinal of the block holding the lower bound", "a multi-block dictionary, a lower bound strictly inside a block, a range stream with ge/gt plus limit(n) large enough to cross blocks: fewer than n keys returned"),
    "C16-s12": ("C16", "LogicalAst::simplify pulls a sub-clause up when its children carry the parent's occur or MustNot", "strict parser only: a Should operand that is a parenthesised group with optional terms plus a '-' term and no '+' term, with a sibling: (apple -banana) OR cherry excludes banana from the whole disjunction; lenient parser unaffected"),
    "C19-s12": ("C19", "snippet FragmentCandidate::try_add_token clamps the fragment end and the highlight to start + max_num_chars in BYTES", "a query-term token longer in bytes than max_num_chars (raw tokenizer, or a small max_num_chars); panic when the cut falls inside a multi-byte code point, otherwise a highlight that is not a query term"),
    "C18-s12": ("C18", "RamDirectory::open_write checks exists() under the read lock before creating under the write lock: create-new is no longer atomic", "RamDirectory and at least two threads calling Index::writer concurrently while nobody holds the lock: several writers coexist"),
    "C20-s12": ("C20", "Footer::is_compatible only rejects versions above INDEX_FORMAT_VERSION (lower bound dropped)", "a file whose footer carries a format version below 4: opened and misread instead of IncompatibleIndex"),
    "C01-s13": ("C01", "SegmentUpdater::save_metas loses its `if self.is_alive()` guard", "a merge of committed segments whose end_merge task is queued or running when rollback() is called, and the new writer committing before the old task reaches save_metas (the F43 mechanism, written before its repair)"),
    "C10-s13": ("C10", "remap_and_write untracks the temporary doc store right after closing it, before StoreReader::open re-reads it", "a sorted index and a garbage collection exactly between the close and the re-open of <segment>.store.temp by the finalising indexing thread"),
    "C02-s13": ("C02", "SegmentManager::remove_all_segments (delete_all_documents) no longer clears the uncommitted register", "a flushed uncommitted segment at the moment delete_all_documents is called (dropped prepare_commit, memory-budget cut, uncommitted merge result), then a commit"),
    "C04-s13": ("C04", "merge(): a source segment with no delete operation pending below the target opstamp skips advance_deletes", "a segment containing add X ... delete X ... another add, merged while still uncommitted, no newer delete pending when the merge starts: the deleted document comes back"),
    "C05-s13": ("C05", "MmapDirectory's ReleaseLockFile::drop also unlinks the lock file (flock + unlink race on .tantivy-meta.lock)", "MmapDirectory, reader and writer on separate directory instances, a reload queued behind another lock holder and pre-empted between reading meta.json and opening a segment, the writer merging and collecting meanwhile"),
    "C11-s13": ("C11", "the doc-store compressor thread keeps draining its channel after a failed write and only reports the LAST block's result", "a transient write fault on .store on the compressor thread that is not the last block written: commit returns Ok while later doc ids are shifted"),
    "C18-s13": ("C18", "MmapDirectory::acquire_lock builds the ReleaseLockFile guard (which now removes the file on drop) before try_lock_exclusive", "MmapDirectory and at least TWO creation attempts while one writer is alive: the first is refused and unlinks the lock file, the second succeeds"),
    "C13-s13": ("C13", "ExclusionSet::contains trusts docset.doc() whenever doc() >= target instead of calling seek_danger", "a MustNot clause with a real danger zone (nested conjunction or phrase): after a seek_danger miss the excluded scorer's doc() is not a match, so non-excluded documents are dropped depending on the probes made"),
    "C03-s14": ("C03", "a Disjunction::seek override without the `current_doc >= target` guard: seek(doc()) jumps to the next match", "a boolean query with minimum_number_should_match >= 2 and more SHOULD clauses than that minimum, inside an intersection (a MUST clause at the same level, or nested as a MUST): `+m (a b c)~2` returns nothing"),
    "C06-s14": ("C06", "RequiredOptionalScorer::seek_danger no longer resets score_cache (the same mutation as C12-s12, found again independently)", "scoring on, `+(+a b) +c` with the nested scorer not the lead of the intersection, two hits with different partial scores; visible only against independently computed keys (explain / per-term scores): C12's oracle, not C06's"),
    "C17-s14": ("C17", "json_postings_writer: non-string JSON leaves are serialised with doc_id_map = None", "sort_by_field, an indexed JSON field with a numeric / bool / date leaf, a segment whose documents do not arrive in sort order, and a check of WHICH documents match a term query on that leaf"),
    "C19-s14": ("C19", "RegexTokenizer::advance steps over an empty match by one BYTE", "a pattern that can match the empty string (\\w*, [a-z]*) and a multi-byte character the pattern cannot consume: advance() panics inside the character"),
    "C09-s14": ("C09", "StoreWriter::store_bytes sends a document >= block size as its own block without flushing the smaller documents pending in the current block", "a document of at least the block size (16 KiB) with smaller documents pending before it, then a copy-path merge (deletes, < 6 blocks, other compressor) or a sorted-index rewrite: stored fields attached to the wrong document"),
    "C14-s14": ("C14", "term_histogram.rs maybe_build_collector drops the requirement that the histogram column be full", "top-level low-cardinality terms on a full column with exactly one histogram leaf whose field is missing in some documents of the segment: doc ids used as row ids"),
    "C07-s14": ("C07", "SegmentWriter::index_document (JSON branch): json_positions_per_path is cleared per VALUE instead of per document", "a JSON field indexed with positions and a document holding at least two values for that JSON field with text under the same path: positions of the later values restart at 0"),
    "C08-s14": ("C08", "optional index iter_non_null_docs rewritten block-wise with the per-block count cast to u16: a completely filled 65,536-row block counts 0 and is skipped", "a segment with more than 65,536 rows, an Optional / Multivalued column, an aligned block in which every row has a value, and a stacked merge (or the exists query)"),
    "C01-s15": ("C01", "save_metas gets a wait_durable flag and end_merge passes false: after a committed merge meta.json is replaced but not made durable before the collection that follows", "a merge of committed segments ending and a crash between the collection's first delete and its own directory sync, with the un-synced unlinks applied and the un-synced meta.json replacement not applied"),
    "C11-s15": ("C11", "end_merge only warns when writing the merged segment's catch-up delete file fails", "a merge of committed segments overlapping a commit that deletes from one of them, and an I/O fault on the creation of <merged>.<opstamp>.del: the deleted documents come back, the merge reports Ok"),
    "C02-s15": ("C02", "end_merge of a committed merge re-saves meta.json with the merge's target opstamp instead of the active metas' opstamp", "a commit completing while a merge of committed segments is still running: meta.json drops back below the opstamp the last commit returned; a re-opened writer reuses opstamps and a delete can be lost"),
    "C04-s15": ("C04", "SegmentRegisters::segments_status returns Committed whenever no source is uncommitted (also when the sources are in no register)", "delete_all_documents() while a merge is in flight: the merged segment is inserted into the committed register and meta.json is rewritten: the deleted documents come back without a commit"),
    "C18-s15": ("C18", "IndexWriter::rollback releases the directory lock and re-acquires it for the replacement writer", "a live writer calling rollback() and a concurrent Index::writer() attempt between release and re-acquisition"),
    "C20-s15": ("C20", "Index::validate_checksum selects files by Path::file_stem() == segment uuid: <uuid>.<opstamp>.del is left out", "a committed segment with deletes and a damaged .del file"),
    "C05-s15": ("C05", "ManagedDirectory::garbage_collect treats LockBusy on the meta lock as a stale lock file and collects anyway", "the default lock-file protocol (RamDirectory / custom directory), a reader of a second Index instance whose reload holds .tantivy-meta.lock for more than 10 s (100 x 100 ms), and a merge + collection meanwhile"),
    "C10-s15": ("C10", "register_file_as_managed holds the managed-paths lock only for the insertion and writes .managed.json from a cloned set afterwards", "two threads registering files at the same time, the first pre-empted while persisting: a stale list lands last, files of a committed segment are missing from .managed.json and become orphans after a restart"),
    "C15-s16": ("C15", "sstable Streamer::advance tests the lower bound before updating the per-byte automaton state stack", "Dictionary::search(automaton) with a ge/gt lower bound, a key below the bound in the first loaded block sharing a prefix with the following in-range key: matches lost or spurious"),
    "C16-s16": ("C16", "aggregate_infallible_expressions: the ShouldNot synthesis no longer requires default_op == Should", "exactly the shape `... OR -x AND y ...` without parentheses: `a OR -b AND c` is read as a OR c"),
    "C12-s16": ("C12", "SumCombiner / DisjunctionMaxCombiner::clear() becomes `*self = Self::default()`: a cleared dis-max combiner loses its tie breaker", "a DisjunctionMaxQuery with a non-zero tie breaker, a document matching two disjuncts, more than 4096 doc ids past the first match of its segment"),
    "C13-s16": ("C13", "Disjunction::advance returns as soon as minimum_matches_required clauses matched when the combiner is DoNothingCombiner", "minimum_number_should_match = m >= 2 evaluated by Disjunction, scoring disabled, a document matching at least 2*m should clauses: it is emitted twice"),
    "C06-s16": ("C06", "SkipReader::block_max_score clamps the saturated term-frequency code 255 to 255 instead of decoding it as unbounded", "a posting list of at least 128 docs, a full block whose best document has tf above 255 and a threshold already above score(fieldnorm, 255)"),
    "C07-s16": ("C07", "vint compress_unsorted loops `while to_encode > 128` instead of `>= 128`", "a term frequency of exactly 128, or a gap of exactly 128 (or 16384..=16511) between consecutive positions, in the incomplete last block of a posting list"),
    "C08-s16": ("C08", "FastFieldsWriter::add_doc_value (tokenized text fast field) skips a token equal to the previous token of the same value", "a text fast field with a fast-field tokenizer and a value containing the same token twice in a row: `Bye bye love` comes back as [bye, love]"),
    "C09-s16": ("C09", "CompactDoc::add_value skips object entries whose value is null", "a stored JSON object (any depth) with a null entry read back as TantivyDocument: {a: null, b: 1} comes back as {b: 1}"),
    "C08-s7": ("C08", "BitUnpacker::get_ids_for_value_range truncates the upper bound to 32 bits instead of clamping it", "a bit-packed column of width <= 32 and a range whose upper bound (after min/gcd normalisation) is >= 2^32 with low 32 bits below the matching values"),
}


def rows(pattern):
    out = []
    def natural(f):
        m = re.search(r'dm(\d+)', f)
        return (1, 0, f) if 'manual' in f else (0, int(m.group(1)) if m else 0, f)
    for f in sorted(glob.glob(pattern), key=natural):
        for line in open(f):
            out.append(line.rstrip("\n").split("\t"))
    return out


NOTES = {
    "C02-s12": "NOT a valid seed: with this patch the pinned suite fails intermittently (indexer::index_writer::tests::test_delete_proptest_with_merge draws fresh random cases; it failed in my confirmation run, passed in the author's). Kept as a detection target only.",
    "C01-s13": "written against 4a0877aa2, just before the F43 repair (kill() waits for the running task): on the current tree its demonstration passes with the patch too - the guard it removes is now redundant, the mutation is equivalent. Kept for the record; no check is expected to report it.",
    "C11-s9": "written before the F40 repair: its demonstration (commit fails, the writer is kept, explicit GC) now ends with 'Segment updater killed' on both trees; the mutation still manifests through a failed meta.json replacement at the end of a MERGE followed by a collection (C11 publish-fault enumeration, StorageProto_negS11)",
}
confirm = {r[0]: r[1:] for r in rows(os.path.join(ROOT, "seeded", "_results", "confirm.tsv"))}
detect = {}
for r in rows(os.path.join(ROOT, "seeded", "_results", "dm*.tsv")):
    detect.setdefault(r[0], []).append({"check": r[1], "result": r[2], "violations": r[3].split("=")[1], "wall": r[4]})

for d, (prop, what, needs) in NEEDS.items():
    p = os.path.join(ROOT, "seeded", d)
    if not os.path.isdir(p):
        continue
    meta = {"origin": "independent sub-agent given only the property text and its own worktree (nothing from /verif)",
            "property": prop, "mutation": what, "needs_to_manifest": needs,
            "confirmed_by_me": {"how": "tools/confirm_seed.sh in /tmp/confirm_wt: demo on the unchanged tree, demo with the patch, full pinned suite (cargo nextest, 1547 tests) with the patch",
                                "result": confirm.get(d, ["not yet confirmed"])},
            "detection": detect.get(d, [])}
    if d in NOTES:
        meta["note"] = NOTES[d]
    json.dump(meta, open(os.path.join(p, "meta.json"), "w"), indent=1)
for d in sorted(os.listdir(os.path.join(ROOT, "seeded"))):
    if d.startswith("own_"):
        p = os.path.join(ROOT, "seeded", d)
        meta = {"origin": "written by the author of the checks (not independent): a change in a mechanism no independent seed had touched yet", "detection": detect.get(d, [])}
        json.dump(meta, open(os.path.join(p, "meta.json"), "w"), indent=1)
    if d.startswith("regress_"):
        p = os.path.join(ROOT, "seeded", d)
        meta = {"origin": "reverse patch of the fix: commit for finding " + d[len("regress_"):] + " (re-introduces the repaired defect)",
                "detection": detect.get(d, [])}
        json.dump(meta, open(os.path.join(p, "meta.json"), "w"), indent=1)
print("meta written")
