#!/bin/bash
cd /verif
while pgrep -f "run_matrix3[1].sh" > /dev/null; do sleep 20; done
tools/detect_matrix.sh /tmp/dm35.tsv C10-s22:C10 C11-s22:C11,C10 C19-s22:C19 C20-s22:C20 C13-s22:C13,C03 C15-s22:C15 regress_F51:C16
tools/run_confirm14.sh C10 C11 C19 C20 C13 C15
