#!/bin/bash
cd /verif
tools/detect_matrix.sh /tmp/dm43.tsv C10-s25:C10,C11 C02-s25:C02,C04 C13-s25:C13,C12 C20-s25:C20 C15-s25:C15 C19-s25:C19 C07-s25:C07 C09-s25:C09
