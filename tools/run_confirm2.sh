#!/bin/bash
cd /verif
tools/confirm_seed.sh C03-s5 seeded_c03.rs tests
tools/confirm_seed.sh C06-s5 seeded_c06.rs tests
tools/confirm_seed.sh C13-s5 seeded_c13.rs tests
tools/confirm_seed.sh C17-s6 seeded_C17.rs tests
tools/confirm_seed.sh C20-s6 seeded_C20.rs tests
tools/confirm_seed.sh C09-s6 seeded_C09.rs tests
tools/confirm_seed.sh C07-s7 seeded_c07.rs tests
tools/confirm_seed.sh C08-s7 seeded_c08.rs tests
