#!/bin/bash
cd /verif
tools/detect_matrix.sh /tmp/dm17.tsv C01-s15:C01 C11-s15:C11,C04 C02-s15:C02,C04 C04-s15:C04,C02 C18-s15:C18 C20-s15:C20
