#!/bin/bash
cd /verif
tools/detect_matrix.sh /tmp/dm21.tsv C08-s16:C08 C09-s16:C09
