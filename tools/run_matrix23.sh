#!/bin/bash
cd /verif
tools/detect_matrix.sh /tmp/dm26.tsv C01-s19:C01 C11-s19:C11,C10 C02-s19:C02 C04-s19:C04,C02 C17-s19:C17 C18-s19:C18
