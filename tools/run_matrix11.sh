#!/bin/bash
cd /verif
tools/detect_matrix.sh /tmp/dm14.tsv C03-s14:C03,C13 C06-s14:C06,C12 C17-s14:C17,C03 C19-s14:C19
