#!/bin/bash
cd /verif
tools/detect_matrix.sh /tmp/dm6.tsv C05-s8:C05,C02 C10-s8:C10 C01-s9:C01 C01-s9b:C01 C04-s9:C04,C02 C11-s9:C11 C06-s10:C06 C13-s10:C13 C03-s10:C03 C14-s11:C14 C08-s11:C08 C09-s11:C09 C07-s11:C07 C12-s3:C12
