#!/bin/bash
# runs every registered quick check on /repo itself (evidence files are rewritten); summary on stdout
cd /verif
python3 -c "import lib.vlib" 2>/dev/null
./check C02 --tier quick > /tmp/all_C02.log 2>&1; echo "C02 exit=$?"
for p in C01 C03 C04 C05 C06 C07 C08 C09 C10 C11 C12 C13 C14 C15 C16 C17 C18 C19 C20; do
  t0=$(date +%s); ./check $p --tier quick --no-build > /tmp/all_$p.log 2>&1; echo "$p exit=$? $(( $(date +%s) - t0 ))s"
done
