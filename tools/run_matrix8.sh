#!/bin/bash
cd /verif
export WP_WT=/tmp/wt_m5 WP_H=/tmp/h_m5 WP_OUT=/tmp/wp_m5
tools/detect_matrix.sh /tmp/dm11.tsv own_warm_gc_recent_only:C05 own_warm_not_warmed:C05
