#!/bin/bash
cd /verif
for id in "$@"; do tools/confirm_seed.sh $id-s16 seeded_$id.rs tests; done
