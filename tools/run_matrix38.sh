#!/bin/bash
cd /verif
while pgrep -f "run_matrix3[7].sh" > /dev/null; do sleep 20; done
tools/detect_matrix.sh /tmp/dm41.tsv C03-s24:C03 C17-s24:C17,C07
tools/run_confirm16.sh C03 C17
