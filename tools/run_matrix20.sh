#!/bin/bash
cd /verif
tools/detect_matrix.sh /tmp/dm23.tsv C05-s17:C05 C11-s17:C11 regress_F38b:C06 regress_C16e:C16 regress_F36:C03
