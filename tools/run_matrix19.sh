#!/bin/bash
cd /verif
tools/detect_matrix.sh /tmp/dm22.tsv C01-s17:C01,C11 C10-s17:C10 C02-s17:C02 C04-s17:C04,C02 C17-s17:C17,C12 C18-s17:C18
