#!/bin/bash
# sequential detection runs (one scratch harness, so never two at a time)
cd /verif
tools/detect_matrix.sh /tmp/dm2.tsv C15-s4:C15 C16-s4:C16 C19-s4:C19 regress_F0:C04 own_mmap_no_data_sync:C01 own_mmap_atomic_no_fsync:C01 own_mmap_no_dir_sync:C01
tools/detect_matrix.sh /tmp/dm3.tsv C01-s2:C01 C10-s2:C10,C05 C11-s2:C11 C05-s3:C05,C10 C12-s3:C12 C14-s3:C14 C02-s1:C02 C04-s1:C04,C02 C18-s1:C18
