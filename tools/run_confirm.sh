#!/bin/bash
# confirms the seeded mutations one after the other in /tmp/confirm_wt
cd /verif
tools/confirm_seed.sh C01-s2 seeded_C01.rs tests
tools/confirm_seed.sh C10-s2 seeded_C10.rs tests
tools/confirm_seed.sh C11-s2 seeded_C11.rs tests
tools/confirm_seed.sh C05-s3 seeded_c05.rs tests
tools/confirm_seed.sh C12-s3 seeded_c12.rs tests
tools/confirm_seed.sh C14-s3 seeded_c14.rs tests
tools/confirm_seed.sh C02-s1 seeded_c02.rs tests
tools/confirm_seed.sh C04-s1 seeded_c04.rs tests
tools/confirm_seed.sh C18-s1 seeded_c18.rs tests
