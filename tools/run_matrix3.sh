#!/bin/bash
cd /verif
tools/detect_matrix.sh /tmp/dm5.tsv C12-s3:C12 C06-s5:C06 C19-s4:C19 C10-s2:C10 C05-s3:C10 regress_F29:C13 regress_F33:C13,C03 regress_F34:C03 regress_F37:C03 regress_F39:C03 regress_F7:C03 regress_F8:C13 regress_F10:C16 regress_F15:C15 regress_F16:C20 regress_F13:C14 regress_F18:C11
