#!/bin/bash
cd /verif
tools/detect_matrix.sh /tmp/dm20.tsv C06-s16:C06 C07-s16:C07 regress_F38:C06
