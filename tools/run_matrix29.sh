#!/bin/bash
cd /verif
tools/detect_matrix.sh /tmp/dm32.tsv C04-s21:C04,C12 C18-s21:C18
tools/run_confirm13.sh C04 C18
