#!/bin/bash
cd /verif
while pgrep -f "run_matrix3[6].sh" > /dev/null; do sleep 20; done
tools/detect_matrix.sh /tmp/dm40.tsv C12-s24:C12,C06 C14-s24:C14 regress_F53:C06
tools/run_confirm16.sh C12 C14
