#!/bin/bash
# End-of-session routine: regenerate the generated documents, refresh every evidence file on /repo itself,
# validate evidence and manifest against their schemas.  Prints a summary; commits nothing.
cd /verif
python3 tools/mkseedmeta.py && python3 tools/mkdesign_matrix.py && python3 tools/mkdesign_findings.py && python3 tools/mkmanifest.py >/dev/null && python3 tools/mkdesign_summary.py
tools/run_all_quick.sh | tee /tmp/finalize_quick.txt
python3-vt - <<'PY'
import json, jsonschema, glob
s = json.load(open('/root/.vp/EVIDENCE.schema.json'))
bad = 0
for f in sorted(glob.glob('/verif/evidence/*.json')):
    try:
        jsonschema.validate(json.load(open(f)), s)
    except Exception as e:
        bad += 1
        print('EVIDENCE INVALID', f, str(e)[:200])
print('evidence files', len(glob.glob('/verif/evidence/*.json')), 'invalid', bad)
jsonschema.validate(json.load(open('/verif/MANIFEST.json')), json.load(open('/root/.vp/MANIFEST.schema.json')))
print('manifest valid')
PY
