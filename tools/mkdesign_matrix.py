#!/usr/bin/env python3
"""Rewrites section 12.6 of DESIGN.md (between the two markers) from /tmp/dm*.tsv, /tmp/confirm.tsv
and seeded/*/meta.json.  Run tools/mkseedmeta.py first."""
import glob
import json
import os
import re

ROOT = os.path.dirname(os.path.dirname(os.path.abspath(__file__)))
BEGIN, END = "<!-- MATRIX-BEGIN -->", "<!-- MATRIX-END -->"


def rows(pattern):
    out = []
    def natural(f):
        m = re.search(r'dm(\d+)', f)
        return (1, 0, f) if 'manual' in f else (0, int(m.group(1)) if m else 0, f)
    for f in sorted(glob.glob(pattern), key=natural):
        for line in open(f):
            out.append(line.rstrip("\n").split("\t"))
    return out


# the newest result per (patch, check) wins
det = {}
for r in rows(os.path.join(ROOT, "seeded", "_results", "dm*.tsv")):
    det[(r[0], r[1])] = (r[2], r[3])

lines = [BEGIN, "",
         "Every row is one run of `tools/with_patch.sh seeded/<dir>/patch.diff ./check <id> --tier quick` (scratch worktree of",
         "/repo with the patch applied, harness rebuilt against it). `exit=1` = detected (VIOLATION lines), `exit=0` = missed.", "",
         "**Independent mutations** (sub-agents given only the property text and their own worktree; each confirmed by me with",
         "`tools/confirm_seed.sh`: the demo passes on the unchanged tree and fails with the patch, the pinned suite passes 1547/1547 with the patch):", "",
         "| seeded/ | property | mutation | needs | detection (quick tier) |", "|---|---|---|---|---|"]
for d in sorted(os.listdir(os.path.join(ROOT, "seeded"))):
    mp = os.path.join(ROOT, "seeded", d, "meta.json")
    if d.startswith("regress_") or d.startswith("own_") or not os.path.exists(mp):
        continue
    m = json.load(open(mp))
    ds = "; ".join(f"{c} {det[(dd, c)][0]}" for (dd, c) in sorted(det) if dd == d) or "not run yet"
    lines.append(f"| {d} | {m['property']} | {m['mutation']} | {m['needs_to_manifest']} | {ds} |")
lines += ["", "**Reverse patches of the fix commits** (the repaired defect comes back):", "", "| seeded/ | detection (quick tier) |", "|---|---|"]
for d in sorted(os.listdir(os.path.join(ROOT, "seeded"))):
    if d.startswith("regress_") or d.startswith("own_"):
        ds = "; ".join(f"{c} {det[(dd, c)][0]} ({det[(dd, c)][1]})" for (dd, c) in sorted(det) if dd == d) or "verified by the engine's author with a private scratch worktree (see 12.5)"
        lines.append(f"| {d} | {ds} |")
lines += ["", END]
p = os.path.join(ROOT, "DESIGN.md")
s = open(p).read()
block = "\n".join(lines)
if BEGIN in s:
    s = re.sub(re.escape(BEGIN) + r".*?" + re.escape(END), lambda m: block, s, flags=re.S)
else:
    marker = "## Appendix A — event schema (examples)"
    s = s.replace(marker, "### 12.6 Which checks catch which seeded changes\n\n" + block + "\n\n" + marker)
open(p, "w").write(s)
print("DESIGN.md matrix updated:", len(lines), "lines")
