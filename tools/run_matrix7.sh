#!/bin/bash
cd /verif
tools/detect_matrix.sh /tmp/dm10.tsv own_delq_cursor_pos:C02 own_delq_no_second_look:C02 own_delq_flush_keeps_last:C02 regress_F42:C06
