#!/bin/bash
cd /verif
while pgrep -f "run_matrix3[4].sh" > /dev/null; do sleep 20; done
tools/detect_matrix.sh /tmp/dm38.tsv C02-s23:C02,C04 C04-s23:C04,C09
tools/run_confirm15.sh C02 C04
