#!/bin/bash
cd /verif
tools/detect_matrix.sh /tmp/dm4.tsv C03-s5:C03 C06-s5:C06 C13-s5:C13 C17-s6:C17 C20-s6:C20 C09-s6:C09 C07-s7:C07 C08-s7:C08,C03
