#!/bin/bash
cd /verif
tools/detect_matrix.sh /tmp/dm25.tsv C03-s18:C03 C14-s18:C14 C12-s18:C12,C13 C15-s18:C15 C16-s18:C16 C13-s18:C13,C12 regress_C19a:C19
