#!/bin/bash
cd /verif
while pgrep -f "run_matrix3[8].sh" > /dev/null; do sleep 20; done
tools/detect_matrix.sh /tmp/dm42.tsv C05-s24:C05,C11 C18-s24:C18,C10
tools/run_confirm16.sh C05 C18
