#!/bin/bash
# usage: tools/with_patch.sh <patch.diff|none> <command...>
# Runs <command> (from /verif) against a scratch worktree of /repo's HEAD with the patch applied:
# the harness is copied to /tmp/h_main (own target dir, incremental) with its path dependencies
# redirected to the worktree; /repo itself is never touched.  VERIF_HARNESS points the checks there.
set -e
P="$1"; shift; case "$P" in none|/*) ;; *) P="$PWD/$P";; esac
WT=${WP_WT:-/tmp/wt_main}; H=${WP_H:-/tmp/h_main}; OUT=${WP_OUT:-/tmp/wp_out}   # override to run several at once
if [ ! -d $WT ]; then git -C /repo worktree add --detach $WT HEAD >/dev/null 2>&1; fi
git -C $WT reset -q --hard; git -C $WT clean -qfd
git -C $WT checkout -q --detach "$(git -C /repo rev-parse HEAD)"
if [ "$P" != "none" ]; then git -C $WT apply "$P"; fi
mkdir -p $H
rsync -a --delete --exclude target /verif/harness/ $H/
sed -i "s#/repo#$WT#g" $H/Cargo.toml
cd /verif
mkdir -p $OUT/evidence $OUT/replays
VERIF_EVIDENCE_DIR=$OUT/evidence VERIF_REPLAY_DIR=$OUT/replays VERIF_HARNESS=$H "$@"
