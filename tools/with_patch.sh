#!/bin/bash
# usage: tools/with_patch.sh <patch.diff|none> <command...>
# Runs <command> (from /verif) against a scratch worktree of /repo's HEAD with the patch applied:
# the harness is copied to /tmp/h_main (own target dir, incremental) with its path dependencies
# redirected to the worktree; /repo itself is never touched.  VERIF_HARNESS points the checks there.
set -e
P="$1"; shift; case "$P" in none|/*) ;; *) P="$PWD/$P";; esac
WT=/tmp/wt_main; H=/tmp/h_main
if [ ! -d $WT ]; then git -C /repo worktree add --detach $WT HEAD >/dev/null 2>&1; fi
git -C $WT checkout -q --detach "$(git -C /repo rev-parse HEAD)"
git -C $WT reset -q --hard; git -C $WT clean -qfd
if [ "$P" != "none" ]; then git -C $WT apply "$P"; fi
mkdir -p $H
rsync -a --delete --exclude target /verif/harness/ $H/
sed -i "s#/repo#$WT#g" $H/Cargo.toml
cd /verif
mkdir -p /tmp/wp_out/evidence /tmp/wp_out/replays
VERIF_EVIDENCE_DIR=/tmp/wp_out/evidence VERIF_REPLAY_DIR=/tmp/wp_out/replays VERIF_HARNESS=$H "$@"
