#!/usr/bin/env python3
"""Rewrites section 12.7 of DESIGN.md (between <!-- SUMMARY-BEGIN/END -->): per property, the technique string of
MANIFEST.json and the seeded changes the quick tier catches (from seeded/*/meta.json)."""
import json
import os
import re

ROOT = os.path.dirname(os.path.dirname(os.path.abspath(__file__)))
man = json.load(open(os.path.join(ROOT, "MANIFEST.json")))
caught, missed = {}, {}
for d in sorted(os.listdir(os.path.join(ROOT, "seeded"))):
    mp = os.path.join(ROOT, "seeded", d, "meta.json")
    if not os.path.exists(mp):
        continue
    m = json.load(open(mp))
    best = {}
    for r in m.get("detection", []):
        best[r["check"]] = r["result"]          # later rows win (files are read in run order)
    for c, res in best.items():
        (caught if res == "exit=1" else missed).setdefault(c, []).append(d)
B, E = "<!-- SUMMARY-BEGIN -->", "<!-- SUMMARY-END -->"
L = [B, "", "| property | level | technique | seeded changes its quick tier reports (exit 1) |", "|---|---|---|---|"]
for c in man["checks"]:
    p = c["property_id"]
    L.append(f"| {p} | {c.get('level_claimed', '')} | {c.get('technique', '')} | {', '.join(caught.get(p, [])) or '-'} |")
L += ["", "Runs in which a check did not report a seeded change (cross-runs against a change aimed at another property; C01-s13 is the seed the F43 repair made equivalent; C02-s12 is caught by C02): "
      + "; ".join(f"{c}: {', '.join(v)}" for c, v in sorted(missed.items())) + ".", "", E]
p = os.path.join(ROOT, "DESIGN.md")
s = open(p).read()
block = "\n".join(L)
if B in s:
    s = re.sub(re.escape(B) + r".*?" + re.escape(E), lambda m: block, s, flags=re.S)
else:
    marker = "## Appendix A — event schema (examples)"
    s = s.replace(marker, "### 12.7 Per property: technique and seeded changes caught (generated)\n\n" + block + "\n\n" + marker)
open(p, "w").write(s)
print("12.7 written")
