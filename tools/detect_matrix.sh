#!/bin/bash
# usage: tools/detect_matrix.sh <out.tsv> <patchdir:prop[,prop]> ...
# runs ./check <prop> --tier quick against a scratch worktree with seeded/<patchdir>/patch.diff applied
out=$1; shift
cd /verif
for item in "$@"; do
  d=${item%%:*}; props=${item##*:}
  for p in ${props//,/ }; do
    t0=$(date +%s)
    VERIF_SEED=${VERIF_SEED:-3} timeout 2400 tools/with_patch.sh seeded/$d/patch.diff ./check $p --tier quick --seed ${VERIF_SEED:-3} > /tmp/dm_${d}_$p.log 2>&1
    rc=$?
    nv=$(grep -c "^VIOLATION" /tmp/dm_${d}_$p.log)
    echo -e "$d\t$p\texit=$rc\tviolations=$nv\t$(( $(date +%s) - t0 ))s" >> $out
  done
done
