#!/bin/bash
cd /verif
for id in C02 C17 C12 C15 C16 C19 C18 C20; do tools/confirm_seed.sh $id-s12 seeded_$id.rs tests; done
