#!/bin/bash
cd /verif
tools/detect_matrix.sh /tmp/dm24.tsv C19-s18:C19 C20-s18:C20
