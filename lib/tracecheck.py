"""Validation of a concatenated multi-run trace with isolation of rejected runs."""
import json
import re

import vlib


def violated_line(r):
    """trace line (1-based index into the validated file) at which TLC stopped"""
    if r.violated:
        # a validated trace is one linear behaviour: the violating state is the last one generated
        # (the printed error trace is NOT a reliable source: TLC cuts very long ones)
        m = re.findall(r"/\\ l = (\d+)", r.out)
        line = max(int(m[-1]) - 1 if m else 1, r.generated - 1)
        return max(line, 1), f"invariant {', '.join(r.violated)} violated after trace line {max(line,1)}"
    if r.rejected:
        if getattr(r, "invfail", None):
            names = sorted({n for n, _ in r.invfail})
            return int(r.rejected[0][0]), f"invariant {', '.join(names)} violated after trace line {r.rejected[0][0]}: {r.rejected[0][1][:600]}"
        return int(r.rejected[0][0]), f"first unexplained event: {r.rejected[0][1][:1200]}"
    return 1, "rejected"


def validate_runs(ctx, runs, label, module, cfg, owns=None, key=None, nontrivial=None, timeout=600, heap="4g", max_rounds=10, raw=None):
    """runs: list of lists of (already compacted / stripped) events, each starting with a reset.
    owns(why, event, tlc_result) -> bool: does this property own the violation (else it is skipped
    silently: another check reports it).  raw: optional list parallel to `runs` with the unfiltered
    events of each run (storage operations, hook events): stored next to a rejected run, for diagnosis.
    Returns number of accepted runs."""
    accepted, rounds, pending, consumed = 0, 0, list(runs), 0
    while pending and rounds < max_rounds:
        rounds += 1
        flat = [e for r in pending for e in r]
        path = ctx.path(f"{label}.{rounds}.ndjson")
        vlib.write_ndjson(path, flat)
        ok, r = vlib.validate_trace(ctx, module, cfg, path, name=f"{label}.{rounds}", timeout=timeout, heap=heap)
        if ok:
            accepted += len(pending)
            for run in pending:
                ctx.distinct(key(run) if key else json.dumps(run)[:2000], nontrivial(run) if nontrivial else True)
            return accepted
        line, why = violated_line(r)
        pos, bad = 0, len(pending) - 1
        for i, run in enumerate(pending):
            if pos < line <= pos + len(run):
                bad = i
                break
            pos += len(run)
        badrun = pending[bad]
        evt = badrun[min(max(line - pos - 1, 0), len(badrun) - 1)]
        if owns is None or owns(why, evt, r):
            rp = ctx.path(f"{label}.rejected.{rounds}.ndjson")
            vlib.write_ndjson(rp, badrun)
            outp = ctx.path(f"{label}.rejected.{rounds}.tlc.out")
            open(outp, "w").write(r.out[-200000:])
            files = [rp, outp]
            if raw is not None and consumed + bad < len(raw):
                rawp = ctx.path(f"{label}.rejected.{rounds}.raw_events.ndjson")
                vlib.write_ndjson(rawp, raw[consumed + bad])
                files.append(rawp)
            ctx.violation(f"{module}: {why}", files, json.dumps(badrun[max(0, line - pos - 8):line - pos])[:4000])
        accepted += bad
        for run in pending[:bad]:
            ctx.distinct(key(run) if key else json.dumps(run)[:2000], nontrivial(run) if nontrivial else True)
        pending = pending[bad + 1:]
        consumed += bad + 1
    return accepted
