"""Compaction of a recorded run (storage operations + hooks + API events) into the event
vocabulary of spec/StorageTrace.tla."""
import re

SEG = re.compile(r"^s(\d+)\.(.*)$")
DEL = re.compile(r"^(\d+)\.del$")


def segfields(p):
    m = SEG.match(p)
    if not m:
        return {}
    sid, rest = int(m.group(1)), m.group(2)
    d = DEL.match(rest)
    if d:
        return {"sid": sid, "ext": "del", "delop": int(d.group(1))}
    return {"sid": sid, "ext": rest, "delop": -1}


def is_lock(p):
    return p.endswith(".lock")


def segs_of(lst):
    out = []
    for s in lst:
        d = s.get("delete_opstamp", s.get("delop"))
        out.append({"sid": s.get("seg", s.get("sid")), "delop": -1 if d is None else d})
    return out


def compact(events):
    out = []
    for e in events:
        ev = e.get("ev")
        if ev == "synthetic":
            out.append({k: v for k, v in e.items() if k != "ev"})
        elif ev == "st":
            op, p = e["op"], e["path"]
            if is_lock(p):
                continue
            if op == "fault":
                out.append({"e": "fault"})
            elif op == "open_write" and e.get("ok"):
                out.append(dict({"e": "create", "p": p}, **segfields(p)))
            elif op == "terminate":
                out.append({"e": "term", "p": p})
            elif op == "drop_writer":
                out.append({"e": "dropw", "p": p})
            elif op == "delete" and e.get("ok"):
                out.append({"e": "delete", "p": p})
            elif op == "sync_directory":
                out.append({"e": "sync"})
            elif op == "atomic_write" and p == "meta.json":
                m = e["meta"]
                out.append({"e": "meta", "files": m["files"], "op": m["opstamp"], "segs": segs_of(m["segs"])})
            elif op == "atomic_write" and p == ".managed.json":
                out.append({"e": "man", "files": e["managed"]})
        elif ev == "hook":
            if e["name"] == "registers":
                out.append({"e": "regs", "segs": segs_of(e["uncommitted"]) + segs_of(e["committed"]), "after": e["after"]})
        elif ev == "reset":
            out.append({"e": "reset"})
        elif ev == "call" and e.get("api") == "commit":
            out.append({"e": "call"})
        elif ev == "commit" and e.get("ok"):
            out.append({"e": "commit", "op": e["opstamp"]})
        elif ev in ("rollback", "prepare_abort", "new_writer", "drop_writer", "wait_merges") and e.get("ok"):
            out.append({"e": "fresh", "api": ev})
        elif ev == "gc" and e.get("ok"):
            out.append({"e": "gc", "listing": e["listing"]})
        elif ev == "end":
            out.append({"e": "end", "listing": e["listing"], "managed": e.get("managed", [])})
    return out


def mark_gcrace(run):
    """gate-forced GC race: the victim thread is parked right after a file creation while the user
    thread collects garbage; the segment it is creating is under construction during that GC"""
    tag = run[0].get("tag") or {}
    if not tag.get("gcrace"):
        return run
    gi = next((i for i, e in enumerate(run) if e.get("ev") == "gc"), None)
    if gi is None:
        return run
    victim = "worker" if tag.get("run", 0) % 2 == 0 else "merge"
    ci = next((i for i in range(gi, -1, -1) if run[i].get("ev") == "st" and run[i].get("op") == "open_write" and run[i].get("ok")
               and str(run[i].get("th", "")).startswith(victim) and SEG.match(run[i]["path"])), None)
    if ci is None:
        return run
    sid = int(SEG.match(run[ci]["path"]).group(1))
    out = list(run)
    out.insert(gi + 1, {"ev": "synthetic", "e": "build_end", "sid": sid})
    out.insert(ci + 1, {"ev": "synthetic", "e": "build_start", "sid": sid})
    return out
