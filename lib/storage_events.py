"""Compaction of a recorded run (storage operations + hooks + API events) into the event
vocabulary of spec/StorageTrace.tla."""
import re

SEG = re.compile(r"^s(\d+)\.(.*)$")
DEL = re.compile(r"^(\d+)\.del$")


def segfields(p):
    m = SEG.match(p)
    if not m:
        return {}
    sid, rest = int(m.group(1)), m.group(2)
    d = DEL.match(rest)
    if d:
        return {"sid": sid, "ext": "del", "delop": int(d.group(1))}
    return {"sid": sid, "ext": rest, "delop": -1}


def is_lock(p):
    return p.endswith(".lock")


def segs_of(lst):
    out = []
    for s in lst:
        d = s.get("delete_opstamp", s.get("delop"))
        out.append({"sid": s.get("seg", s.get("sid")), "delop": -1 if d is None else d})
    return out


def compact(events):
    out = []
    for e in events:
        ev = e.get("ev")
        if ev == "st":
            op, p = e["op"], e["path"]
            if is_lock(p):
                continue
            if op == "open_write" and e.get("ok"):
                out.append(dict({"e": "create", "p": p}, **segfields(p)))
            elif op == "terminate":
                out.append({"e": "term", "p": p})
            elif op == "drop_writer":
                out.append({"e": "dropw", "p": p})
            elif op == "delete" and e.get("ok"):
                out.append({"e": "delete", "p": p})
            elif op == "sync_directory":
                out.append({"e": "sync"})
            elif op == "atomic_write" and p == "meta.json":
                m = e["meta"]
                out.append({"e": "meta", "files": m["files"], "op": m["opstamp"], "segs": segs_of(m["segs"])})
            elif op == "atomic_write" and p == ".managed.json":
                out.append({"e": "man", "files": e["managed"]})
        elif ev == "hook":
            if e["name"] == "registers":
                out.append({"e": "regs", "segs": segs_of(e["uncommitted"]) + segs_of(e["committed"]), "after": e["after"]})
        elif ev == "reset":
            out.append({"e": "reset"})
        elif ev == "call" and e.get("api") == "commit":
            out.append({"e": "call"})
        elif ev == "commit" and e.get("ok"):
            out.append({"e": "commit", "op": e["opstamp"]})
        elif ev in ("rollback", "prepare_abort", "new_writer", "drop_writer", "wait_merges") and e.get("ok"):
            out.append({"e": "fresh", "api": ev})
        elif ev == "gc" and e.get("ok"):
            out.append({"e": "gc", "listing": e["listing"]})
        elif ev == "end":
            out.append({"e": "end", "listing": e["listing"], "managed": e.get("managed", [])})
    return out
