"""C06 - top-K collection returns exactly the best K, with deterministic ties.
M: spec/TopN.tla - the TopNComputer machine (buffer 2K, truncate, strict threshold): `Retains` for K in 0..3,
   keys 1..3, 8 pushes, both comparators; negative configurations (descending pushes; threshold from rank K-2).
   (incl. dedicated block-WAND runs: conjunctions / unions of 4..6 term queries and mixed trees, K from 1 to beyond the matches)
R: TLC (Gen_TopN) enumerates every push sequence; harness/topk_driver pushes them through the public
   tantivy::collector::TopNComputer; TopNTrace compares the threshold after each push and the final vector.
T: per (searcher, query, sort key): exhaustive (address, key) list of a non-pruning collector on the same
   searcher + ordered certificate + TopDocs results for several (K, offset, executor); TopNTrace checks
   result = Page(sorted, K, O) (within 4n ulp for float sums of n > 2 clauses)."""
import json
import os
import re
from concurrent.futures import ThreadPoolExecutor

import itertools
import threading

import vlib
from vlib import log

LEVEL = "model_checking"
_lock = threading.Lock()
_counter = itertools.count()

# repaired in /repo by "fix: TopDocs scores a disjunction-max over term queries with its own combiner"; the text is kept so that a
# regression is reported under the same words
KF_DISMAX = ("TopDocs::order_by_score on a top-level DisjunctionMaxQuery of term queries ranks and scores by the SUM of the "
             "disjuncts (block-WAND ignores the DisjunctionMaxCombiner); a scoring collector gives max + tie_breaker * rest")


# F38 and F42 are repaired in /repo; the texts are kept so that a regression is reported in the same words
KF_NOFIELDNORM = ("TopDocs by score on a field indexed WithFreqs without fieldnorms misses documents with strictly better scores: a "
                  "block-max bound is not an upper bound for the constant norm (block-WAND parameters (0,0) of full blocks - repaired as "
                  "F38 - or Bm25Weight::max_score for the unloaded last block of a posting list)")


KF_MERGETIES = ("TopDocs over several segments breaks a tie on the sort key by the larger DocAddress: merge_top_k pushes the segment hits "
                "(TopNComputer::into_vec, arbitrary order after a truncation) into a TopNComputer whose threshold drops every later hit that "
                "ties with it, so when rank K falls inside a group of equal keys of one segment an equal-key hit with a smaller address is "
                "lost (and never returned by paging)")


KF_MAXSCORE = ("TopDocs by score over a union / intersection of term queries misses a better document whose real term score exceeds "
               "Bm25Weight::max_score(): the bound assumes term frequency <= field length, but the one-byte field norm decodes to a "
               "smaller length than the real one (a long document made of one repeated word), so block-WAND's per-term upper bound is "
               "too low and the pivot selection prunes the document")


KF_BASICFIELD = ("TopDocs by score for a single term on a field indexed without frequencies (IndexRecordOption::Basic) but with fieldnorms "
                 "misses better (shorter) documents of later blocks: the skip reader reports block-WAND data (fieldnorm 0, tf 0), the block "
                 "max score is 0 and block_wand_single_scorer skips every full block once the threshold is positive")


def only_tie_order_differs(diag):
    """the returned page has exactly the keys of the expected page, only other documents of the boundary key"""
    top, exp = diag.get("top"), diag.get("expected")
    if not diag.get("exact") or not isinstance(top, list) or not isinstance(exp, list) or len(top) != len(exp) or top == exp:
        return False
    keys = lambda xs: sorted(json.dumps(x[2]) for x in xs)
    if keys(top) != keys(exp):
        return False
    diff = [json.dumps(t[2]) for t, e in zip(top, exp) if t != e]
    return len(set(diff)) == 1 and len({t[0] for t in top}) >= 1


def uses_field(q, f):
    if isinstance(q, dict):
        return q.get("f") == f or any(uses_field(v, f) for v in q.values())
    if isinstance(q, list):
        return any(uses_field(v, f) for v in q)
    return False


def is_toplevel_term_dismax(q):
    if q.get("k") == "dismax":
        qs = q.get("qs", [])
        return len(qs) >= 2 and all(x.get("k") == "term" and x.get("opt") != "basic" for x in qs)
    if q.get("k") == "boost":
        return is_toplevel_term_dismax(q["q"])
    return False


def classify(diag, ev):
    if not isinstance(diag, dict):
        return "C06: trace rejected: " + str(diag)[:200]
    why = diag.get("why", "")
    if diag.get("ev") in ("error", "panic"):
        return f"C06: {why} with a top-K collector: " + re.sub(r"\d+", "N", str(diag.get("err", "")))[:200]
    if ev.get("ev") == "topn":
        return "C06 TopNComputer: the threshold after a push or the final sorted vector differs from the TopN machine"
    if "certificate" in why:
        return "C06: " + why
    q = diag.get("q", {})
    key = diag.get("key", {})
    if q.get("k") == "term" and q.get("f") == "bt" and key.get("kind") in ("score", "tweak_mul", "pair"):
        return "C06 top-K: " + KF_BASICFIELD
    if ev.get("maxscore_exceeded") and key.get("kind") in ("score", "tweak_mul", "pair"):
        return "C06 top-K: " + KF_MAXSCORE + " [" + ", ".join(ev["maxscore_exceeded"]) + "]"
    if uses_field(q, "nf") and key.get("kind") in ("score", "tweak_mul", "pair"):
        return "C06 top-K: " + KF_NOFIELDNORM
    if only_tie_order_differs(diag):
        return "C06 top-K: " + KF_MERGETIES
    if is_toplevel_term_dismax(q) and key.get("kind") in ("score", "tweak_mul", "pair"):
        return "C06 top-K: " + KF_DISMAX
    return (f"C06 top-K: TopDocs(limit, offset) ordered by {key.get('kind')} ({'/'.join(diag.get('cmp', []))}) is not entries "
            f"O+1..O+K of the complete order (key desc/asc, then address)")


def obs_key(e, o):
    return json.dumps([e["q"], e["key"], o["k"], o["off"], o["mt"]], sort_keys=True)


def count_good(ctx, good):
    n = 0
    for e in good:
        if e.get("ev") == "topk":
            for o in e["obs"]:
                n += 1
                ctx.distinct(obs_key(e, o), len(e["all"]) > o["k"] and o["k"] >= 1)
            kk = e["key"]["kind"] + ":" + "/".join(e["cmp"])
            ctx.cov["sort_keys"][kk] = ctx.cov["sort_keys"].get(kk, 0) + len(e["obs"])
            ctx.cov["observations_multithreaded"] += sum(1 for o in e["obs"] if o["mt"])
            ctx.cov["observations_tolerant"] += sum(1 for o in e["obs"] if "pos" in o)
        elif e.get("ev") == "topn":
            for c in e["cases"]:
                n += 1
                ctx.distinct(json.dumps([c["k"], c["ord"], [p[0] for p in c["pushes"]]]), c["k"] >= 1 and len(c["pushes"]) > 2 * c["k"])
    return n


def prepass(ctx, events, label):
    """nothing is filtered: an "error" / "panic" event (a search that failed) goes to the judge, which has no action for it"""
    return [vlib.strip_nulls(e) for e in events]


def judge(ctx, path, name):
    """vlib.validate_trace with a metadir tag that is unique per thread (the judges run concurrently)"""
    tag = f"TopNTrace-{os.getpid()}-{threading.get_ident()}-{next(_counter)}"
    r = vlib.run_tlc("TopNTrace", "TopNTrace.cfg", workers=1, timeout=600, trace=path, deque=True, heap="6g", tag=tag)
    with _lock:
        ctx.add_tlc(name, r, kind="trace")
    if r.ok:
        return True, r
    if r.tool_error and not r.rejected and not r.violated:
        log(r.out[-4000:])
        raise vlib.ToolError(f"TLC failed while validating {path} with TopNTrace")
    return False, r


def validate(ctx, events, label, expect=None):
    pending = prepass(ctx, events, label)
    accepted = 0
    rounds = 0
    while pending and rounds < 10:
        rounds += 1
        path = ctx.path(f"{label}.{rounds}.ndjson")
        vlib.write_ndjson(path, pending)
        ok, r = judge(ctx, path, f"{label}.{rounds}")
        if ok:
            with _lock:
                accepted += count_good(ctx, pending)
            break
        if not r.rejected:
            log(r.out[-3000:])
            raise vlib.ToolError(f"TopNTrace failed on {path}")
        line = int(r.rejected[0][0])
        m = re.match(r'"(.*)"\s*$', r.rejected[0][1].strip())
        try:
            diag = json.loads(m.group(1).encode().decode("unicode_escape"))
        except Exception:
            diag = {"why": r.rejected[0][1][:500]}
        bad = pending[line - 1]
        what = classify(diag, bad)
        if "tool problem" in what:
            raise vlib.ToolError(what)
        rp = ctx.path(f"{label}.rejected.{rounds}.ndjson")
        vlib.write_ndjson(rp, [{"ev": "reset"}, bad])
        d = dict(diag)
        for k in ("top", "expected"):
            if k in d:
                d[k] = d[k][:12]
        if expect is None or what not in expect:
            with _lock:
                ctx.violation(what, [rp], json.dumps(d, indent=0)[:3500])
        if expect is not None:
            expect.append(what)
        with _lock:
            accepted += count_good(ctx, pending[:line - 1])
        pending = pending[line:]
    with _lock:
        ctx.cov["traces_validated_against_impl"] += accepted
    return accepted


def model_checking(ctx):
    vlib.mc_check(ctx, "MC_TopN", "MC_TopN_neg_order.cfg", expect_violation="Retains", timeout=300, workers=4)
    vlib.mc_check(ctx, "MC_TopN", "MC_TopN_neg_rank.cfg", expect_violation="Retains", timeout=300, workers=4)
    r = vlib.mc_check(ctx, "MC_TopN", "MC_TopN.cfg", coverage=True, timeout=600, workers=6)
    if "Push" in r.coverage_zero_actions():
        raise vlib.ToolError("MC_TopN: Push never taken")
    if not ctx.quick:
        vlib.mc_check(ctx, "MC_TopN", "MC_TopN_nonstrict.cfg", timeout=600, workers=6)


def gen_sequences(ctx, maxpush, keys="{1, 2, 3}", maxk=3):
    cfg = open(os.path.join(vlib.SPEC, "Gen_TopN.cfg")).read()
    cfg = re.sub(r"MaxPush = \d+", f"MaxPush = {maxpush}", cfg)
    cfg = re.sub(r"Keys = \{[^}]*\}", f"Keys = {keys}", cfg)
    cfg = re.sub(r"MaxK = \d+", f"MaxK = {maxk}", cfg)
    name = f"Gen_TopN_{os.getpid()}_{maxpush}.cfg"
    open(os.path.join(vlib.SPEC, name), "w").write(cfg)
    try:
        r = vlib.run_tlc("Gen_TopN", name, workers=4, timeout=300)
    finally:
        os.remove(os.path.join(vlib.SPEC, name))
    ctx.add_tlc(f"Gen_TopN(MaxPush={maxpush},Keys={keys})", r, kind="generator")
    if r.tool_error or r.violated:
        log(r.out[-3000:])
        raise vlib.ToolError("Gen_TopN failed")
    cases = [json.loads(m.group(1).encode().decode("unicode_escape")) for m in re.finditer(r'<<"CASE", "(.*)">>', r.out)]
    if not cases:
        raise vlib.ToolError("Gen_TopN printed no sequence")
    return cases


def replay_generated(ctx):
    """all push sequences through the real TopNComputer; judged in parallel chunks"""
    cases = gen_sequences(ctx, 7)
    if not ctx.quick:
        cases += gen_sequences(ctx, 5, "{1, 2, 3, 4, 5}", 2)
    ctx.cov["push_sequences_enumerated_by_tlc"] = len(cases)
    cp = ctx.path("topn_cases.ndjson")
    vlib.write_ndjson(cp, cases)
    tp = ctx.path("topn_trace.ndjson")
    vlib.run_bin("topk_driver", ["topn", "--in", cp, "--out", tp], timeout=300)
    ev = [e for e in vlib.read_ndjson(tp) if e.get("ev") == "topn"]
    nchunks = 4
    chunks = [ev[i::nchunks] for i in range(nchunks)]
    with ThreadPoolExecutor(max_workers=nchunks) as ex:
        res = list(ex.map(lambda ic: validate(ctx, ic[1], f"topn{ic[0]}"), enumerate(chunks)))
    ctx.sample({"kind": "TLC-enumerated push sequence run through the real TopNComputer (key, threshold present, threshold)",
                "case": ev[len(ev) // 2]["cases"][7]})
    log(f"[R] {len(cases)} push sequences enumerated by TLC, {sum(res)} accepted")
    return ev


def searches(ctx, runs):
    """runs: list of (seed, docs, queries, extra args); driver runs and judging in parallel"""
    def one(i_run):
        i, (seed, docs, queries, extra) = i_run
        tp = ctx.path(f"search{i}_trace.ndjson")
        vlib.run_bin("topk_driver", ["search", "--seed", seed, "--docs", docs, "--queries", queries, "--out", tp] + extra, timeout=900, mem_gb=12)
        ev = vlib.read_ndjson(tp)
        n = validate(ctx, ev, f"search{i}")
        info = next((e for e in ev if e.get("ev") == "reset"), {})
        log(f"[T] search seed {seed}: {docs} documents in {info.get('segments')} segments, {queries} queries, {n} observations accepted")
        return ev
    with ThreadPoolExecutor(max_workers=6) as ex:
        return list(ex.map(one, enumerate(runs)))


def known_finding_runs(ctx):
    """regression case of the repaired defect (top-level dis-max scored as a sum): must be accepted now"""
    t = lambda x: {"k": "term", "f": "title", "t": x, "opt": "freq"}
    cases = [{"q": {"k": "dismax", "qs": [t("t0"), t("t1")], "tie": 0.0}, "key": {"kind": "score", "cmp": ["natural"]}, "plan": [[5, 0], [10, 3]]},
             {"q": {"k": "dismax", "qs": [t("t0"), t("t1"), t("t2")], "tie": 0.3}, "key": {"kind": "score", "cmp": ["natural"]}, "plan": [[5, 0], [100, 0], [7, 7]]},
             {"q": {"k": "boost", "b": 2.0, "q": {"k": "dismax", "qs": [t("all"), t("t3")], "tie": 0.0}}, "key": {"kind": "tweak_mul", "cmp": ["natural"]}, "plan": [[10, 0]]}]
    cp = ctx.path("kf_cases.ndjson")
    vlib.write_ndjson(cp, cases)
    tp = ctx.path("kf_trace.ndjson")
    vlib.run_bin("topk_driver", ["search", "--seed", 1, "--docs", 2500, "--fixed", cp, "--no-avoid", "--out", tp], timeout=300)
    seen = []
    validate(ctx, vlib.read_ndjson(tp), "kf", expect=seen)
    ctx.cov["repaired_findings_regressed"] = {"dismax_sum": any(KF_DISMAX in s for s in seen)}
    # regression case of the repaired F38: no fieldnorms + frequencies (field `nf` = the title tokens; the default generators use it too)
    n = lambda x: {"k": "term", "f": "nf", "t": x, "opt": "freq"}
    bq = lambda cl: {"k": "bool", "cl": cl, "msm": 1 if all(c["o"] == "should" for c in cl) else 0, "explicit": False}
    key = {"kind": "score", "cmp": ["natural"]}
    cases = [{"q": n("t0"), "key": key, "plan": [[1, 0], [5, 0], [10, 3]]},
             {"q": bq([{"o": "should", "q": n("t0")}, {"o": "should", "q": n("t1")}]), "key": key, "plan": [[1, 0], [5, 0]]},
             {"q": bq([{"o": "must", "q": n("t0")}, {"o": "must", "q": n("all")}]), "key": key, "plan": [[1, 0], [5, 0]]}]
    cp = ctx.path("kf_nf_cases.ndjson")
    vlib.write_ndjson(cp, cases)
    tp = ctx.path("kf_nf_trace.ndjson")
    vlib.run_bin("topk_driver", ["search", "--seed", 1, "--docs", 3000, "--segments", 1, "--fixed", cp, "--out", tp], timeout=300)
    seen2 = []
    validate(ctx, vlib.read_ndjson(tp), "regr_nf", expect=seen2)
    ctx.cov["repaired_findings_regressed"]["F38 no_fieldnorms_block_max_zero"] = any(KF_NOFIELDNORM in s for s in seen2)
    # regression case of the repaired F42: tie order lost in the merge of segment hits (800 documents in 5 segments, 195 matches of which most have no
    # `dt` value, ascending order with missing values first: rank 56 falls inside the group of equal keys of segment 2)
    # (found by a hunt with the fix reverted; it depends on the generated corpus: after a change of qlib::gen_corpus check with
    #  seeded/regress_F42 that it still fails there, else hunt again - 800 documents in 5 segments, a few hundred searches)
    t0 = lambda f: {"o": "should", "q": {"k": "term", "f": f, "t": "t0", "opt": "freq"}}
    case = {"q": {"k": "bool", "cl": [t0("nf"), t0("title")], "msm": 1, "explicit": False},
            "key": {"kind": "string", "f": "cat", "cmp": ["reverse_none_lower"], "via_order": True}, "plan": [[7, 14], [21, 0], [7, 7], [7, 21]]}
    cp = ctx.path("kf_ties_cases.ndjson")
    vlib.write_ndjson(cp, [case])
    tp = ctx.path("kf_ties_trace.ndjson")
    vlib.run_bin("topk_driver", ["search", "--seed", 122, "--docs", 800, "--segments", 5, "--fixed", cp, "--out", tp], timeout=300)
    seen3 = []
    validate(ctx, vlib.read_ndjson(tp), "regr_ties", expect=seen3)
    ctx.cov["repaired_findings_regressed"]["F42 merge_tie_order"] = any(KF_MERGETIES in s for s in seen3)


def f47_reproduction(ctx):
    """recorded finding F47 (Bm25Weight::max_score is not an upper bound when a long document is one repeated word): the default
    corpora keep term frequencies near half of the field length; this run builds the one-word variant (VERIF_HEAVY_SINGLE)"""
    t = {"k": "term", "f": "body", "t": "b0", "opt": "freq"}
    t1 = {"k": "term", "f": "body", "t": "b1", "opt": "freq"}
    key = {"kind": "score", "cmp": ["natural"]}
    cases = [{"q": {"k": "bool", "cl": [{"o": "should", "q": t}, {"o": "should", "q": t}], "msm": 1, "explicit": False}, "key": key, "plan": [[1, 0], [3, 0], [10, 0]]},
             {"q": {"k": "bool", "cl": [{"o": "should", "q": t}, {"o": "should", "q": t1}], "msm": 1, "explicit": False}, "key": key, "plan": [[1, 0], [3, 0], [10, 0]]}]
    cp = ctx.path("kf_f47_cases.ndjson")
    vlib.write_ndjson(cp, cases)
    seen = []
    before = ctx.cov["traces_validated_against_impl"]
    for segs in (1, 5):
        tp = ctx.path(f"kf_f47_trace_{segs}.ndjson")
        vlib.run_bin("topk_driver", ["search", "--seed", 15, "--docs", 3000, "--segments", segs, "--fixed", cp, "--out", tp], timeout=300,
                     env={"VERIF_HEAVY_SINGLE": "1"})
        validate(ctx, vlib.read_ndjson(tp), f"kf_f47_{segs}", expect=seen)
    ctx.cov["traces_validated_against_impl"] = before
    ctx.cov.setdefault("recorded_findings_reproduced", {})["F47 bm25_max_score_exceeded"] = any(KF_MAXSCORE in s for s in seen)


def f53_reproduction(ctx):
    """recorded finding F53: a single term on the Basic-indexed field with fieldnorms (`bt`), 1 and 4 segments; the unions and
    intersections on the same field run as well (they are accepted: no block-WAND path without frequencies)"""
    t = lambda x, opt: {"k": "term", "f": "bt", "t": x, "opt": opt}
    bq = lambda cl: {"k": "bool", "cl": cl, "msm": 1 if all(c["o"] == "should" for c in cl) else 0, "explicit": False}
    key = {"kind": "score", "cmp": ["natural"]}
    plan = [[1, 0], [3, 0], [10, 0], [5, 5]]
    cases = [{"q": t("t0", "basic"), "key": key, "plan": plan}, {"q": t("t1", "freq"), "key": key, "plan": plan},
             {"q": bq([{"o": "should", "q": t("t0", "basic")}, {"o": "should", "q": t("t1", "basic")}]), "key": key, "plan": plan},
             {"q": bq([{"o": "must", "q": t("t0", "basic")}, {"o": "must", "q": t("all", "basic")}]), "key": key, "plan": plan}]
    cp = ctx.path("kf_f53_cases.ndjson")
    vlib.write_ndjson(cp, cases)
    seen = []
    before = ctx.cov["traces_validated_against_impl"]
    for segs in (1, 4):
        tp = ctx.path(f"kf_f53_trace_{segs}.ndjson")
        vlib.run_bin("topk_driver", ["search", "--seed", 3, "--docs", 3000, "--segments", segs, "--fixed", cp, "--out", tp], timeout=300)
        validate(ctx, vlib.read_ndjson(tp), f"kf_f53_{segs}", expect=seen)
    ctx.cov["traces_validated_against_impl"] = before
    ctx.cov.setdefault("recorded_findings_reproduced", {})["F53 basic_field_block_max_zero"] = any(KF_BASICFIELD in s for s in seen)


def binding_selftest(ctx, topn_events, search_events):
    results = {}

    def judge(name, events):
        p = ctx.path(f"selftest_{name}.ndjson")
        vlib.write_ndjson(p, [{"ev": "reset"}] + [vlib.strip_nulls(e) for e in events])
        r = vlib.run_tlc("TopNTrace", "TopNTrace.cfg", workers=1, timeout=120, trace=p, deque=True, heap="4g")
        if r.tool_error and not r.rejected:
            raise vlib.ToolError(f"binding self-test {name}: TLC failed")
        results[name] = "rejected" if r.rejected else "ACCEPTED"

    e = json.loads(json.dumps(topn_events[0]))
    e["cases"] = e["cases"][:40]
    c = next(c for c in e["cases"] if any(p[1] == 1 for p in c["pushes"]))
    p = next(p for p in c["pushes"] if p[1] == 1)
    p[2] += 1
    judge("topn_threshold_changed", [e])
    cand = [x for x in search_events if x.get("ev") == "topk" and any(len(o["top"]) >= 3 for o in x["obs"])]
    ex = [x for x in cand if "pos" not in x["obs"][0]]
    if ex:
        for name, mut in (("top_two_entries_swapped", lambda top: top.__setitem__(slice(0, 2), [top[1], top[0]])),
                          ("top_entry_dropped", lambda top: top.pop(1)),
                          ("top_key_changed", lambda top: top[0][2][0].__setitem__(1, top[0][2][0][1] + 1))):
            e = json.loads(json.dumps(ex[0]))
            e["obs"] = [next(o for o in e["obs"] if len(o["top"]) >= 3)]
            mut(e["obs"][0]["top"])
            judge(name, [e])
        e = json.loads(json.dumps(ex[0]))
        e["all"] = e["all"][:-1]   # the exhaustive list loses a document: the certificate no longer matches
        e["obs"] = e["obs"][:1]
        judge("exhaustive_list_truncated", [e])
    ctx.cov["binding_selftest"] = results
    bad = [k for k, v in results.items() if v == "ACCEPTED"]
    if bad or len(results) < 4:
        raise vlib.ToolError(f"binding self-test: corrupted traces accepted or too few mutations applicable: {results}")


def run(ctx):
    ctx.cov["sort_keys"] = {}
    ctx.cov["observations_multithreaded"] = 0
    ctx.cov["observations_tolerant"] = 0
    ctx.cov["rule"] = ("a case is one push sequence through TopNComputer, or one observation (query, sort key, K, offset, executor) of TopDocs "
                       "against the exhaustive list of the same searcher; distinct = distinct tuple; non-trivial = more matches than K "
                       "(resp. more pushes than the buffer holds, K >= 1)")
    ctx.assumptions += ["TLC and the Json community module are trusted",
                        "the exhaustive list comes from a scoring, non-pruning Collector on the same searcher; fast-field keys are the values of the "
                        "logical corpus (joined through the unique id fast field), not re-read from the sort column",
                        "float keys summed over more than two clauses are compared within 4n ulp; all other keys exactly",
                        "the ordered list is a certificate produced by the harness and verified by TLC (permutation + strictly ordered)"]
    model_checking(ctx)
    tev = replay_generated(ctx)
    if ctx.quick:
        runs = [(ctx.seed, 2500, 45, []), (ctx.seed + 1, 2500, 45, ["--segments", "1"]), (ctx.seed + 2, 3000, 45, ["--segments", "6"]),
                (ctx.seed + 3, 1200, 45, []),
                # block-WAND paths: conjunctions / unions of 4..6 term queries (and mixed trees) on the `body` field, several
                # 128-document blocks per term, K from 1 to beyond the number of matches
                (ctx.seed + 4, 4000, 70, ["--wand", "--segments", "2"]), (ctx.seed + 5, 2500, 50, ["--wand", "--segments", "1"])]
    else:
        runs = [(ctx.seed + i, d, 400, x) for i, (d, x) in enumerate([(2500, []), (2500, ["--segments", "1"]), (3000, ["--segments", "6"]), (1200, []),
                                                                         (6000, ["--segments", "2"]), (4000, []), (4000, ["--segments", "3"]), (800, ["--segments", "5"]),
                                                                         (5000, ["--segments", "4", "--threads", "8"]), (2000, []), (3500, []), (3000, ["--segments", "1"]),
                                                                         (4000, ["--wand", "--segments", "2"]), (6000, ["--wand", "--segments", "1"]),
                                                                         (3000, ["--wand", "--segments", "5"]), (5000, ["--wand", "--segments", "3"])])]
    sev = searches(ctx, runs)
    known_finding_runs(ctx)
    f47_reproduction(ctx)
    f53_reproduction(ctx)
    flat = [e for ev in sev for e in ev]
    binding_selftest(ctx, tev, flat)
    s = next((e for e in flat if e.get("ev") == "topk" and len(e["all"]) > 20), None)
    if s:
        o = s["obs"][0]
        ctx.sample({"kind": "TopDocs observation against the exhaustive list", "query": s["q"], "sort_key": s["key"], "matches": len(s["all"]),
                    "K": o["k"], "offset": o["off"], "multithreaded": o["mt"], "result_head": o["top"][:5]})


def replay(ctx, path):
    ctx.cov["sort_keys"] = {}
    ctx.cov["observations_multithreaded"] = 0
    ctx.cov["observations_tolerant"] = 0
    files = [os.path.join(path, f) for f in sorted(os.listdir(path)) if f.endswith(".ndjson")] if os.path.isdir(path) else [path]
    for f in files:
        validate(ctx, vlib.read_ndjson(f), "replay")
