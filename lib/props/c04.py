"""C04 - merging never changes the logical content of the index.
M: IndexCore (merge start / run / end against deletes, commits, rollback; MergeOrderKept,
   MetaContentOnlyChangesInCommit).
T (translation validation): every merge of generated indexes is dumped (sources and result:
   per document id, stored fields, fast values, field-norm ids, token lists with frequencies and
   positions recovered by inverting the postings; per field the term list with doc freqs) and TLC
   checks result = MergeSem(sources) - source order, or sort order for a sorted index.
R: the merge thread is parked by the SimDirectory gate at its first file creation (or before it
   opens its sources) while the user thread commits deletes (end_merge reconciliation), rolls
   back, deletes everything; a merge started on valid sources that nothing cancels must succeed.
T: random histories with merge policies judged by the sequential oracle (content never changes)."""
import json

import tracecheck
import vlib
from vlib import log
from props import c02

LEVEL = "model_checking"
EVS = c02.API_EVS | {"call", "merge_tv", "merge_started", "schedule", "intruder_create"}


def prep(events):
    return [[vlib.strip_nulls(e) for e in r if e.get("ev") in EVS] for r in vlib.split_runs(events)]


def tv_key(run):
    for e in run:
        if e["ev"] == "merge_tv" and e.get("sources"):
            return json.dumps([e.get("sorted"), e.get("blocksize"), [[s["max_doc"], s["ndel"]] for s in e["sources"]],
                               [d["rec"]["id"] for s in e["sources"] for d in s["docs"]]])[:3000]
    return json.dumps(run[0].get("tag"))


def tv_nontrivial(run):
    return any(e["ev"] == "merge_tv" and len(e.get("sources", [])) >= 2 for e in run)


def run(ctx):
    ctx.cov["rule"] = ("a case is one merge validated as a translation (sources -> merged segment) or one gated / random history judged by the "
                       "sequential oracle; distinct = distinct (sort setting, block size, shapes and document ids of the sources); non-trivial = "
                       "at least two source segments")
    ctx.assumptions += ["documents of the generated indexes: u64 id (stored, fast, indexed), a raw-tokenised text field, an i64 fast field, a tokenised body with positions",
                        "for a sorted index the property demands sort order, not a particular tie order"]
    vlib.mc_check(ctx, "MC_Core", "MC_Core_base.cfg", timeout=900)
    vlib.mc_check(ctx, "MC_Core", "MC_Core_neg.cfg", expect_violation="PublishedIsSequential", timeout=300)
    if not ctx.quick:
        vlib.mc_check(ctx, "MC_Core", "MC_Core_nw2.cfg", timeout=1800)

    tp = ctx.path("tv.ndjson")
    vlib.run_bin("merge_driver", ["tv", "--seed", ctx.seed, "--runs", 120 if ctx.quick else 2500, "--out", tp], timeout=1800)
    ev = vlib.read_ndjson(tp)
    runs = prep(ev)
    nm = sum(1 for r in runs for e in r if e["ev"] == "merge_tv")
    n = tracecheck.validate_runs(ctx, runs, "tv", "MergeTrace", "MergeTrace.cfg", key=tv_key, nontrivial=tv_nontrivial, timeout=600, heap="6g")
    ctx.cov["traces_validated_against_impl"] += n
    ctx.cov["merges_validated_as_translations"] = nm
    log(f"[T] {nm} merges validated against MergeSem, {n}/{len(runs)} runs accepted")

    gp = ctx.path("gated.ndjson")
    # a rollback next to a running end_merge task of the old updater (F43): the stale task must be over before the new writer exists
    vlib.mc_check(ctx, "StorageProto", "StorageProto_negF43.cfg", expect_violation="NoCommitLost", timeout=120, workers=2)
    vlib.mc_check(ctx, "StorageProto", "StorageProto_negF43b.cfg", expect_violation="NeverDeletesNeeded", timeout=120, workers=2)
    vlib.run_bin("merge_driver", ["gated", "--seed", ctx.seed, "--runs", 30 if ctx.quick else 300, "--out", gp], timeout=900)
    gev = vlib.read_ndjson(gp)
    gruns = prep(gev)
    realised = sum(1 for e in gev if e.get("ev") == "schedule" and e.get("realised"))
    n2 = tracecheck.validate_runs(ctx, gruns, "gated", "MergeTrace", "MergeTrace.cfg", key=lambda r: json.dumps(r[0].get("tag")), timeout=300)
    ctx.cov["traces_validated_against_impl"] += n2
    ctx.cov["gated_schedules"] = {"runs": len(gruns), "realised": realised}
    log(f"[R] merge thread parked during delete+commit / rollback / delete_all / two commits: {realised}/{len(gruns)} realised, {n2} accepted")
    if realised == 0:
        raise vlib.ToolError("the gated merge schedule was never realised")

    # random histories with merge policies (content never changes across merges)
    rp = ctx.path("rand.ndjson")
    vlib.run_bin("core_driver", ["random", "--seed", ctx.seed + 4, "--runs", 40 if ctx.quick else 400, "--ops", 30, "--flush", "mix", "--threads", "mix",
                                 "--merge", "any2", "--no-storage", "--out", rp], timeout=900)
    n3 = c02.validate_runs(ctx, vlib.read_ndjson(rp), "rand_merge")
    log(f"[T] random histories with the merge-any-two policy: {n3} accepted")

    # explicit merge of UNCOMMITTED segments with a delete between them (finding F6, repaired): the model with the
    # repaired target (a fresh stamp) keeps PublishedIsSequential, the old target (commit opstamp) must violate it
    vlib.mc_check(ctx, "MC_Core", "MC_Core_f6.cfg", timeout=600)
    vlib.mc_check(ctx, "MC_Core", "MC_Core_negF6.cfg", expect_violation="PublishedIsSequential", timeout=300)
    hp = ctx.path("f6.ndjson")
    vlib.write_ndjson(hp, [{"cfg": {"threads": 1, "flush_after": 1, "merge": "none"}, "tag": "F6", "ops": [
        {"op": "add", "id": 1, "t": "a", "v": 0}, {"op": "wait_uncommitted", "n": 1}, {"op": "del", "pred": {"k": "term", "t": "a"}},
        {"op": "add", "id": 2, "t": "a", "v": 0}, {"op": "wait_uncommitted", "n": 2}, {"op": "merge_uncommitted"}, {"op": "commit"}]}])
    fp = ctx.path("f6_trace.ndjson")
    vlib.run_bin("core_driver", ["replay", "--in", hp, "--out", fp, "--no-storage"], timeout=120)
    c02.validate_runs(ctx, vlib.read_ndjson(fp), "f6")

    # binding self-test: shift one position in a merged dump / drop a document
    tvruns = [r for r in runs if tv_nontrivial(r)][:1]
    res = {}
    if tvruns:
        for name in ("position_shifted", "doc_dropped"):
            r = json.loads(json.dumps(tvruns[0]))
            for e in r:
                if e["ev"] == "merge_tv" and e.get("merged"):
                    if name == "doc_dropped":
                        e["merged"]["docs"].pop()
                    else:
                        for d in e["merged"]["docs"]:
                            if d["rec"]["toks_body"]:
                                d["rec"]["toks_body"][0][2][0] += 1
                                break
            p = ctx.path(f"selftest_{name}.ndjson")
            vlib.write_ndjson(p, r)
            t = vlib.run_tlc("MergeTrace", "MergeTrace.cfg", workers=1, timeout=120, trace=p, deque=True, heap="2g")
            res[name] = "rejected" if not t.ok else "ACCEPTED"
        ctx.cov["binding_selftest"] = res
        if "ACCEPTED" in res.values():
            raise vlib.ToolError(f"binding self-test: a corrupted merge dump was accepted: {res}")
    tv = next((e for r in runs for e in r if e["ev"] == "merge_tv" and e.get("merged")), None)
    if tv:
        ctx.sample({"kind": "merge validated as a translation", "sorted": tv["sorted"], "sources": [{"sid": s["sid"], "max_doc": s["max_doc"], "ndel": s["ndel"]} for s in tv["sources"]],
                    "merged": {"sid": tv["merged"]["sid"], "max_doc": tv["merged"]["max_doc"], "first_doc": tv["merged"]["docs"][0]}})


def replay(ctx, path):
    import os
    for f in sorted(os.listdir(path)):
        if f.endswith(".ndjson"):
            tracecheck.validate_runs(ctx, [vlib.read_ndjson(os.path.join(path, f))], "replay", "MergeTrace", "MergeTrace.cfg")
