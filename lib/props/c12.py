"""C12 - relevance scores are BM25 over the searcher's statistics; explain agrees.
M: Bm25Struct model checked by TLC on tiny corpora (commits, merges, deletes): the statistics summed per
   segment and the symbolic score term of every (query, document) do not depend on the segmentation; two
   negative configurations (per-segment statistics; deletes purged by a merge) must fail.
R: TLC (Gen_Bm25Struct) enumerates corpora x segmentations x delete sets and query trees; this file pairs
   them, pads documents to varied lengths, concretises the float symbols; the harness executes them.
T: seeded random corpora (lengths across the field-norm buckets) and random query trees.
Every recorded case is judged by TLC against spec/Bm25StructTrace.tla, which recomputes N, n(t), T, tf,
phrase tf, field-norm ids, the matching set and the symbolic score term from the logged documents and
compares the score bit patterns of all observation paths (kernel, collector, TopDocs K=.., explain,
one segment vs many vs the many-segment index after IndexWriter::merge of some / all of its segments)."""
import hashlib
import json
import os
import random
import re
import struct

import vlib
from vlib import log

LEVEL = "model_checking"

MODULE = "Bm25StructTrace"
CFG = "Bm25StructTrace.cfg"
CFG_STRICT = "Bm25StructTrace_strict.cfg"


def fixed_findings():
    """ids of C12 findings that were repaired in /repo: a `fixed:` line of known_findings.json for property C12
    that mentions the id; C12_ASSUME_FIXED=F17,F19 forces the switch (to test the fixed mode on a scratch tree)"""
    out = set(x for x in os.environ.get("C12_ASSUME_FIXED", "").replace(" ", "").split(",") if x)
    for line in vlib.load_known().get("fixed", []):
        if re.search(r"property=[\w,/ ]*\bC12\b", line):
            out |= set(re.findall(r"\b(F17|F19)\b", line))
    return out


FIXED = fixed_findings()
# F17 repaired: boosted explain is compared bit-exactly everywhere (strict judge); F19 repaired: top-level dis-max
# queries go through TopDocs like every other query
DEFAULT_CFG = CFG_STRICT if "F17" in FIXED else CFG
DEFAULT_AVOID = "" if "F19" in FIXED else "dismaxwand"

BOOSTS = [2.0, 0.5, 1.5, 3.7, 0.1, 1.0, 10.0, 0.333]
CONSTS = [1.0, 0.42, 7.5, 2.0]
TIES = [0.0, 0.3, 0.7, 1.0, 0.1]
# pads: 0..40 are exactly representable field lengths, larger ones quantise
PADS_SMALL = list(range(0, 46))
PADS_MIXED = [0, 0, 0, 1, 2, 5, 17, 36, 38, 39, 40, 41, 42, 43, 47, 56, 64, 100, 101, 255, 300, 1000, 1023, 2500, 5000, 12000]

# ---------------------------------------------------------------------------------------------
# classification of rejections (stable texts: known_findings.json matches on them)
# ---------------------------------------------------------------------------------------------
F17_TEXT = ("F17 boosted explain differs from score: explain().value() of a boosted single scoring clause is not "
            "bit-identical to the score the collectors report (BoostWeight::explain multiplies the un-boosted score by "
            "the boost, the scorer multiplies the weight by the boost before the tf factor)")
DISMAX_TEXT = ("dismax TopDocs score is the sum of the disjuncts: a top-level DisjunctionMaxQuery whose disjuncts are term "
               "queries is scored by block-WAND in TopDocs (for_each_pruning), which adds the disjunct scores and ignores "
               "the dis-max combiner / tie breaker; the scoring collector and explain() return max + tie * others")


def why_of(r):
    """the (line, why) pairs TLC printed for failed checks"""
    return [(int(a), b) for a, b in re.findall(r'<<\s*"WHY",\s*(\d+),\s*"([^"]*)"\s*>>', r.out, re.S)]


def rejected_line(r):
    m = re.search(r'<<\s*"REJECTED",\s*(\d+),', r.out, re.S)
    return int(m.group(1)) if m else None


def classify(ev, why):
    """-> (class key, violation text)"""
    if ev.get("ev") == "panic":
        return "panic:" + ev.get("stage", ""), f"tantivy panicked while running a query (stage {ev.get('stage')}): {ev.get('msg')}"
    if ev.get("ev") == "error":
        return "error", f"tantivy returned an error for a well-formed case ({ev.get('where')}): {ev.get('msg')}"
    if why.startswith("explain: boosted explain differs from score"):
        return "F17", F17_TEXT
    if why.startswith("topdocs: score differs from the collector's (top-level dismax)"):
        return "F19", DISMAX_TEXT
    return "why:" + why, f"trace rejected by {MODULE}: {why or 'event has no explanation'}"


# ---------------------------------------------------------------------------------------------
# trace handling
# ---------------------------------------------------------------------------------------------
def norm_events(events):
    out = []
    for e in events:
        e = vlib.strip_nulls(e)
        e.pop("seq", None)
        e.pop("th", None)
        out.append(e)
    return out


SETUP_EVS = ("reset", "index", "breset", "bindex")


def split_cases(events):
    """-> (header events before the first reset, list of cases (lists of events starting with reset))"""
    header, cases = [], []
    for e in events:
        if e["ev"] in ("reset", "breset"):
            cases.append([e])
        elif cases:
            cases[-1].append(e)
        else:
            header.append(e)
    return header, cases


def bits(s):
    return s["hi"] * 65536 + s["lo"]


def f32(s):
    return struct.unpack(">f", struct.pack(">I", bits(s)))[0]


def leaves(t):
    if t["k"] in ("bm25", "const"):
        return 1
    return sum(leaves(a) for a in t.get("args", []))


def kinds(q, acc):
    acc.add(q["k"])
    for c in q.get("cl", []):
        kinds(c["q"], acc)
    for x in q.get("qs", []):
        kinds(x, acc)
    if "q" in q:
        kinds(q["q"], acc)
    return acc


def has_dismax(t):
    return t["k"] == "dismax" or any(has_dismax(a) for a in t.get("args", []))


def account_big(ctx, case, stats):
    """coverage bookkeeping of one accepted big case"""
    reset = case[0]
    base = hashlib.sha1(json.dumps([reset["shapes"], reset["pattern"], reset["nd"], reset["cuts"]], sort_keys=True).encode()).hexdigest()
    stats["big_cases"] += 1
    seekfam = len(reset["pattern"]) == reset["nd"]
    stats["seek_cases"] += 1 if seekfam else 0
    for e in case:
        if e["ev"] == "bindex":
            stats["big_largest_segment"] = max([stats["big_largest_segment"]] + [sg["max_doc"] for sg in e["segs"]])
            stats["big_segments_over_4096"] += sum(1 for sg in e["segs"] if sg["max_doc"] > 4096)
        if e["ev"] != "bquery":
            continue
        ctx.distinct(base + json.dumps(e["q"], sort_keys=True), nontrivial=e["nhits"] > 0)
        stats["big_queries"] += 1
        if seekfam and e["q"]["k"] != "term" and 0 < e["nhits"] <= 160:
            # a required sparse term over a union of bursty optional clauses: every match is observed
            stats["seek_queries_required_over_union"] += 1
            stats["seek_hits_beyond_first_window"] += sum(1 for h in e["hits"] if h["local"] >= 4096 and leaves(h["term"]) > 1)
        stats["big_matching_documents"] += e["nhits"]
        stats["big_sampled_hits"] += len(e["hits"])
        stats["big_score_histograms"] += 2 * len(e["groups"])
        for h in e["hits"]:
            for key in ("coll", "kernel", "expl", "top"):
                if key in h and int(h[key]["b"]) != bits(h[key]):
                    raise vlib.ToolError("harness: score words and decimal bit string disagree")
            if h["local"] >= 4096:
                stats["big_sampled_hits_beyond_first_window"] += 1
                if has_dismax(h["term"]):
                    stats["big_dismax_hits_beyond_first_window"] += 1


def leaf_fields(q, acc):
    if q["k"] in ("term", "phrase"):
        acc.add(q.get("f", "body"))
    for c in q.get("cl", []):
        leaf_fields(c["q"], acc)
    for x in q.get("qs", []):
        leaf_fields(x, acc)
    if "q" in q:
        leaf_fields(q["q"], acc)
    return acc


def must_terms_only(q):
    """a boolean of >= 2 Must term queries and nothing else (TopDocs scores it through the block-max intersection)"""
    return q["k"] == "bool" and len(q["cl"]) >= 2 and all(c["o"] == "must" and c["q"]["k"] == "term" for c in q["cl"])


def fn_of_leaves(t):
    if t["k"] == "bm25":
        return [t["fn"]]
    return [x for a in t.get("args", []) for x in fn_of_leaves(a)]


def account(ctx, case, stats):
    """coverage bookkeeping of one accepted case (nothing here is a verdict)"""
    reset = case[0]
    if reset["ev"] == "breset":
        return account_big(ctx, case, stats)
    base = json.dumps([reset["docs"], reset["cuts"], reset["dels"]], sort_keys=True)
    table = stats.get("_table")
    for e in case:
        if e["ev"] == "index" and e["ix"] == "merged":
            n = len(e["srcs"])
            stats["merges"] += 1
            stats["merges_by_number_of_segments"][str(n)] = stats["merges_by_number_of_segments"].get(str(n), 0) + 1
            stats["merges_leaving_other_segments"] += 1 if len(e["segs"]) > 1 else 0
            with_dels = any(d in reset["dels"] for src in e["srcs"] for d in src)
            stats["merges_after_deletes"] += 1 if with_dels else 0
            if not with_dels and table:
                m = next(sg for sg in e["segs"] if sg.get("merged"))
                lens = [len(fc["toks"]) + fc["pad"] for d in m["docs"] for fc in reset["docs"][d - 1].values()]
                # the case that tells an exact token count from one recomputed from quantised lengths
                stats["merges_exact_T_with_non_table_lengths"] += 1 if any(x not in table for x in lens) else 0
        if e["ev"] == "query" and len(e["runs"]) == 3:
            stats["merged_evaluations"] += 1
            stats["merged_hits"] += len(e["runs"][2]["hits"])
        if e["ev"] == "index" and e["ix"] == "multi":
            stats["cases_with_several_segments"] += 1 if len(e["segs"]) > 1 else 0
            stats["cases_with_deleted_documents"] += 1 if any(s["dead"] for s in e["segs"]) else 0
        if e["ev"] != "query":
            continue
        hits = e["runs"][0]["hits"]
        n_docs = e["runs"][0]["N"]
        ctx.distinct(base + json.dumps(e["q"], sort_keys=True), nontrivial=bool(hits) and n_docs >= 2)
        stats["queries"] += 1
        qf = leaf_fields(e["q"], set())
        if len(qf) >= 2:
            stats["cross_field_queries"] += 1
            if must_terms_only(e["q"]):
                stats["cross_field_conjunctions_of_terms"] += 1
            for r in e["runs"]:
                # hits whose scoring clauses sit in fields of different field-norm buckets
                x = [h for h in r["hits"] if leaves(h["term"]) >= 2 and len(set(fn_of_leaves(h["term"]))) >= 2]
                stats["cross_field_hits"] += len(x)
                docs = {h["doc"] for h in x}
                stats["cross_field_topdocs_scores"] += sum(1 for t in r["tops"] for y in t["res"] if y["doc"] in docs)
        for k in kinds(e["q"], set()):
            stats["kind_" + k] = stats.get("kind_" + k, 0) + 1
        for r in e["runs"]:
            for h in r["hits"]:
                stats["hits"] += 1
                # harness sanity: the decimal string and the two words are the same bit pattern
                for key in ("coll", "kernel", "expl"):
                    if key in h and int(h[key]["b"]) != bits(h[key]):
                        raise vlib.ToolError("harness: score words and decimal bit string disagree")
                stats["fnids"].update(h["fnid"].values())
                if leaves(h["term"]) == 1:
                    stats["hits_single_clause"] += 1
                else:
                    stats["hits_multi_clause"] += 1
                if "expl" in h:
                    stats["explain_compared"] += 1
            for t in r["tops"]:
                stats["topdocs_scores_compared"] += len(t["res"])
        stats["segmentation_compared"] += len(hits) if not reset["dels"] else 0


def validate(ctx, events, label, cfg=None, stats=None, max_rounds=10):
    """TLC judges the concatenated trace.  On a rejection the unexplained event is reported (once per class)
    and removed - query events are independent of each other - or, for any other event, its whole case; then
    the rest is validated again.  Returns the classes seen."""
    cfg = cfg or DEFAULT_CFG
    events = norm_events(events)
    header, cases = split_cases(events)
    seen = {}
    dirty = set()           # cases that lost an event
    rounds = 0
    while cases and rounds < max_rounds:
        rounds += 1
        flat = header + [e for c in cases for e in c]
        path = ctx.path(f"{label}.{rounds}.ndjson")
        vlib.write_ndjson(path, flat)
        ok, r = vlib.validate_trace(ctx, MODULE, cfg, path, name=f"{label}.{rounds}", timeout=300)
        if ok:
            break
        line = rejected_line(r)
        if line is None:
            outp = ctx.path(f"{label}.{rounds}.tlc.out")
            open(outp, "w").write(r.out)
            raise vlib.ToolError(f"{MODULE} failed on {path} without naming an event (see {outp})")
        ev = flat[line - 1]
        whys = [w for (ln, w) in why_of(r) if ln == line]
        why = whys[0] if whys else ""
        key, text = classify(ev, why)
        # locate the case
        pos, ci = len(header), None
        for i, c in enumerate(cases):
            if pos < line <= pos + len(c):
                ci = i
                break
            pos += len(c)
        if ci is None:       # the table event itself
            outp = ctx.path(f"{label}.{rounds}.tlc.out")
            open(outp, "w").write(r.out)
            ctx.violation(text, [path, outp], json.dumps(ev)[:3000])
            seen[key] = seen.get(key, 0) + 1
            break
        case = cases[ci]
        seen[key] = seen.get(key, 0) + 1
        reported = ctx.__dict__.setdefault("_c12_reported", set())     # one violation per class and check run
        if key not in reported:
            reported.add(key)
            # replay = table + the case's reset / index events + the offending event
            rp = ctx.path(f"{label}.rejected.{key.split(':')[0]}{'.strict' if cfg == CFG_STRICT else ''}.ndjson")
            vlib.write_ndjson(rp, header + [e for e in case if e["ev"] in SETUP_EVS] + ([ev] if ev["ev"] not in SETUP_EVS else []))
            outp = ctx.path(f"{label}.rejected.{key.split(':')[0]}.tlc.out")
            open(outp, "w").write(r.out[-20000:])
            detail = f"why: {why}\ncase: {json.dumps(case[0])[:1500]}\nevent (line {line}): {json.dumps(ev)[:2500]}"
            ctx.violation(text, [rp, outp], detail)
        if ev["ev"] in ("query", "bquery", "panic", "error") and ev is not case[0]:
            cases[ci] = [e for e in case if e is not ev]
            dirty.add(id(cases[ci]))
            dirty.discard(id(case))
        else:
            cases.pop(ci)
    else:
        if cases and rounds >= max_rounds:
            log(f"[{label}] stopped after {rounds} rejections; the remaining events were not validated")
            return seen
    if stats is not None and header and "_table" not in stats:
        stats["_table"] = set(next((e["tab"] for e in header if e["ev"] == "table"), []))
    for c in cases:
        if id(c) not in dirty:
            ctx.cov["traces_validated_against_impl"] += 1
            if stats is not None:
                account(ctx, c, stats)
    return seen


# ---------------------------------------------------------------------------------------------
# M
# ---------------------------------------------------------------------------------------------
def model_checking(ctx):
    vlib.mc_check(ctx, "MC_Bm25Struct", "MC_Bm25Struct_negseg.cfg", expect_violation="ScoreSegmentationIndependent", timeout=300, workers=6)
    vlib.mc_check(ctx, "MC_Bm25Struct", "MC_Bm25Struct_negdel.cfg", expect_violation="ScoreSegmentationIndependentEvenWithDeletes", timeout=300, workers=6)
    vlib.mc_check(ctx, "MC_Bm25Struct", "MC_Bm25Struct_negfield.cfg", expect_violation="CrossFieldLemma", timeout=300, workers=6)
    vlib.mc_check(ctx, "MC_Bm25Struct", "MC_Bm25Struct_fields.cfg", timeout=300, workers=6)
    vlib.mc_check(ctx, "MC_Bm25Struct", "MC_Bm25Struct.cfg", timeout=300, workers=6)
    delcfg = "MC_Bm25Struct_delq.cfg" if ctx.quick else "MC_Bm25Struct_del.cfg"     # quick: documents of length <= 1
    r = vlib.mc_check(ctx, "MC_Bm25Struct", delcfg, timeout=300, workers=6, coverage=True)
    if r.coverage_zero_actions():     # vacuity: commit, delete and merge must all have been taken
        raise vlib.ToolError(f"{delcfg}: actions never taken: {r.coverage_zero_actions()}")
    if not ctx.quick:
        vlib.mc_check(ctx, "MC_Bm25Struct", "MC_Bm25Struct_pad.cfg", timeout=300, workers=6)
        vlib.mc_check(ctx, "MC_Bm25Struct", "MC_Bm25Struct_big.cfg", timeout=300, workers=6)


# ---------------------------------------------------------------------------------------------
# R: TLC-generated cases
# ---------------------------------------------------------------------------------------------
def generate(ctx, words, maxlen, maxdocs):
    cfg = open(os.path.join(vlib.SPEC, "Gen_Bm25Struct.cfg")).read()
    cfg = cfg.replace('Words = {"a", "b"}', "Words = {" + ", ".join(f'"{w}"' for w in words) + "}")
    cfg = cfg.replace("MaxLen = 2", f"MaxLen = {maxlen}").replace("MaxDocs = 3", f"MaxDocs = {maxdocs}")
    cfgname = f"Gen_Bm25Struct_{ctx.prop}_{os.getpid()}.cfg"
    open(os.path.join(vlib.SPEC, cfgname), "w").write(cfg)
    try:
        r = vlib.run_tlc("Gen_Bm25Struct", cfgname, workers=1, timeout=300, heap="6g")
    finally:
        os.remove(os.path.join(vlib.SPEC, cfgname))
    ctx.add_tlc("Gen_Bm25Struct", r, kind="generator")
    if not r.ok:
        log(r.out[-3000:])
        raise vlib.ToolError("Gen_Bm25Struct failed")
    corpora, queries = [], []
    for m in re.finditer(r'<<"CASE", "(.*)">>', r.out):
        c = json.loads(m.group(1).encode().decode("unicode_escape"))
        (corpora if c["kind"] == "corpus" else queries).append(c)
    if not corpora or not queries:
        raise vlib.ToolError("Gen_Bm25Struct printed no case")
    return corpora, [q["q"] for q in queries]


def concretise_query(q, rng):
    """float symbols -> values (stated lists); everything else is kept"""
    k = q["k"]
    if k == "term":
        return {"k": "term", "w": q["w"]}
    if k == "phrase":
        return {"k": "phrase", "ws": q["ws"]}
    if k == "bool":
        return {"k": "bool", "cl": [{"o": c["o"], "q": concretise_query(c["q"], rng)} for c in q["cl"]]}
    if k == "boost":
        return {"k": "boost", "b": rng.choice(BOOSTS), "q": concretise_query(q["q"], rng)}
    if k == "const":
        return {"k": "const", "c": rng.choice(CONSTS), "q": concretise_query(q["q"], rng)}
    if k == "dismax":
        return {"k": "dismax", "tie": rng.choice(TIES), "qs": [concretise_query(x, rng) for x in q["qs"]]}
    raise vlib.ToolError(f"query kind {k}")


def concretise_corpus(c, rng):
    """abstract document (token list) -> the same tokens followed by `pad` filler tokens"""
    profile = rng.choice(["none", "none", "small", "mixed", "mixed"])
    docs = []
    for toks in c["docs"]:
        pad = 0 if profile == "none" else rng.choice(PADS_SMALL if profile == "small" else PADS_MIXED)
        docs.append({"toks": toks, "pad": pad})
    return docs


FIELDS3 = ["f1", "f2", "f3"]


def assign_fields(q, rng):
    """every term / phrase leaf gets one of the three scored fields"""
    q = dict(q)
    if q["k"] in ("term", "phrase"):
        q["f"] = rng.choice(FIELDS3)
    if "cl" in q:
        q["cl"] = [{"o": c["o"], "q": assign_fields(c["q"], rng)} for c in q["cl"]]
    if "qs" in q:
        q["qs"] = [assign_fields(x, rng) for x in q["qs"]]
    if "q" in q:
        q["q"] = assign_fields(q["q"], rng)
    return q


def multi_field(case, rng):
    """the TLC-generated corpus spread over three scored fields of very different lengths (different field-norm buckets): f1 = the
    generated tokens (0..2), f2 = the same tokens reversed, padded to 30..300 tokens, f3 = rotated, padded to 5..40; the generated query
    trees with a field per leaf, and conjunctions of Must term queries of different fields (block-max intersection in TopDocs)"""
    docs = []
    for d in case["docs"]:
        toks = d["toks"]
        docs.append({"f1": {"toks": toks, "pad": 0}, "f2": {"toks": toks[::-1], "pad": rng.choice([30, 41, 57, 100, 101, 255, 300])},
                     "f3": {"toks": toks[1:] + toks[:1], "pad": rng.randint(5, 40)}})
    ft = lambda f, w: {"k": "term", "w": w, "f": f}
    must = lambda q: {"o": "must", "q": q}
    x, y, z = (rng.choice(["a", "b"]) for _ in range(3))
    cross = [{"k": "bool", "cl": [must(ft("f1", x)), must(ft("f2", y))]},
             {"k": "bool", "cl": [must(ft("f2", x)), must(ft("f3", y)), must(ft("f1", z))]},
             {"k": "bool", "cl": [must(ft("f3", x)), must(ft("f1", y)), {"o": "should", "q": ft("f2", z)}]},
             {"k": "boost", "b": rng.choice(BOOSTS), "q": {"k": "bool", "cl": [must(ft("f2", y)), must(ft("f1", x))]}},
             {"k": "dismax", "tie": rng.choice(TIES), "qs": [ft("f1", x), ft("f2", x), {"k": "bool", "cl": [must(ft("f3", y)), must(ft("f2", z))]}]}]
    case.update({"fields": FIELDS3, "docs": docs, "queries": cross + [assign_fields(q, rng) for q in case["queries"][:5]], "ks": [1, 3, 10, 1000]})
    return case


def replay_generated(ctx, stats):
    rng = random.Random(ctx.seed)
    if ctx.quick:
        corpora, queries = generate(ctx, ["a", "b"], 2, 3)
        n_cases, n_q = 220, 8
    else:
        corpora, queries = generate(ctx, ["a", "b", "c"], 2, 3)
        n_cases, n_q = 3000, 12
    ctx.cov["generated_corpus_cases"] = len(corpora)
    ctx.cov["generated_query_trees"] = len(queries)
    chosen = rng.sample(corpora, min(n_cases, len(corpora)))
    cases = []
    for i, c in enumerate(chosen):
        qs = [concretise_query(q, rng) for q in rng.sample(queries, n_q)]
        # the merge applied afterwards to the many-segment index: one of the sets TLC listed (9 of 10 cases)
        several = [m for m in c["merges"] if len(m) >= 2]
        merge = [] if rng.random() >= 0.9 else rng.choice(several if several and rng.random() < 0.8 else c["merges"])
        case = {"tag": f"gen-{i}", "filler": "z", "vocab": ["a", "b", "c"], "docs": concretise_corpus(c, rng),
                "cuts": c["cuts"], "dels": c["dels"], "merge": merge, "queries": qs, "ks": [1, 2, 1000]}
        cases.append(multi_field(case, rng) if i % 3 == 2 else case)
    hp = ctx.path("gen_cases.ndjson")
    vlib.write_ndjson(hp, cases)
    n_ok = 0
    chunk = 400
    for j in range(0, len(cases), chunk):
        cp = ctx.path(f"gen_cases.{j}.ndjson")
        vlib.write_ndjson(cp, cases[j:j + chunk])
        tp = ctx.path(f"gen_trace.{j}.ndjson")
        vlib.run_bin("bm25_driver", ["replay", "--in", cp, "--out", tp, "--explain", "all", "--avoid", DEFAULT_AVOID or "none"], timeout=600)
        ev = vlib.read_ndjson(tp)
        before = ctx.cov["traces_validated_against_impl"]
        validate(ctx, ev, f"gen{j}", stats=stats)
        n_ok += ctx.cov["traces_validated_against_impl"] - before
        if j == 0:
            first = ev
    ctx.sample({"kind": "TLC-generated case (corpus x cuts x deletes, query trees), concretised", "case": cases[0]})
    log(f"[R] {len(cases)} TLC-generated cases x {n_q} queries executed, {n_ok} cases accepted")
    return first


# ---------------------------------------------------------------------------------------------
# T: seeded random cases
# ---------------------------------------------------------------------------------------------
def random_cases(ctx, runs, seed, stats, label="rand", extra=None):
    tp = ctx.path(f"{label}_trace.ndjson")
    vlib.run_bin("bm25_driver", ["random", "--seed", seed, "--runs", runs, "--out", tp, "--explain", "all", "--avoid", DEFAULT_AVOID or "none"] + (extra or []),
                 timeout=600)
    ev = vlib.read_ndjson(tp)
    before = ctx.cov["traces_validated_against_impl"]
    validate(ctx, ev, label, stats=stats)
    log(f"[T] {runs} random cases ({label}), {ctx.cov['traces_validated_against_impl'] - before} accepted")
    return ev


# ---------------------------------------------------------------------------------------------
# dedicated runs for the recorded findings (the default runs steer around them)
# ---------------------------------------------------------------------------------------------
def T(w):
    return {"k": "term", "w": w}


def P(*ws):
    return {"k": "phrase", "ws": list(ws)}


KF_DOCS = [{"toks": ["a"], "pad": 0}, {"toks": ["a", "b"], "pad": 0}, {"toks": ["a", "a", "b", "b", "b"], "pad": 0},
           {"toks": ["b"], "pad": 3}, {"toks": ["c", "a"], "pad": 7}, {"toks": ["a", "b", "a", "b"], "pad": 41},
           {"toks": ["b", "c"], "pad": 0}, {"toks": ["a", "c", "a"], "pad": 100}]


def kf_case(tag, queries):
    return {"tag": tag, "filler": "z", "vocab": ["a", "b", "c"], "docs": KF_DOCS, "cuts": [2, 2, 2, 2], "dels": [], "merge": [1, 2, 3, 4],
            "queries": queries, "ks": [1, 3, 1000], "explain": "all", "avoid": "none"}


def finding_cases():
    """one small fixed case per finding: while the finding is open it is the dedicated reproduction run, once it is
    fixed it is a regression case of the default run (a reverted fix is detected deterministically)"""
    return {
        # boosted single clauses; explain demanded bit-exact (strict configuration of the judge)
        "F17": (kf_case("finding-F17", [{"k": "boost", "b": b, "q": T("a")} for b in (1.5, 3.7, 0.333)]
                        + [{"k": "boost", "b": 0.1, "q": P("a", "b")},
                           {"k": "boost", "b": 2.0, "q": {"k": "boost", "b": 0.333, "q": T("b")}}]), CFG_STRICT),
        # top-level dis-max whose disjunct scorers are term scorers: TopDocs vs collector / explain
        "F19": (kf_case("finding-F19", [{"k": "dismax", "tie": 0.3, "qs": [T("a"), T("b")]},
                                        {"k": "dismax", "tie": 0.7, "qs": [{"k": "boost", "b": 1.5, "q": T("a")}, T("b"), T("c")]},
                                        {"k": "dismax", "tie": 0.0, "qs": [{"k": "bool", "cl": [{"o": "must", "q": T("b")}]}, T("a"), P("c", "a")]}]),
                DEFAULT_CFG),
    }


def merge_cases(ctx, stats):
    """fixed cases of the merge step: 4, 3, 2 segments and a single one, all / a strict subset (also non-adjacent), after deletes,
    a source segment that lost all its documents; document lengths 45 and 103 are not values of the field-norm table"""
    qs = [T("a"), P("a", "b"), {"k": "bool", "cl": [{"o": "should", "q": T("a")}, {"o": "should", "q": T("b")}, {"o": "should", "q": T("c")}]},
          {"k": "bool", "cl": [{"o": "must", "q": T("a")}, {"o": "should", "q": P("c", "a")}, {"o": "mustnot", "q": P("b", "c")}]},
          {"k": "boost", "b": 3.7, "q": {"k": "dismax", "tie": 0.3, "qs": [T("a"), {"k": "const", "c": 0.42, "q": T("b")}]}}]
    cases = []
    for i, (merge, dels) in enumerate([([1, 2, 3, 4], []), ([1, 3], []), ([2, 4], []), ([2, 3, 4], [3, 8]), ([1, 2], [1, 2]), ([4], [7]), ([1, 2, 3], [])]):
        c = kf_case(f"merge-{i}", qs)
        c.update({"merge": merge, "dels": dels, "avoid": DEFAULT_AVOID or "none"})
        cases.append(c)
    cp = ctx.path("merge.cases.ndjson")
    vlib.write_ndjson(cp, cases)
    tp = ctx.path("merge.trace.ndjson")
    vlib.run_bin("bm25_driver", ["replay", "--in", cp, "--out", tp], timeout=120)
    before = ctx.cov["traces_validated_against_impl"]
    validate(ctx, vlib.read_ndjson(tp), "merge", stats=stats)
    log(f"[merge] {len(cases)} fixed merge cases, {ctx.cov['traces_validated_against_impl'] - before} accepted")


BIG_SHAPES = [{"toks": ["a", "b"], "pad": 0}, {"toks": ["a", "a", "b", "c"], "pad": 3}, {"toks": ["c"], "pad": 0}, {"toks": [], "pad": 2},
              {"toks": ["b", "b", "a"], "pad": 45}, {"toks": ["b", "c", "b"], "pad": 0}, {"toks": ["a", "b", "c", "a", "b"], "pad": 11},
              {"toks": ["a"], "pad": 1}, {"toks": ["c", "a", "b"], "pad": 101}]


def big_queries(rng):
    """dis-max with tie breaker in {0.3, 0.5, 1.0} over 2..3 disjuncts, alone and nested under should / must / boost, plus controls"""
    w = lambda: rng.choice(["a", "b", "c"])
    tie = lambda: rng.choice([0.3, 0.5, 1.0])
    two = lambda: rng.sample(["a", "b", "c"], 2)
    x, y = two()
    qs = [{"k": "dismax", "tie": tie(), "qs": [T(x), T(y)]},
          {"k": "dismax", "tie": tie(), "qs": [T("a"), T("b"), T("c")]},
          {"k": "dismax", "tie": tie(), "qs": [T(w()), P("a", "b")]},
          {"k": "bool", "cl": [{"o": "should", "q": {"k": "dismax", "tie": tie(), "qs": [T(a_) for a_ in two()]}}, {"o": "should", "q": T(w())}]},
          {"k": "bool", "cl": [{"o": "must", "q": {"k": "dismax", "tie": tie(), "qs": [T(a_) for a_ in two()]}}, {"o": "must", "q": T(w())}]},
          {"k": "bool", "cl": [{"o": "must", "q": T(w())}, {"o": "should", "q": {"k": "dismax", "tie": tie(), "qs": [T("a"), T("b"), P("b", "c")]}}]},
          {"k": "boost", "b": rng.choice(BOOSTS), "q": {"k": "dismax", "tie": tie(), "qs": [T(x), {"k": "const", "c": 0.42, "q": T(y)}]}},
          {"k": "dismax", "tie": tie(), "qs": [{"k": "bool", "cl": [{"o": "should", "q": T("a")}, {"o": "should", "q": T("c")}]}, T("b")]},
          {"k": "bool", "cl": [{"o": "should", "q": T("a")}, {"o": "should", "q": T("b")}, {"o": "should", "q": T("c")}]},
          {"k": "bool", "cl": [{"o": "must", "q": T(x)}, {"o": "mustnot", "q": T(y)}]},
          P("a", "b"), T(w())]
    return qs


SEEK_SHAPES = [{"toks": [], "pad": 2}, {"toks": ["b"], "pad": 0}, {"toks": ["c"], "pad": 1}, {"toks": ["b", "c"], "pad": 0},
               {"toks": ["a"], "pad": 0}, {"toks": ["a", "b"], "pad": 0}, {"toks": ["a", "c"], "pad": 1}, {"toks": ["a", "b", "c"], "pad": 0},
               {"toks": ["b", "b", "c"], "pad": 4}]


def seek_case(rng, tag, quick):
    """a SPARSE term `a` (every 60..300 documents) and BURSTY terms `b`, `c` (runs of 70..260 consecutive documents, gaps of 100..400
    without any match): a required clause drives within-window seeks of the optional union that skip whole 64-document buckets
    holding optional matches, and the union leaves its 4096-document window through advance / refill.  Not periodic: the pattern
    is as long as the corpus (one shape index per document), so offsets differ from window to window."""
    nd = rng.randint(9000, 14000)
    pattern = []
    while len(pattern) < nd:
        pattern += [1] * rng.randint(100, 400)
        pattern += [rng.choice([2, 2, 3, 3, 4, 9]) for _ in range(rng.randint(70, 260))]
    pattern = pattern[:nd]
    i = rng.randint(0, 200)
    with_a = {1: 5, 2: 6, 3: 7, 4: 8, 9: 8}
    while i < nd:
        pattern[i] = with_a[pattern[i]]
        i += rng.randint(60, 300)
    r = rng.random()
    cuts = [nd] if r < 0.6 else [rng.randint(8500, nd - 100) if nd > 8700 else nd]
    if len(cuts) == 1 and cuts[0] < nd:
        cuts.append(nd - cuts[0])
    tie = lambda: rng.choice([0.3, 0.5, 1.0])
    bc = {"k": "bool", "cl": [{"o": "should", "q": T("b")}, {"o": "should", "q": T("c")}]}
    qs = [{"k": "bool", "cl": [{"o": "must", "q": T("a")}, {"o": "should", "q": T("b")}, {"o": "should", "q": T("c")}]},
          {"k": "bool", "cl": [{"o": "must", "q": T("a")}, {"o": "must", "q": bc}]},
          {"k": "boost", "b": rng.choice(BOOSTS), "q": {"k": "bool", "cl": [{"o": "must", "q": T("a")}, {"o": "should", "q": T("c")}, {"o": "should", "q": T("b")}]}},
          {"k": "bool", "cl": [{"o": "must", "q": T("a")}, {"o": "should", "q": {"k": "dismax", "tie": tie(), "qs": [T("b"), T("c")]}}]},
          {"k": "bool", "cl": [{"o": "must", "q": T("a")}, {"o": "must", "q": {"k": "dismax", "tie": tie(), "qs": [T("b"), T("c"), P("b", "c")]}}]},
          {"k": "dismax", "tie": tie(), "qs": [{"k": "bool", "cl": [{"o": "must", "q": T("a")}, {"o": "should", "q": T("b")}, {"o": "should", "q": T("c")}]}, T("a")]},
          {"k": "bool", "cl": [{"o": "must", "q": T("a")}, {"o": "should", "q": bc}, {"o": "mustnot", "q": P("b", "b")}]},
          {"k": "bool", "cl": [{"o": "must", "q": T("a")}, {"o": "should", "q": {"k": "const", "c": 0.42, "q": T("b")}}, {"o": "should", "q": P("b", "c")}]},
          bc, T("a")]
    if quick:
        qs = qs[:3] + rng.sample(qs[3:8], 3)
    return {"big": True, "seekfam": True, "tag": tag, "filler": "z", "vocab": ["a", "b", "c"], "shapes": SEEK_SHAPES, "pattern": pattern, "nd": nd,
            "cuts": cuts, "queries": qs}


def big_cases(ctx, n, stats):
    """segments of more than 4096 small documents built from a few repeated shapes: identical documents exist before and after
    every 4096-document boundary (BufferedUnionScorer's window), documents are reached by far seeks (explain)"""
    rng = random.Random(ctx.seed * 7919 + 13)
    cases = []
    for i in range(n):
        k = rng.randint(3, 5)
        shapes = rng.sample(BIG_SHAPES, k)
        pattern = [rng.randint(1, k) for _ in range(rng.randint(3, 7))]
        for s in range(1, k + 1):           # every shape occurs
            if s not in pattern:
                pattern.append(s)
        nd = rng.randint(4500, 9000)
        r = rng.random()
        cuts = [nd] if r < 0.4 else ([rng.randint(4200, nd - 100), 0] if r < 0.8 else [rng.randint(50, 300), 0])
        if len(cuts) == 2:
            cuts[1] = nd - cuts[0]
        qs = big_queries(rng)
        qs = qs[:3] + rng.sample(qs[3:], 5) if ctx.quick else qs
        cases.append({"big": True, "tag": f"big-{i}", "filler": "z", "vocab": ["a", "b", "c"], "shapes": shapes, "pattern": pattern,
                      "nd": nd, "cuts": cuts, "queries": qs})
    n_seek = 3 if ctx.quick else 30
    cases += [seek_case(rng, f"seek-{i}", ctx.quick) for i in range(n_seek)]
    cp = ctx.path("big.cases.ndjson")
    vlib.write_ndjson(cp, cases)
    tp = ctx.path("big.trace.ndjson")
    vlib.run_bin("bm25_driver", ["replay", "--in", cp, "--out", tp], timeout=300)
    ev = vlib.read_ndjson(tp)
    before = ctx.cov["traces_validated_against_impl"]
    validate(ctx, ev, "big", stats=stats)
    log(f"[big] {len(cases)} big cases ({n} periodic of 4500..9000 documents, {n_seek} sparse-must / bursty-should of 9000..14000), "
        f"{ctx.cov['traces_validated_against_impl'] - before} accepted")
    ctx.sample({"kind": "big case (document i has shape pattern[(i-1) mod p])", "case": {k: v for k, v in cases[0].items() if k != "queries"},
                "queries": cases[0]["queries"][:3]})
    return ev


def big_selftest(ctx, events, results):
    """corruptions of an accepted big trace that TLC must reject"""
    header, cases = split_cases(norm_events(events))
    case = next((c for c in cases if c[0]["ev"] == "breset" and all(e["ev"] in ("breset", "bindex", "bquery") for e in c)
                 and any(e["ev"] == "bquery" and e["groups"] and any(h["local"] >= 4096 for h in e["hits"]) for e in c)), None)
    if case is None:
        if ctx.violations:
            return
        raise vlib.ToolError("binding self-test: no suitable accepted big case")
    base = header + case

    def bq(tr):
        return next(e for e in tr if e["ev"] == "bquery" and e["groups"] and any(h["local"] >= 4096 for h in e["hits"]))

    def m_histogram_split(tr):
        g = bq(tr)["groups"][0]
        g["coll"][0]["n"] -= 1
        g["coll"].append({"hi": g["coll"][0]["hi"], "lo": g["coll"][0]["lo"] ^ 1, "n": 1})

    def m_nhits(tr):
        bq(tr)["nhits"] += 1

    def m_far_hit_explain(tr):
        next(h for h in bq(tr)["hits"] if h["local"] >= 4096)["expl"]["hi"] += 1

    def m_far_hit_score(tr):
        h = next(h for h in bq(tr)["hits"] if h["local"] >= 4096)
        h["coll"]["hi"] += 1

    def m_big_tokens(tr):
        next(e for e in tr if e["ev"] == "bindex")["segs"][0]["T"] += 1

    for name, mut in (("big_histogram_second_score", m_histogram_split), ("big_match_count_changed", m_nhits),
                      ("big_far_hit_explain_changed", m_far_hit_explain), ("big_far_hit_score_changed", m_far_hit_score),
                      ("big_segment_total_tokens_changed", m_big_tokens)):
        tr = json.loads(json.dumps(base))
        mut(tr)
        p = ctx.path(f"selftest_{name}.ndjson")
        vlib.write_ndjson(p, tr)
        r = vlib.run_tlc(MODULE, DEFAULT_CFG, workers=1, timeout=120, trace=p, deque=True, heap="2g")
        results[name] = "rejected" if (not r.ok and rejected_line(r) is not None) else "ACCEPTED"


def known_finding_runs(ctx, stats):
    reproduced = {}
    regress = []
    for fid, (case, cfg) in finding_cases().items():
        if fid in FIXED:
            regress.append(case)
            continue
        cp = ctx.path(f"kf_{fid}.cases.ndjson")
        vlib.write_ndjson(cp, [case])
        tp = ctx.path(f"kf_{fid}.trace.ndjson")
        vlib.run_bin("bm25_driver", ["replay", "--in", cp, "--out", tp], timeout=120)
        seen = validate(ctx, vlib.read_ndjson(tp), f"kf_{fid}", cfg=cfg, max_rounds=1)
        reproduced[fid] = bool(seen.get(fid))
        for other in seen:
            if other != fid:
                log(f"[kf] {fid}: additionally rejected as {other}")
    if regress:
        # repaired findings: their cases are ordinary cases of the default run (strict judge if F17 is repaired)
        cp = ctx.path("regress.cases.ndjson")
        vlib.write_ndjson(cp, regress)
        tp = ctx.path("regress.trace.ndjson")
        vlib.run_bin("bm25_driver", ["replay", "--in", cp, "--out", tp], timeout=120)
        before = ctx.cov["traces_validated_against_impl"]
        validate(ctx, vlib.read_ndjson(tp), "regress", stats=stats)
        log(f"[regress] {len(regress)} regression cases of repaired findings, {ctx.cov['traces_validated_against_impl'] - before} accepted")
    ctx.cov["findings_fixed"] = sorted(FIXED)
    ctx.cov["finding_reproduction"] = reproduced
    log(f"[kf] open findings reproduced: {reproduced}; treated as fixed: {sorted(FIXED)}")


# ---------------------------------------------------------------------------------------------
# binding self-test
# ---------------------------------------------------------------------------------------------
def binding_selftest(ctx, events, big_events=None):
    """corrupt one logged field of an accepted trace: TLC must reject every variant"""
    header, cases = split_cases(norm_events(events))
    picked = []
    for c in cases:
        qs = [e for e in c if e["ev"] == "query" and e["runs"][0]["hits"] and e["runs"][0]["tops"]
              and any(leaves(h["term"]) == 1 for h in e["runs"][0]["hits"])]
        if qs and not c[0]["dels"] and len(c[0]["docs"]) >= 2 and all(e["ev"] in ("reset", "index", "query") for e in c) \
                and any(e["ev"] == "index" and e["ix"] == "merged" for e in c) \
                and any(e["ev"] == "query" and len(e["runs"]) == 3 and any(leaves(h["term"]) == 1 for h in e["runs"][2]["hits"]) for e in c):
            picked.append(c)
        if len(picked) == 2:
            break
    if not picked:
        raise vlib.ToolError("binding self-test: no suitable accepted case")

    def cross_hit(e):
        """a hit of the many-segment run whose term has two bm25 leaves with different field-norm ids and statistics"""
        if e["ev"] != "query" or not e["runs"][0]["tops"]:
            return None
        for h in e["runs"][0]["hits"]:
            t = h["term"]
            if t["k"] == "sum" and len(t["args"]) == 2 and all(a["k"] == "bm25" for a in t["args"]) and t["args"][0]["fn"] != t["args"][1]["fn"]:
                return h
        return None

    cross_case = next((c for c in cases if len(c[0].get("fields", [])) > 1 and all(e["ev"] in ("reset", "index", "query") for e in c)
                       and any(cross_hit(e) for e in c)), None)
    if cross_case is None:
        if not ctx.violations:
            raise vlib.ToolError("binding self-test: no accepted multi-field case with a cross-field hit")
    else:
        picked.append(cross_case)
    base = header + [e for c in picked for e in c]

    def m_cross_fieldnorm(tr):
        h = next(cross_hit(e) for e in tr if cross_hit(e))
        a, b = h["term"]["args"]
        a["fn"], b["fn"] = b["fn"], a["fn"]

    def m_cross_topdocs(tr):
        e = next(e for e in tr if cross_hit(e))
        h = cross_hit(e)
        for t in e["runs"][0]["tops"]:
            for x in t["res"]:
                if x["doc"] == h["doc"]:
                    x["s"]["hi"] += 1

    def m_field_tokens(tr):
        e = next(e for e in tr if e["ev"] == "query" and len(e["runs"][0]["T"]) > 1)
        e["runs"][0]["T"]["f2"] += 1

    def first_query(tr):
        for e in tr:
            if e["ev"] == "query" and e["runs"][0]["hits"] and e["runs"][0]["tops"] and any(leaves(h["term"]) == 1 for h in e["runs"][0]["hits"]):
                return e
        raise vlib.ToolError("binding self-test: no query event")

    def single_hit(e):
        return next(h for h in e["runs"][0]["hits"] if leaves(h["term"]) == 1)

    def leaf_of(t):
        return t if t["k"] in ("bm25", "const") else leaf_of(t["args"][0])

    def m_doc_freq(tr):
        df = first_query(tr)["runs"][0]["df"]
        df[sorted(df)[0]]["a"] += 1

    def m_score_word(tr):
        single_hit(first_query(tr))["coll"]["lo"] ^= 1

    def m_topdocs_score(tr):
        run = first_query(tr)["runs"][0]
        next(x for x in run["tops"][-1]["res"] if leaves(run["hits"][x["i"] - 1]["term"]) == 1)["s"]["lo"] ^= 1

    def m_total_tokens(tr):
        t = next(e for e in tr if e["ev"] == "index")["segs"][0]["T"]
        t[sorted(t)[-1]] += 1

    def m_term_stat(tr):
        h = first_query(tr)["runs"][0]["hits"][0]
        t = leaf_of(h["term"])
        if t["k"] == "bm25":
            t["N"] += 1
        else:
            t["boosts"].append([16384, 0])

    def m_hit_dropped(tr):
        first_query(tr)["runs"][1]["hits"].pop()

    def m_fieldnorm(tr):
        seg = next(e for e in tr if e["ev"] == "index")["segs"][0]
        seg["fnids"][sorted(seg["fnids"])[-1]][0] += 1

    def m_kernel(tr):
        single_hit(first_query(tr))["kernel"]["hi"] += 1

    def merged_index(tr):
        return next(e for e in tr if e["ev"] == "index" and e["ix"] == "merged")

    def m_merged_total_tokens(tr):
        t = next(sg for sg in merged_index(tr)["segs"] if sg.get("merged"))["T"]
        t[sorted(t)[-1]] -= 1

    def m_merged_doc_freq(tr):
        df = next(sg for sg in merged_index(tr)["segs"] if sg.get("merged"))["df"]
        df[sorted(df)[0]]["a"] += 1

    def m_merged_score(tr):
        e = next(e for e in tr if e["ev"] == "query" and len(e["runs"]) == 3 and any(leaves(h["term"]) == 1 for h in e["runs"][2]["hits"]))
        h = next(h for h in e["runs"][2]["hits"] if leaves(h["term"]) == 1)
        for k in ("coll", "kernel", "expl"):
            if k in h:
                h[k]["lo"] ^= 1
        for t in e["runs"][2]["tops"]:
            for x in t["res"]:
                if x["doc"] == h["doc"]:
                    x["s"]["lo"] ^= 1

    def m_single_segment_score(tr):
        e = first_query(tr)
        h = next(h for h in e["runs"][1]["hits"] if leaves(h["term"]) == 1)
        for k in ("coll", "kernel"):
            h[k]["lo"] ^= 1
        if "expl" in h:
            h["expl"]["lo"] ^= 1
        for t in e["runs"][1]["tops"]:
            for x in t["res"]:
                if x["doc"] == h["doc"]:
                    x["s"]["lo"] ^= 1

    results = {}
    p0 = ctx.path("selftest_base.ndjson")
    vlib.write_ndjson(p0, base)
    r0 = vlib.run_tlc(MODULE, DEFAULT_CFG, workers=1, timeout=120, trace=p0, deque=True, heap="2g")
    if not r0.ok:
        if ctx.violations:
            ctx.cov["binding_selftest"] = {"skipped": "the base trace contains a reported violation"}
            return
        raise vlib.ToolError("binding self-test: the uncorrupted base trace is not accepted")
    for name, mut in ((("doc_freq_changed", m_doc_freq), ("score_word_flipped", m_score_word), ("topdocs_score_flipped", m_topdocs_score),
                      ("segment_total_tokens_changed", m_total_tokens), ("kernel_term_statistic_changed", m_term_stat),
                      ("hit_dropped", m_hit_dropped), ("fieldnorm_id_changed", m_fieldnorm), ("kernel_score_changed", m_kernel),
                      ("one_segment_index_scores_flipped", m_single_segment_score), ("merged_total_tokens_changed", m_merged_total_tokens),
                      ("merged_doc_freq_changed", m_merged_doc_freq), ("merged_index_scores_flipped", m_merged_score))
                      + ((("cross_field_leaf_fieldnorms_swapped", m_cross_fieldnorm), ("cross_field_topdocs_score_changed", m_cross_topdocs),
                         ("field_total_tokens_changed", m_field_tokens)) if cross_case else ())):
        tr = json.loads(json.dumps(base))
        mut(tr)
        p = ctx.path(f"selftest_{name}.ndjson")
        vlib.write_ndjson(p, tr)
        r = vlib.run_tlc(MODULE, DEFAULT_CFG, workers=1, timeout=120, trace=p, deque=True, heap="2g")
        results[name] = "rejected" if (not r.ok and rejected_line(r) is not None) else "ACCEPTED"
    if big_events is not None:
        big_selftest(ctx, big_events, results)
    ctx.cov["binding_selftest"] = results
    bad = [k for k, v in results.items() if v != "rejected"]
    if bad:
        raise vlib.ToolError(f"binding self-test: corrupted traces accepted by {MODULE}: {bad}")


# ---------------------------------------------------------------------------------------------
def new_stats():
    return {"queries": 0, "hits": 0, "hits_single_clause": 0, "hits_multi_clause": 0, "explain_compared": 0,
            "topdocs_scores_compared": 0, "segmentation_compared": 0, "cases_with_several_segments": 0,
            "merges": 0, "merges_by_number_of_segments": {}, "merges_leaving_other_segments": 0, "merges_after_deletes": 0,
            "merges_exact_T_with_non_table_lengths": 0, "merged_evaluations": 0, "merged_hits": 0,
            "cross_field_queries": 0, "cross_field_conjunctions_of_terms": 0, "cross_field_hits": 0, "cross_field_topdocs_scores": 0,
            "big_cases": 0, "big_queries": 0, "big_largest_segment": 0, "big_segments_over_4096": 0, "big_matching_documents": 0,
            "big_sampled_hits": 0, "big_score_histograms": 0, "big_sampled_hits_beyond_first_window": 0,
            "big_dismax_hits_beyond_first_window": 0, "seek_cases": 0, "seek_queries_required_over_union": 0,
            "seek_hits_beyond_first_window": 0,
            "cases_with_deleted_documents": 0, "fnids": set()}


def run(ctx):
    ctx.cov["rule"] = ("a case = one corpus (documents, cut into segments, optional deletes) indexed as many segments, as one segment, and as many segments "
                       "of which a chosen set is then merged (IndexWriter::merge(..).wait()), plus "
                       "its queries; an evaluation = one query executed on one corpus (all observation paths, both indexes) and accepted by "
                       "the TLC judge; distinct = distinct (documents, cuts, deletes, query tree incl. float constants); non-trivial = the "
                       "query matches at least one living document and the searcher holds >= 2 documents (so idf / average length are not "
                       "degenerate). Model-checking states are counted separately (states / transitions).")
    ctx.assumptions += [
        "TLC and the Json community module are trusted",
        "the f32 kernel of bm25_driver.rs (idf, weight, tf factor, sum / dis-max combination in clause order; ~40 lines mirroring src/query/bm25.rs "
        "and score_combiner.rs) is trusted: TLA+ has no floating point; TLC checks that the kernel was fed exactly the symbolic term of the "
        "specification with the integers the corpus implies, and compares bit patterns",
        "several scoring clauses: scores are compared within Tol(term) = 4*(clauses+boosts) ulps (x4 under a dis-max), the property's "
        "'up to floating-point rounding of the sum'",
        "merge: without deletes total_num_tokens of the merged segment must be the exact token count and every score bit (collector, TopDocs, "
        "explain) must equal the un-merged and the one-segment index, except that a sum / dis-max over >= 3 matching clauses is compared within "
        "the rounding bound (the addition order depends on the segment: BufferedUnionScorer swap-removes exhausted scorers, Intersection sorts "
        "by cost, block-WAND by current doc); with deletes in a source segment merger.rs documents an approximation by the fieldnorm, so the "
        "judge demands quantised living tokens <= T <= exact living tokens, and N, n(t) exactly those of the living documents",
        "the harness maps a hit to its corpus document through the fast field `id`; tf / positions / field-norm ids are read from the segment readers",
        "while F17 / F19 are open the default runs steer around them: boosted explain is compared within the rounding bound (bit-exact only in "
        "the dedicated F17 run) and a top-level dis-max over term queries is not sent through TopDocs; once known_findings.json lists them as "
        "fixed (or C12_ASSUME_FIXED) the steering is off, the strict judge is used everywhere and their cases are regression cases",
    ]
    stats = new_stats()
    model_checking(ctx)
    ev = replay_generated(ctx, stats)
    ev2 = random_cases(ctx, 30 if ctx.quick else 600, ctx.seed, stats)
    if not ctx.quick:
        random_cases(ctx, 600, ctx.seed + 1000, stats, label="rand2")
        random_cases(ctx, 80, ctx.seed + 2000, stats, label="rand_big", extra=["--bigpads"])
    merge_cases(ctx, stats)
    ev_big = big_cases(ctx, 4 if ctx.quick else 40, stats)
    known_finding_runs(ctx, stats)
    binding_selftest(ctx, ev, ev_big)
    stats.pop("_table", None)
    stats["fieldnorm_ids_covered"] = len(stats["fnids"])
    stats["fnids"] = sorted(stats["fnids"])
    ctx.cov["observations"] = stats
    if ctx.violations:        # the coverage gates below are about clean runs
        return finish_samples(ctx, ev2)
    if stats["topdocs_scores_compared"] == 0 or stats["explain_compared"] == 0 or stats["hits_multi_clause"] == 0:
        raise vlib.ToolError("an observation path was never compared (TopDocs / explain / several clauses)")
    if not stats["big_dismax_hits_beyond_first_window"] or not stats["big_segments_over_4096"] or not stats["seek_hits_beyond_first_window"]:
        raise vlib.ToolError("big family: no dis-max hit beyond the first 4096-document window was observed")
    if not stats["cross_field_conjunctions_of_terms"] or not stats["cross_field_topdocs_scores"]:
        raise vlib.ToolError("no cross-field conjunction with hits in different field-norm buckets went through TopDocs")
    by_n = stats["merges_by_number_of_segments"]
    if not all(by_n.get(k) for k in ("2", "3", "4")) or not stats["merges_after_deletes"] or not stats["merges_leaving_other_segments"] \
            or not stats["merges_exact_T_with_non_table_lengths"]:
        raise vlib.ToolError(f"merge coverage incomplete: {by_n}, after deletes {stats['merges_after_deletes']}")
    finish_samples(ctx, ev2)


def finish_samples(ctx, ev2):
    """a sample of what was executed and judged"""
    _, cases = split_cases(norm_events(ev2))
    for c in cases:
        q = next((e for e in c if e["ev"] == "query" and e["runs"][0]["hits"] and leaves(e["runs"][0]["hits"][0]["term"]) > 1), None)
        if q:
            h = q["runs"][0]["hits"][0]
            ctx.sample({"kind": "random case: one judged observation", "docs": c[0]["docs"][:6], "cuts": c[0]["cuts"], "dels": c[0]["dels"],
                        "query": q["q"], "searcher_stats": {k: q["runs"][0][k] for k in ("N", "T", "df")},
                        "hit": {"doc": h["doc"], "fnid": h["fnid"], "term": h["term"], "kernel": f32(h["kernel"]), "collector": f32(h["coll"]),
                                "explain": f32(h["expl"]) if "expl" in h else None,
                                "one_segment_index": f32(q["runs"][1]["hits"][0]["coll"])}})
            break


def replay(ctx, path):
    """re-validate stored traces (the verdict is a property of the trace); *.strict.ndjson use the strict judge"""
    files = sorted(os.path.join(path, f) for f in os.listdir(path) if f.endswith(".ndjson")) if os.path.isdir(path) else [path]
    for f in files:
        validate(ctx, vlib.read_ndjson(f), "replay-" + os.path.basename(f)[:40], cfg=CFG_STRICT if ".strict." in os.path.basename(f) else None)
