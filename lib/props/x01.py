"""X01 - the log merge policy and the merge loop it drives (NOT one of the listed properties: part of
the specification of the system's behaviour; registered nowhere in MANIFEST.json).
M: MergePolicy.tla: LogMergePolicy::compute_merge_candidates as a function of the segment metas
   (eligible segments, stable sort by max_doc, levels by the log-size rule written on integers,
   level kept if it has min_num_segments members or a member above the deletes ratio), and the merge
   loop (add segment / delete documents / merge a candidate).  Invariants: candidates are disjoint,
   eligible, justified, levels partition the eligible segments and are tight; a merge conserves
   the live documents and lowers a measure (the loop comes to rest) for min_num_segments >= 2; the
   configuration with min_num_segments = 1 must violate MergeProgress (a level of one segment
   without deletes is a candidate for ever - the behaviour behind upstream issue 1035).
R/T: Gen_MergePolicy draws policies and segment lists; policy_driver builds them in a real index,
   asks the real LogMergePolicy, lets a real writer merge until it comes to rest; MergePolicyTrace
   judges candidates (equal to the specification's) and the settled state (no candidate left, same
   live documents, changed iff there was a candidate)."""
import json

import vlib
from vlib import log
from props import _fid

LEVEL = "model_checking"


def run(ctx):
    ctx.cov["rule"] = ("a case is one (policy, segment list) pair executed on the real LogMergePolicy and a real writer, or one model state; "
                       "distinct = distinct pair; non-trivial = the policy returns at least one candidate")
    ctx.assumptions += ["sizes <= 40 documents and level_log_size in quarters that are not whole numbers: the integer form of the log-size rule is then exact (no floating-point ties)"]
    deep = "" if ctx.quick else "_deep"
    for P in ("A", "B", "C"):
        vlib.mc_check(ctx, "MC_MergePolicy", f"MergePolicy_{P}{deep}.cfg", timeout=1200, workers=4)
    vlib.mc_check(ctx, "MC_MergePolicy", "MergePolicy_neg.cfg", expect_violation="MergeProgress", timeout=120, workers=2)
    cases = _fid.tlc_cases(ctx, "Gen_MergePolicy", "Gen_MergePolicy.cfg", simulate=400 if ctx.quick else 6000, depth=10, seed=ctx.seed, timeout=600)
    if len(cases) < 100:
        raise vlib.ToolError("Gen_MergePolicy produced too few cases")
    cp, tp = ctx.path("cases.ndjson"), ctx.path("policy.ndjson")
    vlib.write_ndjson(cp, cases)
    vlib.run_bin("policy_driver", ["run", "--in", cp, "--out", tp], timeout=1800)
    ev = vlib.read_ndjson(tp)
    ev = [{k: v for k, v in e.items() if k in ("ev", "p", "segs", "cands", "before", "after")} for e in ev]
    npol = sum(1 for e in ev if e["ev"] == "policy")
    nc = sum(1 for e in ev if e["ev"] == "policy" and e["cands"])
    nset = sum(1 for e in ev if e["ev"] == "settled")
    nmerged = sum(1 for e in ev if e["ev"] == "settled" and e["before"] != e["after"])
    for e in ev:
        if e["ev"] == "policy":
            ctx.distinct(json.dumps([e["p"], e["segs"]]), bool(e["cands"]))
    vp = ctx.path("policy.judged.ndjson")
    vlib.write_ndjson(vp, ev)
    ok, r = vlib.validate_trace(ctx, "MergePolicyTrace", "MergePolicyTrace.cfg", vp, name="policy", timeout=600)
    if not ok:
        line = int(r.rejected[0][0]) if r.rejected else 1
        ctx.violation(f"MergePolicyTrace: first unexplained event: {r.rejected[0][1][:1500] if r.rejected else r.out[-1500:]}", [vp], json.dumps(ev[max(0, line - 1)])[:3000])
    else:
        ctx.cov["traces_validated_against_impl"] += 1
    # binding self-test: one candidate dropped from one recorded answer / one settled state replaced by its start
    import copy
    bad1 = copy.deepcopy(ev)
    e1 = next(e for e in bad1 if e["ev"] == "policy" and e["cands"])
    e1["cands"] = e1["cands"][1:]
    bad2 = copy.deepcopy(ev)
    e2 = next((e for e in bad2 if e["ev"] == "settled" and e["before"] != e["after"]), None)
    rejected = []
    for tag, bad in (("dropped_candidate", bad1), ("document_count_changed", bad2)):
        if tag == "document_count_changed":
            if e2 is None:
                continue
            e2["after"][0]["maxdoc"] += 1      # a document appears from nowhere
        bp = ctx.path(f"policy.{tag}.ndjson")
        vlib.write_ndjson(bp, bad)
        okb, _ = vlib.validate_trace(ctx, "MergePolicyTrace", "MergePolicyTrace.cfg", bp, name=f"selftest_{tag}", timeout=600)
        rejected.append((tag, not okb))
    ctx.cov["binding_selftest"] = {t: ("rejected as required" if x else "ACCEPTED") for t, x in rejected}
    if not all(x for _, x in rejected):
        raise vlib.ToolError(f"binding self-test: a corrupted trace was accepted: {rejected}")
    ctx.cov["policy_cases"] = {"cases": npol, "with_candidates": nc, "settled": nset, "settled_after_merging": nmerged}
    log(f"[R/T] {npol} generated cases on the real LogMergePolicy ({nc} with candidates), {nset} merge loops run to rest ({nmerged} merged something): {'accepted' if ok else 'REJECTED'}")
    if nc == 0 or nmerged == 0:
        raise vlib.ToolError("no case with a merge candidate was generated")
    ctx.sample({"kind": "policy case", "event": next(e for e in ev if e["ev"] == "policy" and e["cands"])})


def replay(ctx, path):
    import os
    for f in sorted(os.listdir(path)):
        if f.endswith(".ndjson"):
            ok, r = vlib.validate_trace(ctx, "MergePolicyTrace", "MergePolicyTrace.cfg", os.path.join(path, f), name="replay")
            if not ok:
                ctx.violation("MergePolicyTrace rejects the replayed run", [os.path.join(path, f)])
