"""C18 - at most one writer per index; the lock follows the writer's lifetime.
M: WriterLock model checked by TLC: every lifecycle of <= 7 user operations, creation rounds of
   up to 4 racing threads with every interleaving of lock acquisition and constructor (RaceLemma),
   negative configurations (failed construction keeps the lock, rollback drops the guard, a failed
   rollback gives the guard away, check-then-create acquisition) must fail.
R: lifecycles printed by TLC (Gen_WriterLock) executed by lock_driver on the real code, on
   SimDir (lock file through the default acquire_lock), RamDirectory and MmapDirectory (flock):
   creation on two Index handles and from spawned threads, races behind a barrier, rollback with
   a concurrent intruder, rollback that fails (injected read fault, SimDir), worker death
   (unindexable document / injected write fault), zero threads through both entry points, drop, wait.
T: every recorded run is judged by TLC against spec/WriterLockTrace.tla (results, who can still
   add + commit, existence of the lock file); plus the lock observations inside C02-style random
   histories (CoreTrace: new_writer fails iff a writer exists, no lock file after drop / wait)."""
import json
import os
import random
import re

import tracecheck
import vlib
from vlib import log
from props import c02

LEVEL = "model_checking"

DIRS = ["sim", "ram", "mmap"]


def clean(events):
    out = []
    for e in events:
        e = vlib.strip_nulls(e)
        e.pop("seq", None)
        e.pop("th", None)
        e.pop("intr_tries", None)      # timing dependent, never judged
        out.append(e)
    return out


def run_key(run):
    return json.dumps([run[0].get("dir")] + [[e["ev"], e.get("hs"), e.get("bad"), e.get("res"), e.get("w"), e.get("how"), e.get("contend")]
                                             for e in run[1:] if e["ev"] != "end"])


def nontrivial(run):
    evs = [e["ev"] for e in run]
    won = any(e["ev"] == "race" and "ok" in e["res"] for e in run[:-6])
    return won and any(x in evs[:-6] for x in ("rollback", "kill", "wait", "drop"))


def model_checking(ctx):
    vlib.mc_check(ctx, "MC_WriterLock", "MC_WriterLock.cfg", timeout=300, workers=4, coverage=True, heap="4g")
    vlib.mc_check(ctx, "MC_WriterLock", "MC_WriterLock_t3.cfg", timeout=300, workers=4, heap="4g")
    if not ctx.quick:
        vlib.mc_check(ctx, "MC_WriterLock", "MC_WriterLock_t4.cfg", timeout=600, workers=6, heap="6g")
    for cfg, inv in (("MC_WriterLock_negctor.cfg", "LockFreeIffNoWriter"), ("MC_WriterLock_negroll.cfg", "AtMostOneWriter"),
                     ("MC_WriterLock_negrace.cfg", "RaceLemma"), ("MC_WriterLock_reach.cfg", "ReachTwoAttemptsOneWinner"),
                     # the code before the repair of rollback: a failed rollback gave the guard away -> two writer objects
                     ("MC_WriterLock_negfailroll.cfg", "AtMostOneWriter")):
        vlib.mc_check(ctx, "MC_WriterLock", cfg, expect_violation=inv, timeout=120, workers=2, heap="2g")
    r = ctx.cov["tlc_runs"][0]
    ctx.cov["model"] = f"all lifecycles <= 7 operations, 2 handles, 2 racing threads: {r['distinct']} states; 3 threads <= 5 operations; negative configurations fail as required"


def gen_lifecycles(ctx, n, max_race, max_steps, seed):
    cfg = open(os.path.join(vlib.SPEC, "Gen_WriterLock.cfg")).read()
    cfg = cfg.replace("MaxRace = 4", f"MaxRace = {max_race}").replace("MaxSteps = 7", f"MaxSteps = {max_steps}")
    name = f"Gen_WriterLock_{ctx.prop}_{os.getpid()}.cfg"
    open(os.path.join(vlib.SPEC, name), "w").write(cfg)
    try:
        r = vlib.run_tlc("Gen_WriterLock", name, workers=1, timeout=300, simulate=n, depth=max_steps + 4, extra=["-seed", str(seed)], heap="2g")
    finally:
        os.remove(os.path.join(vlib.SPEC, name))
    ctx.add_tlc(f"Gen_WriterLock(race<={max_race})", r, kind="generator")
    if r.violated or r.tool_error:
        log(r.out[-3000:])
        raise vlib.ToolError("Gen_WriterLock failed")
    out, seen = [], set()
    for m in re.finditer(r'<<"CASE", "(.*)">>', r.out):
        s = m.group(1).encode().decode("unicode_escape")
        if s not in seen:
            seen.add(s)
            out.append(json.loads(s))
    return out


def C(h="A", bad="none", spawn=False):
    return {"op": "race", "hs": [h], "bad": [bad], "spawn": spawn}


def fixed_tour():
    """the hand-written full tour (every operation kind, both handles, every failure kind)"""
    R = lambda w, c=False: {"op": "rollback", "w": w, "contend": c}
    return [
        [C("A"), C("B"), C("A"), C("B", "budget"), R(1, True), C("B"), {"op": "drop", "w": 1}, C("B"), C("A"), {"op": "wait", "w": 2}, C("A", spawn=True), C("B", spawn=True)],
        [C("A", "budget"), C("A", "threads0"), C("B", "toobig"), C("B"), {"op": "kill", "w": 1, "how": "schema"}, C("A"), R(1), C("A"), {"op": "kill", "w": 1, "how": "fault"},
         {"op": "drop", "w": 1}, C("A")],
        [{"op": "race", "hs": ["A", "B"], "bad": ["none", "none"]}, {"op": "race", "hs": ["A", "B", "A"], "bad": ["none", "none", "none"]}, {"op": "drop", "w": 1},
         {"op": "race", "hs": ["A", "A", "B", "B"], "bad": ["none", "none", "none", "none"]}, R(2, True), {"op": "kill", "w": 2, "how": "fault"}, {"op": "wait", "w": 2},
         {"op": "race", "hs": ["B", "A", "B", "A"], "bad": ["budget", "none", "threads0", "none"]}],
        # rollback that fails (SimDir: injected read fault; elsewhere skipped): the writer object keeps the lock
        [C("A"), {"op": "failroll", "w": 1}, C("B"), R(1), C("B", spawn=True), {"op": "kill", "w": 1, "how": "fault"}, {"op": "failroll", "w": 1}, C("A"), R(1, True),
         {"op": "failroll", "w": 1}, {"op": "drop", "w": 1}, C("B")],
        # zero threads through both entry points, on a free and on a held lock
        [C("A", "threads0n"), C("B", "threads0"), C("A"), C("B", "threads0n"), C("A", "threads0n", spawn=True), {"op": "wait", "w": 1}, C("B", "threads0n")],
        [C("B"), {"op": "kill", "w": 1, "how": "schema"}, {"op": "wait", "w": 1}, C("A"), {"op": "kill", "w": 2, "how": "fault"}, R(2, True), {"op": "kill", "w": 2, "how": "schema"},
         R(2), R(2), {"op": "drop", "w": 2}],
    ]


def execute(ctx, cases, label, dirs=DIRS, timeout=900):
    """run the cases on every directory kind; the kinds (and, for the slower MmapDirectory, three
    slices of the cases) run as parallel processes"""
    from concurrent.futures import ThreadPoolExecutor
    jobs = []
    for d in dirs:
        k = 3 if d == "mmap" and len(cases) >= 30 else 1
        for j in range(k):
            part = [(i, ops) for i, ops in enumerate(cases) if i % k == j]
            cp, tp = ctx.path(f"{label}_{d}{j}_cases.ndjson"), ctx.path(f"{label}_{d}{j}_trace.ndjson")
            vlib.write_ndjson(cp, [{"id": i, "ops": ops} for i, ops in part])
            jobs.append((d, cp, tp))
    with ThreadPoolExecutor(max_workers=len(jobs)) as ex:
        list(ex.map(lambda j: vlib.run_bin("lock_driver", ["run", "--in", j[1], "--out", j[2], "--dirs", j[0]], timeout=timeout), jobs))
    runs = []
    for _, _, tp in jobs:
        runs += vlib.split_runs(clean(vlib.read_ndjson(tp)))
    return runs


def judge(ctx, runs, label):
    n = tracecheck.validate_runs(ctx, runs, label, "WriterLockTrace", "WriterLockTrace.cfg", key=run_key, nontrivial=nontrivial, timeout=600)
    ctx.cov["traces_validated_against_impl"] += n
    return n


def tally(ctx, runs):
    t = ctx.cov.setdefault("observed", {"creations_ok": 0, "creations_LockBusy": 0, "creations_InvalidArgument": 0, "rounds_of_2_to_4_threads": 0,
                                        "rounds_with_exactly_one_winner": 0, "rollbacks": 0, "rollbacks_with_intruder_thread": 0, "worker_deaths": 0,
                                        "drops": 0, "waits": 0, "skips": 0, "failed_rollbacks": 0, "zero_thread_attempts": 0, "runs_per_dir": {}})
    for r in runs:
        d = r[0].get("dir")
        t["runs_per_dir"][d] = t["runs_per_dir"].get(d, 0) + 1
        for e in r:
            if e["ev"] == "race":
                for x in e["res"]:
                    k = "creations_" + x
                    t[k] = t.get(k, 0) + 1
                t["zero_thread_attempts"] += sum(1 for b in e["bad"] if b.startswith("threads0"))
                if len(e["res"]) > 1:
                    t["rounds_of_2_to_4_threads"] += 1
                    t["rounds_with_exactly_one_winner"] += 1 if e["res"].count("ok") == 1 else 0
            elif e["ev"] == "rollback":
                t["rollbacks"] += 1
                t["rollbacks_with_intruder_thread"] += 1 if e.get("contend") else 0
            elif e["ev"] == "failroll":
                t["failed_rollbacks"] += 1 if e["res"] not in ("ok", "panic") else 0
            elif e["ev"] == "kill":
                t["worker_deaths"] += 1
            elif e["ev"] in ("drop", "wait", "skip"):
                t[e["ev"] + "s"] += 1


def core_lock_observations(ctx):
    """T: the lock observations inside ordinary writer histories (CoreTrace: new_writer fails iff a
    writer exists; no lock file after drop_writer / wait_merging_threads / at the end)"""
    rng = random.Random(ctx.seed)
    hs = []
    A = lambda i: {"op": "add", "id": i, "t": rng.choice("abc"), "v": i % 5}
    for k in range(12 if ctx.quick else 120):
        ops, nid, open_ = [], 1, True
        for _ in range(14):
            x = rng.random()
            if x < 0.3:
                ops.append(A(nid))
                nid += 1
            elif x < 0.45:
                ops.append({"op": "commit"})
            elif x < 0.6:
                ops.append({"op": "new_writer"})           # fails iff a writer exists
                open_ = True
            elif x < 0.75:
                ops.append({"op": "drop_writer"})
                open_ = False
            elif x < 0.85:
                ops.append({"op": "rollback"} if open_ else {"op": "new_writer"})
                open_ = True
            elif x < 0.92:
                ops.append({"op": "wait_merges"})
                open_ = False
            else:
                ops.append({"op": "del", "pred": {"k": "term", "t": rng.choice("abc")}} if nid > 1 and open_ and ops and ops[-1]["op"] == "add" else A(nid))
                nid += 1
        ops += [{"op": "new_writer"}, {"op": "commit"}]
        hs.append({"cfg": rng.choice(c02.CFGS), "ops": ops, "tag": k})
    hp, tp = ctx.path("core_hist.ndjson"), ctx.path("core_trace.ndjson")
    vlib.write_ndjson(hp, hs)
    vlib.run_bin("core_driver", ["replay", "--in", hp, "--out", tp, "--no-storage"], timeout=600)
    ev = vlib.read_ndjson(tp)
    n = c02.validate_runs(ctx, ev, "core")
    nw = [e for e in ev if e.get("ev") == "new_writer"]
    ctx.cov["core_histories"] = {"runs": len(hs), "accepted": n, "new_writer_ok": sum(1 for e in nw if e["ok"]), "new_writer_refused": sum(1 for e in nw if not e["ok"])}
    log(f"[T] {len(hs)} writer histories with re-opens judged by CoreTrace, {n} accepted")


def intruder_during_wait(ctx):
    """while the user thread is inside wait_merging_threads with a (gate-parked) merge still running,
    another thread tries to create a writer through a second Index instance: the lock must hold"""
    import tracecheck
    from props import c04
    gp = ctx.path("intruder.ndjson")
    vlib.run_bin("merge_driver", ["gated", "--only", "wait_with_intruder", "--seed", ctx.seed + 77, "--runs", 3 if ctx.quick else 30, "--out", gp], timeout=900)
    ev = vlib.read_ndjson(gp)
    runs = [r for r in c04.prep(ev) if any(e.get("ev") == "intruder_create" for e in r)]
    att = sum(1 for r in runs for e in r if e["ev"] == "intruder_create")
    n = tracecheck.validate_runs(ctx, runs, "intruder", "MergeTrace", "MergeTrace.cfg", key=lambda r: json.dumps(r[0].get("tag")), timeout=300)
    ctx.cov["traces_validated_against_impl"] += n
    ctx.cov["intruder_during_wait_merging_threads"] = {"runs": len(runs), "creation_attempts": att, "accepted": n}
    log(f"[R] writer creation attempted during wait_merging_threads (merge parked): {att} attempts in {len(runs)} runs, {n} accepted")
    # the writer is dropped while its merge thread is parked inside merge(): the lock goes with the writer
    # object (drop_writer must leave no lock file) and a new writer is created at once
    dp = ctx.path("drop_during_merge.ndjson")
    vlib.run_bin("merge_driver", ["gated", "--only", "drop_during_merge", "--seed", ctx.seed + 78, "--runs", 3 if ctx.quick else 30, "--out", dp], timeout=900)
    druns = c04.prep(vlib.read_ndjson(dp))
    n2 = tracecheck.validate_runs(ctx, druns, "drop_during_merge", "MergeTrace", "MergeTrace.cfg", key=lambda r: json.dumps(r[0].get("tag")), timeout=300)
    ctx.cov["traces_validated_against_impl"] += n2
    ctx.cov["drop_during_merge"] = {"runs": len(druns), "accepted": n2}
    log(f"[R] writer dropped while its merge thread is parked, new writer at once: {n2}/{len(druns)} runs accepted")
    # the writer handed over to a second Index instance that asked for it (from another thread) while the first still held the
    # lock: refused; a creation that reads meta.json / .managed.json BEFORE it holds the lock is parked there by the gate until the
    # first writer has committed again and is gone - the writer it then builds is stale (its commits discard the last one)
    from props import c02
    hp = ctx.path("handover.ndjson")
    vlib.run_bin("core_driver", ["gcrace", "--seed", ctx.seed + 79, "--runs", 0, "--manrace", 0, "--handover", 4 if ctx.quick else 40, "--out", hp], timeout=900)
    hev = vlib.read_ndjson(hp)
    nh = sum(1 for e in hev if e.get("ev") == "schedule" and e.get("realised"))
    n3 = c02.validate_runs(ctx, [e for e in hev if e.get("ev") != "schedule"], "handover_api")
    ctx.cov["traces_validated_against_impl"] += n3
    ctx.cov["writer_handover_between_instances"] = {"runs": nh, "accepted": n3}
    log(f"[R] writer handed over to a second instance that asked while the first held the lock: {nh} hand-overs, {n3} runs accepted by CoreTrace")
    if nh == 0:
        raise vlib.ToolError("the hand-over schedule was never realised")


def binding_selftest(ctx, runs):
    base = next((r for r in runs if r[0].get("dir") == "sim" and any(e["ev"] == "race" and e["res"] == ["LockBusy"] for e in r) and
                 any(e["ev"] == "rollback" for e in r)), None)
    if base is None:
        raise vlib.ToolError("binding self-test: no suitable run")

    def mutate(fn):
        c = json.loads(json.dumps(base))
        for e in c:
            if fn(e):
                return c
        return None

    def m_ok_to_busy(e):
        if e["ev"] == "race" and e["res"] == ["ok"]:
            e["res"], e["w"] = ["LockBusy"], [0]
            return True

    def m_busy_to_ok(e):
        if e["ev"] == "race" and e["res"] == ["LockBusy"]:
            e["res"], e["w"] = ["ok"], [9]
            return True

    def m_live(e):
        if e.get("live"):
            e["live"][0][1] = not e["live"][0][1]
            return True

    def m_lockfile(e):
        if e["ev"] == "drop":
            e["lockfile"] = True
            return True

    def m_intruder(e):
        if e["ev"] == "rollback":
            e["intr_ok"] = 1
            return True
    res = {}
    for name, fn in (("creation_ok_flipped_to_LockBusy", m_ok_to_busy), ("creation_LockBusy_flipped_to_ok", m_busy_to_ok), ("usable_probe_flipped", m_live),
                     ("lock_file_left_after_drop", m_lockfile), ("intruder_got_in_during_rollback", m_intruder)):
        c = mutate(fn)
        if c is None:
            continue
        p = ctx.path(f"selftest_{name}.ndjson")
        vlib.write_ndjson(p, c)
        r = vlib.run_tlc("WriterLockTrace", "WriterLockTrace.cfg", workers=1, timeout=120, trace=p, deque=True, heap="2g")
        res[name] = "rejected" if not r.ok and (r.rejected or r.violated) else "ACCEPTED"
    ctx.cov["binding_selftest"] = res
    if "ACCEPTED" in res.values() or len(res) < 4:
        raise vlib.ToolError(f"binding self-test: a corrupted trace was accepted by WriterLockTrace: {res}")


def run(ctx):
    ctx.cov["rule"] = ("a case is one writer lifecycle (sequence of creation rounds, rollbacks, worker deaths, drops, waits) executed on one directory kind "
                       "(or one TLC state for the model); distinct = distinct (directory kind, operations, results); non-trivial = a writer was created "
                       "and then rolled back, killed, dropped or waited for before the closing re-creation on both handles")
    ctx.assumptions += ["TLC and the Json community module are trusted",
                        "two Index handles of one process (for MmapDirectory two MmapDirectory objects, i.e. two open file descriptions for flock); a second process is not exercised",
                        "worker death is provoked by an unindexable document (every directory) or an injected write fault (SimDir)",
                        "the outcome of a racing round is judged by RaceOutcomeOK, proved against all interleavings of acquisition and constructor in MC_WriterLock (RaceLemma)"]
    model_checking(ctx)
    q = ctx.quick
    cases = fixed_tour()
    cases += gen_lifecycles(ctx, 90 if q else 1500, 1, 7, ctx.seed)
    cases += gen_lifecycles(ctx, 50 if q else 800, 4, 7, ctx.seed + 1)
    if not q:
        cases += gen_lifecycles(ctx, 400, 2, 12, ctx.seed + 2)
    runs = execute(ctx, cases, "gen", timeout=1500)
    tally(ctx, runs)
    n = judge(ctx, runs, "gen")
    log(f"[R] {len(cases)} lifecycles x {len(DIRS)} directory kinds = {len(runs)} runs on the real code, {n} accepted")
    core_lock_observations(ctx)
    binding_selftest(ctx, runs)
    ctx.sample({"kind": "TLC-generated lifecycle", "ops": cases[len(fixed_tour())]})
    r = next((r for r in runs if r[0].get("dir") == "mmap" and nontrivial(r)), runs[0])
    ctx.sample({"kind": "recorded run on MmapDirectory (flock)", "events": [{k: v for k, v in e.items() if k not in ("probe",)} for e in r[:10]]})
    intruder_during_wait(ctx)


def replay(ctx, path):
    """re-validate stored traces (the verdict is a property of the trace)"""
    files = [os.path.join(path, f) for f in sorted(os.listdir(path)) if f.endswith(".ndjson")] if os.path.isdir(path) else [path]
    for f in files:
        evs = vlib.read_ndjson(f)
        if evs and evs[0].get("ev") == "reset" and "dir" in evs[0]:
            tracecheck.validate_runs(ctx, vlib.split_runs(clean(evs)), "replay", "WriterLockTrace", "WriterLockTrace.cfg")
        else:
            c02.validate_runs(ctx, evs, "replay")
