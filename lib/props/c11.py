"""C11 - an I/O error never corrupts the index nor is silently swallowed.
M: FaultProto: how a worker / commit-task failure travels to the caller; KillGcProto: a task queued before the
   updater was killed must not collect (F55; dedicated gate-driven schedule `fault_driver killgc`); negative configuration
   (a dead writer that accepts work again = the repaired defect F5) must fail.
R/T: fault enumeration: for each of three workloads the storage operations of the fault-free run
   are counted; operation k fails (once / from k on, before or after taking effect) for every k
   (quick: stratified sample), under three recovery policies; lock-file creation/flush faults
   separately.  Each run is judged by TLC twice: FaultTrace.tla (errors have a cause, an Ok
   commit is complete, the last commit stays intact, a new writer works after the heal, no
   panic / hang) and StorageTrace.tla (CrashSafe / CrashDurable after every storage event)."""
import json

import storage_common as sc
import storage_events
import tracecheck
import vlib
from vlib import log
from props import c02

LEVEL = "model_checking"
EVS = c02.API_EVS | {"call", "heal", "panic", "hang", "summary", "reload"}


def api_runs(events):
    out = []
    for r in vlib.split_runs(events):
        o = []
        for e in r:
            if e.get("ev") == "st" and e.get("op") == "fault":
                o.append({"ev": "fault", "fop": e.get("fop"), "path": e.get("path"), "th": e.get("th")})
            elif e.get("ev") in EVS:
                o.append(vlib.strip_nulls(e))
        out.append(o)
    return out


def key(run):
    tag = run[0].get("tag", {})
    return json.dumps([tag.get("workload"), tag.get("k"), tag.get("permanent"), tag.get("policy"), tag.get("locks")])


def nontrivial(run):
    return any(e["ev"] == "fault" for e in run)


def run(ctx):
    ctx.level = "model_checking"
    ctx.cov["rule"] = ("a case is one run of a workload with storage operation k failing (once or permanently, before or after taking effect) under one "
                       "recovery policy; distinct = (workload, k, mode, policy); non-trivial = the fault actually fired")
    ctx.assumptions += ["faults are injected at the Directory boundary of SimDirectory (create, write, flush, terminate, atomic read/write, sync, delete, open)",
                        "lock files: only creation and flush faults (a failing unlink of a lock file is outside what a lock-file protocol can survive); MmapDirectory's flock is not exercised",
                        "a hang is a run longer than 8 s"]
    vlib.mc_check(ctx, "FaultProto", "FaultProto.cfg", timeout=120, workers=4, coverage=True)
    vlib.mc_check(ctx, "FaultProto", "FaultProto_negF5.cfg", expect_violation="OkCommitIsComplete", timeout=120, workers=4)
    if not ctx.quick:
        # six documents, three faults, pipeline of three, opstamps up to 5 (1,878,520 states, depth 19)
        vlib.mc_check(ctx, "FaultProto", "FaultProto_deep.cfg", timeout=900, workers=6)
        vlib.mc_check(ctx, "FaultProto", "FaultProto_deep_negF5.cfg", expect_violation="OkCommitIsComplete", timeout=300, workers=4)
    vlib.mc_check(ctx, "FaultProto", "FaultProto_negF40.cfg", expect_violation="DiskIsSomeCommit", timeout=120, workers=4)
    vlib.mc_check(ctx, "FaultProto", "FaultProto_negS21.cfg", expect_violation="NoStuckProducer", timeout=120, workers=4)
    # an end_merge task queued before the updater was killed (failed save_metas, rollback, drop) must not collect from its
    # registers: meta.json still names the sources with the newest delete file (finding F55, repaired)
    vlib.mc_check(ctx, "KillGcProto", "KillGcProto.cfg", timeout=120, workers=2)
    vlib.mc_check(ctx, "KillGcProto", "KillGcProto_negF55.cfg", expect_violation="DiskReadable", timeout=120, workers=2)
    if not ctx.quick:
        vlib.mc_check(ctx, "KillGcProto", "KillGcProto_deep.cfg", timeout=300, workers=2)   # nine commits: 1,617 states, depth 23
    vlib.mc_check(ctx, "StorageProto", "StorageProto_negF45.cfg", expect_violation="NoSpuriousFailure", timeout=120, workers=2)
    # a failed meta.json replacement at the storage level: active metas replaced before the durable write (seeded C11-s9)
    vlib.mc_check(ctx, "StorageProto", "StorageProto_negS11.cfg", expect_violation="NeverDeletesNeeded", timeout=300, workers=4)

    tp = ctx.path("faults.ndjson")
    vlib.run_bin("fault_driver", ["enum", "--seed", ctx.seed, "--points", 22 if ctx.quick else 100000, "--out", tp], timeout=3000)
    ev = vlib.read_ndjson(tp)
    lp = ctx.path("lockfaults.ndjson")
    vlib.run_bin("fault_driver", ["enum", "--seed", ctx.seed, "--points", 40 if ctx.quick else 100000, "--locks", "--out", lp], timeout=3000)
    ev += vlib.read_ndjson(lp)
    # dedicated reproduction of the recorded finding F40 (commit fails while saving the metas, the
    # writer is kept, a merge publishes the registers of the failed commit)
    fp = ctx.path("f40.ndjson")
    vlib.run_bin("fault_driver", ["f40", "--out", fp], timeout=120)
    ev += vlib.read_ndjson(fp)
    # dedicated reproduction of finding F55 (repaired): the directory gate parks the merge thread, releases it when the
    # commit task reaches its second sync_directory, waits until the end_merge task is queued behind it, then the sync
    # fails (KillGcProto: CommitFail(TRUE) with the merge "queued", then EndMergeTask)
    kp = ctx.path("killgc.ndjson")
    vlib.run_bin("fault_driver", ["killgc", "--out", kp], timeout=120)
    kev = vlib.read_ndjson(kp)
    ctx.cov["killgc_schedule_realised"] = any(e.get("ev") == "schedule" and e.get("realised") for e in kev)
    ev += kev
    # every transient fault in a publication step (meta.json / .managed.json replacement, directory
    # sync) of a workload that collects and reloads between its commits and its merge, writer kept
    pp = ctx.path("publish.ndjson")
    vlib.run_bin("fault_driver", ["publish", "--out", pp], timeout=600)
    ev += vlib.read_ndjson(pp)
    # every transient fault in a write / flush / terminate of a doc-store file with many blocks per segment
    # (the compressor thread's errors must reach the commit whatever block they hit)
    sp = ctx.path("storeblocks.ndjson")
    vlib.run_bin("fault_driver", ["storeblocks", "--out", sp], timeout=600)
    ev += vlib.read_ndjson(sp)
    # a commit that wrote a delete file fails in the meta.json replacement; after rollback / re-open the same
    # transaction is issued again (same opstamps, same delete-file name): it must succeed (F45)
    rp = ctx.path("reuse.ndjson")
    vlib.run_bin("fault_driver", ["reuse", "--out", rp], timeout=120)
    ev += vlib.read_ndjson(rp)
    # writers taking turns between two Index instances: every read of .managed.json fails once (a new writer re-reads
    # the list: the error has to reach the caller; a writer created with a stale list leaves orphans at the end)
    mrp = ctx.path("managedread.ndjson")
    vlib.run_bin("fault_driver", ["managedread", "--out", mrp], timeout=600)
    ev += vlib.read_ndjson(mrp)
    # the storage stalls under the indexing worker until the pipeline is full and add_document blocks, then fails:
    # the blocked call has to return (FaultProto: AddBlock / AddWake; a producer left waiting is a hang)
    stp = ctx.path("stall.ndjson")
    vlib.run_bin("fault_driver", ["stall", "--out", stp], timeout=300)
    sev = vlib.read_ndjson(stp)
    st = next((e for e in sev if e.get("ev") == "stall_state"), {})
    ctx.cov["stalled_worker_full_pipeline"] = {"producer_blocked": bool(st.get("producer_blocked")), "accepted_before_blocking": st.get("accepted"),
                                               "blocked_call_returned": any(e.get("ev") == "stall_result" for e in sev)}
    if not st.get("producer_blocked"):
        raise vlib.ToolError("stall scenario: the producer was never blocked on a full pipeline")
    ev += [e for e in sev if e.get("ev") not in ("stamp_drawn",)]
    pairs = [(a, r) for a, r in zip(api_runs(ev), vlib.split_runs(ev)) if any(e["ev"] != "summary" for e in a)]
    runs = [a for a, _ in pairs]
    raws = [r for _, r in pairs]     # every storage operation and hook event of the run: kept next to a rejected run
    fired = sum(1 for r in runs if nontrivial(r))
    n = tracecheck.validate_runs(ctx, runs, "faults", "FaultTrace", "FaultTrace.cfg", key=key, nontrivial=nontrivial, timeout=600, heap="6g", max_rounds=15, raw=raws)
    ctx.cov["traces_validated_against_impl"] += n
    ctx.cov["fault_runs"] = len(runs)
    ctx.cov["fault_runs_where_the_fault_fired"] = fired
    log(f"[R/T] {len(runs)} fault runs ({fired} with the fault fired), {n} accepted by FaultTrace")

    sruns = [storage_events.compact(r) for r in vlib.split_runs(ev)]
    sruns = [r for r in sruns if r]
    # the quiescent end of a fault run (storage healed, new writer, commit, collections until nothing is left to
    # delete) is judged here too: exactly the committed files are left and the managed list matches them - a failed
    # delete must leave the file managed, so that a later collection removes it (mechanism 4 of the property)
    owns = lambda why, evt, r: sc.owns_c01(why, evt, r) or (bool(r.rejected) and evt.get("e") == "end")
    n2 = tracecheck.validate_runs(ctx, sruns, "faults_storage", "StorageTrace", "StorageTrace_crash.cfg", owns=owns, key=sc.storage_key, timeout=600, max_rounds=15)
    log(f"[T] {len(sruns)} storage traces of fault runs, {n2} accepted by StorageTrace (crash invariants after every event)")
    ctx.cov["traces_validated_against_impl"] += n2
    f = next((r for r in runs if nontrivial(r)), None)
    if f:
        ctx.sample({"kind": "fault run (API events)", "tag": f[0].get("tag"), "events": [{k: v for k, v in e.items() if k not in ("obs", "seq", "th", "cfg", "tag")} for e in f[:30]]})


def replay(ctx, path):
    import os
    for f in sorted(os.listdir(path)):
        if f.endswith(".ndjson"):
            evs = vlib.read_ndjson(os.path.join(path, f))
            mod = ("StorageTrace", "StorageTrace.cfg") if evs and "e" in evs[0] else ("FaultTrace", "FaultTrace.cfg")
            tracecheck.validate_runs(ctx, [evs], "replay", mod[0], mod[1])
