"""C03 - queries match exactly the documents their logical meaning prescribes.
M: spec/QuerySem.tla - Match(q, d) for every query kind; the laws of the boolean query model checked on all
   queries of <= 3 clauses (+ nested leaves) over an abstract 8-document universe, for every
   minimum_number_should_match; negative configuration = defect F7 (single Should clause ignores msm).
R: TLC (Gen_QuerySem) enumerates those boolean queries; harness/query_driver runs them on the abstract universe
   concretised by stripes (r in {1,129,4097} real documents per abstract one, 1-3 segments, deletes, merge).
T: random query trees (all kinds) on rich corpora, three segmentations of the same documents, deletes.
Judge: spec/QuerySemTrace.tla - Count, Query::count, DocSetCollector, TopDocs (by score / by fast field), a scoring
   collector, MultiCollector and FilterCollector must all return {d live : Match(q, d)} computed from the logged corpus."""
import itertools
import json
import os
import re
import threading
from concurrent.futures import ThreadPoolExecutor

import vlib
from vlib import log

LEVEL = "model_checking"
_lock = threading.Lock()
_counter = itertools.count()

KF_BOOLRANGE = ("RangeQuery on a bool FAST field fails with InvalidArgument 'Expected term with u64, i64, f64 or date': the fast-field "
                "range path accepts the Bool type but cannot convert its bounds (the same range on a non-fast bool field works)")
KF_FUZZYPREFIX = ("FuzzyTermQuery::new_prefix with distance 2 is not closed under extension: a word whose proper prefix is within "
                  "distance 2 of the term is rejected when the whole word is farther (term 'aab': 'b' matches, 'bc' does not)")
# F33 / F34 are repaired in /repo; their texts are kept so that a regression is reported in the same words
KF_UNIONMEMBER = ("an Intersection probing a union (Should clauses / dismax) that has a phrase or an intersection as a member returns documents "
                  "that match no member: BufferedUnionScorer::seek_danger leaves a member that missed in the danger zone and later takes its "
                  "stale position (terms of the phrase present, phrase absent) for a match")
KF_SLOP3 = ("PhraseScorer::phrase_exists (scoring disabled) checks the last term of a phrase of three or more terms with the full slop "
            "and ignores the slop already spent: Count / DocSetCollector match documents that TopDocs by score (and the documented "
            "budget, \"A B C\"~1 does not match \"A X B X C\") reject")
KF_F64BOUND = ("RangeQuery with a non-integer f64 bound on an integer JSON fast-field column rounds the bound toward zero "
               "(transform_from_f64_bounds): the lower bound 1.5 admits the value 1, the upper bound -0.5 admits the value 0")
KF_IPEXCL = ("RangeQuery on an ip fast field with the upper bound Excluded(::) matches every document that has an address "
             "(u128 underflow in bound_range_inclusive_ip; a panic when overflow checks are on)")
KF_SLOP3SEG = ("a phrase of three or more terms with slop matches a document or not depending on the segment: PhraseScorer chains the "
               "terms in the cost order of Intersection::new (per-segment document frequencies), not in phrase order, so the greedy slop "
               "budget gives different answers for different segmentations of the same documents")
F7_TEXT = "a single Should clause with minimum_number_should_match >= 2 returns the clause's documents instead of nothing"


def qkinds(q, acc=None):
    acc = set() if acc is None else acc
    if isinstance(q, dict):
        if "k" in q:
            acc.add(q["k"])
        for v in q.values():
            qkinds(v, acc)
    elif isinstance(q, list):
        for v in q:
            qkinds(v, acc)
    return acc


def has_single_should_msm(q):
    if isinstance(q, dict):
        if q.get("k") == "bool" and len(q.get("cl", [])) == 1 and q["cl"][0]["o"] == "should" and q.get("msm", 0) >= 2:
            return True
        return any(has_single_should_msm(v) for v in q.values())
    if isinstance(q, list):
        return any(has_single_should_msm(v) for v in q)
    return False


def has_fuzzy_prefix2(q):
    if isinstance(q, dict):
        if q.get("k") == "fuzzy" and q.get("prefix") and q.get("d", 0) >= 2:
            return True
        return any(has_fuzzy_prefix2(v) for v in q.values())
    if isinstance(q, list):
        return any(has_fuzzy_prefix2(v) for v in q)
    return False


def may_be_intersection(q):
    k = q.get("k")
    if k == "bool":
        cl = q.get("cl", [])
        return any(c["o"] == "must" for c in cl) or q.get("msm", 0) >= 2 or any(c["o"] != "mustnot" and may_be_intersection(c["q"]) for c in cl)
    if k == "boost":
        return may_be_intersection(q["q"])
    if k == "dismax":
        return any(may_be_intersection(x) for x in q.get("qs", []))
    return False


def is_phrase_like(q):
    return q.get("k") in ("phrase", "pprefix", "rphrase") or (q.get("k") in ("boost", "const") and is_phrase_like(q["q"]))


def union_has_danger_member(q):
    """mirror of qlib::union_has_danger_member (only used to word a rejection)"""
    k = q.get("k")
    if k == "bool":
        cl = q.get("cl", [])
        return (any(union_has_danger_member(c["q"]) for c in cl)
                or any(c["o"] == "should" and (is_phrase_like(c["q"]) or may_be_intersection(c["q"])) for c in cl))
    if k == "dismax":
        return any(union_has_danger_member(x) for x in q.get("qs", [])) or any(is_phrase_like(x) or may_be_intersection(x) for x in q.get("qs", []))
    if k in ("boost", "const"):
        return union_has_danger_member(q["q"])
    return False


def has_ip_excl0(q):
    if isinstance(q, dict):
        if q.get("k") == "range" and q.get("f") == "ip" and q.get("hi", {}).get("b") == "ex" and q["hi"].get("v") == 0:
            return True
        return any(has_ip_excl0(v) for v in q.values())
    if isinstance(q, list):
        return any(has_ip_excl0(v) for v in q)
    return False


def has_bad_f64_bound(q):
    if isinstance(q, dict):
        if q.get("k") == "jrange":
            lo, hi = q.get("lo", {}), q.get("hi", {})
            return (lo.get("b") != "un" and lo.get("h", 0) > 0 and lo.get("h", 0) % 2 != 0) or (hi.get("b") != "un" and hi.get("h", 0) < 0 and hi.get("h", 0) % 2 != 0)
        return any(has_bad_f64_bound(v) for v in q.values())
    if isinstance(q, list):
        return any(has_bad_f64_bound(v) for v in q)
    return False


def classify(diag):
    if not isinstance(diag, dict) or "q" not in diag:
        return "C03: trace rejected: " + json.dumps(diag)[:300]
    q = diag["q"]
    path = diag.get("path", "?")
    got = diag.get("got", {})
    if union_has_danger_member(q) and may_be_intersection(q) and isinstance(got.get("count"), int) and got["count"] > diag.get("expected_count", 0):
        return "C03 query semantics: " + KF_UNIONMEMBER + f" [{path}]"
    if q.get("k") == "phrase" and len(q.get("ts", [])) >= 3 and q.get("slop", 0) > 0 and str(path).startswith("segmentation"):
        return "C03 query semantics: " + KF_SLOP3SEG
    if q.get("k") == "phrase" and len(q.get("ts", [])) >= 3 and q.get("slop", 0) > 0:
        return "C03 query semantics: " + KF_SLOP3 + f" [{path}]"
    if has_ip_excl0(q):
        return "C03 query semantics: " + KF_IPEXCL + f" [{path}]"
    if has_bad_f64_bound(q):
        return "C03 query semantics: " + KF_F64BOUND + f" [{path}]"
    if has_fuzzy_prefix2(q):
        return "C03 query semantics: " + KF_FUZZYPREFIX + f" [{path}]"
    if has_single_should_msm(q):
        return "C03 query semantics: " + F7_TEXT + f" [{path}]"
    return f"C03 query semantics: {path} does not return {{d live : Match(q, d)}} for a query of kinds {'/'.join(sorted(qkinds(q)))}"


def prepass(ctx, events, seen=None):
    """nothing is filtered: an "error" / "panic" event (a search that failed) goes to the judge, which has no action for it"""
    return [vlib.strip_nulls(e) for e in events]


def failure_text(diag):
    err = re.sub(r"\d+", "N", str(diag.get("err", "")))[:200]
    if diag.get("ev") == "panic":
        return "C03: panic during search: " + err
    if "Expected term with uN, iN, fN or date" in err and "Bool" in err:
        return "C03: " + KF_BOOLRANGE
    return "C03: search returned an error: " + err


def judge(ctx, path, name):
    tag = f"QuerySemTrace-{os.getpid()}-{threading.get_ident()}-{next(_counter)}"
    r = vlib.run_tlc("QuerySemTrace", "QuerySemTrace.cfg", workers=1, timeout=600, trace=path, deque=True, heap="6g", tag=tag)
    with _lock:
        ctx.add_tlc(name, r, kind="trace")
    if r.ok:
        return True, r
    if r.tool_error and not r.rejected and not r.violated:
        log(r.out[-4000:])
        raise vlib.ToolError(f"TLC failed while validating {path} with QuerySemTrace")
    return False, r


def count_good(ctx, good, ncorpus):
    n = 0
    for e in good:
        if e.get("ev") not in ("search", "ssearch"):
            continue
        res = e["res"] if isinstance(e["res"], list) else [e["res"]]
        n += len(res)
        c = res[0]["count"]
        for i in range(len(res)):
            ctx.distinct(json.dumps([e["q"], ncorpus, i], sort_keys=True), c > 0)
        for k in qkinds(e["q"]):
            ctx.cov["query_kinds"][k] = ctx.cov["query_kinds"].get(k, 0) + len(res)
    return n


def validate(ctx, events, label, seen=None):
    """every search event is independent given the corpus event: on a rejection report it, drop it, go on"""
    pending = prepass(ctx, events, seen)
    corpus = [e for e in pending if e.get("ev") in ("corpus", "scorpus")][:1]
    ncorpus = f"{label}"
    accepted = 0
    rounds = 0
    while pending and rounds < 10:
        rounds += 1
        path = ctx.path(f"{label}.{rounds}.ndjson")
        vlib.write_ndjson(path, pending)
        ok, r = judge(ctx, path, f"{label}.{rounds}")
        if ok:
            with _lock:
                accepted += count_good(ctx, pending, ncorpus)
            break
        if not r.rejected:
            log(r.out[-3000:])
            raise vlib.ToolError(f"QuerySemTrace failed on {path}")
        line = int(r.rejected[0][0])
        m = re.match(r'"(.*)"\s*$', r.rejected[0][1].strip())
        try:
            diag = json.loads(m.group(1).encode().decode("unicode_escape"))
        except Exception:
            diag = {"why": r.rejected[0][1][:500]}
        bad = pending[line - 1]
        if bad.get("ev") in ("corpus", "scorpus") or "q" not in diag:
            raise vlib.ToolError(f"QuerySemTrace rejected a non-search event of {path}: {json.dumps(diag)[:300]}")
        what = failure_text(diag) if diag.get("ev") in ("error", "panic") else classify(diag)
        rp = ctx.path(f"{label}.rejected.{rounds}.ndjson")
        vlib.write_ndjson(rp, [{"ev": "reset"}] + corpus + [bad])
        with _lock:
            n = ctx.cov["rejections_by_class"].get(what, 0)
            ctx.cov["rejections_by_class"][what] = n + 1
            if n < 3 and (seen is None or what not in seen):
                ctx.violation(what, [rp], json.dumps(diag, indent=0)[:3500])
            if seen is not None:
                seen.append(what)
            accepted += count_good(ctx, pending[:line - 1], ncorpus)
        pending = corpus + pending[line:]
    with _lock:
        ctx.cov["traces_validated_against_impl"] += accepted
    return accepted


def model_checking(ctx):
    vlib.mc_check(ctx, "MC_QuerySem", "MC_QuerySem_neg.cfg", expect_violation="MsmAboveShouldCountMatchesNothing", timeout=300, workers=4)
    r = vlib.mc_check(ctx, "MC_QuerySem", "MC_QuerySem.cfg", coverage=True, timeout=600, workers=6)
    if "Next" in r.coverage_zero_actions():
        raise vlib.ToolError("MC_QuerySem: Next never taken")
    vlib.mc_check(ctx, "MC_QuerySem", "MC_QuerySem_nested.cfg", timeout=600, workers=6)
    if not ctx.quick:
        vlib.mc_check(ctx, "MC_QuerySem", "MC_QuerySem_nested3.cfg", timeout=900, workers=6)
        vlib.mc_check(ctx, "MC_QuerySem", "MC_QuerySem_4.cfg", timeout=900, workers=6)


def gen_queries(ctx, maxclauses, nested):
    cfg = open(os.path.join(vlib.SPEC, "Gen_QuerySem.cfg")).read()
    cfg = re.sub(r"MaxClauses = \d+", f"MaxClauses = {maxclauses}", cfg)
    cfg = re.sub(r"UseNested = \w+", f"UseNested = {'TRUE' if nested else 'FALSE'}", cfg)
    name = f"Gen_QuerySem_{os.getpid()}_{maxclauses}_{int(nested)}.cfg"
    open(os.path.join(vlib.SPEC, name), "w").write(cfg)
    try:
        r = vlib.run_tlc("Gen_QuerySem", name, workers=4, timeout=300)
    finally:
        os.remove(os.path.join(vlib.SPEC, name))
    ctx.add_tlc(f"Gen_QuerySem(MaxClauses={maxclauses},nested={nested})", r, kind="generator")
    if r.tool_error or r.violated:
        log(r.out[-3000:])
        raise vlib.ToolError("Gen_QuerySem failed")
    cases = [json.loads(m.group(1).encode().decode("unicode_escape")) for m in re.finditer(r'<<"CASE", "(.*)">>', r.out)]
    if not cases:
        raise vlib.ToolError("Gen_QuerySem printed no query")
    return cases


def gen_msm_family(ctx):
    r = vlib.run_tlc("Gen_QuerySemMsm", "Gen_QuerySemMsm.cfg", workers=4, timeout=300)
    ctx.add_tlc("Gen_QuerySemMsm", r, kind="generator")
    if r.violated:
        out = ctx.path("Gen_QuerySemMsm.tlc.out")
        open(out, "w").write(r.out)
        ctx.violation("model checking QuerySem (msm family): " + ", ".join(r.violated) + " violated", [out], r.out[-3000:])
    elif r.tool_error:
        log(r.out[-3000:])
        raise vlib.ToolError("Gen_QuerySemMsm failed")
    cases = [json.loads(m.group(1).encode().decode("unicode_escape")) for m in re.finditer(r'<<"CASE", "(.*)">>', r.out)]
    if not cases:
        raise vlib.ToolError("Gen_QuerySemMsm printed no query")
    return cases


def replay_generated(ctx):
    cases = gen_queries(ctx, 2, True)
    seen = {json.dumps(c, sort_keys=True) for c in cases}
    for c in gen_queries(ctx, 3, not ctx.quick):
        k = json.dumps(c, sort_keys=True)
        if k not in seen:
            seen.add(k)
            cases.append(c)
    # the family "msm below the number of Should clauses next to a Must / MustNot clause" (Disjunction scorer inside an
    # intersection / under an exclusion): enumerated by Gen_QuerySemMsm, run in full on every stripe plan
    family = gen_msm_family(ctx)
    ctx.cov["boolean_queries_enumerated_by_tlc"] = len(cases) + len(family)
    ctx.cov["msm_family_queries"] = len(family)
    # (r, segments, deletes, merge, share of the cases)
    if ctx.quick:
        plans = [(1, 1, 0, False, 1.0), (1, 3, 2, False, 0.3), (129, 2, 9, False, 0.35), (129, 3, 9, True, 0.15), (4097, 2, 20, False, 0.04)]
    else:
        plans = [(1, 1, 0, False, 1.0), (1, 3, 2, False, 1.0), (129, 2, 9, False, 1.0), (129, 3, 9, True, 0.5), (129, 1, 0, False, 0.5),
                 (4097, 2, 20, False, 0.06), (4097, 3, 25, True, 0.03), (1025, 2, 12, False, 0.1)]

    def one(ip):
        i, (r, segs, dels, merge, share) = ip
        step = max(1, round(1 / share))
        sub = cases[i % step::step] + family
        cp = ctx.path(f"gen_cases_{i}.ndjson")
        vlib.write_ndjson(cp, sub)
        tp = ctx.path(f"gen_trace_{i}.ndjson")
        args = ["stripes", "--in", cp, "--out", tp, "--r", r, "--segments", segs, "--deletes", dels, "--seed", ctx.seed + i]
        if merge:
            args.append("--merge")
        vlib.run_bin("query_driver", args, timeout=900, mem_gb=12)
        ev = vlib.read_ndjson(tp)
        # judge in chunks of 12,000 events (each chunk needs the corpus event)
        head = [e for e in ev if e.get("ev") == "scorpus"]
        body = [e for e in ev if e.get("ev") not in ("scorpus", "reset", "end")]
        n = 0
        for j in range(0, len(body), 12000):
            n += validate(ctx, [{"ev": "reset"}] + head + body[j:j + 12000], f"gen{i}_{j // 12000}")
        log(f"[R] stripes r={r} segments={segs} deletes={dels} merge={merge}: {len(sub)} queries, {n} accepted")
        return ev[:4]

    with ThreadPoolExecutor(max_workers=4) as ex:
        heads = list(ex.map(one, enumerate(plans)))
    ctx.sample({"kind": "TLC-enumerated boolean query run on the stripe concretisation of the abstract universe",
                "query": cases[len(cases) // 3], "observation": next((e for e in heads[2] if e.get("ev") == "ssearch"), None)})


def random_trees(ctx, runs):
    def one(ir):
        i, (seed, docs, queries, extra) = ir
        tp = ctx.path(f"rand{i}_trace.ndjson")
        vlib.run_bin("query_driver", ["random", "--seed", seed, "--docs", docs, "--queries", queries, "--out", tp] + extra, timeout=900, mem_gb=12)
        ev = vlib.read_ndjson(tp)
        n = validate(ctx, ev, f"rand{i}")
        info = next((e for e in ev if e.get("ev") == "info" and "segments" in e), {})
        log(f"[T] random trees seed {seed}: {docs} documents, segmentations {info.get('segments')}, {queries} queries, {n} (query, index) answers accepted")
        return ev
    with ThreadPoolExecutor(max_workers=4) as ex:
        return list(ex.map(one, enumerate(runs)))


def stale_member_queries(corpus):
    """From the logged corpus (inputs only): a document `a` with the rare term r129 far into the segment, the document
    before it outside the union, and the next document X in which t0 and t1 co-occur without being the phrase "t0 t1".
    +id:{d0, a-1, a, X} +(r129 OR "t0 t1") makes the intersection probe the union with a miss (a-1) and then a hit (a)."""
    docs, dele = corpus["docs"], set(corpus["deleted"])
    phrase = lambda t: any(t[i] == "t0" and t[i + 1] == "t1" for i in range(len(t) - 1))
    in_u = lambda i: i not in dele and ("r129" in docs[i]["title"] or phrase(docs[i]["title"]))
    d0 = next((i for i in range(0, 300) if in_u(i)), None)
    out = []
    if d0 is None:
        return out
    union = {"k": "bool", "cl": [{"o": "should", "q": {"k": "term", "f": "title", "t": "r129", "opt": "freq"}},
                                 {"o": "should", "q": {"k": "phrase", "f": "title", "ts": ["t0", "t1"], "slop": 0}}], "msm": 1, "explicit": False}
    for a in (d["id"] for d in docs if "r129" in d["title"]):
        if a < d0 + 4200 or a in dele or in_u(a - 1):
            continue
        x = next((i for i in range(a - 1, len(docs)) if "t0" in docs[i]["title"] and "t1" in docs[i]["title"]), None)
        if x is None or x <= a or x in dele or in_u(x):
            continue
        out.append({"k": "bool", "cl": [{"o": "must", "q": {"k": "set", "f": "id", "ts": [d0, a - 1, a, x]}}, {"o": "must", "q": union}],
                    "msm": 0, "explicit": False})
    return out[:4]


def known_finding_runs(ctx):
    """dedicated reproductions of the recorded findings the default generator steers around: F35 (prefix fuzzy with distance 2),
    a phrase of three terms with slop and scoring disabled, non-integer f64 bounds on an integer JSON column"""
    un = {"b": "un"}
    qs = [{"k": "fuzzy", "f": "tag", "t": [1, 1, 2], "d": 2, "tr": False, "prefix": True}]

    cp = ctx.path("kf_queries.ndjson")
    vlib.write_ndjson(cp, qs)
    tp = ctx.path("kf_trace.ndjson")
    vlib.run_bin("query_driver", ["random", "--seed", 5, "--docs", 2500, "--fixed", cp, "--out", tp], timeout=300)
    seen = []
    before = ctx.cov["traces_validated_against_impl"]
    validate(ctx, vlib.read_ndjson(tp), "kf", seen=seen)
    # phrases of three terms with slop 2 on three segmentations of the same 700 documents (terms chained in per-segment cost order)
    cp2 = ctx.path("kf_phrase3.ndjson")
    vlib.write_ndjson(cp2, [{"k": "phrase", "f": "title", "ts": list(ts), "slop": 2} for ts in itertools.permutations(["t0", "t1", "t2", "t3", "all"], 3)])
    tp2 = ctx.path("kf_phrase3_trace.ndjson")
    vlib.run_bin("query_driver", ["random", "--seed", 1, "--docs", 700, "--fixed", cp2, "--out", tp2], timeout=300)
    validate(ctx, vlib.read_ndjson(tp2), "kf_p3", seen=seen)
    ctx.cov["traces_validated_against_impl"] = before
    ctx.cov["recorded_findings_reproduced"] = {"F35 fuzzy_prefix_distance_2": any(KF_FUZZYPREFIX in s for s in seen),
                                               "phrase_slop_3_terms_depends_on_segmentation": any(KF_SLOP3SEG in s for s in seen)}


def regression_cases(ctx):
    """small cases of the repaired defects F34 (range on a bool FAST field) and F33 (an intersection probing a union with a
    phrase member returned documents matching no member): they must be accepted like everything else.  The F33 queries are
    derived from the corpus of a first run (inputs only; one segment of 6,000 documents)."""
    args = ["random", "--seed", 9, "--docs", 6000, "--indexes", 2]
    c0 = ctx.path("regr_q0.ndjson")
    ph = lambda ts, slop: {"k": "phrase", "f": "title", "ts": ts, "slop": slop}
    un = {"b": "un"}
    f37_f39 = [{"k": "jrange", "lo": {"b": "in", "h": 3}, "hi": un}, {"k": "jrange", "lo": {"b": "ex", "h": 9}, "hi": un},
               {"k": "jrange", "lo": un, "hi": {"b": "in", "h": -1}}, {"k": "jrange", "lo": un, "hi": {"b": "ex", "h": -3}},
               {"k": "range", "f": "ip", "lo": un, "hi": {"b": "ex", "v": 0}}]
    vlib.write_ndjson(c0, f37_f39 + [ph(["t0", "t1", "t2"], 1), ph(["t1", "all", "t0"], 2), ph(["t0", "t2", "t1"], 1),   # F36
                           {"k": "range", "f": "flag", "lo": {"b": "in", "v": 1}, "hi": {"b": "in", "v": 1}},
                           {"k": "range", "f": "flag", "lo": {"b": "ex", "v": 0}, "hi": {"b": "un"}},
                           {"k": "range", "f": "flag", "lo": {"b": "un"}, "hi": {"b": "ex", "v": 1}}])
    t0 = ctx.path("regr_trace0.ndjson")
    vlib.run_bin("query_driver", args + ["--fixed", c0, "--out", t0], timeout=300)
    ev0 = vlib.read_ndjson(t0)
    seen = []
    n = validate(ctx, ev0, "regr0", seen=seen)
    corpus = next(e for e in ev0 if e.get("ev") == "corpus")
    hunt = stale_member_queries(corpus)
    if hunt:
        c1 = ctx.path("regr_queries.ndjson")
        vlib.write_ndjson(c1, hunt)
        t1 = ctx.path("regr_trace.ndjson")
        vlib.run_bin("query_driver", args + ["--fixed", c1, "--out", t1], timeout=300)
        n += validate(ctx, vlib.read_ndjson(t1), "regr1", seen=seen)
    ctx.cov["repaired_findings_regressed"] = {"F34": any(KF_BOOLRANGE in s for s in seen), "F33": any(KF_UNIONMEMBER in s for s in seen),
                                              "F36": any(KF_SLOP3 in s for s in seen), "F37": any(KF_F64BOUND in s for s in seen),
                                              "F39": any(KF_IPEXCL in s for s in seen)}
    ctx.cov["regression_queries_F33"] = len(hunt)
    log(f"[regr] {n} answers of the regression cases of F33 / F34 accepted ({len(hunt)} corpus-derived F33 queries)")


def binding_selftest(ctx, rand_events, stripe_head):
    results = {}

    def run(name, events):
        p = ctx.path(f"selftest_{name}.ndjson")
        vlib.write_ndjson(p, [vlib.strip_nulls(e) for e in events])
        r = vlib.run_tlc("QuerySemTrace", "QuerySemTrace.cfg", workers=1, timeout=180, trace=p, deque=True, heap="4g")
        if r.tool_error and not r.rejected:
            raise vlib.ToolError(f"binding self-test {name}: TLC failed")
        results[name] = "rejected" if r.rejected else "ACCEPTED"

    corpus = next(e for e in rand_events if e.get("ev") == "corpus")
    s = next(e for e in rand_events if e.get("ev") == "search" and 3 < e["res"][0]["count"] < len(corpus["docs"]) - 50)
    for name, mut in (("count_off_by_one", lambda r: r.__setitem__("count", r["count"] + 1)),
                      ("docset_loses_a_document", lambda r: r["docset"].pop()),
                      ("topdocs_gains_a_deleted_document", lambda r: r["top"].append(corpus["deleted"][0])),
                      ("query_count_off", lambda r: r.__setitem__("qcount", r["qcount"] - 1))):
        e = json.loads(json.dumps(s))
        mut(e["res"][len(e["res"]) - 1])
        run(name, [{"ev": "reset"}, corpus, e])
    # a document of the corpus changes: the same answers are no longer explained
    c2 = json.loads(json.dumps(corpus))
    hit = next(d for d in c2["docs"] if d["id"] == s["res"][0]["docset"][0])
    c2["deleted"] = sorted(set(c2["deleted"]) | {hit["id"]})
    run("corpus_document_deleted", [{"ev": "reset"}, c2, s])
    sc = next(e for e in stripe_head if e.get("ev") == "scorpus")
    ss = next(e for e in stripe_head if e.get("ev") == "ssearch")
    e = json.loads(json.dumps(ss))
    e["res"]["mcount"] += 1
    run("stripes_multicollector_count_off", [{"ev": "reset"}, sc, e])
    ctx.cov["binding_selftest"] = results
    bad = [k for k, v in results.items() if v == "ACCEPTED"]
    if bad or len(results) < 5:
        raise vlib.ToolError(f"binding self-test: corrupted traces accepted: {results}")


def run(ctx):
    ctx.cov["query_kinds"] = {}
    ctx.cov["rejections_by_class"] = {}
    ctx.cov["rule"] = ("a case is one query tree answered on one index (segmentation) through all collector paths (Count, Query::count, DocSetCollector, "
                       "TopDocs by score and by fast field, a scoring collector, MultiCollector, FilterCollector); distinct = distinct (query, corpus, "
                       "segmentation); non-trivial = the query matches at least one document")
    ctx.assumptions += ["TLC and the Json community module are trusted",
                        "documents are identified through the unique `id` fast field (first value)",
                        "phrase slop is only generated for two distinct terms (|gap - 1| <= slop, as documented); fuzzy distance 2 only without "
                        "transposition-cost-one; phrase-prefix prefixes expand to fewer than max_expansions terms",
                        "the default generator keeps prefix fuzzy at distance <= 1, phrases of 3+ terms without slop and f64 bounds on the integer "
                        "JSON column outside the two mis-rounded classes (recorded findings, reproduced by dedicated sub-runs)",
                        "a top-level phrase of 3+ terms with slop is judged by two bounds (exact phrase matches; a match needs an assignment within "
                        "the documented budget of moves) and by the independence of the answer from collector and scoring"]
    model_checking(ctx)
    replay_generated(ctx)
    if ctx.quick:
        runs = [(ctx.seed, 2000, 110, []), (ctx.seed + 1, 1500, 110, []), (ctx.seed + 2, 700, 110, ["--depth", "3"]), (ctx.seed + 3, 5000, 50, ["--dense", "--indexes", "2"])]
    else:
        runs = [(ctx.seed + i, d, q, x) for i, (d, q, x) in enumerate(
            [(2000, 400, []), (1500, 400, []), (700, 500, ["--depth", "3"]), (5000, 200, ["--dense", "--indexes", "2"]), (3000, 400, []), (300, 600, ["--depth", "3"]),
             (2500, 400, []), (1000, 500, ["--depth", "3"]), (6000, 200, ["--dense"]), (2000, 400, ["--depth", "3"]), (1200, 500, []), (4500, 250, [])])]
    evs = random_trees(ctx, runs)
    known_finding_runs(ctx)
    regression_cases(ctx)
    # the stripe head for the self-test: a tiny dedicated run
    cp = ctx.path("st_cases.ndjson")
    vlib.write_ndjson(cp, [{"k": "bool", "cl": [{"o": "should", "q": {"k": "term", "f": "title", "t": "ta", "opt": "freq"}}], "msm": 1, "explicit": False}])
    tp = ctx.path("st_trace.ndjson")
    vlib.run_bin("query_driver", ["stripes", "--in", cp, "--out", tp, "--r", 3, "--segments", 2, "--deletes", 2], timeout=120)
    binding_selftest(ctx, evs[0], vlib.read_ndjson(tp))
    s = next((e for e in evs[0] if e.get("ev") == "search" and e["res"][0]["count"] > 0 and "bool" in qkinds(e["q"])), None)
    if s:
        ctx.sample({"kind": "random query tree answered by every collector path on three segmentations", "query": s["q"],
                    "count": s["res"][0]["count"], "first_ids": s["res"][0]["docset"][:8]})


def replay(ctx, path):
    ctx.cov["query_kinds"] = {}
    ctx.cov["rejections_by_class"] = {}
    files = [os.path.join(path, f) for f in sorted(os.listdir(path)) if f.endswith(".ndjson")] if os.path.isdir(path) else [path]
    for f in files:
        validate(ctx, vlib.read_ndjson(f), "replay")
