"""C17 - a sorted index keeps every segment in sort order, with unchanged semantics.
M: SortedIndex (documents with sort values and opstamps buffered in insertion order; finalisation
   sorts the buffer and permutes the opstamps with it; deletes inside the transaction; merges that
   stack or interleave) model checked by TLC for both directions; negative configurations (opstamps
   not permuted -> a delete hits the wrong document; stacking with live nulls -> unsorted segment)
   must fail.
R: TLC-generated histories (Gen_SortedIndex) executed by sorted_driver under sort_by_field for every
   key type the code accepts (i64, u64, f64, date, str, bytes) x both directions x segment-cut
   settings, with extremes, duplicates and documents WITHOUT a value; TLC-generated writer
   histories (Gen_Core) replayed by core_driver on a sorted index.
T: seeded random histories: sorted_driver (disjoint / overlapping value ranges = stack / k-way
   merges, with deletes; segments with live nulls next to deleted valued documents; the two largest
   values of the domain in overlapping segments) and core_driver random --sorted v_asc|v_desc.
Every recorded run is judged by TLC: SortedIndexTrace.tla (Sorted(seg) on the fast-field values,
stored = fast = field norm per document, the posting list of EVERY term of every indexed field -
text with positions, numeric, the paths of an indexed JSON object with text / i64 / bool / date /
f64 leaves - designates exactly the documents that contain it, content = sequential oracle) or CoreTrace.tla (ObsSorted +
sequential oracle)."""
import json
import os
import random
import re

import tracecheck
import vlib
from vlib import log
from props import c02

LEVEL = "model_checking"

I64MIN, I64MAX, U64MAX = -(1 << 63), (1 << 63) - 1, (1 << 64) - 1
TYPES = ["i64", "u64", "f64", "date", "str", "bytes"]
# concrete sort values in sort order; the generator's abstract value i is the i-th of the first list (5 values,
# extremes at both ends); the random histories draw from the second (neighbours of the extremes, more ties)
POOL5 = {
    "i64": [I64MIN, -1, 0, 7, I64MAX],
    "u64": [0, 1, 5, 1 << 63, U64MAX],
    "f64": ["-inf", "-1.5", "0", "1e300", "inf"],
    "date": [-9000000000, -1, 0, 1700000000, 9000000000],
    "str": ["", "a", "ab", "b", "éz"],
    "bytes": ["", "00", "00ff", "61", "ff"],
}
POOL12 = {
    "i64": [I64MIN, I64MIN + 1, -(1 << 32), -2, -1, 0, 1, 2, 1 << 32, (1 << 62), I64MAX - 1, I64MAX],
    "u64": [0, 1, 2, 255, 256, 1 << 32, (1 << 63) - 1, 1 << 63, (1 << 63) + 1, U64MAX - 1, U64MAX],
    "f64": ["-inf", "-1.7976931348623157e308", "-1e10", "-1.5", "-5e-324", "0", "5e-324", "0.1", "1.5", "1e10", "1.7976931348623157e308", "inf"],
    "date": [-9000000000, -86400, -1, 0, 1, 59, 60, 86400, 1700000000, 1700000001, 9000000000],
    "str": ["", " ", "A", "Z", "a", "a ", "aa", "ab", "b", "z", "zz", "é", "中"],
    "bytes": ["", "00", "0000", "0001", "01", "61", "6162", "7f", "80", "fe", "ff", "ffff"],
}


# the two largest values of the domain at the top (k-way merges must keep them apart); types whose domain has
# no reachable top (date in whole seconds, f64 without NaN, str, bytes) take their ordinary pool
POOLTOP = dict(POOL5, i64=[I64MIN, I64MIN + 1, 0, I64MAX - 1, I64MAX], u64=[0, 1, 5, U64MAX - 1, U64MAX],
               f64=["-inf", "-1.7976931348623157e308", "0", "1.7976931348623157e308", "inf"])
POOLS = {"5": POOL5, "top": POOLTOP}


def keys_of(ty, pool):
    return [str(x) for x in pool[ty]]


def clean(events):
    out = []
    for e in events:
        e = vlib.strip_nulls(e)
        e.pop("seq", None)
        e.pop("th", None)
        out.append(e)
    return out


def run_key(run):
    return json.dumps([run[0].get("cfg")] + [[e["ev"], e.get("v"), e.get("t"), e.get("pred"), e.get("sids")] for e in run[1:] if e["ev"] != "end"])


def nontrivial(run):
    """a commit with a segment of >= 2 documents whose ids are out of insertion order (the sort moved
    something) and either a delete or a merge"""
    evs = [e["ev"] for e in run]
    moved = False
    for e in run:
        for s in (e.get("obs") or {}).get("segs", []):
            ids = [r[1] for r in s["docs"]]
            if any(a > b for a, b in zip(ids, ids[1:])):
                moved = True
    return moved and ("del" in evs or any(e["ev"] == "merge" and e.get("ok") for e in run))


def model_checking(ctx):
    q = ctx.quick
    vlib.mc_check(ctx, "MC_SortedIndex", "MC_SortedIndex_asc_q.cfg" if q else "MC_SortedIndex_asc.cfg", timeout=600, workers=6, heap="6g", coverage=q)
    vlib.mc_check(ctx, "MC_SortedIndex", "MC_SortedIndex_desc_q.cfg" if q else "MC_SortedIndex_desc.cfg", timeout=600, workers=6, heap="6g")
    if not q:
        vlib.mc_check(ctx, "MC_SortedIndex", "MC_SortedIndex_big.cfg", timeout=1500, workers=6, heap="10g")
    vlib.mc_check(ctx, "MC_SortedIndex", "MC_SortedIndex_negops.cfg", expect_violation="DeletesHitTheRightDocs", timeout=120, workers=2, heap="2g")
    vlib.mc_check(ctx, "MC_SortedIndex", "MC_SortedIndex_negstack.cfg", expect_violation="SegsSorted", timeout=120, workers=2, heap="2g")
    vlib.mc_check(ctx, "MC_SortedIndex", "MC_SortedIndex_reach.cfg", expect_violation="ReachReorderedDelete", timeout=120, workers=2, heap="2g")


def gen_histories(ctx, n, seed, max_ops=14, max_docs=9):
    cfg = open(os.path.join(vlib.SPEC, "Gen_SortedIndex.cfg")).read().replace("MaxOps = 14", f"MaxOps = {max_ops}").replace("MaxDocs = 9", f"MaxDocs = {max_docs}")
    name = f"Gen_SortedIndex_{ctx.prop}_{os.getpid()}.cfg"
    open(os.path.join(vlib.SPEC, name), "w").write(cfg)
    try:
        r = vlib.run_tlc("Gen_SortedIndex", name, workers=1, timeout=300, simulate=n, depth=max_ops + 4, extra=["-seed", str(seed)], heap="2g")
    finally:
        os.remove(os.path.join(vlib.SPEC, name))
    ctx.add_tlc("Gen_SortedIndex", r, kind="generator")
    if r.violated or r.tool_error:
        log(r.out[-3000:])
        raise vlib.ToolError("Gen_SortedIndex failed")
    out, seen = [], set()
    for m in re.finditer(r'<<"CASE", "(.*)">>', r.out):
        s = m.group(1).encode().decode("unicode_escape")
        if s not in seen:
            seen.add(s)
            out.append(json.loads(s))
    return out


def fixed_histories():
    A = lambda i, k, t="a": {"op": "add", "id": i, "t": t, "k": k}
    D = lambda t: {"op": "del", "pred": {"k": "term", "t": t}}
    DI = lambda i: {"op": "del", "pred": {"k": "id", "id": i}}
    C, M = {"op": "commit"}, {"op": "merge"}
    directed = [
        # disjoint ranges, second segment with a LIVE document without value and as many deleted documents with one:
        # stacking is not allowed (the live null must travel to the front / the back)
        [A(1, 0), A(2, 1), A(3, 1), C, A(4, -1, "b"), A(5, 3), A(6, 4, "c"), C, D("c"), C, M],
        [A(1, 3), A(2, 4), A(3, -1, "b"), A(4, 4, "c"), A(5, 3, "c"), C, A(6, 0), A(7, 1), C, D("c"), C, M],
        [A(1, 2), A(2, -1), A(3, 2, "c"), C, A(4, 0), A(5, -1, "b"), A(6, 1, "c"), A(7, 0, "c"), C, A(8, 3), A(9, 4), C, D("c"), C, M],
    ]
    top = [
        # overlapping segments (k-way merge) holding the largest value of the domain and its predecessor
        [A(1, 0), A(2, 4), C, A(3, 3), C, M],
        [A(1, 0), A(2, 3), C, A(3, 4), C, M],
        [A(1, 4), A(2, 3), A(3, 0), C, A(4, 3), A(5, 4), C, A(6, 4), A(7, 2), C, DI(3), C, M],
    ]
    return [(h, "5") for h in directed] + [(h, "top") for h in top] + [(h, "5") for h in [
        # the delete in the middle of a transaction whose documents get reordered
        [A(1, 3), A(2, 0), A(3, -1, "b"), D("a"), A(4, 2), A(5, 3, "b"), C, A(6, 1, "c"), A(7, -1, "c"), A(8, 4), C, DI(5), M],
        # only missing values; an all-missing segment next to a valued one
        [A(1, -1), C, A(2, -1), A(3, -1), C, M, A(4, 3), C, M],
        # disjoint ranges (stack), committed out of order; then a null arrives (k-way)
        [A(1, 3), A(2, 4), C, A(3, 0), A(4, 1), C, A(5, 2), A(6, 2), C, M, A(7, -1), C, M],
        # overlapping ranges, ties across segments, deletes before the merge
        [A(1, 4), A(2, 0), A(3, 2, "b"), C, A(4, 4), A(5, 0, "b"), A(6, 2), C, DI(2), D("b"), C, M, {"op": "rollback"}, A(7, 1), C],
        # disjoint, with a deleted null (stack allowed) and with a live null (not allowed)
        [A(1, 0), A(2, -1, "b"), C, A(3, 3), A(4, 4), C, D("b"), C, {"op": "merge", "from": 0, "n": 2}, A(5, -1), A(6, 4), C, M],
    ]]


def random_history(rng, profile):
    """seeded random history over abstract ranks 0..n-1 (n = pool size, resolved per type later: ranks are
    taken modulo the pool length)"""
    ops, nid, nk = [], 1, 12
    batches = rng.randint(2, 5)
    order = list(range(batches))
    rng.shuffle(order)
    if profile in ("multifull", "kf_multinull"):
        order = sorted(order, reverse=rng.random() < 0.5)       # value ranges of the segments in ascending or descending order
    pmiss = rng.choice([0.0, 0.0, 0.15, 0.4]) if profile != "nullstack" else 0.3
    if profile in ("multifull", "kf_multinull"):
        pmiss = 0.0
    multi = profile in ("multi", "multifull", "kf_multinull")
    for b in order:
        batch = []
        for _ in range(rng.randint(1, 8)):
            if rng.random() < pmiss:
                k = -1
            elif profile in ("nullstack", "multifull", "kf_multinull"):
                k = 2 * b + rng.randint(0, 1)                    # strictly disjoint ranges
            elif profile == "top":
                k = rng.choice([0, TOP - 1, TOP])                # resolved to the two largest values of the pool
            elif profile == "disjoint":
                k = min(nk - 1, 2 * b + rng.randint(0, 2))       # ranges touch at one value: ties across segments
            elif profile == "ties":
                k = rng.choice([0, 1, nk - 1])
            else:
                k = rng.randint(0, nk - 1)
            ops.append({"op": "add", "id": nid, "t": rng.choice("abc"), "k": k, "j": rng.choice([0, 1, 1, 2, 3, 3])})
            if multi and k >= 0 and rng.random() < 0.5:
                # a second value for the sort field (inside the range of the batch when the ranges are disjoint)
                ops[-1]["k2"] = (2 * b + rng.randint(0, 1)) if profile != "multi" else rng.randint(0, nk - 1)
            batch.append((nid, k))
            nid += 1
            x = rng.random()
            if profile in ("nullstack", "multifull", "kf_multinull"):
                continue
            if x < 0.12:
                ops.append({"op": "del", "pred": {"k": "term", "t": rng.choice("abc")}})
            elif x < 0.2:
                ops.append({"op": "del", "pred": {"k": "id", "id": rng.randint(1, nid - 1)}})
        if profile == "multi":
            # both ends of the value range in every segment: the ranges always overlap (k-way merge)
            for kk in (0, nk - 1):
                ops.append({"op": "add", "id": nid, "t": "c", "k": kk, "k2": kk, "j": 0})
                nid += 1
        if profile in ("multifull", "kf_multinull"):
            # at least one document with two values: the column of the segment is multi-valued
            ops.append({"op": "add", "id": nid, "t": "c", "k": 2 * b, "k2": 2 * b + 1, "j": 0})
            nid += 1
        if profile == "kf_multinull":
            # ... and one document WITHOUT a value in that multi-valued segment (finding F49, repaired)
            ops.append({"op": "add", "id": nid, "t": "c", "k": -1, "j": 0})
            nid += 1
        if profile == "nullstack":
            # delete documents WITH a value of a segment that also holds documents without one
            valued = [i for i, k in batch if k >= 0]
            for i in rng.sample(valued, min(len(valued), rng.randint(0, 3))):
                ops.append({"op": "del", "pred": {"k": "id", "id": i}})
        ops.append({"op": "commit"})
        if rng.random() < 0.25 and profile not in ("nullstack", "multifull", "kf_multinull"):
            ops.append({"op": "merge", "from": rng.randint(0, 1), "n": 2})
    if rng.random() < 0.6 and profile not in ("multifull", "kf_multinull"):
        ops += [{"op": "del", "pred": {"k": "id", "id": rng.randint(1, nid - 1)}}, {"op": "commit"}]
    ops.append({"op": "merge"})
    if rng.random() < 0.3:
        ops += [{"op": "add", "id": nid, "t": "a", "k": rng.randint(-1, nk - 1)}, {"op": "rollback"}]
    return ops


TOP = 1001          # abstract rank of the largest value of the pool (TOP - 1: its predecessor)


def concretise(ops, ty, order, pool, threads, flush_after, tag):
    keys = keys_of(ty, pool)
    n = len(keys)
    rk = lambda k: k if k < 0 else (n - 1 - (TOP - k) if k >= TOP - 1 else k % n)
    ops2 = [dict(o, k=rk(o["k"]), **({"k2": rk(o["k2"])} if "k2" in o else {})) if o["op"] == "add" else o for o in ops]
    return {"cfg": {"type": ty, "order": order, "threads": threads, "flush_after": flush_after}, "keys": keys, "ops": ops2, "tag": tag}


def execute(ctx, hs, label, timeout=900):
    hp, tp = ctx.path(f"{label}_hist.ndjson"), ctx.path(f"{label}_trace.ndjson")
    vlib.write_ndjson(hp, hs)
    vlib.run_bin("sorted_driver", ["replay", "--in", hp, "--out", tp], timeout=timeout)
    return vlib.split_runs(clean(vlib.read_ndjson(tp)))


def judge(ctx, runs, label):
    n = tracecheck.validate_runs(ctx, runs, label, "SortedIndexTrace", "SortedIndexTrace.cfg", key=run_key, nontrivial=nontrivial, timeout=900, heap="6g")
    ctx.cov["traces_validated_against_impl"] += n
    return n


def tally(ctx, runs):
    t = ctx.cov.setdefault("observed", {"runs_per_type_and_order": {}, "segments_checked": 0, "documents_checked": 0, "documents_without_value": 0,
                                        "segments_with_reordered_documents": 0, "merges_ok": 0, "deletes": 0})
    for r in runs:
        c = r[0]["cfg"]
        k = f"{c['type']}/{c['order']}"
        t["runs_per_type_and_order"][k] = t["runs_per_type_and_order"].get(k, 0) + 1
        for e in r:
            if e["ev"] == "del":
                t["deletes"] += 1
            if e["ev"] == "merge" and e.get("ok"):
                t["merges_ok"] += 1
            for s in (e.get("obs") or {}).get("segs", []):
                t["segments_checked"] += 1
                t["documents_checked"] += len(s["docs"])
                t["documents_without_value"] += sum(1 for row in s["docs"] if row[3] < 0)
                ids = [row[1] for row in s["docs"]]
                t["segments_with_reordered_documents"] += 1 if any(a > b for a, b in zip(ids, ids[1:])) else 0


KF_F49 = ("merge of a sorted index stacks the segments although a MULTI-VALUED sort column holds documents without a value "
          "(IndexMerger::segment_has_live_nulls only looks at Optional columns): in the merged segment the documents without a value "
          "are not first (ascending) / last (descending)")


def known_finding_f49(ctx):
    """regression family of finding F49 (repaired in /repo, commit 1a4dac47a): multi-valued sort columns with disjoint value
    ranges AND documents without a value (the default profiles steer around that combination)"""
    rng = random.Random(ctx.seed + 48)
    hs = []
    for j in range(2):
        ops = random_history(rng, "kf_multinull")
        for ty in ("u64", "i64", "f64", "date"):
            for order in ("asc", "desc"):
                hs.append(concretise(ops, ty, order, POOL12, 1, 0, f"kf_multinull{j}"))
    runs = execute(ctx, hs, "kf_f49", timeout=600)
    seen = False
    for i, run in enumerate(runs):
        p = ctx.path(f"kf_f49.{i}.ndjson")
        vlib.write_ndjson(p, run)
        ok, r = vlib.validate_trace(ctx, "SortedIndexTrace", "SortedIndexTrace.cfg", p, name=f"kf_f49.{i}", timeout=300)
        if ok:
            continue
        line, why = tracecheck.violated_line(r)
        evt = run[min(max(line - 1, 0), len(run) - 1)]
        if evt.get("ev") == "merge":
            keys = [[row[5][0] if row[5] else -1 for row in sg["docs"]] for sg in (evt.get("obs") or {}).get("segs", [])]
            if not seen:
                ctx.violation(KF_F49, [p], json.dumps({"cfg": run[0]["cfg"], "first_sort_value_per_document_of_the_merged_segment (-1 = none)": keys})[:3000])
            seen = True
        else:
            ctx.violation(f"SortedIndexTrace: {why}", [p], json.dumps(evt)[:3000])
    ctx.cov["kf_f49_reproduced"] = seen
    if not seen:
        log(f"[R] F49 regression family (multi-valued sort column with documents without a value, disjoint ranges): {len(runs)} runs accepted")


def sorted_driver_runs(ctx):
    rng = random.Random(ctx.seed)
    q = ctx.quick
    hs = []
    # R: hand-written + TLC-generated histories, every type x direction
    fixed = fixed_histories()
    gen = fixed + [(h, "5") for h in gen_histories(ctx, 24 if q else 400, ctx.seed)]
    for i, (ops, pool) in enumerate(gen):
        for ty in TYPES:
            for order in ("asc", "desc"):
                # the hand-written histories: one thread and no forced segment cut (the segments are the commits), and cut after 2
                fl = [0, 2] if i < len(fixed) else [rng.choice([0, 1, 2, 3])]
                for f in fl:
                    hs.append(concretise(ops, ty, order, POOLS[pool], 1 if (f or i < len(fixed)) else rng.choice([1, 1, 2]), f, f"gen{i}"))
    n_gen = len(hs)
    # T: seeded random histories (disjoint / overlapping / heavy ties), bigger value pools
    for j in range(4 if q else 60):
        for profile in ("disjoint", "overlap", "ties", "nullstack", "top", "multi", "multifull"):
            ops = random_history(rng, profile)
            for ty in TYPES:
                for order in ("asc", "desc"):
                    hs.append(concretise(ops, ty, order, POOL12, rng.choice([1, 1, 2, 3]), rng.choice([0, 0, 2, 3, 5]), f"{profile}{j}"))
    runs = execute(ctx, hs, "sorted", timeout=1800)
    tally(ctx, runs)
    n = judge(ctx, runs, "sorted")
    log(f"[R/T] sorted_driver: {n_gen} generated + {len(hs) - n_gen} random runs over {len(TYPES)} key types x 2 directions, {n} of {len(runs)} accepted")
    ctx.sample({"kind": "TLC-generated history (abstract sort values 0..4, -1 = no value; j = shape of the JSON object)", "ops": gen[len(fixed)][0]})
    return runs


def world_runs(ctx):
    """the C02 machinery on a sorted index (World schema: i64 fast field v, always present)"""
    q = ctx.quick
    rng = random.Random(ctx.seed + 17)
    hs = c02.gen_histories(ctx, 40 if q else 500, 70, ctx.seed + 3)
    cfgs = [dict(c, sorted=s) for c in c02.CFGS for s in ("v_asc", "v_desc")]
    hp, tp = ctx.path("core_gen_hist.ndjson"), ctx.path("core_gen_trace.ndjson")
    vlib.write_ndjson(hp, [dict(c02.concretise(h, rng, cfgs), tag=i) for i, h in enumerate(hs)])
    vlib.run_bin("core_driver", ["replay", "--in", hp, "--out", tp, "--no-storage"], timeout=900)
    ev = vlib.read_ndjson(tp)
    n1 = c02.validate_runs(ctx, ev, "core_gen")
    evs = ev
    tot = len(hs)
    for so in ("v_asc", "v_desc"):
        runs = 15 if q else 200
        tp = ctx.path(f"core_rand_{so}.ndjson")
        vlib.run_bin("core_driver", ["random", "--seed", ctx.seed + (5 if so == "v_asc" else 6), "--runs", runs, "--ops", 30, "--flush", "mix", "--threads", "mix",
                                     "--merge", "mix", "--sorted", so, "--no-storage", "--out", tp], timeout=900)
        e2 = vlib.read_ndjson(tp)
        n1 += c02.validate_runs(ctx, e2, f"core_rand_{so}")
        evs = evs + e2
        tot += runs
    ctx.cov["world_runs"] = {"runs": tot, "accepted": n1}
    log(f"[R/T] core_driver on a sorted index: {tot} histories (TLC-generated + random), {n1} accepted by CoreTrace")
    return evs


def binding_selftest(ctx, runs, core_events):
    base = next((r for r in runs if nontrivial(r) and r[0]["cfg"]["order"] == "asc" and
                 any(len(s["docs"]) >= 3 and len({row[3] for row in s["docs"]}) >= 2 for e in r for s in (e.get("obs") or {}).get("segs", []))), None)
    if base is None:
        raise vlib.ToolError("binding self-test: no suitable run")

    def first_seg(c, pred):
        for e in c:
            for s in (e.get("obs") or {}).get("segs", []):
                if pred(s):
                    return e, s
        return None, None

    def mut(fn):
        c = json.loads(json.dumps(base))
        return c if fn(c) else None

    def m_swap(c):
        # two neighbouring documents with different sort values change places (rows stay intact)
        e, s = first_seg(c, lambda s: any(a[3] != b[3] for a, b in zip(s["docs"], s["docs"][1:])))
        if s is None:
            return False
        j = next(i for i, (a, b) in enumerate(zip(s["docs"], s["docs"][1:])) if a[3] != b[3])
        a, b = s["docs"][j], s["docs"][j + 1]
        a[0], b[0] = b[0], a[0]
        a[7], b[7] = b[7], a[7]
        s["docs"][j], s["docs"][j + 1] = b, a
        return True

    def m_fastkey(c):
        e, s = first_seg(c, lambda s: any(r[5] for r in s["docs"]))
        if s is None:
            return False
        r = next(r for r in s["docs"] if r[5])
        r[5] = [r[5][0] + 1]
        return True

    def m_posting(c):
        e, s = first_seg(c, lambda s: len(s["docs"]) >= 2)
        if s is None:
            return False
        s["docs"][0][7] = [s["docs"][1][0]]
        return True

    def m_norm(c):
        e, s = first_seg(c, lambda s: len(s["docs"]) >= 1)
        s["docs"][0][6] += 1
        return True

    def m_lost(c):
        e, s = first_seg(c, lambda s: len(s["docs"]) >= 2)
        s["docs"].pop()
        s["ndel"] += 1
        e["obs"]["n"] -= 1
        e["obs"]["count_all"] -= 1
        return True
    def m_json_posting(c):
        # the posting list of a non-text JSON leaf designates another document of the segment
        for e in c:
            for s in (e.get("obs") or {}).get("segs", []):
                ids = [r[1] for r in s["docs"]]
                for t in s["terms"]:
                    if t[0].startswith("js.n:") or t[0].startswith("js.even:"):
                        here = {h[0] for h in t[1]}
                        other = [i for i in ids if i not in here]
                        if other:
                            t[1][0][0] = other[0]
                            return True
        return False

    def m_position(c):
        e, s = first_seg(c, lambda s: any(t[0].startswith("body:") for t in s["terms"]))
        t = next(t for t in s["terms"] if t[0].startswith("body:"))
        t[1][0][1] = [p + 1 for p in t[1][0][1]]
        return True

    def m_term_lost(c):
        e, s = first_seg(c, lambda s: len(s["terms"]) > 3)
        s["terms"] = [t for t in s["terms"] if not t[0].startswith("js.")] if any(t[0].startswith("js.") for t in s["terms"]) else s["terms"][1:]
        return True
    res = {}
    for name, fn in (("json_leaf_posting_designates_another_document", m_json_posting), ("positions_shifted", m_position), ("terms_of_a_field_missing", m_term_lost),
                     ("two_documents_out_of_order", m_swap), ("fast_sort_value_changed", m_fastkey), ("unique_term_points_to_the_neighbour", m_posting),
                     ("field_norm_of_another_document", m_norm), ("delete_hit_one_document_too_many", m_lost)):
        c = mut(fn)
        if c is None:
            continue
        p = ctx.path(f"selftest_{name}.ndjson")
        vlib.write_ndjson(p, c)
        r = vlib.run_tlc("SortedIndexTrace", "SortedIndexTrace.cfg", workers=1, timeout=120, trace=p, deque=True, heap="2g")
        res[name] = "rejected" if not r.ok and (r.rejected or r.violated) else "ACCEPTED"
    # CoreTrace: two rows of a sorted World segment swapped
    cr = [r for r in vlib.split_runs(c02.api_events(core_events)) if r[0]["cfg"].get("sorted")]
    done = False
    for r in cr:
        c = json.loads(json.dumps(r))
        for e in c:
            for s in (e.get("obs") or {}).get("segs", []):
                j = next((i for i, (a, b) in enumerate(zip(s["docs"], s["docs"][1:])) if a[2] != b[2]), None)
                if j is not None and not done:
                    s["docs"][j], s["docs"][j + 1] = s["docs"][j + 1], s["docs"][j]
                    done = True
        if done:
            p = ctx.path("selftest_core_rows_swapped.ndjson")
            vlib.write_ndjson(p, c)
            r2 = vlib.run_tlc("CoreTrace", "CoreTrace.cfg", workers=1, timeout=120, trace=p, deque=True, heap="2g")
            res["core_two_rows_out_of_order"] = "rejected" if not r2.ok and (r2.rejected or r2.violated) else "ACCEPTED"
            break
    ctx.cov["binding_selftest"] = res
    if "ACCEPTED" in res.values() or len(res) < 7:
        raise vlib.ToolError(f"binding self-test: a corrupted trace was accepted: {res}")


def run(ctx):
    ctx.cov["rule"] = ("a case is one operation history executed on a real index with sort_by_field for one (key type, direction, thread count, segment-cut "
                       "setting), or one TLC state for the model; distinct = distinct (configuration, operations with sort values / predicates); non-trivial = "
                       "some observed segment lists its documents in another order than they were added and the history has a delete or a successful merge")
    ctx.assumptions += ["TLC and the Json community module are trusted",
                        "sort values travel as ranks of the raw values under the native order of the type (i64/u64 numeric, f64 numeric without NaN and without -0.0, "
                        "date by timestamp (whole seconds), str / bytes by byte-wise lexicographic order); the driver maps each value read back to its rank by exact equality",
                        "key types accepted by this version (IndexBuilder::validate): i64, u64, f64, date, str, bytes - all six exercised; bool, ip, json, facet are refused by the code",
                        "order of ties and the stack / k-way choice are not prescribed: demanded is sorted + same content",
                        "single-valued sort fields only (the documented requirement)"]
    model_checking(ctx)
    runs = sorted_driver_runs(ctx)
    known_finding_f49(ctx)
    ev = world_runs(ctx)
    binding_selftest(ctx, runs, ev)
    r = next((r for r in runs if nontrivial(r) and r[0]["cfg"]["type"] == "str"), runs[0])
    ctx.sample({"kind": "recorded run (str keys): events without observations", "events": [{k: v for k, v in e.items() if k != "obs"} for e in r[:12]]})
    e = next((e for e in r if e.get("obs") and e["obs"]["segs"]), None)
    if e:
        ctx.sample({"kind": "observed segment: rows [pos, id, t, key(stored), ids(fast), keys(fast), fieldnorm, docs of unique term, tf]", "segment": e["obs"]["segs"][0]})


def replay(ctx, path):
    files = [os.path.join(path, f) for f in sorted(os.listdir(path)) if f.endswith(".ndjson")] if os.path.isdir(path) else [path]
    for f in files:
        evs = vlib.read_ndjson(f)
        if evs and evs[0].get("ev") == "reset" and "type" in evs[0].get("cfg", {}):
            tracecheck.validate_runs(ctx, vlib.split_runs(clean(evs)), "replay", "SortedIndexTrace", "SortedIndexTrace.cfg")
        else:
            c02.validate_runs(ctx, evs, "replay")
