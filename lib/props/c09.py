"""C09 - stored documents are returned exactly as they were added.
M: Store.tla (block cut rule, checkpoints, skip-index layers of 8, reader with LRU block cache as a
   state machine, Stack / Recompress merges as refinements of "concatenate the live documents")
   model checked by TLC; layer arithmetic asserted up to 513 blocks; negative configuration: a
   cache keyed by block length returns another document.
R: TLC enumerates layouts (documents per block, 1..72 blocks around the periods 8 / 64, partial last
   block, a document larger than a block, cache sizes, merge shapes) and computes the document
   sizes with Store!Cut; store_driver builds them with IndexSettings::docstore_blocksize = 400.
T: seeded documents with every value type, nested JSON, unicode, > block; compressors none / lz4,
   dedicated compression thread on / off, block sizes 1..16384, before / after deletes and merge.
StoreTrace compares every document read back (StoreReader::get, Searcher::doc, StoreReader::iter)
field by field with the stored projection of the input, and the iteration order."""
import json
import os
import random
import re

import vlib
from vlib import log
from props import _fid

LEVEL = "model_checking"
MOD, CFG = "StoreTrace", "StoreTrace.cfg"
ACCESS = ["fwd", "rev", "alt", "rand", "twice"]


def model_checking(ctx):
    vlib.mc_check(ctx, "MC_Store", "MC_Store_neg.cfg", expect_violation="GetReturnsDoc", timeout=300, workers=4)
    r = vlib.mc_check(ctx, "MC_Store", "MC_Store_q.cfg" if ctx.quick else "MC_Store.cfg", coverage=True, timeout=600, workers=6)
    zero = r.coverage_zero_actions()
    if zero:
        raise vlib.ToolError(f"MC_Store: actions never taken: {zero}")
    if not ctx.quick:
        vlib.mc_check(ctx, "MC_Store", "MC_Store_nocache.cfg", timeout=900, workers=6)
        vlib.mc_check(ctx, "MC_Store", "MC_Store_tiny.cfg", timeout=900, workers=6)


def pad_for(size):
    """length of the pad text giving a document of `size` serialised bytes (1 + 13 for the id + 5 + vint + text)"""
    if size - 20 < 128:
        if size < 20:
            raise vlib.ToolError(f"size {size} too small")
        return size - 20
    if size == 148:
        raise vlib.ToolError("size 148 is not reachable")
    return size - 21


def concretise(c, i, rng):
    segs = [[{"pad": pad_for(s)} for s in seg["sizes"]] for seg in c["segs"]]
    comp = ["none", "none", "lz4"][i % 3]
    if c.get("switch_codec"):
        comp = ["lz4", "none"][i % 2]          # the merged store is written with the other compressor
    extra = {"merge_comp": "none" if comp == "lz4" else "lz4"} if c.get("switch_codec") else {}
    if c.get("shape") == "codec_orders":
        # the codec of the index changed during its life: the former-codec segments are created first, the merge takes the
        # sources in the TLC-generated order (c["sources"]: "cur" / "old" per merge position)
        comp = ["lz4", "none"][i % 2]
        old = "none" if comp == "lz4" else "lz4"
        creation = sorted(range(len(c["sources"])), key=lambda j: c["sources"][j] == "cur")     # old ones first
        extra = {"seg_comp": [comp if c["sources"][j] == "cur" else old for j in creation], "merge_comp": comp,
                 "merge_order": [creation.index(j) for j in range(len(c["sources"]))]}
    if c.get("filtered"):
        extra |= {"filter_ids": sorted(c["filter_ids"]), "filter_none": c["filter_none"]}
    if "seg_comp" in extra:
        comp = extra["seg_comp"][0]
    return extra | {"id": i, "cfg": {"blocksize": c["blocksize"], "comp": comp, "thread": i % 2 == 0, "cache": c["cache"]},
            "segs": segs, "deletes": sorted(c["deletes"]), "merge": c["merge"], "access": ACCESS[i % len(ACCESS)], "seed": rng.randrange(1 << 30),
            "gen": {k: c.get(k) for k in ("k", "nb", "tail", "big", "shape", "expect_stack", "merged_blocks", "switch_codec", "filtered")} | {"sources": c.get("sources")} | {"blocks": [s["blocks"] for s in c["segs"]], "layers": [s["layers"] for s in c["segs"]]}}


def random_case(i, rng, big=False):
    nseg = rng.choice([1, 1, 2, 3])
    segs, n = [], 0
    for _ in range(nseg):
        k = rng.choice([1, 2, 5, 12, 40]) if not big else rng.choice([150, 400])
        segs.append([{"rich": rng.randrange(1 << 40)} if rng.random() < 0.9 else {"pad": rng.choice([0, 1, 200, 5000, 40000])} for _ in range(k)])
        n += k
    dels = sorted(set(rng.randrange(1, n + 1) for _ in range(rng.choice([0, 0, 1, 2, n // 3]))))
    if len(dels) == n:
        dels = dels[1:]
    comp = rng.choice(["none", "lz4", "lz4"])
    extra = {"merge_comp": "none" if comp == "lz4" else "lz4"} if rng.random() < 0.35 else {}    # codec changed before the merge
    if not extra and rng.random() < 0.3:
        # a filtered merge: the caller removes a few documents (or none, with / without passing a bitset)
        extra = {"filter_ids": sorted(set(rng.randrange(1, n + 1) for _ in range(rng.choice([0, 1, 2, n // 3])))), "filter_none": rng.random() < 0.6}
    return extra | {"id": i, "cfg": {"blocksize": rng.choice([1, 64, 300, 4096, 16384]), "comp": comp,
                             "thread": rng.random() < 0.5, "cache": rng.choice([0, 1, 2, 100])},
            "segs": segs, "deletes": dels, "merge": rng.random() < 0.7, "access": rng.choice(ACCESS), "seed": rng.randrange(1 << 30)}


def describe(unit, k, text):
    e = unit[k - 1]
    head = unit[0]
    cfg = head.get("cfg")
    if e.get("ev") == "panic":
        return f"panic in the doc store ({e.get('in')}, phase {e.get('phase')}), settings {json.dumps(cfg)}", json.dumps(e)[:2000]
    if e.get("ev") == "seg":
        # show the first get / iterated document that differs as text (the judge decided; this only locates it)
        docs, stored = head["docs"], {f["name"] for f in head["schema"] if f["stored"]}

        def proj(d):
            return {f: [({"t": "str", "v": v["v"]} if v["t"] == "pretok" else v) for v in vs] for f, vs in d.items() if f in stored}
        where = "?"
        for g in e.get("gets", []):
            if 1 <= g[0] <= len(e["ids"]) and 1 <= e["ids"][g[0] - 1] <= len(docs) and g[2] != proj(docs[e["ids"][g[0] - 1] - 1]):
                where = f"get(doc {g[1]}) id {e['ids'][g[0] - 1]}: returned {json.dumps(g[2])[:700]} added {json.dumps(proj(docs[e['ids'][g[0] - 1] - 1]))[:700]}"
                break
        else:
            for j, d in enumerate(e.get("iter", [])):
                if j < len(e["ids"]) and 1 <= e["ids"][j] <= len(docs) and d != proj(docs[e["ids"][j] - 1]):
                    where = f"iter position {j} id {e['ids'][j]}: returned {json.dumps(d)[:700]} added {json.dumps(proj(docs[e['ids'][j] - 1]))[:700]}"
                    break
        return (f"stored document not returned as added (phase {e.get('phase')}, settings {json.dumps(cfg)}): StoreTrace rejects the segment read-back",
                where)
    return f"StoreTrace rejects event {e.get('ev')} (settings {json.dumps(cfg)}): {json.dumps(e)[:300]}", json.dumps(e)[:2000]


def run_cases(ctx, cases, label, timeout=900, collect=None):
    # the driver catches panics; an abort of the whole process (e.g. an allocation of a garbage length read
    # from a corrupt block) is an observation too: it is reported for the case that was running, and the
    # remaining cases are run in a fresh process
    ev, todo, attempt = [], list(cases), 0
    while todo and attempt < 6:
        attempt += 1
        cp = ctx.path(f"{label}_cases.{attempt}.ndjson")
        vlib.write_ndjson(cp, todo)
        tp = ctx.path(f"{label}_trace.{attempt}.ndjson")
        p = vlib.run_bin("store_driver", ["run", "--in", cp, "--out", tp], timeout=timeout, mem_gb=12, check=False)
        part = []
        for line in open(tp, errors="replace"):
            try:
                part.append(json.loads(line))
            except ValueError:
                pass
        if p is not None and p.returncode == 0:
            ev += part
            break
        begun = [e["case"] for e in part if e.get("ev") == "begin"]
        if p is None or not begun:
            raise vlib.ToolError(f"store_driver failed before running a case ({'time-out' if p is None else p.returncode})")
        bad = begun[-1]
        k = max(i for i, e in enumerate(part) if e.get("ev") == "begin")
        ev += part[:k]
        bc = next(c for c in todo if c["id"] == bad)
        crash = ctx.path(f"{label}_crash_case_{bad}.ndjson")
        vlib.write_ndjson(crash, [bc])
        ctx.violation(f"the process aborted (exit code {p.returncode}) while the doc store of a case was built / merged / read back "
                      f"(settings {json.dumps(bc['cfg'])}, merge compressor {bc.get('merge_comp', 'unchanged')})",
                      [crash], (p.stderr or "")[-1500:] + "\nreplay: store_driver run --in <that file> --out trace.ndjson")
        todo = todo[[c["id"] for c in todo].index(bad) + 1:]
    ev = _fid.clean([e for e in ev if e.get("ev") != "begin"])
    units = _fid.split_units(ev, lambda e: e.get("ev") == "store")
    stats = {"docs_read": 0}

    def acc(u):
        c = u[0]["cfg"]
        nd = len(u[0]["docs"])
        phases = [e["phase"] for e in u if e.get("ev") == "phase_end"]
        for e in u:
            if e.get("ev") == "seg":
                stats["docs_read"] += len(e["gets"]) + len(e["iter"])
        ctx.distinct((label, u[0]["case"]), nd >= 2 or "merge" in phases)
    n_ok = _fid.judge_units(ctx, MOD, CFG, units, label, describe=describe, on_accept=acc, timeout=900, heap="8g", collect=collect)
    ctx.cov["documents_compared"] = ctx.cov.get("documents_compared", 0) + stats["docs_read"]
    return units, n_ok


def parse_layout_prints(ctx, out, cases, units):
    """what the judge printed about the layouts (Store!Cut on the observed sizes, block count of merged segments)
    against what the generator asked for; coverage only, never a violation"""
    cov = ctx.cov.setdefault("layouts", {"blocks_per_segment": {}, "layers": {}, "data_bytes_as_predicted": 0, "data_bytes_mismatch": 0,
                                         "cases_as_generated": 0, "cases_not_as_generated": 0,
                                         "merged_blocks_as_generated": 0, "merged_blocks_not_as_generated": 0, "merged_where_stack_differs": 0})
    blocks = re.findall(r'<<"BLOCKS", (\d+), (\d+), (\d+), "(\w+)", "([\w-]+)">>', out)
    merged = {int(c): (int(o), int(r)) for c, o, r in re.findall(r'<<"MERGED", (\d+), (-?\d+), (\d+)>>', out)}
    per_case = {}
    mixed_codecs = {c["id"] for c in cases if "seg_comp" in c}      # (the judge only knows the first segment's compressor)
    for cid, b, ly, comp, verdict in blocks:
        per_case.setdefault(int(cid), []).append((int(b), int(ly)))
        if int(cid) in mixed_codecs:
            verdict = "-"
        cov["blocks_per_segment"][b] = cov["blocks_per_segment"].get(b, 0) + 1
        cov["layers"][ly] = cov["layers"].get(ly, 0) + 1
        if verdict == "layout-as-predicted":
            cov["data_bytes_as_predicted"] += 1
        elif verdict == "LAYOUT-MISMATCH":
            cov["data_bytes_mismatch"] += 1
    for c in cases:
        if sorted(per_case.get(c["id"], [])) == sorted(zip(c["gen"]["blocks"], c["gen"]["layers"])):
            cov["cases_as_generated"] += 1
        else:
            cov["cases_not_as_generated"] += 1
        # block count of the merged segment: only observable without compression
        if c["id"] in merged:
            obs, recompressed = merged[c["id"]]
            if obs in c["gen"]["merged_blocks"]:
                cov["merged_blocks_as_generated"] += 1
                if obs != recompressed:
                    cov["merged_where_stack_differs"] += 1     # the stacking path is visible in the block count
            else:
                cov["merged_blocks_not_as_generated"] += 1
    if cov["data_bytes_mismatch"] or cov["cases_not_as_generated"] or cov["merged_blocks_not_as_generated"]:
        log(f"[C09] note: layout model and implementation differ somewhere (coverage only, not a violation): {cov}")


def replay_layouts(ctx):
    rng = random.Random(ctx.seed)
    allcases = _fid.tlc_cases(ctx, "Gen_Store", "Gen_Store.cfg", timeout=300)
    cases = [c for c in allcases if c.get("what") not in ("vint", "manyvals")]
    ctx.many_cases = [c for c in allcases if c.get("what") == "manyvals"]
    if len(ctx.many_cases) < 10:
        raise vlib.ToolError("Gen_Store produced no many-values cases")
    ctx.vint_cases = [c for c in allcases if c.get("what") == "vint"]
    if len(ctx.vint_cases) < 27:
        raise vlib.ToolError("Gen_Store produced no length-prefix boundary cases")
    if len(cases) < 1000:
        raise vlib.ToolError("Gen_Store produced too few cases")
    ctx.cov["generated_layouts"] = len(cases)
    rng.shuffle(cases)
    n = 70 if ctx.quick else 700
    # every number of blocks and every shape at least once, then the seeded sample
    chosen, seen = [], set()
    for c in cases:
        key = (c["nb"], c["shape"], tuple(c.get("sources") or ()))
        if c["shape"] == "codec_orders" and (c["nb"] < 6 or c["big"] != "none" or (ctx.quick and (c["nb"] not in (6, 8) or c["k"] != 2))):
            continue        # sources of fewer than 6 blocks are never stacked
        if key not in seen and (ctx.quick is False or c["k"] * c["nb"] <= 130 or c["nb"] >= 63 and c["k"] == 1):
            seen.add(key)
            chosen.append(c)
    for c in cases:
        if len(chosen) >= n:
            break
        if c not in chosen and c["shape"] != "codec_orders" and (not ctx.quick or c["k"] * c["nb"] <= 80):
            chosen.append(c)
    conc = [concretise(c, i, rng) for i, c in enumerate(chosen)]
    outs = []
    units, n_ok = run_cases(ctx, conc, "layouts", collect=outs)
    if n_ok == len(units) and len(outs) == 1:
        parse_layout_prints(ctx, outs[0], conc, units)     # what the judge printed about the layouts (coverage only)
    log(f"[R] {len(conc)} of {len(cases)} TLC-generated layouts built and read back, {n_ok} accepted")
    ctx.sample({"kind": "TLC-generated layout (R)", "generated": conc[0]["gen"], "cfg": conc[0]["cfg"], "deletes": conc[0]["deletes"],
                "docs_per_segment": [len(s) for s in conc[0]["segs"]]})
    return units


def random_docs(ctx):
    rng = random.Random(ctx.seed + 77)
    n = 60 if ctx.quick else 700
    cases = [random_case(i, rng) for i in range(n)] + [random_case(n + i, rng, big=True) for i in range(1 if ctx.quick else 12)]
    units, n_ok = run_cases(ctx, cases, "docs")
    log(f"[T] {len(cases)} seeded document collections (all value types, nested JSON, unicode), {n_ok} accepted")
    u = units[0]
    seg = next(e for e in u if e.get("ev") == "seg")
    ctx.sample({"kind": "seeded documents (T): one document as added and as returned by the store", "cfg": u[0]["cfg"],
                "added": u[0]["docs"][seg["ids"][0] - 1] if seg["ids"] else None, "returned": seg["iter"][0] if seg["iter"] else None})
    return units


def length_prefix_values(ctx):
    """stored text / bytes / JSON string values whose length is around a switch of the variable-length length prefix
    (2^7, 2^14, 2^21 - enumerated by TLC from Store!VintSwitches); long values travel as (length, hash, head, tail)"""
    vs = sorted(ctx.vint_cases, key=lambda c: (c["len"], c["kind"]))
    specs = [{"big": {"kind": c["kind"], "len": c["len"], "seed": 7 + i}} for i, c in enumerate(vs)]
    # documents with many interleaved values (TLC-generated numbers of values / fields), read back through
    # to_named_doc / to_json as well: per field the order added
    specs += [{"many": {"n": c["n"], "nfields": c["nfields"]}} for c in ctx.many_cases]
    cut = len(specs) // 2
    cases = []
    for i, (comp, thread, mc) in enumerate([("lz4", False, None), ("none", True, "lz4")] if not ctx.quick else [("lz4", False, None)]):
        c = {"id": i, "cfg": {"blocksize": 16384, "comp": comp, "thread": thread, "cache": 2}, "segs": [specs[:cut], specs[cut:]],
             "deletes": [2], "merge": True, "access": "rand", "seed": 5 + i}
        if mc:
            c["merge_comp"] = mc
        cases.append(c)
    units, n_ok = run_cases(ctx, cases, "vint")
    if units and n_ok == len(cases):
        # binding: another generated length, or another hash of what was read back, must be rejected
        t = json.loads(json.dumps(units[0]))
        t[0]["big"][-1][2] += 1
        _fid.must_reject(ctx, MOD, CFG, t, "generated_length_differs_from_written")
        t = json.loads(json.dumps(units[0]))
        seg = next(e for e in t if e.get("ev") == "seg" and any(isinstance(v, list) and v and "h" in v[0] for d in e["iter"] for v in d.values()))
        d = next(d for d in seg["iter"] if any(isinstance(v, list) and v and "h" in v[0] for v in d.values()))
        f = next(k for k, v in d.items() if v and "h" in v[0])
        d[f][0]["h"] = "0" * 16
        _fid.must_reject(ctx, MOD, CFG, t, "long_value_hash_changed")
    ctx.cov["length_prefix_values"] = {"values": len(specs), "lengths": sorted({c["len"] for c in vs}), "accepted_cases": n_ok}
    log(f"[R] {len(specs)} stored values with lengths around the length-prefix switches {sorted({c['len'] for c in vs})[1::3]}, {n_ok} of {len(cases)} cases accepted")
    return units


def selftest(ctx, units):
    u = next((x for x in units if any(e.get("ev") == "seg" and len(e["iter"]) >= 2 for e in x)), None)
    if not u:
        return
    # (a) two iterated documents swapped, (b) a value of a returned document changed, (c) a non-stored field returned
    for name in ("iter_order_swapped", "returned_value_changed", "non_stored_field_returned", "document_missing"):
        t = json.loads(json.dumps(u))
        seg = next(e for e in t if e.get("ev") == "seg" and len(e["iter"]) >= 2)
        if name == "iter_order_swapped":
            seg["iter"][0], seg["iter"][1] = seg["iter"][1], seg["iter"][0]
        elif name == "returned_value_changed":
            seg["gets"][0][2]["id"][0]["v"] = "999999"
        elif name == "non_stored_field_returned":
            seg["gets"][0][2]["ns"] = [{"t": "str", "v": "x"}]
        else:
            seg["iter"].pop()
            seg["ids"].pop()
            seg["alive"].pop()
        _fid.must_reject(ctx, MOD, CFG, t, name)


def run(ctx):
    ctx.cov["rule"] = ("a case is one index built with given doc-store settings (block size, compressor, thread, cache) from a TLC-generated "
                       "layout or seeded documents, read back completely (get in a generated access order, Searcher::doc, iter) after "
                       "commit, after deletes and after a merge; distinct = distinct case; non-trivial = at least two documents or a merge")
    ctx.assumptions += ["TLC and the Json community module are trusted",
                        "values are compared in the harness's canonical rendering (type tag + decimal / hex text), which is injective on OwnedValue; "
                        "a JSON object is compared as the sequence of its (key, value) entries; a pre-tokenized text is stored as its text",
                        "which document sits at an address is taken from the `id` fast field (independent of the store)",
                        "zstd is not built into the harness (feature off): compressors none and lz4 only",
                        "values of 4096 bytes or more are compared by length, 64-bit FNV-1a hash, first and last 16 bytes (the harness hashes what it wrote "
                        "and what it read back with the same function); the length-prefix switch at 2^28 bytes is not exercised"]
    model_checking(ctx)
    units = replay_layouts(ctx)
    length_prefix_values(ctx)
    units2 = random_docs(ctx)
    selftest(ctx, units2 or units)


def replay(ctx, path):
    files = [os.path.join(path, f) for f in sorted(os.listdir(path)) if f.endswith(".ndjson")] if os.path.isdir(path) else [path]
    for f in files:
        ev = _fid.clean(vlib.read_ndjson(f))
        _fid.judge_units(ctx, MOD, CFG, [ev], "replay", describe=describe)
