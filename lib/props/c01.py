"""C01 - commit is atomic and durable across a crash at any instant.
M: MC_Storage: the commit/merge/GC protocol step by step with a crash at every boundary, power
   set of un-synced items, linear characterisation lemma; negative configurations (no sync
   after / before the meta.json rename, GC before the rename) must fail.  StorageProto: the same
   protocol as interleaved builder / updater / GC processes with delete files and merges.
T: every storage operation of real runs on SimDirectory drives Storage.tla; CrashSafe and
   CrashDurable are evaluated after every event (= at every crash point, all images).
R: crash images materialised at the boundaries, recovered with the real code
   (Index::open, validate_checksum, read back, writer + add + commit + gc); CoreTrace.tla
   judges each recovery against the sequential oracle."""
import json
import os

import storage_common as sc
import tracecheck
import vlib
from vlib import log
from props import c02

LEVEL = "model_checking"


def run(ctx):
    ctx.cov["rule"] = ("a case is one crash point (boundary between two storage operations of a real run, all persistence outcomes at once "
                       "through the Storage model) or one materialised crash image recovered with the real code; distinct = distinct "
                       "(history, boundary, image choice); non-trivial = the run contains a commit and at least one delete of a file or a merge")
    ctx.assumptions += ["storage model: terminate = fsync of data, sync_directory makes entries/renames/unlinks durable, un-synced directory operations independent",
                        "SimDirectory implements that model in memory; a real disk / file system is not exercised",
                        "contents of commits come from the sequential oracle (spec/SeqOracle.tla)"]
    vlib.mc_check(ctx, "MC_Storage", "MC_Storage.cfg", timeout=120, workers=2)
    vlib.mc_check(ctx, "MC_Storage", "MC_Storage_full.cfg", timeout=120, workers=2)
    vlib.mc_check(ctx, "MC_Storage", "MC_Storage_negF1.cfg", expect_violation="CrashDurable", timeout=120, workers=2)
    vlib.mc_check(ctx, "MC_Storage", "MC_Storage_negF2.cfg", expect_violation="CrashSafe", timeout=120, workers=2)
    vlib.mc_check(ctx, "MC_Storage", "MC_Storage_negPre.cfg", expect_violation="CrashSafe", timeout=120, workers=2)
    vlib.mc_check(ctx, "MC_Storage", "MC_Storage_negGc.cfg", expect_violation="CrashSafe", timeout=120, workers=2)
    # the same protocol as interleaved processes (builder / updater / GC), every interleaving, every crash image
    vlib.mc_check(ctx, "StorageProto", "StorageProto_code.cfg" if ctx.quick else "StorageProto_deep.cfg", timeout=900, workers=4 if ctx.quick else 8)
    vlib.mc_check(ctx, "StorageProto", "StorageProto_negS2.cfg", expect_violation="CrashSafe", timeout=120, workers=2)
    vlib.mc_check(ctx, "StorageProto", "StorageProto_negS9.cfg", expect_violation="CrashSafe", timeout=120, workers=2)
    vlib.mc_check(ctx, "StorageProto", "StorageProto_negF1.cfg", expect_violation="CrashDurable", timeout=120, workers=2)
    vlib.mc_check(ctx, "StorageProto", "StorageProto_negF43.cfg", expect_violation="NoCommitLost", timeout=120, workers=2)

    # T: storage traces of real runs, every crash point
    ev = sc.record_histories(ctx, "fixed", sc.fixed_histories())
    ev += sc.record_random(ctx, "rand", 40 if ctx.quick else 400, 25, ctx.seed)
    runs = sc.storage_runs(ev)
    points = sum(len(r) for r in runs)
    n = tracecheck.validate_runs(ctx, runs, "storage", "StorageTrace", "StorageTrace.cfg", owns=sc.owns_c01, key=sc.storage_key,
                                 nontrivial=lambda r: any(e["e"] == "commit" for e in r) and any(e["e"] == "delete" for e in r), timeout=300)
    ctx.cov["traces_validated_against_impl"] += n
    ctx.cov["crash_points_checked_symbolically"] = points
    log(f"[T] {len(runs)} storage traces, {points} crash points, {n} runs accepted")

    # R: materialised crash images recovered by the real code
    evc = sc.record_histories(ctx, "crash_fixed", sc.fixed_histories(), crash_images=3 if ctx.quick else 6, stride=4 if ctx.quick else 2)
    evc += sc.record_random(ctx, "crash_rand", 5 if ctx.quick else 30, 16, ctx.seed + 7, crash_images=3 if ctx.quick else 4, stride=6 if ctx.quick else 3)
    cruns = sc.api_crash_runs(evc)
    nimg = sum(1 for r in cruns for e in r if e["ev"] == "crash_image")
    n2 = tracecheck.validate_runs(ctx, cruns, "crash", "CoreTrace", "CoreTrace.cfg", key=c02.history_key,
                                  nontrivial=lambda r: any(e["ev"] == "crash_image" for e in r), timeout=300, heap="6g")
    ctx.cov["traces_validated_against_impl"] += n2
    ctx.cov["crash_images_recovered"] = nimg
    for r in cruns:
        for e in r:
            if e["ev"] == "crash_image":
                ctx.distinct(json.dumps([e["k"], e["choice"]])[:600], True)
    log(f"[R] {nimg} crash images recovered with the real code, {n2}/{len(cruns)} runs accepted")
    mmap_runs(ctx, 4 if ctx.quick else 40)
    img = next((e for r in cruns for e in r if e["ev"] == "crash_image" and e["mode"] == 2), None)
    if img:
        ctx.sample({"kind": "crash image", "boundary_k": img["k"], "choice": img["choice"],
                    "recovered_docs": img["rec"].get("obs", {}).get("n"), "orphans_after_gc": img["rec"].get("after", {}).get("orphans")})
    ctx.sample({"kind": "storage trace (compacted)", "events": runs[0][:25]})


def mmap_runs(ctx, n):
    """the real MmapDirectory: its system calls (strace -f) drive the same storage model"""
    import shutil
    import subprocess
    import strace2events
    if not shutil.which("strace"):
        ctx.assumptions.append("strace not available: MmapDirectory's system calls were not checked in this run")
        return
    runs, raws = [], []
    for i in range(n):
        d = f"/tmp/vh_mmap_{os.getpid()}_{i}"
        st = ctx.path(f"mmap_{i}.strace")
        cmd = ["strace", "-f", "-qq", "-s", "60000", "-e", "trace=openat,write,pwrite64,fsync,fdatasync,rename,renameat,renameat2,unlink,unlinkat,close,statx,newfstatat,stat",
               "-o", st, os.path.join(vlib.BIN, "mmap_driver"), "--dir", d, "--seed", str(ctx.seed * 100 + i)]
        try:
            p = subprocess.run(cmd, stdout=subprocess.PIPE, stderr=subprocess.PIPE, timeout=120)
        finally:
            shutil.rmtree(d, ignore_errors=True)
        if p.returncode != 0:
            raise vlib.ToolError(f"mmap_driver under strace failed: {p.stderr.decode()[-500:]}")
        ev = strace2events.convert(st, d)
        if not any(e["e"] == "commit" for e in ev) or not any(e["e"] == "meta" for e in ev):
            raise vlib.ToolError("strace conversion produced no commit / meta event")
        runs.append(ev)
        raws.append([{"strace": line.rstrip("\n")} for line in open(st, errors="replace")])   # kept next to a rejected run
        os.remove(st)
    n_ok = tracecheck.validate_runs(ctx, runs, "mmap", "StorageTrace", "StorageTrace_crash.cfg", owns=sc.owns_c01, key=sc.storage_key, timeout=300, raw=raws)
    ctx.cov["traces_validated_against_impl"] += n_ok
    ctx.cov["mmap_directory_syscall_traces"] = {"runs": len(runs), "events": sum(len(r) for r in runs), "accepted": n_ok}
    log(f"[T] MmapDirectory under strace: {n_ok}/{len(runs)} system-call traces accepted by the storage model")


def replay(ctx, path):
    import os
    for f in sorted(os.listdir(path)):
        if f.endswith(".ndjson"):
            evs = vlib.read_ndjson(os.path.join(path, f))
            mod = ("StorageTrace", "StorageTrace.cfg") if evs and "e" in evs[0] else ("CoreTrace", "CoreTrace.cfg")
            tracecheck.validate_runs(ctx, [evs], "replay", mod[0], mod[1])
