"""C15 - term dictionaries behave as ordered maps from byte strings.
M: MC_Dict - the builder state machine and, on every dictionary it can build, the lemmas that tie
   the evaluable operators of spec/Dict.tla (binary search, ranges by ordinals, Levenshtein rows,
   regex position sets, merge certificates) to their textbook definitions; a negative
   configuration (a builder without the order check) must fail.
R: Gen_Dict - TLC enumerates every key set (<= 3 keys over {00,FF}^<=2) with every probe / range /
   limit / prefix / ordinal / small automaton of that universe and every merge of two small key
   sets, and samples key sets (<= 4 keys over {00,01,7F,FF}^<=3), block lengths, value kinds,
   operations (inverted ranges, regexes, Levenshtein automata) and merges; the harness runs them
   on tantivy_sstable::Dictionary (block length 1..4000), tantivy::termdict (fst) and columnar
   byte columns.
T: seeded random key sets: thousands of keys with one-byte blocks (block-index and layer
   boundaries), keys of tens of kilobytes, long shared prefixes, 0x00/0xFF bytes.
Every recorded observation is judged by TLC against spec/DictTrace.tla."""
import json
import os

import vlib
from vlib import log
from props import enginelib as el

LEVEL = "model_checking"
MODULE, CFG = "DictTrace", "DictTrace.cfg"


def run_key(run):
    h = run[0]
    b = next((e for e in run if e.get("ev") == "build"), None)
    return json.dumps([h.get("impl"), h.get("block_len"), h.get("vk"), b.get("keys") if b else None,
                       [[e.get("ev"), e.get("k"), e.get("lo"), e.get("hi"), e.get("limit"), e.get("aut"), e.get("ord"), e.get("ords"), e.get("p")]
                        for e in run[1:] if e.get("ev") not in ("build", "num_terms")],
                       [s.get("keys") or s.get("rows") for e in run if e.get("ev") in ("merge", "cmerge") for s in e["srcs"]]])


def nontrivial(run):
    """at least one key and one observation beyond build/num_terms, or a merge with a non-empty source"""
    for e in run:
        if e.get("ev") in ("merge", "cmerge"):
            return any((s.get("keys") or s.get("rows")) for s in e["srcs"])
    b = next((e for e in run if e.get("ev") == "build"), None)
    return bool(b and b["keys"] and len(run) > 3) or bool(b and not b["ok"])


def prepare(events, search_ords=False):
    ev = el.clean(events)
    for e in ev:
        if e["ev"] == "search":
            # the ordinal a block-skipping sstable stream reports is the recorded finding C15-b:
            # checked in its dedicated run only; the fst streamer's ordinals are always checked
            imp = e.pop("_impl", "")
            e["ords"] = search_ords or imp == "fst"
    return ev


def execute(ctx, cases, label, search_ords=False, kf_tag=None, timeout=600):
    cp = ctx.path(f"{label}_cases.ndjson")
    vlib.write_ndjson(cp, cases)
    tp = ctx.path(f"{label}_trace.ndjson")
    vlib.run_bin("dict_driver", ["replay", "--in", cp, "--out", tp], timeout=timeout)
    return judge_file(ctx, tp, label, search_ords, kf_tag)


def judge_file(ctx, tp, label, search_ords=False, kf_tag=None):
    raw = vlib.read_ndjson(tp)
    imp = ""
    for e in raw:
        if e["ev"] == "reset":
            imp = e["impl"]
        elif e["ev"] == "search":
            e["_impl"] = imp
    ev = prepare(raw, search_ords)
    ctx.cov["events"] = ctx.cov.get("events", 0) + len(ev)
    ctx.cov["panics"] = ctx.cov.get("panics", 0) + sum(1 for e in ev if e["ev"] == "panic")
    ok, bad = el.judge(ctx, MODULE, CFG, ev, label, key=run_key, nontrivial=nontrivial, kf_tag=kf_tag, timeout=900)
    return ev, ok, bad


def model_checking(ctx):
    vlib.mc_check(ctx, "MC_Dict", "MC_Dict_neg.cfg", expect_violation="BuiltIsSorted", timeout=120, workers=4)
    vlib.mc_check(ctx, "MC_Dict", "MC_Dict_merge.cfg", timeout=300, workers=6)
    vlib.mc_check(ctx, "MC_Dict", "MC_Dict.cfg" if ctx.quick else "MC_Dict_4.cfg", timeout=900, workers=6)


def with_impls(cases, merges, impls, merge_impls, tag):
    out = []
    for i, c in enumerate(cases):
        out.append(dict(c, tag=f"{tag}{i}", impls=impls))
    for i, m in enumerate(merges):
        for imp in merge_impls:
            if imp == "sstable-sum" and sum(len(s) for s in m["srcs"]) > 9:
                continue   # values (#sources+1)^rank must stay small integers
            out.append({"tag": f"{tag}m{i}", "merge": dict(m, impl=imp)})
    return out


def exhaustive(ctx):
    """every key set of a tiny universe with every operation over it (TLC model-checking mode)"""
    cfg = el.cfg_with("Gen_Dict_ex.cfg", MaxKeys=2 if ctx.quick else 3, BlockLens="{0}" if ctx.quick else "{0, 1, 4000}")
    g = el.tlc_cases(ctx, "Gen_Dict", cfg, tags=("CASE", "MERGE"), timeout=600, name="Gen_Dict_ex")
    cases = with_impls(g["CASE"], g["MERGE"], ["sstable"] if ctx.quick else ["sstable", "fst"],
                       ["sstable-sum", "fst"] if ctx.quick else ["sstable-sum", "sstable-first", "sstable-void", "fst", "columnar"], "ex")
    if not g["CASE"]:
        raise vlib.ToolError("Gen_Dict (exhaustive) produced no case")
    ev, ok, bad = execute(ctx, cases, "ex")
    ctx.cov["exhaustive_small_universe"] = {"key_sets": len(g["CASE"]), "merges": len(g["MERGE"]), "runs_accepted": ok, "runs_rejected": bad,
                                            "ops_per_key_set": len(g["CASE"][0]["ops"])}
    log(f"[R] exhaustive: {len(g['CASE'])} key sets x {len(g['CASE'][0]['ops'])} operations, {len(g['MERGE'])} merges: {ok} runs accepted, {bad} rejected")
    return ev


def sampled(ctx, n):
    cfg = el.cfg_with("Gen_Dict.cfg", MaxOps=40)
    g = el.tlc_cases(ctx, "Gen_Dict", cfg, tags=("CASE", "MERGE"), simulate=n, depth=60, seed=ctx.seed, timeout=600)
    if not g["CASE"]:
        raise vlib.ToolError("Gen_Dict produced no case")
    cases = with_impls(g["CASE"], g["MERGE"], ["sstable", "fst"], ["sstable-sum", "sstable-first", "sstable-void", "fst", "columnar"], "g")
    ev, ok, bad = execute(ctx, cases, "gen")
    ctx.sample({"kind": "TLC-generated case (key set, block length, operations) run on sstable and fst dictionaries",
                "case": dict(g["CASE"][0], ops=g["CASE"][0]["ops"][:6])})
    if g["MERGE"]:
        ctx.sample({"kind": "TLC-generated merge", "case": g["MERGE"][0]})
    log(f"[R] sampled: {len(g['CASE'])} cases, {len(g['MERGE'])} merges: {ok} runs accepted, {bad} rejected")
    return ev


def random_runs(ctx, profile, runs, seed):
    tp = ctx.path(f"rand_{profile}_trace.ndjson")
    vlib.run_bin("dict_driver", ["random", "--seed", seed, "--runs", runs, "--profile", profile, "--out", tp], timeout=600)
    ev, ok, bad = judge_file(ctx, tp, f"rand_{profile}")
    log(f"[T] profile {profile}: {runs} random cases, {ok} runs accepted, {bad} rejected")
    return ev


def known_finding_runs(ctx):
    """dedicated reproductions of the recorded findings (reported through ctx.violation)"""
    # C15-a (repaired in /repo, 7a772cc35): the sstable writer accepted the empty key twice.  Kept as
    # regression cases without a finding tag: a silently accepted repetition is a violation again.
    a = [{"tag": "regress-C15-a", "keys": ks, "vk": vk, "block_len": bl, "impls": ["sstable"], "ops": [{"op": "stream"}]}
         for ks in ([[], []], [[], [], [97]]) for vk in ("u64", "void") for bl in (1, 4000)]
    _, ok, bad = execute(ctx, a, "regress_c15a")
    ctx.cov.setdefault("known_finding_runs", {})["C15-a sstable-duplicate-empty-key (repaired)"] = "refused" if not bad else "ACCEPTED AGAIN"
    # C15-b: Streamer::term_ord() of an automaton search that skips blocks
    b = [{"tag": "kf-b", "keys": [[97], [98], [99], [100]], "vk": "u64", "block_len": 1, "impls": ["sstable"],
          "ops": [{"op": "search", "aut": {"t": "prefix", "p": [99]}, "lo": ["unb", []], "hi": ["unb", []]}]}]
    _, ok, bad = execute(ctx, b, "kf_b", search_ords=True, kf_tag="sstable-search-term-ord")
    ctx.cov["known_finding_runs"]["C15-b sstable-search-term-ord"] = "reproduced" if bad else "NOT reproduced"


def binding_selftest(ctx, events):
    """corrupt single observations of an accepted trace: every corrupted copy must be rejected"""
    runs = [r for r in vlib.split_runs(events) if nontrivial(r) and any(e["ev"] == "range" and e["got"] for e in r)][:1]
    if not runs:
        raise vlib.ToolError("binding self-test: no suitable run")
    base = runs[0]

    def mutated(fn):
        c = json.loads(json.dumps(base))
        for e in c:
            if fn(e):
                return c
        return None
    def m_value(e):
        if e["ev"] == "range" and e["got"]:
            v = e["got"][0][2]
            e["got"][0][2] = v + 1 if isinstance(v, int) else (v + [1])
            return True
    def m_drop(e):
        if e["ev"] == "range" and e["got"] and e["limit"] < 0:
            e["got"].pop()
            return True
    def m_ord(e):
        if e["ev"] == "range" and e["got"]:
            e["got"][0][1] += 1
            return True
    def m_found(e):
        if e["ev"] == "get":
            e["found"] = not e["found"]
            e.pop("v", None) if not e["found"] else e.update(v=0)
            return True
    for name, fn in (("stream_value_changed", m_value), ("stream_entry_dropped", m_drop), ("stream_ordinal_changed", m_ord), ("get_found_flipped", m_found)):
        c = mutated(fn)
        if c is not None:
            el.must_reject(ctx, MODULE, CFG, c, name)


def run(ctx):
    ctx.cov["rule"] = ("a case is one dictionary (key sequence x value kind x block length x implementation) with the operations observed on it, or one "
                       "merge; distinct = distinct (implementation, block length, value kind, keys, operation arguments); non-trivial = at least one key "
                       "and one observation beyond build/num_terms, a refused build, or a merge with a non-empty source")
    ctx.assumptions += ["TLC and the Json community module are trusted",
                        "the harness' own automata (prefix, Levenshtein rows over bytes) honour the tantivy_fst::Automaton contract; regexes are tantivy_fst::Regex",
                        "regex `dot` is specified for key alphabets without bytes 0x80..0xFE (one byte < 0x80 other than line feed)",
                        "StreamerBuilder::limit is a loading hint (prefix of the answer, at least min(limit, |answer|) long); term_ord_or_next past the last key is Next(n), n >= num_terms",
                        "values written are chosen to satisfy the value types' documented preconditions (monotonic u64, contiguous ranges, contiguous TermInfo ranges)"]
    model_checking(ctx)
    ev = exhaustive(ctx)
    sampled(ctx, 260 if ctx.quick else 6000)
    q = ctx.quick
    random_runs(ctx, "small", 40 if q else 600, ctx.seed)
    ev_big = random_runs(ctx, "big", 6 if q else 60, ctx.seed + 1)
    random_runs(ctx, "long", 3 if q else 16, ctx.seed + 2)
    random_runs(ctx, "search", 15 if q else 300, ctx.seed + 3)
    random_runs(ctx, "merge", 30 if q else 400, ctx.seed + 4)
    known_finding_runs(ctx)
    binding_selftest(ctx, ev)
    big = [e for e in ev_big if e["ev"] == "build" and e["ok"]]
    if big:
        ctx.sample({"kind": "random big dictionary (T)", "num_keys": len(big[0]["keys"]), "first_keys": big[0]["keys"][:3]})
    ctx.cov["exhaustive"] = False


def replay(ctx, path):
    files = [os.path.join(path, f) for f in sorted(os.listdir(path)) if f.endswith(".ndjson")] if os.path.isdir(path) else [path]
    for f in files:
        ev = vlib.read_ndjson(f)
        el.judge(ctx, MODULE, CFG, ev, "replay", key=run_key, nontrivial=nontrivial)
